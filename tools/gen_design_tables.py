#!/usr/bin/env python3
"""prints the markdown tables of DESIGN.md section 9.7 / 9.8 from seeded/*/meta.json and build/mutants_table.txt"""
import glob, json, os, re
V = os.path.dirname(os.path.dirname(os.path.abspath(__file__)))
rows = []
for m in sorted(glob.glob(os.path.join(V, "seeded", "*", "*", "meta.json"))):
    j = json.load(open(m))
    rows.append(j)
print("| property | seeded change | files | needs to manifest | first run | now | strengthening |")
print("|---|---|---|---|---|---|---|")
for j in rows:
    print("| %s | %s | %s | %s | %s | %s | %s |" % (j["property"], j["name"].replace("_", " "), ", ".join(os.path.basename(f) for f in j["files_changed"]),
                                                 j["needs_to_manifest"], j["check_result_when_first_run"], j["check_result_now"], j.get("strengthening", "") or "-"))
first = sum(1 for j in rows if j["check_result_when_first_run"] == "detected")
now = sum(1 for j in rows if j["check_result_now"] == "detected")
print("\n%d seeded changes; detected on the first run: %d; detected now: %d\n" % (len(rows), first, now))
p = os.path.join(V, "build", "mutants_table.txt")
if os.path.exists(p):
    print("| property | mutant | quick check | first violation key |")
    print("|---|---|---|---|")
    for l in open(p):
        m = re.match(r"(C\d+) (\S+) (exit \d+)? ?\| ?(.*)", l.strip())
        if m:
            print("| %s | %s | %s | `%s` |" % (m.group(1), m.group(2).replace("_", " "), "caught" if m.group(3) == "exit 1" else (m.group(3) or "?"), m.group(4).strip().replace("|", "\\|")[:90]))
