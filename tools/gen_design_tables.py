#!/usr/bin/env python3
"""regenerates the tables of DESIGN.md sections 9.7 / 9.8 (between the GENERATED markers) from
seeded/*/*/meta.json and build/mutants_table.txt; `--print` writes them to stdout instead"""
import glob, json, os, re, sys
V = os.path.dirname(os.path.dirname(os.path.abspath(__file__)))
rows = [json.load(open(m)) for m in sorted(glob.glob(os.path.join(V, "seeded", "*", "*", "meta.json")))]
a = ["| property | seeded change | files | needs to manifest | first run | now | strengthening |", "|---|---|---|---|---|---|---|"]
for j in rows:
    a.append("| %s | %s | %s | %s | %s | %s | %s |" % (j["property"], j["name"].replace("_", " "), ", ".join(sorted(set(os.path.basename(f) for f in j["files_changed"]))),
                                                j["needs_to_manifest"].replace("|", "\\|"), j["check_result_when_first_run"], j["check_result_now"], (j.get("strengthening", "") or "-").replace("|", "\\|")))
first = sum(1 for j in rows if j["check_result_when_first_run"] == "detected")
now = sum(1 for j in rows if j["check_result_now"] == "detected")
a.append("\n%d seeded changes over %d properties; detected on the first run: %d; detected now: %d." % (len(rows), len(set(j["property"] for j in rows)), first, now))
b = []
p = os.path.join(V, "build", "mutants_table.txt")
if os.path.exists(p):
    b += ["| property | mutant | quick check | first violation key |", "|---|---|---|---|"]
    for l in open(p):
        m = re.match(r"(C\d+) (\S+) (exit \d+)? ?\| ?(.*)", l.strip())
        if m and not m.group(2).startswith("seeded:"):
            b.append("| %s | %s | %s | `%s` |" % (m.group(1), m.group(2).replace("_", " "), "caught" if m.group(3) == "exit 1" else (m.group(3) or "?"), m.group(4).strip().replace("|", "\\|")[:90]))
if "--print" in sys.argv:
    print("\n".join(a)); print(); print("\n".join(b)); sys.exit(0)
d = os.path.join(V, "DESIGN.md")
s = open(d).read()
def put(s, tag, lines):
    if not lines:
        return s
    return re.sub(r"(<!-- BEGIN GENERATED %s -->\n).*?(<!-- END GENERATED %s -->)" % (tag, tag), lambda m: m.group(1) + "\n".join(lines) + "\n" + m.group(2), s, flags=re.S)
s = put(s, "seeded", a)
s = put(s, "mutants", b)
open(d, "w").write(s)
