#!/bin/bash
# seeded_eval.sh <PROPERTY-ID> <change-dir>   (change-dir holds patch.diff, demo.cpp, run_demo.sh)
# 1. applies the patch in the scratch verification worktree /tmp/seedwork/verify (own full build),
#    rebuilds incrementally and runs the complete upstream suite; 2. runs the demonstration on the
#    original and on the changed tree; 3. runs ./check <ID> (quick) against a scratch copy of /repo
#    with the patch applied (equivalent to `git -C /repo apply` + check + `git -C /repo checkout`,
#    but does not disturb background runs that read /repo). Prints a one-line summary per step.
set -u
ID=$1; DIR=$(readlink -f "$2"); V=/tmp/seedwork/verify
cd $V && git checkout -q -- libs && git apply --check "$DIR/patch.diff" || { echo "PATCH-DOES-NOT-APPLY"; exit 3; }
echo "--- demo on the original tree"; (cd "$DIR" && timeout 600 bash ./run_demo.sh $V > "$DIR/demo_orig.log" 2>&1); echo "demo(original) exit $?"
git apply "$DIR/patch.diff"
echo "--- build + full suite with the change"
if ! ninja -C _build -j12 > "$DIR/build.log" 2>&1; then echo "BUILD-FAILS"; tail -5 "$DIR/build.log"; git checkout -q -- libs; exit 4; fi
ctest --test-dir _build -j8 --timeout 900 > "$DIR/ctest.log" 2>&1; echo "ctest exit $? : $(grep 'tests passed' "$DIR/ctest.log")"
echo "--- demo on the changed tree"; (cd "$DIR" && timeout 600 bash ./run_demo.sh $V > "$DIR/demo_changed.log" 2>&1); echo "demo(changed) exit $?"
git checkout -q -- libs
ninja -C _build -j12 > /dev/null 2>&1
echo "--- ./check $ID against /repo + patch"
cd /verif && tools/mutate.sh $ID "$DIR/patch.diff" quick 2>&1 | cut -c1-400 | head -12
