#!/bin/bash
# mutate.sh <ID> <patch.diff> [tier]: apply a patch to a scratch copy of /repo, run the check against it, remove the copy.
# exit code of the check is printed; the scratch copy lives outside /repo and /verif.
set -u
ID=$1; PATCH=$(readlink -f "$2"); TIER=${3:-quick}
D=$HOME/.cache/fcppt-mut-$$
mkdir -p "$D"
rsync -a --exclude _build --exclude .git /repo/ "$D/"
if ! (cd "$D" && patch -p1 -s < "$PATCH"); then echo "PATCH-FAILED $PATCH"; rm -rf "$D"; exit 3; fi
cd /verif && ./check "$ID" --tier "$TIER" --repo "$D" > "$D.out" 2>&1
rc=$?
echo "== $ID $(basename $PATCH): exit $rc"
grep -E "violation:|VIOLATION|BROKEN" "$D.out" | cut -c1-300 | head -6
rm -rf "$D" "$D.out"
# drop the scratch tree's cached builds
exit $rc
