#!/usr/bin/env python3
"""addcheck.py <ID> <<JSON on stdin: {technique, level_text, level_note, rule, assumptions:[..]}"""
import json, os, sys
V = os.path.dirname(os.path.dirname(os.path.abspath(__file__)))
pid = sys.argv[1]
d = json.load(sys.stdin)
mp = os.path.join(V, "tools", "manifest_src.json")
m = json.load(open(mp))
m["checks"][pid] = dict(technique=d["technique"], level_text=d["level_text"], level_note=d["level_note"])
json.dump(m, open(mp, "w"), indent=1)
rp = os.path.join(V, "harness", "rules.json")
r = json.load(open(rp))
r[pid] = dict(rule=d["rule"], assumptions=d.get("assumptions", []))
json.dump(r, open(rp, "w"), indent=1)
os.system("python3-vt %s/tools/gen_manifest.py" % V)
