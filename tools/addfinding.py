#!/usr/bin/env python3
"""addfinding.py fixed|known <property> <commit-or-key> <what>"""
import json, os, sys
V = os.path.dirname(os.path.dirname(os.path.abspath(__file__)))
p = os.path.join(V, "known_findings.json")
k = json.load(open(p))
st, prop, ck, what = sys.argv[1:5]
e = dict(status=st, property=prop, what=what)
e["commit" if st == "fixed" else "key"] = ck
k["findings"].append(e)
json.dump(k, open(p, "w"), indent=1)
