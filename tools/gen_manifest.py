#!/usr/bin/env python3
"""Regenerates MANIFEST.json from tools/manifest_src.json (one entry per claimed property) and
validates it against the schema when jsonschema is importable."""
import json, os, sys
V = os.path.dirname(os.path.dirname(os.path.abspath(__file__)))
src = json.load(open(os.path.join(V, "tools", "manifest_src.json")))
props = [json.loads(l) for l in open(os.path.join(V, "properties.jsonl"))]
ids = [p["id"] for p in props]
checks = []
for pid in ids:
    e = src["checks"].get(pid)
    if not e:
        continue
    checks.append({
        "property_id": pid,
        "quick_cmd": "./check %s --tier quick" % pid,
        "thorough_cmd": "./check %s --tier thorough" % pid,
        "evidence_file": "evidence/%s.json" % pid,
        "replay_cmd_template": "./check %s --replay {path}" % pid,
        "engine": e.get("engine", "harness"),
        "level_claimed": {"category": "exploration", "text": e["level_text"], "design_ref": e.get("design_ref", "DESIGN.md §4 " + pid)},
        "level_note": e["level_note"],
        "technique": e["technique"],
    })
na = [{"property_id": pid, "reason": src["not_applicable"].get(pid, "check not built yet (work in progress); see DESIGN.md")}
      for pid in ids if pid not in src["checks"]]
m = {
    "version": 1,
    "setup_cmd": src["setup_cmd"],
    "hooks": src["hooks"],
    "engines": src["engines"],
    "checks": checks,
    "notes": src["notes"],
    "not_applicable": na,
}
json.dump(m, open(os.path.join(V, "MANIFEST.json"), "w"), indent=1)
try:
    import jsonschema
    jsonschema.validate(m, json.load(open("/root/.vp/MANIFEST.schema.json")))
    print("MANIFEST.json valid,", len(checks), "checks,", len(na), "not_applicable")
except ImportError:
    print("written (jsonschema not importable here)")
