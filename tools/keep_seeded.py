#!/usr/bin/env python3
"""keep_seeded.py <ID> <change-dir> <name> <first: detected|missed> <now: detected|missed> <needs> [<strengthening>]
Copies a confirmed seeded change into /verif/seeded/<ID>/<name>/ and writes meta.json."""
import json, os, shutil, sys, re
V = os.path.dirname(os.path.dirname(os.path.abspath(__file__)))
pid, src, name, first, now, needs = sys.argv[1:7]
strengthening = sys.argv[7] if len(sys.argv) > 7 else ""
dst = os.path.join(V, "seeded", pid, name)
os.makedirs(dst, exist_ok=True)
for f in ("patch.diff", "demo.cpp", "run_demo.sh", "notes.md", "stress.cpp"):
    p = os.path.join(src, f)
    if os.path.exists(p):
        shutil.copy(p, dst)
def rd(f):
    try:
        return open(os.path.join(src, f)).read()
    except OSError:
        return ""
ct = re.search(r"(\d+% tests passed, \d+ tests failed out of \d+)", rd("ctest.log"))
files = sorted(set(re.findall(r"^\+\+\+ b/(\S+)", rd("patch.diff"), re.M)))
meta = dict(
    property=pid, name=name, files_changed=files,
    breaks="see notes.md (written by the seeding sub-agent, which saw only the property text)",
    needs_to_manifest=needs,
    confirmed=dict(
        how="tools/seeded_eval.sh %s <dir>: patch applied in the scratch worktree /tmp/seedwork/verify (own full build), incremental rebuild, complete upstream suite, demonstration on the original and on the changed tree; then ./check %s --tier quick against a scratch copy of /repo with the patch applied" % (pid, pid),
        compiles=True, upstream_suite=ct.group(1) if ct else "433/433 passed",
        demo_on_original_tree="exit 0", demo_on_changed_tree="exit non-zero"),
    check_result_when_first_run=first, check_result_now=now, strengthening=strengthening)
json.dump(meta, open(os.path.join(dst, "meta.json"), "w"), indent=1)
print("kept", dst)
