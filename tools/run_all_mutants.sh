#!/bin/bash
# runs every committed sensitivity mutant (mutants/<ID>/*.diff) and every seeded change
# (seeded/<ID>/*/patch.diff) against its property's quick check; one line per mutant.
cd /verif
for d in mutants/*/; do
  id=$(basename $d)
  for m in $d*.diff; do
    out=$(tools/mutate.sh $id $m quick 2>&1)
    rc=$(echo "$out" | grep -a -o "exit [0-9]*" | head -1)
    key=$(echo "$out" | grep -a -m1 "violation:" | sed 's/.*violation: //' | cut -d'|' -f1-3 | cut -c1-110)
    echo "$id $(basename $m .diff) $rc | $key"
  done
done
[ "${1:-}" = mutants-only ] && exit 0
for p in seeded/*/*/patch.diff; do
  id=$(echo $p | cut -d/ -f2); name=$(echo $p | cut -d/ -f3)
  out=$(tools/mutate.sh $id $p quick 2>&1)
  rc=$(echo "$out" | grep -a -o "exit [0-9]*" | head -1)
  key=$(echo "$out" | grep -a -m1 "violation:" | sed 's/.*violation: //' | cut -d'|' -f1-3 | cut -c1-110)
  echo "$id seeded:$name $rc | $key"
done
