#!/usr/bin/env python3
"""mkregress.py <replay.json> <name> [origin text]: turn a replay file into a committed regression case"""
import json, os, sys
V = os.path.dirname(os.path.dirname(os.path.abspath(__file__)))
c = json.load(open(sys.argv[1]))
out = dict(property=c["property"], harness=c["harness"], section=c["section"], ints=c["ints"], text=c.get("text", ""),
           key=c["key"], what=c.get("what", "")[:400],
           origin=sys.argv[3] if len(sys.argv) > 3 else "found by the check on the unchanged tree before the fix commit")
d = os.path.join(V, "regress", c["property"])
os.makedirs(d, exist_ok=True)
json.dump(out, open(os.path.join(d, sys.argv[2] + ".json"), "w"), indent=1)
print("wrote", os.path.join(d, sys.argv[2] + ".json"))
