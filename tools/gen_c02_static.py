#!/usr/bin/env python3
"""Generates harness/c02_static_gen.hpp: the STATIC grammar family of C02.

Each grammar is emitted twice from one description: as a natural fcppt.parse expression written
with the >> | * + - ! operators (heterogeneous result types: tuples are flattened, variants merged,
units dropped by the library's type-level rules) and as an AST for the reference interpreter.
Deterministic (fixed seed); the generated header is committed, re-run this script to regenerate.
Well-formed by construction: no repetition of a nullable parser (no left recursion is possible:
the static family has no rule references)."""
import random
import sys

PARTS = 8
LETTERS = "ab1-,"  # characters grammars may mention; the inputs also contain ' ' for the skippers

rnd = random.Random(20260101)


class N:
    def __init__(self, kind, s="", kids=()):
        self.kind, self.s, self.kids = kind, s, list(kids)


def leaf(nonnull):
    k = rnd.randrange(7)
    if k == 0:
        return N("LIT", rnd.choice(LETTERS))
    if k == 1:
        return N("SET", "".join(rnd.sample(LETTERS, 2)))
    if k == 2:
        return N("COMPL", "".join(rnd.sample(LETTERS, 2)))
    if k == 3:
        return N("ANY")
    if k == 4:
        return N("STR", rnd.choice(LETTERS) + rnd.choice(LETTERS))
    if k == 5:
        return N(rnd.choice(["INT", "UINT"]))
    return N("LIT", rnd.choice(LETTERS)) if nonnull else N("EPS")


def make(depth, nonnull):
    if depth <= 0 or rnd.random() < 0.18:
        return leaf(nonnull)
    k = rnd.randrange(20)
    if k < 6:
        first_nn = nonnull and rnd.random() < 0.5
        return N("SEQ", kids=[make(depth - 1, first_nn), make(depth - 1, nonnull and not first_nn)])
    if k < 10:
        return N("ALT", kids=[make(depth - 1, nonnull), make(depth - 1, nonnull)])
    if k < 12:
        return N("PLUS" if nonnull else "REP", kids=[make(depth - 1, True)])
    if k == 12:
        return N("PLUS", kids=[make(depth - 1, True)]) if nonnull else N("OPT", kids=[make(depth - 1, False)])
    if k == 13:
        return leaf(True) if nonnull else N("NOT", kids=[make(depth - 1, False)])
    if k == 14:
        return N("FATAL", kids=[make(depth - 1, nonnull)])
    if k == 15:
        return N("LEXEME", kids=[make(depth - 1, nonnull)])
    if k == 16:
        if nonnull or rnd.random() < 0.5:
            return N("LIST", "a,b", kids=[make(depth - 1, True)])
        return N("SEP", ",", kids=[make(depth - 1, True)])
    if k == 17:
        return N("NAMED", kids=[make(depth - 1, nonnull)])
    if k == 18:
        return N("IGNORE", kids=[make(depth - 1, nonnull)])
    return N("OPT", kids=[make(depth - 1, False)]) if not nonnull else N("SEQ", kids=[make(depth - 1, True), make(depth - 1, False)])


def is_tuple(n):
    """does the documented type rule give a tuple? (needed to decide whether as_struct applies)"""
    return typ(n)[0] == "tuple"


def typ(n):
    k = n.kind
    if k in ("LIT", "STR", "EPS", "NOT", "IGNORE"):
        return ("unit",)
    if k in ("SET", "COMPL", "ANY"):
        return ("char",)
    if k == "INT":
        return ("int",)
    if k == "UINT":
        return ("uint",)
    if k == "SEQ":
        l, r = typ(n.kids[0]), typ(n.kids[1])
        if l == ("unit",):
            return r
        if r == ("unit",):
            return l
        le = list(l[1]) if l[0] == "tuple" else [l]
        re = list(r[1]) if r[0] == "tuple" else [r]
        return ("tuple", tuple(le + re))
    if k == "ALT":
        l, r = typ(n.kids[0]), typ(n.kids[1])
        la = list(l[1]) if l[0] == "variant" else [l]
        ra = list(r[1]) if r[0] == "variant" else [r]
        u = []
        for t in la + ra:
            if t not in u:
                u.append(t)
        return u[0] if len(u) == 1 else ("variant", tuple(u))
    if k in ("REP", "PLUS"):
        t = typ(n.kids[0])
        return ("string",) if t == ("char",) else ("vector", t)
    if k == "OPT":
        return ("optional", typ(n.kids[0]))
    if k in ("FATAL", "LEXEME", "NAMED"):
        return typ(n.kids[0])
    if k in ("SEP", "LIST"):
        return ("vector", typ(n.kids[0]))
    raise ValueError(k)


def cpp_type(t):
    k = t[0]
    if k == "unit":
        return "fcppt::unit"
    if k == "char":
        return "char"
    if k == "int":
        return "int"
    if k == "uint":
        return "unsigned"
    if k == "string":
        return "std::string"
    if k == "vector":
        return "std::vector<%s>" % cpp_type(t[1])
    if k == "optional":
        return "fcppt::optional::object<%s>" % cpp_type(t[1])
    if k == "tuple":
        return "fcppt::tuple::object<%s>" % ", ".join(cpp_type(x) for x in t[1])
    if k == "variant":
        return "fcppt::variant::object<%s>" % ", ".join(cpp_type(x) for x in t[1])
    raise ValueError(k)


def has_variant(t):
    if t[0] == "variant":
        return True
    if t[0] in ("vector", "optional"):
        return has_variant(t[1])
    if t[0] == "tuple":
        return any(has_variant(x) for x in t[1])
    return False


def ch(c):
    return "'%s'" % c


def cpp(n):
    k = n.kind
    if k == "LIT":
        return "fp::literal{%s}" % ch(n.s)
    if k == "SET":
        return "fp::char_set{%s, %s}" % (ch(n.s[0]), ch(n.s[1]))
    if k == "COMPL":
        return "(~fp::char_set{%s, %s})" % (ch(n.s[0]), ch(n.s[1]))
    if k == "ANY":
        return "fp::char_{}"
    if k == "STR":
        return 'fp::string{std::string{"%s"}}' % n.s
    if k == "EPS":
        return "fp::epsilon{}"
    if k == "INT":
        return "fp::int_<int>{}"
    if k == "UINT":
        return "fp::uint<unsigned>{}"
    a = [cpp(x) for x in n.kids]
    if k == "SEQ":
        return "(%s >> %s)" % (a[0], a[1])
    if k == "ALT":
        return "(%s | %s)" % (a[0], a[1])
    if k == "REP":
        return "(*%s)" % a[0]
    if k == "PLUS":
        return "(+%s)" % a[0]
    if k == "OPT":
        return "(-%s)" % a[0]
    if k == "NOT":
        return "(!fp::make_ignore(%s))" % a[0]
    if k == "FATAL":
        return "fp::make_fatal(%s)" % a[0]
    if k == "LEXEME":
        return "fp::make_lexeme(%s)" % a[0]
    if k == "SEP":
        return "fp::separator{%s, fp::literal{%s}}" % (a[0], ch(n.s[0]))
    if k == "LIST":
        return "fp::list{fp::literal{%s}, %s, fp::literal{%s}, fp::literal{%s}}" % (ch(n.s[0]), a[0], ch(n.s[1]), ch(n.s[2]))
    if k == "NAMED":
        return "c02s::mk_named(%s)" % a[0]
    if k == "IGNORE":
        return "fp::make_ignore(%s)" % a[0]
    raise ValueError(k)


def ast(n):
    kids = ", ".join(ast(x) for x in n.kids)
    return 'c02s::N(c02::%s, "%s", {%s})' % (n.kind, n.s, kids)


def fix_plus(n):
    """+p does not compile when p yields fcppt::unit (repetition_plus is written as p >> *p and then
    indexes the sequence result as a tuple, but a unit left operand is dropped from it): a
    compile-time-only defect without a failing input, recorded in DESIGN.md. Such nodes are written as
    the documented expansion p >> *p here."""
    n.kids = [fix_plus(k) for k in n.kids]
    if n.kind == "PLUS" and typ(n.kids[0]) == ("unit",):
        import copy
        return N("SEQ", kids=[n.kids[0], N("REP", kids=[copy.deepcopy(n.kids[0])])])
    return n


def size(n):
    return 1 + sum(size(x) for x in n.kids)


def main():
    count = int(sys.argv[1]) if len(sys.argv) > 1 else 64
    out = []
    out.append("// GENERATED by tools/gen_c02_static.py - do not edit. %d static grammars.\n" % count)
    out.append("#ifndef VERIF_C02_STATIC_GEN_HPP\n#define VERIF_C02_STATIC_GEN_HPP\n")
    gs = []
    seen = set()
    while len(gs) < count:
        g = fix_plus(make(4, False))
        if size(g) < 4 or size(g) > 16:
            continue
        text = cpp(g)
        if text in seen:
            continue
        seen.add(text)
        gs.append(g)
    for i, g in enumerate(gs):
        t = typ(g)
        expr = cpp(g)
        top = "fp::as_struct<c02s::agg_of<fcppt::parse::result_of<decltype(%s)>>>(%s)" % (expr, expr) if t[0] == "tuple" and i % 2 == 0 else expr
        out.append("#if C02_STATIC_ONLY == %d\n" % (i % PARTS))
        out.append("struct sg_%d\n{\n" % i)
        out.append("  static auto parser() { return %s; }\n" % top)
        out.append("  static c02::np ast() { return %s; }\n" % ast(g))
        # the documented type rule, checked at compile time where no variant is involved (the order
        # of alternatives inside a merged variant is not documented)
        if not has_variant(t):
            out.append("  static_assert(std::is_same_v<fcppt::parse::result_of<decltype(%s)>, %s>, \"documented result type\");\n" % (expr, cpp_type(t)))
        out.append("};\n#endif\n")
    for part in range(PARTS):
        idx = [i for i in range(count) if i % PARTS == part]
        out.append("#define C02_STATIC_PART_%d %s\n" % (part, ", ".join("sg_%d" % i for i in idx)))
        out.append("#define C02_STATIC_IDS_%d %s\n" % (part, ", ".join(str(i) for i in idx)))
    out.append("#endif\n")
    sys.stdout.write("".join(out))


main()
