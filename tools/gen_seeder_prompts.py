#!/usr/bin/env python3
"""gen_seeder_prompts.py <round> <outdir>: writes <outdir>/prompt<round>_CNN.txt for every property.
A seeder sub-agent gets ONLY this text: the property (title, statement, scope), the names of the
changes earlier seeders produced for it (so that it looks elsewhere) and how to build in its own
scratch worktree <outdir>/r<round>cNN. Nothing about the checks in /verif."""
import glob, json, os, sys
V = os.path.dirname(os.path.dirname(os.path.abspath(__file__)))
rnd, out = sys.argv[1], sys.argv[2]
for line in open(os.path.join(V, "properties.jsonl")):
    p = json.loads(line)
    pid = p["id"]; n = pid[1:]
    wt = "%s/r%sc%s" % (out, rnd, n)
    od = "%s/out%s/c%s" % (out, rnd, n)
    earlier = []
    for m in sorted(glob.glob(os.path.join(V, "seeded", pid, "*", "meta.json"))):
        j = json.load(open(m))
        earlier.append("- %s (%s)" % (j["name"].replace("_", " "), ", ".join(sorted(set(os.path.basename(f) for f in j["files_changed"])))))
    t = f"""You are given a checkout of the C++20 library freundlich/fcppt (a header-heavy utility toolkit) in the git worktree {wt}. Work ONLY inside that worktree and inside {od}. Do not read or use anything under /verif or /root/.vp, and do not touch /repo (it is someone else's tree). Do not run git commit.

Here is a semantic property that the library is supposed to satisfy:

  Title: {p['title']}
  Statement: {p['statement']}
  Scope (what it quantifies over): {p['quantifier']['text']}

Your task is to act as a "bug seeder": produce a realistic change to the library's own source code (files under {wt}/libs/) that BREAKS this property, such that
 (1) the library, its tests and examples still compile,
 (2) the existing test suite (the Catch2 tests under {wt}/test/, run with ctest) still passes with your change, and
 (3) the breakage needs something specific to manifest: a particular boundary value or unusual input, a multi-step sequence of operations, a crash/fault at a particular point, a particular thread interleaving, or two cooperating sites that each look fine alone. It must NOT be something that ordinary use would expose at once (e.g. not "function always returns the wrong value"). Think of the kind of subtle regression a plausible refactoring, "optimisation" or off-by-one could introduce.

Other seeders have already produced the following changes for this property; produce changes that are DIFFERENT from these in mechanism and, if possible, in the function or file they touch (cover functions, clauses and instantiations of the statement that this list has not touched yet; read the statement again clause by clause and pick the clauses nobody has attacked):
{chr(10).join(earlier)}
Produce THREE different changes if you can (change1, change2, change3); two are acceptable if you run out of ideas.

How to build: `cd {wt} && cmake -G Ninja -B _build -S . -DCMAKE_BUILD_TYPE=RelWithDebInfo -DCMAKE_CXX_FLAGS=-Wno-error -DENABLE_TEST=ON -DENABLE_EXAMPLES=OFF` (about 20 s), then build only what you need, e.g. `ninja -C _build fcppt_core fcppt_options fcppt_log fcppt_filesystem` for the compiled libraries and `ninja -C _build fcppt_test_<dir>_<name>` for single tests (list targets with `ninja -C _build -t targets all | grep fcppt_test`); run tests with `ctest --test-dir _build -R <regex>`. A full build of all 433 tests takes several minutes on this shared machine, so build and run at least all tests whose sources include the headers you changed (grep test/ for them) plus the tests of the same module; I will run the complete suite myself afterwards. Most of the library is header-only; generated headers (fcppt/public_config.hpp etc.) are in {wt}/_build/include after configuring. A standalone program compiles with e.g.
  g++ -std=c++20 -g -O1 -fsanitize=address,undefined -I{wt}/_build/include -I{wt}/libs/core/include -I{wt}/libs/parse/include -I{wt}/libs/options/include -I{wt}/libs/log/include -I{wt}/libs/filesystem/include demo.cpp -L{wt}/_build/lib -lfcppt_core [-lfcppt_options -lfcppt_log -lfcppt_filesystem] -Wl,-rpath,{wt}/_build/lib -o demo
(the shared libraries must be rebuilt after changing a .cpp file under libs/*/src).

Deliverables, for each change k = 1, 2, 3, in {od}/change<k>/:
 - patch.diff : output of `git -C {wt} diff` for exactly that change (revert the worktree between changes with `git -C {wt} checkout -- libs`),
 - demo.cpp   : a small standalone program that demonstrates the breakage: it must exit 0 on the ORIGINAL tree and exit non-zero (or abort under a sanitizer / assertion) on the changed tree; state the exact compile and run commands in run_demo.sh, a script that takes the path of an fcppt tree (with a configured and built _build) as $1, compiles demo.cpp against it and runs it,
 - notes.md   : what the change is, which clause of the property it breaks, what exactly is needed for it to manifest (input, sequence, interleaving), why ordinary use and the existing tests do not notice, and which tests you built and ran (with their result).
Verify both directions yourself: demo passes on the unmodified worktree, fails with the patch applied; the related upstream tests pass with the patch applied. Leave the worktree clean or with the last change applied, it does not matter. Do not leave other files behind outside {od}.

Your final message: for each change one short paragraph (file, mechanism, what it needs to manifest) and the outcome of your own verification.
"""
    os.makedirs(od, exist_ok=True)
    open("%s/prompt%s_%s.txt" % (out, rnd, pid), "w").write(t)
print("ok")
