// Shared machinery of the C05 harnesses: generic operations conserve values (rvalues are moved, never
// copied; lvalues are left alone; nothing is read after it was moved from).
//
// * `tracked`: the instrumented element type. identity = origin id (never changes, survives a move
//   for diagnostics), payload = origin*10+7 while alive and -1 once moved from, state alive /
//   moved-from / destroyed. Every special member function appends to a global event log; the accessor
//   value(), the comparison operators and the stream operators log a *read of a moved-from object*.
// * `tracked_fn_base`: base of function objects handed to parser / option constructors; copies and
//   moves of the function object are visible through its tracked member.
// * continuations (`conv`, ...): overload sets operator()(tracked&&) / operator()(tracked const&)
//   that never copy: the rvalue overload moves its argument on (same origin), the lvalue overload
//   *derives* a fresh object with origin derived_base+origin. So a copy event can only originate in
//   fcppt (or in a std:: container/algorithm on fcppt's behalf).
// * `Ctx`: per-case context: registers the arguments with their value category, takes snapshots of
//   lvalue arguments, and turns the event log + final objects into verdicts (clauses (1)-(5) of
//   DESIGN.md C05).
// * registry: an entry is a generic lambda (Ctx&, shape, category tags...) instantiated for every
//   allowed value-category combination; a case is the integer vector {entry, shape, c1, c2, c3}.
//
// Reading (binding, DESIGN.md C05): "moved at most once" = an object is moved FROM at most once while
// it holds a value (return-by-value chains may move a value through several objects); only copies
// made by library code count; lending an element of an rvalue container to the continuation as an
// lvalue is not a copy and is not reported (the registry states per entry which convention the
// operation follows: `fwd` = elements of an rvalue argument reach the continuation as rvalues,
// `lend` = they are lent as lvalues).
#ifndef VERIF_C05_COMMON_HPP
#define VERIF_C05_COMMON_HPP

#include "verif.hpp"

#include <fcppt/no_init_fwd.hpp>
#include <fcppt/reference_fwd.hpp>
#include <fcppt/strong_typedef_fwd.hpp>
#include <fcppt/array/object_fwd.hpp>
#include <fcppt/container/grid/object_fwd.hpp>
#include <fcppt/container/tree/object_fwd.hpp>
#include <fcppt/either/object_fwd.hpp>
#include <fcppt/optional/object_fwd.hpp>
#include <fcppt/record/object_fwd.hpp>
#include <fcppt/tuple/object_fwd.hpp>
#include <fcppt/variant/object_fwd.hpp>

#include <algorithm>
#include <array>
#include <deque>
#include <functional>
#include <istream>
#include <list>
#include <map>
#include <ostream>
#include <set>
#include <string>
#include <type_traits>
#include <utility>
#include <variant>
#include <vector>

namespace c05
{
using namespace verif;

// ------------------------------------------------------------------------------------- event log
enum class Ev : unsigned char
{
  construct,
  copy_ctor,
  move_ctor,
  copy_assign,
  move_assign,
  destroy,
  read, // read of a moved-from (or dead) object through value() / comparison / output
  arrive_rvalue, // a continuation received the object as an rvalue
  arrive_lvalue // a continuation received the object as an lvalue
};

constexpr unsigned st_alive = 0xA11CE501U, st_moved = 0x30F3D002U, st_destroyed = 0xDEAD0003U;

struct Event
{
  Ev kind;
  int origin; // origin of the source object (copy/move/read) or of the object itself
  unsigned src_state; // state of the source object when the event happened
};

struct Log
{
  std::vector<Event> events;
  long live{0}; // constructed minus destroyed
  long constructed{0};
  long double_destroy{0}; // destructor ran on an object that was already destroyed
  long garbage{0}; // an operation touched memory that never held a tracked object
  void reset()
  {
    events.clear();
    live = 0;
    constructed = 0;
    double_destroy = 0;
    garbage = 0;
  }
};
inline Log &lg()
{
  static Log l;
  return l;
}

// origins: arguments use 0..49, generated (fresh results of nullary continuations) 50..69,
// extracted from a stream 70..99, derived from an lvalue element: 100 + origin.
constexpr int gen_base = 50, extract_base = 70, derived_base = 100;

class tracked
{
public:
  explicit tracked(int origin) noexcept : origin_(origin), payload_(origin * 10 + 7), state_(st_alive)
  {
    born(Ev::construct, origin, st_alive);
  }
  // only for fcppt::io::extract (options::option::parse): filled by operator>>
  explicit tracked(fcppt::no_init const &) noexcept : origin_(extract_base), payload_(extract_base * 10 + 7), state_(st_alive)
  {
    born(Ev::construct, origin_, st_alive);
  }
  tracked(tracked const &o) : origin_(o.origin_), payload_(o.payload_), state_(st_alive)
  {
    born(Ev::copy_ctor, o.origin_, o.checked_state());
    if (o.state_ != st_alive) { payload_ = -1; state_ = st_moved; }
  }
  tracked(tracked &&o) noexcept : origin_(o.origin_), payload_(o.payload_), state_(st_alive)
  {
    born(Ev::move_ctor, o.origin_, o.checked_state());
    if (o.state_ != st_alive) { payload_ = -1; state_ = st_moved; }
    o.leave();
  }
  tracked &operator=(tracked const &o)
  {
    checked_state();
    lg().events.push_back(Event{Ev::copy_assign, o.origin_, o.checked_state()});
    if (&o != this)
    {
      origin_ = o.origin_;
      payload_ = o.payload_;
      state_ = o.state_ == st_alive ? st_alive : st_moved;
    }
    return *this;
  }
  tracked &operator=(tracked &&o) noexcept
  {
    checked_state();
    if (&o != this)
    {
      lg().events.push_back(Event{Ev::move_assign, o.origin_, o.checked_state()});
      origin_ = o.origin_;
      payload_ = o.payload_;
      state_ = o.state_ == st_alive ? st_alive : st_moved;
      o.leave();
    }
    return *this;
  }
  ~tracked()
  {
    if (state_ == st_destroyed)
    {
      ++lg().double_destroy;
      return;
    }
    checked_state();
    lg().events.push_back(Event{Ev::destroy, origin_, state_});
    --lg().live;
    state_ = st_destroyed;
  }

  // the accessor of the element type: what user code (and fcppt, if it looks) reads
  int value() const
  {
    note_read();
    return payload_;
  }
  // comparison key: origins that are congruent modulo 10 compare equal (so that `unique` has
  // duplicates that are still distinguishable); every moved-from object has key -1
  int key() const
  {
    note_read();
    return payload_ < 0 ? -1 : (payload_ / 10) % 10;
  }
  friend bool operator==(tracked const &a, tracked const &b) { return a.key() == b.key(); }
  friend bool operator!=(tracked const &a, tracked const &b) { return a.key() != b.key(); }
  friend bool operator<(tracked const &a, tracked const &b) { return a.key() < b.key(); }
  template <typename Ch, typename Tr>
  friend std::basic_ostream<Ch, Tr> &operator<<(std::basic_ostream<Ch, Tr> &s, tracked const &t)
  {
    return s << t.value();
  }
  // reads an integer n: the object becomes the fresh value with origin extract_base + n
  template <typename Ch, typename Tr>
  friend std::basic_istream<Ch, Tr> &operator>>(std::basic_istream<Ch, Tr> &s, tracked &t)
  {
    int n = 0;
    if (s >> n)
    {
      t.origin_ = extract_base + (n < 0 ? 0 : n % 30);
      t.payload_ = t.origin_ * 10 + 7;
      t.state_ = st_alive;
    }
    return s;
  }

  // harness-only inspection: never logged
  int peek_origin() const noexcept { return origin_; }
  int peek_payload() const noexcept { return payload_; }
  unsigned peek_state() const noexcept { return state_; }
  bool peek_alive() const noexcept { return state_ == st_alive; }

private:
  void born(Ev k, int origin, unsigned src_state) noexcept
  {
    lg().events.push_back(Event{k, origin, src_state});
    ++lg().live;
    ++lg().constructed;
  }
  unsigned checked_state() const noexcept
  {
    if (state_ != st_alive && state_ != st_moved && state_ != st_destroyed) ++lg().garbage;
    return state_;
  }
  void note_read() const
  {
    if (checked_state() != st_alive) lg().events.push_back(Event{Ev::read, origin_, state_});
  }
  void leave() noexcept
  {
    payload_ = -1;
    if (state_ == st_alive) state_ = st_moved;
  }
  int origin_;
  int payload_;
  unsigned state_;
};

// a second (third, ...) element type: a thin wrapper with implicit copy / move, so that containers
// that need distinct types (either<F,S>, variant) can hold tracked values on every side
template <int Tag>
struct wrapped
{
  explicit wrapped(int origin) : t(origin) {}
  explicit wrapped(tracked &&x) : t(std::move(x)) {}
  tracked t;
  friend bool operator==(wrapped const &a, wrapped const &b) { return a.t == b.t; }
};

// a function object whose own copies / moves are visible through its tracked member
struct tracked_fn_base
{
  explicit tracked_fn_base(int origin) : marker(origin) {}
  tracked marker;
  // called by the derived operator(): a moved-from function object must not be invoked
  void used() const { (void)marker.value(); }
};

// ----------------------------------------------------------------------------- value categories
struct rv { static constexpr int id = 0; };
struct lv { static constexpr int id = 1; };
struct clv { static constexpr int id = 2; };
inline char const *cat_name(int id) { return id == 0 ? "rvalue" : id == 1 ? "lvalue" : "const-lvalue"; }

template <typename C, typename T>
constexpr decltype(auto) pass(T &x)
{
  if constexpr (C::id == 0) return std::move(x);
  else if constexpr (C::id == 1) return x;
  else return std::as_const(x);
}
template <typename... C> struct cats {};
using any_cat = cats<rv, lv, clv>;
using only_rv = cats<rv>;
using only_lv = cats<lv>;
using only_clv = cats<clv>;
using lvalues = cats<lv, clv>;
using rv_clv = cats<rv, clv>;
using rv_lv = cats<rv, lv>;

// ------------------------------------------------------------------------- walking a structure
using Ptrs = std::vector<tracked const *>;
template <typename T, typename Enable = void>
struct Walk
{
  static_assert(std::is_arithmetic_v<T> || std::is_enum_v<T> || std::is_empty_v<T>, "c05::Walk: add a specialisation for this type");
  static void go(T const &, Ptrs &) {}
};
template <typename T>
void walk(T const &x, Ptrs &out)
{
  Walk<T>::go(x, out);
}
template <>
struct Walk<tracked>
{
  static void go(tracked const &x, Ptrs &out) { out.push_back(&x); }
};
// an element whose move constructor is NOT noexcept (but which is copyable): generic code that uses
// std::move_if_noexcept would copy it; the library promises to move
struct tracked_mt : tracked
{
  explicit tracked_mt(int origin) : tracked(origin) {}
  tracked_mt(tracked_mt const &o) : tracked(static_cast<tracked const &>(o)) {}
  tracked_mt(tracked_mt &&o) noexcept(false) : tracked(static_cast<tracked &&>(o)) {}
  tracked_mt &operator=(tracked_mt const &o) { tracked::operator=(static_cast<tracked const &>(o)); return *this; }
  tracked_mt &operator=(tracked_mt &&o) noexcept(false) { tracked::operator=(static_cast<tracked &&>(o)); return *this; }
};
template <>
struct Walk<tracked_mt>
{
  static void go(tracked_mt const &x, Ptrs &out) { out.push_back(&x); }
};
template <typename T>
struct Walk<T, std::enable_if_t<std::is_base_of_v<tracked_fn_base, T>>>
{
  static void go(T const &x, Ptrs &out) { out.push_back(&x.marker); }
};
template <int Tag>
struct Walk<wrapped<Tag>>
{
  static void go(wrapped<Tag> const &x, Ptrs &out) { out.push_back(&x.t); }
};
template <typename T, typename A>
struct Walk<std::vector<T, A>>
{
  static void go(std::vector<T, A> const &x, Ptrs &out) { for (auto const &e : x) walk(e, out); }
};
template <typename T, typename A>
struct Walk<std::list<T, A>>
{
  static void go(std::list<T, A> const &x, Ptrs &out) { for (auto const &e : x) walk(e, out); }
};
template <typename T, typename A>
struct Walk<std::deque<T, A>>
{
  static void go(std::deque<T, A> const &x, Ptrs &out) { for (auto const &e : x) walk(e, out); }
};
template <typename T, std::size_t N>
struct Walk<std::array<T, N>>
{
  static void go(std::array<T, N> const &x, Ptrs &out) { for (auto const &e : x) walk(e, out); }
};
template <typename A, typename B>
struct Walk<std::pair<A, B>>
{
  static void go(std::pair<A, B> const &x, Ptrs &out) { walk(x.first, out); walk(x.second, out); }
};
template <typename K, typename V, typename C, typename A>
struct Walk<std::map<K, V, C, A>>
{
  static void go(std::map<K, V, C, A> const &x, Ptrs &out) { for (auto const &e : x) walk(e.second, out); }
};
template <typename... T>
struct Walk<std::tuple<T...>>
{
  static void go(std::tuple<T...> const &x, Ptrs &out) { std::apply([&out](auto const &...e) { (walk(e, out), ...); }, x); }
};
template <>
struct Walk<std::string>
{
  static void go(std::string const &, Ptrs &) {}
};

// fcppt types (only forward declarations are needed here; the bodies are instantiated in the
// translation units that include the full headers)
template <typename T>
struct Walk<fcppt::optional::object<T>>
{
  static void go(fcppt::optional::object<T> const &x, Ptrs &out) { if (x.has_value()) walk(x.get_unsafe(), out); }
};
template <typename F, typename S>
struct Walk<fcppt::either::object<F, S>>
{
  static void go(fcppt::either::object<F, S> const &x, Ptrs &out)
  {
    if (x.has_success()) walk(x.get_success_unsafe(), out);
    else walk(x.get_failure_unsafe(), out);
  }
};
template <typename... T>
struct Walk<fcppt::variant::object<T...>>
{
  static void go(fcppt::variant::object<T...> const &x, Ptrs &out) { std::visit([&out](auto const &e) { walk(e, out); }, x.impl()); }
};
template <typename... T>
struct Walk<fcppt::tuple::object<T...>>
{
  static void go(fcppt::tuple::object<T...> const &x, Ptrs &out) { walk(x.impl(), out); }
};
template <typename T, std::size_t N>
struct Walk<fcppt::array::object<T, N>>
{
  static void go(fcppt::array::object<T, N> const &x, Ptrs &out) { for (auto const &e : x.impl()) walk(e, out); }
};
template <typename... E>
struct Walk<fcppt::record::object<E...>>
{
  static void go(fcppt::record::object<E...> const &x, Ptrs &out) { walk(x.impl(), out); }
};
template <typename T, fcppt::container::grid::size_type N, typename A>
struct Walk<fcppt::container::grid::object<T, N, A>>
{
  static void go(fcppt::container::grid::object<T, N, A> const &x, Ptrs &out) { for (auto const &e : x) walk(e, out); }
};
template <typename T>
struct Walk<fcppt::container::tree::object<T>>
{
  static void go(fcppt::container::tree::object<T> const &x, Ptrs &out)
  {
    walk(x.value(), out);
    for (auto const &c : x) walk(c, out);
  }
};
template <typename T, typename Tag>
struct Walk<fcppt::strong_typedef<T, Tag>>
{
  static void go(fcppt::strong_typedef<T, Tag> const &x, Ptrs &out) { walk(x.get(), out); }
};
template <typename T>
struct Walk<fcppt::reference<T>>
{
  static void go(fcppt::reference<T> const &x, Ptrs &out) { walk(x.get(), out); }
};

struct ElemSnap
{
  int origin, payload;
  unsigned state;
  bool operator==(ElemSnap const &o) const { return origin == o.origin && payload == o.payload && state == o.state; }
};
using Snap = std::vector<ElemSnap>;
template <typename T>
Snap snap(T const &x)
{
  Ptrs p;
  walk(x, p);
  Snap s;
  for (tracked const *t : p) s.push_back(ElemSnap{t->peek_origin(), t->peek_payload(), t->peek_state()});
  return s;
}
inline std::string show(Snap const &s)
{
  std::string r = "[";
  for (std::size_t i = 0; i < s.size(); ++i)
  {
    if (i) r += ",";
    r += std::to_string(s[i].origin);
    if (s[i].state == st_moved) r += "(moved-from)";
    else if (s[i].state != st_alive) r += "(dead)";
  }
  return r + "]";
}
inline std::string show(std::vector<int> const &v)
{
  std::string r = "[";
  for (std::size_t i = 0; i < v.size(); ++i) r += (i ? "," : "") + std::to_string(v[i]);
  return r + "]";
}

// --------------------------------------------------------------------------------- case context
struct Ctx;
inline Ctx *&g_cx()
{
  static Ctx *p = nullptr;
  return p;
}

struct Ctx
{
  std::string entry; // registry name, e.g. "optional::map"
  std::string key_fn; // function part of the key (entry name unless overridden)
  std::string klass; // input class part of the key, e.g. "rvalue-argument"
  std::set<int> rvalue_origins; // origins that entered through an rvalue argument
  std::set<int> lvalue_origins;
  struct LArg
  {
    std::function<Snap()> get;
    Snap before;
    int cat;
    std::string noun;
  };
  std::vector<LArg> lvalue_args;
  std::map<int, std::string> origin_class; // origin -> "<category>-<noun>" of the argument it came from
  std::set<std::string> arg_cats; // distinct categories of the registered arguments
  int nargs{0};
  bool klass_forced{false};
  std::string detail; // full category list, for messages
  std::map<int, std::string> copy_key; // copies of these origins are filed under the given key (shared root cause)
  std::vector<tracked> sink; // extra values absorbed by continuations (counted as part of the result)
  int elements{0}; // elements in arguments + values generated by continuations
  int generated{0};
  bool result_seen{false};
  std::size_t call_begin{0};

  Ctx(std::string e) : entry(e), key_fn(std::move(e))
  {
    sink.reserve(64);
    g_cx() = this;
  }
  ~Ctx() { g_cx() = nullptr; }
  Ctx(Ctx const &) = delete;
  Ctx &operator=(Ctx const &) = delete;

  // input class of a key: the single argument's "<category>-<noun>"; for several arguments the set of
  // distinct categories (one key per root cause, not one per category combination)
  std::string combo_class() const
  {
    if (klass_forced || nargs <= 1) return klass.empty() ? std::string("generated-values") : klass;
    std::string r;
    for (char const *c : {"rvalue", "lvalue", "const-lvalue", "mutable-lvalue"})
      if (arg_cats.count(c)) r += (r.empty() ? "" : "+") + std::string(c);
    return r + "-arguments";
  }
  std::string key(std::string const &sub) const { return key_fn + "|" + combo_class() + "|" + sub; }
  // key of an event on an object with a known origin: the class of the argument it came from
  std::string key_of(int origin, std::string const &sub) const
  {
    if (klass_forced) return key(sub);
    auto const it = origin_class.find(origin);
    if (it != origin_class.end()) return key_fn + "|" + it->second + "|" + sub;
    auto const d = origin_class.find(origin - derived_base);
    if (origin >= derived_base && d != origin_class.end()) return key_fn + "|" + d->second + "|" + sub;
    return key_fn + "|" + (origin >= gen_base ? std::string("function-result") : combo_class()) + "|" + sub;
  }
  std::string where() const { return entry + " [" + (detail.empty() ? klass : detail) + "]: "; }

  // register an argument that is about to be passed with category C; `noun` names it in the key
  template <typename C, typename T>
  void arg(T &x, char const *noun = "argument")
  {
    Snap const s = snap(x);
    elements += static_cast<int>(s.size());
    std::string const cn = std::string(cat_name(C::id)) + "-" + noun;
    if (!klass_forced)
    {
      if (!klass.empty()) klass += "+";
      klass += cn;
    }
    detail += (detail.empty() ? "" : "+") + cn;
    ++nargs;
    arg_cats.insert(cat_name(C::id));
    for (ElemSnap const &e : s)
    {
      (C::id == 0 ? rvalue_origins : lvalue_origins).insert(e.origin);
      origin_class[e.origin] = cn;
    }
    if constexpr (C::id != 0)
    {
      T *p = &x;
      lvalue_args.push_back(LArg{[p] { return snap(*p); }, s, C::id, noun});
    }
  }
  // an argument the operation is documented to modify (always a non-const lvalue): no "unchanged"
  // clause, the entry checks the documented post-state with expect_state()
  template <typename T>
  void arg_mutated(T &x, char const *noun = "argument")
  {
    Snap const s = snap(x);
    elements += static_cast<int>(s.size());
    std::string const cn = std::string("mutable-lvalue-") + noun;
    if (!klass_forced)
    {
      if (!klass.empty()) klass += "+";
      klass += cn;
    }
    detail += (detail.empty() ? "" : "+") + cn;
    ++nargs;
    arg_cats.insert("mutable-lvalue");
    for (ElemSnap const &e : s) origin_class[e.origin] = cn;
    // the elements of a container that the operation re-arranges or hands out (pop_back, remove_if,
    // unique, get_or_insert, tree insertion / removal) travel by move: a copy would rule out move-only
    // element types, so clause (1) applies to them as it does to elements of rvalue arguments
    for (ElemSnap const &e : s) rvalue_origins.insert(e.origin);
  }
  void klass_override(std::string k)
  {
    klass = std::move(k);
    klass_forced = true;
  }

  // the library call happens between begin() and end()
  void begin()
  {
    lg().events.clear();
    call_begin = 0;
  }
  // clause (4): lvalue / const lvalue arguments are unchanged
  void end()
  {
    for (LArg const &a : lvalue_args)
    {
      Snap const now = a.get();
      if (now == a.before) continue;
      bool moved = false;
      for (ElemSnap const &e : now) moved = moved || e.state != st_alive;
      fail(key_fn + "|" + cat_name(a.cat) + "-" + a.noun + "|" + (moved ? "moved-from" : "changed"),
           where() + "the " + cat_name(a.cat) + " " + a.noun + " was " + show(a.before) + " before the call and is " + show(now) + " afterwards");
    }
  }

  // clause (3): the result (plus whatever the continuations absorbed) holds exactly `expected`
  // origins (in this order if `ordered`), each alive.
  template <typename R>
  void result(R const &r, std::vector<int> expected, bool ordered = true) { result_snap(snap(r), std::move(expected), ordered, "result"); }
  // documented post-state of a mutated argument
  template <typename T>
  void expect_state(T const &x, std::vector<int> expected, char const *what = "mutated argument") { result_snap(snap(x), std::move(expected), true, what); }

  void result_snap(Snap got, std::vector<int> expected, bool ordered, char const *what)
  {
    result_seen = true;
    std::vector<int> g;
    bool dead = false;
    for (ElemSnap const &e : got)
    {
      g.push_back(e.origin);
      dead = dead || e.state != st_alive;
    }
    if (dead)
      fail(key("moved-from-element-in-" + std::string(what)), where() + what + " contains a moved-from element: " + show(got));
    std::vector<int> gs = g, es = expected;
    std::sort(gs.begin(), gs.end());
    std::sort(es.begin(), es.end());
    if (std::adjacent_find(gs.begin(), gs.end()) != gs.end() && std::adjacent_find(es.begin(), es.end()) == es.end())
    {
      fail(key("duplicated"), where() + what + " holds an element twice: " + show(g) + ", expected " + show(expected));
      return;
    }
    if (ordered ? g == expected : gs == es) return;
    // classify
    if (gs == es)
    {
      fail(key("order"), where() + what + " is " + show(g) + ", expected " + show(expected));
      return;
    }
    if (g.size() == expected.size())
    {
      bool lent = true, stolen = true, any = false;
      for (std::size_t i = 0; i < gs.size(); ++i)
      {
        // compare position-wise on the unsorted vectors when ordered, else give up classification
        int const a = ordered ? g[i] : gs[i], b = ordered ? expected[i] : es[i];
        if (a == b) continue;
        any = true;
        lent = lent && a == b + derived_base;
        stolen = stolen && a + derived_base == b;
      }
      if (any && lent)
      {
        fail(key("lent-as-lvalue"), where() + "elements of an rvalue argument reached the continuation as lvalues: " + std::string(what) + " " + show(g) + ", expected " + show(expected));
        return;
      }
      if (any && stolen)
      {
        fail(key("lvalue-element-passed-as-rvalue"), where() + "elements of an lvalue argument reached the continuation as rvalues: " + std::string(what) + " " + show(g) + ", expected " + show(expected));
        return;
      }
    }
    fail(key(gs.size() < es.size() ? "lost" : "elements"), where() + what + " is " + show(g) + ", expected " + show(expected));
  }

  // the result may legitimately take one of several forms (e.g. an operation is free to hand the
  // elements of a move range on as rvalues or to lend them); returns the index of the matching
  // alternative, reports against the first one if none matches
  template <typename R>
  int result_any(R const &r, std::vector<std::vector<int>> const &alternatives, bool with_sink = true)
  {
    Snap got = snap(r);
    if (with_sink)
      for (ElemSnap const &e : snap(sink)) got.push_back(e);
    std::vector<int> g;
    bool alive = true;
    for (ElemSnap const &e : got)
    {
      g.push_back(e.origin);
      alive = alive && e.state == st_alive;
    }
    for (std::size_t i = 0; i < alternatives.size(); ++i)
      if (alive && g == alternatives[i])
      {
        result_seen = true;
        return static_cast<int>(i);
      }
    result_snap(got, alternatives.front(), true, "result");
    return -1;
  }
  // result followed by the values the continuations absorbed
  template <typename R>
  void result_and_sink(R const &r, std::vector<int> expected, bool ordered = true)
  {
    Snap got = snap(r);
    for (ElemSnap const &e : snap(sink)) got.push_back(e);
    result_snap(got, std::move(expected), ordered, "result");
  }
  void sink_only(std::vector<int> expected, bool ordered = true) { result_snap(snap(sink), std::move(expected), ordered, "sequence of values seen by the continuation"); }
  // result given as explicit element pointers (e.g. a grid read position by position)
  void result_ptrs(Ptrs const &p, std::vector<int> expected, bool ordered = true, char const *what = "result")
  {
    Snap s;
    for (tracked const *t : p) s.push_back(ElemSnap{t->peek_origin(), t->peek_payload(), t->peek_state()});
    result_snap(std::move(s), std::move(expected), ordered, what);
  }

  // ends a phase (e.g. construction of a parser): judges the log so far; what entered through
  // rvalue arguments is from now on owned by the constructed object, i.e. an lvalue for later calls
  void phase(std::string new_klass)
  {
    verdict();
    lg().events.clear();
    for (int o : rvalue_origins) lvalue_origins.insert(o);
    rvalue_origins.clear();
    lvalue_args.clear();
    klass = std::move(new_klass);
    klass_forced = true;
    detail = klass;
  }

  // clauses (1), (2) and the construction/destruction sanity part of (5); called by the driver
  // after the entry returned
  void verdict()
  {
    for (Event const &e : lg().events)
    {
      bool const src_gone = e.src_state != st_alive;
      switch (e.kind)
      {
      case Ev::copy_ctor:
      case Ev::copy_assign:
        if (src_gone)
          fail(key_of(e.origin, "copies-moved-from"), where() + "an object with origin " + std::to_string(e.origin) + " was copied after it had been moved from");
        else if (rvalue_origins.count(e.origin))
          fail(copy_key.count(e.origin) ? copy_key[e.origin] : key_of(e.origin, "copied"), where() + "element " + std::to_string(e.origin) + " entered through an rvalue argument and was copied");
        else if (e.origin >= gen_base && !lvalue_origins.count(e.origin))
          fail(key_of(e.origin, "copied-function-result"), where() + "value " + std::to_string(e.origin) + " returned by a continuation (a prvalue) was copied");
        break;
      case Ev::move_ctor:
      case Ev::move_assign:
        if (src_gone)
          fail(key_of(e.origin, "moved-twice"), where() + "an object with origin " + std::to_string(e.origin) + " was moved from a second time");
        break;
      case Ev::read:
        fail(key_of(e.origin, "reads-moved-from"), where() + "an object with origin " + std::to_string(e.origin) + " was read (accessor / comparison / output) after it had been moved from");
        break;
      default:
        break;
      }
    }
    if (lg().double_destroy != 0)
      fail(key("double-destroy"), where() + std::to_string(lg().double_destroy) + " object(s) destroyed twice");
    if (lg().garbage != 0)
      fail(key("uninitialised-object"), where() + "an operation touched memory that never held an element");
  }

  // continuations ---------------------------------------------------------------------------
  int next_generated() { ++elements; return gen_base + generated++; }
};

inline void note_arrival(tracked const &x, bool rvalue)
{
  lg().events.push_back(Event{rvalue ? Ev::arrive_rvalue : Ev::arrive_lvalue, x.peek_origin(), st_alive});
}
// a new value computed from an lvalue element (reads it): origin derived_base + origin
inline tracked derive(tracked const &x)
{
  int const v = x.value();
  return tracked(derived_base + (v < 0 ? x.peek_origin() : (v - 7) / 10));
}
// unary continuation: keeps rvalues (moves them on), derives from lvalues
struct conv
{
  tracked operator()(tracked &&x) const
  {
    note_arrival(x, true);
    return tracked(std::move(x));
  }
  tracked operator()(tracked const &x) const
  {
    note_arrival(x, false);
    return derive(x);
  }
};
// the same for the wrapper type; unwrap turns a wrapper into the plain element
template <int Tag>
struct conv_w
{
  wrapped<Tag> operator()(wrapped<Tag> &&x) const { return wrapped<Tag>{conv{}(std::move(x.t))}; }
  wrapped<Tag> operator()(wrapped<Tag> const &x) const { return wrapped<Tag>{conv{}(x.t)}; }
};
template <int Tag>
struct unwrap
{
  tracked operator()(wrapped<Tag> &&x) const { return conv{}(std::move(x.t)); }
  tracked operator()(wrapped<Tag> const &x) const { return conv{}(x.t); }
};
// absorbs an extra argument of a multi-argument continuation into the context's sink
inline void absorb(tracked &&x)
{
  note_arrival(x, true);
  g_cx()->sink.push_back(std::move(x));
}
inline void absorb(tracked const &x)
{
  note_arrival(x, false);
  g_cx()->sink.push_back(derive(x));
}
template <int Tag>
void absorb(wrapped<Tag> &&x) { absorb(std::move(x.t)); }
template <int Tag>
void absorb(wrapped<Tag> const &x) { absorb(x.t); }
inline void absorb(int) {}
// binary continuation: result from the first argument, the second is absorbed
struct conv2
{
  template <typename A, typename B>
  tracked operator()(A &&a, B &&b) const
  {
    absorb(std::forward<B>(b));
    return conv{}(std::forward<A>(a));
  }
};
struct conv3
{
  template <typename A, typename B, typename C>
  tracked operator()(A &&a, B &&b, C &&c) const
  {
    absorb(std::forward<B>(b));
    absorb(std::forward<C>(c));
    return conv{}(std::forward<A>(a));
  }
};
// nullary continuation: a fresh value
struct gen
{
  tracked operator()() const { return tracked(g_cx()->next_generated()); }
};
// predicate on the origin: bit (origin % 10) of mask
struct pred
{
  unsigned mask;
  bool operator()(tracked const &x) const
  {
    int const v = x.value();
    return v >= 0 && ((mask >> (((v - 7) / 10) % 10)) & 1U) != 0;
  }
};

struct pred_by_value
{
  unsigned mask;
  bool operator()(tracked x) const { return pred{mask}(x); }
};

// expected origin of the value the continuation makes out of element `o` of an argument passed with
// category C: fwd = the library forwards elements of an rvalue argument as rvalues
template <typename C>
constexpr int fwd(int o) { return C::id == 0 ? o : derived_base + o; }
constexpr int lend(int o) { return derived_base + o; }

// ----------------------------------------------------------------------------------- shapes
// element counts of the "sequence" shapes: quick uses the first three, thorough all
constexpr int seq_counts[] = {0, 1, 3, 2, 4, 5, 8};
constexpr int seq_shapes_max = 7;
inline int seq_shapes() { return opts().thorough() ? seq_shapes_max : 3; }
inline int seq_n(int shape) { return seq_counts[((shape % seq_shapes_max) + seq_shapes_max) % seq_shapes_max]; }

inline std::vector<tracked> make_vec(int n, int first = 0)
{
  std::vector<tracked> v;
  v.reserve(static_cast<std::size_t>(n) + 2);
  for (int i = 0; i < n; ++i) v.emplace_back(first + i);
  return v;
}
inline std::vector<int> iota(int n, int first = 0)
{
  std::vector<int> r;
  for (int i = 0; i < n; ++i) r.push_back(first + i);
  return r;
}
template <typename F>
std::vector<int> mapped(std::vector<int> v, F f)
{
  for (int &x : v) x = f(x);
  return v;
}
inline std::vector<int> cat_vec(std::vector<int> a, std::vector<int> const &b)
{
  a.insert(a.end(), b.begin(), b.end());
  return a;
}

// ----------------------------------------------------------------------------------- registry
struct Entry
{
  std::string name;
  int nshapes; // < 0: sequence shapes (seq_shapes())
  int nargs; // number of arguments whose value category varies
  std::vector<std::array<int, 3>> combos; // allowed category combinations
  std::function<bool(Ctx &, int, int, int, int)> fn; // false: combination not instantiated
  // -1: sequence shapes (3 quick / 7 thorough); -2: pattern shapes (6 quick / 8 thorough)
  int shapes() const { return nshapes == -1 ? seq_shapes() : nshapes == -2 ? (opts().thorough() ? 8 : 6) : nshapes; }
  int shapes_max() const { return nshapes == -1 ? seq_shapes_max : nshapes == -2 ? 8 : nshapes; }
};
using Family = std::vector<Entry>;
constexpr int seq = -1, pat = -2;

template <typename F>
Entry entry0(std::string name, int nshapes, F f)
{
  return Entry{std::move(name), nshapes, 0, {{{0, 0, 0}}}, [f](Ctx &cx, int shape, int, int, int) { f(cx, shape); return true; }};
}
template <typename... C1, typename F>
Entry entry1(std::string name, int nshapes, cats<C1...>, F f)
{
  return Entry{std::move(name), nshapes, 1, {{{C1::id, 0, 0}}...},
               [f](Ctx &cx, int shape, int c1, int, int) { return ((C1::id == c1 ? (f(cx, shape, C1{}), true) : false) || ...); }};
}
template <typename A, typename F, typename... C2>
bool dispatch2(F const &f, Ctx &cx, int shape, int c2, cats<C2...>)
{
  return ((C2::id == c2 ? (f(cx, shape, A{}, C2{}), true) : false) || ...);
}
template <typename... C1, typename... C2, typename F>
Entry entry2(std::string name, int nshapes, cats<C1...>, cats<C2...> second, F f)
{
  std::vector<std::array<int, 3>> combos;
  for (int a : {C1::id...})
    for (int b : {C2::id...}) combos.push_back({{a, b, 0}});
  return Entry{std::move(name), nshapes, 2, std::move(combos), [f, second](Ctx &cx, int shape, int c1, int c2, int) {
                 return ((C1::id == c1 ? dispatch2<C1>(f, cx, shape, c2, second) : false) || ...);
               }};
}
template <typename A, typename B, typename F, typename... C3>
bool dispatch3(F const &f, Ctx &cx, int shape, int c3, cats<C3...>)
{
  return ((C3::id == c3 ? (f(cx, shape, A{}, B{}, C3{}), true) : false) || ...);
}
template <typename A, typename F, typename... C2, typename Third>
bool dispatch23(F const &f, Ctx &cx, int shape, int c2, int c3, cats<C2...>, Third third)
{
  return ((C2::id == c2 ? dispatch3<A, C2>(f, cx, shape, c3, third) : false) || ...);
}
template <typename... C1, typename... C2, typename... C3, typename F>
Entry entry3(std::string name, int nshapes, cats<C1...>, cats<C2...> second, cats<C3...> third, F f)
{
  std::vector<std::array<int, 3>> combos;
  for (int a : {C1::id...})
    for (int b : {C2::id...})
      for (int c : {C3::id...}) combos.push_back({{a, b, c}});
  return Entry{std::move(name), nshapes, 3, std::move(combos), [f, second, third](Ctx &cx, int shape, int c1, int c2, int c3) {
                 return ((C1::id == c1 ? dispatch23<C1>(f, cx, shape, c2, c3, second, third) : false) || ...);
               }};
}

// evaluates one case {entry, shape, c1, c2, c3}
inline void family_one(Family const &fam, Ints const &c)
{
  if (c.size() < 5 || c[0] < 0 || static_cast<std::size_t>(c[0]) >= fam.size()) return;
  Entry const &e = fam[static_cast<std::size_t>(c[0])];
  if (c[1] < 0 || c[1] >= e.shapes_max()) return;
  bool allowed = false;
  for (auto const &k : e.combos) allowed = allowed || (k[0] == c[2] && k[1] == c[3] && k[2] == c[4]);
  if (!allowed)
  {
    skip();
    return;
  }
  lg().reset();
  bool nontrivial = false;
  std::string where;
  {
    Ctx cx(e.name);
    e.fn(cx, static_cast<int>(c[1]), static_cast<int>(c[2]), static_cast<int>(c[3]), static_cast<int>(c[4]));
    cx.verdict();
    nontrivial = cx.elements > 0;
    where = cx.key_fn + "|" + cx.combo_class();
  }
  // clause (5): everything constructed during the case (arguments, results, temporaries) is gone
  if (lg().live != 0)
    fail(where + (lg().live > 0 ? "|leak" : "|destroyed-more-than-constructed"),
         e.name + ": " + std::to_string(lg().constructed) + " objects constructed, balance after the case " + std::to_string(lg().live));
  count(nontrivial);
}
inline void family_run(Family const &fam)
{
  for (std::size_t i = 0; i < fam.size(); ++i)
    for (int s = 0; s < fam[i].shapes(); ++s)
      for (auto const &k : fam[i].combos)
      {
        Ints const c{static_cast<i64>(i), s, k[0], k[1], k[2]};
        cur_vec(c);
        family_one(fam, c);
      }
}
inline std::string family_describe(Family const &fam, Ints const &c)
{
  if (c.size() < 5 || c[0] < 0 || static_cast<std::size_t>(c[0]) >= fam.size()) return "?";
  Entry const &e = fam[static_cast<std::size_t>(c[0])];
  std::string r = e.name + " shape " + std::to_string(c[1]) + (e.nshapes == -1 ? " (" + std::to_string(seq_n(static_cast<int>(c[1]))) + " elements)" : "");
  if (e.nargs > 0)
  {
    r += " argument categories (";
    for (int i = 0; i < e.nargs; ++i) r += std::string(i ? "," : "") + cat_name(static_cast<int>(c[static_cast<std::size_t>(2 + i)]));
    r += ")";
  }
  return r;
}

constexpr char const *rule_text =
    "at least one element is present in an argument (or produced by a continuation): then a copy of an rvalue element, a move out of an lvalue argument, a read after move or a lost/duplicated element is observable";

#define C05_SECTION(ident, secname, family_fn)                                                       \
  verif::Reg const ident{secname, verif::Kind::exhaustive, c05::rule_text, [] { c05::family_run(family_fn()); }, \
                         [](verif::Ints const &c) { c05::family_one(family_fn(), c); },              \
                         [](verif::Ints const &c) { return c05::family_describe(family_fn(), c); }}
}

#endif
