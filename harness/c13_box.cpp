// VERIF: quick_shards=16
// C13 - axis-aligned boxes behave as half-open point sets.
// Oracle: explicit point sets on a small integer lattice (bit masks filled by naive loops over all
// lattice points with the documented test pos_i <= p_i < max_i); every result box of fcppt is read
// back through pos()/max() and turned into such a mask by the same naive loops.
// 1-D and 2-D exhaustive over all pairs of boxes, 3-D seeded random. int and unsigned coordinates.
#include "verif.hpp"

#include <fcppt/array/object.hpp>
#include <fcppt/math/size_constant.hpp>
#include <fcppt/math/size_type.hpp>
#include <fcppt/math/box/center.hpp>
#include <fcppt/math/box/comparison.hpp>
#include <fcppt/math/box/contains.hpp>
#include <fcppt/math/box/contains_point.hpp>
#include <fcppt/math/box/corner_points.hpp>
#include <fcppt/math/box/distance.hpp>
#include <fcppt/math/box/extend_bounding_box.hpp>
#include <fcppt/math/box/init_dim.hpp>
#include <fcppt/math/box/init_max.hpp>
#include <fcppt/math/box/intersection.hpp>
#include <fcppt/math/box/intersects.hpp>
#include <fcppt/math/box/interval.hpp>
#include <fcppt/math/box/null.hpp>
#include <fcppt/math/box/object.hpp>
#include <fcppt/math/box/shrink.hpp>
#include <fcppt/math/box/stretch_absolute.hpp>
#include <fcppt/math/dim/object.hpp>
#include <fcppt/math/vector/object.hpp>
#include <fcppt/tuple/get.hpp>
#include <fcppt/tuple/make.hpp>
#include <fcppt/tuple/object.hpp>

#include <algorithm>
#include <array>
#include <cstddef>
#include <string>
#include <type_traits>
#include <vector>

using namespace verif;
namespace fb = fcppt::math::box;

namespace
{
using A3 = std::array<i64, 3>;
struct RBox
{
  A3 p{{0, 0, 0}}, m{{0, 0, 0}}; // pos, max (exclusive)
};

// ------------------------------------------------------------------ glue
template <typename V, std::size_t N>
V mk(A3 const &a)
{
  using T = typename V::value_type;
  if constexpr (N == 1) return V(static_cast<T>(a[0]));
  else if constexpr (N == 2) return V(static_cast<T>(a[0]), static_cast<T>(a[1]));
  else return V(static_cast<T>(a[0]), static_cast<T>(a[1]), static_cast<T>(a[2]));
}
template <std::size_t N, typename V>
A3 rd(V const &v)
{
  A3 r{{0, 0, 0}};
  for (std::size_t i = 0; i < N; ++i) r[i] = static_cast<i64>(v.get_unsafe(i));
  return r;
}
template <typename T, std::size_t N>
fb::object<T, N> mkbox(RBox const &b)
{
  using box = fb::object<T, N>;
  return box(mk<typename box::vector, N>(b.p), mk<typename box::vector, N>(b.m));
}
template <typename T, fcppt::math::size_type N>
RBox rdbox(fb::object<T, N> const &b)
{
  RBox r;
  r.p = rd<N>(b.pos());
  r.m = rd<N>(b.max());
  return r;
}
std::string show(std::size_t n, A3 const &a)
{
  std::string r = "(";
  for (std::size_t i = 0; i < n; ++i) r += (i ? "," : "") + std::to_string(a[i]);
  return r + ")";
}
std::string show(std::size_t n, RBox const &b) { return "[" + show(n, b.p) + ".." + show(n, b.m) + ")"; }
bool same(std::size_t n, RBox const &a, RBox const &b)
{
  for (std::size_t i = 0; i < n; ++i)
    if (a.p[i] != b.p[i] || a.m[i] != b.m[i]) return false;
  return true;
}
i64 geti(Ints const &c, std::size_t i) { return i < c.size() ? c[i] : 0; }
i64 clampi(i64 v, i64 lo, i64 hi) { return v < lo ? lo : v > hi ? hi : v; }

// ------------------------------------------------------------------ the lattice and the point sets
// Corner coordinates live in [clo,chi], points in [plo,phi] (one step larger where the type allows).
struct Lat
{
  i64 clo, chi, plo, phi;
  i64 side() const { return phi - plo + 1; }
};
// the largest lattice per (type, N); every mask is over this lattice regardless of the tier
constexpr Lat max_lat(bool uns, std::size_t n)
{
  return n == 3 ? (uns ? Lat{0, 6, 0, 7} : Lat{-3, 3, -4, 4}) : (uns ? Lat{0, 8, 0, 9} : Lat{-4, 4, -5, 5});
}
template <std::size_t N>
constexpr std::size_t words() { return N == 1 ? 1 : N == 2 ? 2 : 12; }
template <std::size_t W>
struct PSet
{
  std::array<u64, W> w{};
  void set(std::size_t i) { w[i / 64] |= 1ULL << (i % 64); }
  bool any() const { for (u64 x : w) if (x) return true; return false; }
  bool operator==(PSet const &o) const { return w == o.w; }
  bool operator!=(PSet const &o) const { return !(w == o.w); }
  PSet operator&(PSet const &o) const { PSet r; for (std::size_t i = 0; i < W; ++i) r.w[i] = w[i] & o.w[i]; return r; }
  PSet operator|(PSet const &o) const { PSet r; for (std::size_t i = 0; i < W; ++i) r.w[i] = w[i] | o.w[i]; return r; }
  PSet minus(PSet const &o) const { PSet r; for (std::size_t i = 0; i < W; ++i) r.w[i] = w[i] & ~o.w[i]; return r; }
};

// the documented membership test
bool r_in(std::size_t n, RBox const &b, A3 const &pt)
{
  for (std::size_t i = 0; i < n; ++i)
    if (!(b.p[i] <= pt[i] && pt[i] < b.m[i])) return false;
  return true;
}
template <typename F>
void for_points(std::size_t n, Lat const &l, F const &f)
{
  A3 lo{{l.plo, l.plo, l.plo}}, hi{{l.phi, l.phi, l.phi}};
  for (std::size_t i = n; i < 3; ++i) lo[i] = hi[i] = 0;
  std::size_t idx = 0;
  for (i64 z = lo[2]; z <= hi[2]; ++z)
    for (i64 y = lo[1]; y <= hi[1]; ++y)
      for (i64 x = lo[0]; x <= hi[0]; ++x) f(A3{{x, y, z}}, idx++);
}
template <std::size_t N>
struct Info
{
  PSet<words<N>()> mask; // the points of the box
  bool nonempty{false};
  A3 lo{{0, 0, 0}}, hi{{0, 0, 0}}; // smallest / largest coordinate of a point of the box (if non-empty)
};
// point set of a box by testing every lattice point
template <std::size_t N>
Info<N> r_info(Lat const &l, RBox const &b)
{
  Info<N> r;
  for_points(N, l, [&](A3 const &pt, std::size_t idx) {
    if (!r_in(N, b, pt)) return;
    r.mask.set(idx);
    for (std::size_t i = 0; i < N; ++i)
    {
      if (!r.nonempty || pt[i] < r.lo[i]) r.lo[i] = pt[i];
      if (!r.nonempty || pt[i] > r.hi[i]) r.hi[i] = pt[i];
    }
    r.nonempty = true;
  });
  return r;
}
bool in_corner_lattice(std::size_t n, Lat const &l, RBox const &b)
{
  for (std::size_t i = 0; i < n; ++i)
    if (b.p[i] < l.clo || b.p[i] > l.chi || b.m[i] < l.clo || b.m[i] > l.chi) return false;
  return true;
}
bool degenerate(std::size_t n, RBox const &b)
{
  for (std::size_t i = 0; i < n; ++i)
    if (b.p[i] >= b.m[i]) return true;
  return false;
}
bool ordered(std::size_t n, RBox const &b) // pos <= max in every coordinate
{
  for (std::size_t i = 0; i < n; ++i)
    if (b.p[i] > b.m[i]) return false;
  return true;
}
bool shares_face_value(std::size_t n, RBox const &a, RBox const &b)
{
  for (std::size_t i = 0; i < n; ++i)
    if (a.p[i] == b.p[i] || a.p[i] == b.m[i] || a.m[i] == b.p[i] || a.m[i] == b.m[i]) return true;
  return false;
}

// table of Info for every box with corners in [clo,chi] (filled by r_info)
template <std::size_t N>
struct Table
{
  Lat enumr; // the enumerated corner range (clo, chi); masks are over `lat`
  Lat lat;
  i64 k;
  std::vector<Info<N>> info;
  std::vector<RBox> boxes;
  std::size_t index(RBox const &b) const
  {
    std::size_t idx = 0, mul = 1;
    for (std::size_t i = 0; i < N; ++i) { idx += static_cast<std::size_t>(b.p[i] - enumr.clo) * mul; mul *= static_cast<std::size_t>(k); }
    for (std::size_t i = 0; i < N; ++i) { idx += static_cast<std::size_t>(b.m[i] - enumr.clo) * mul; mul *= static_cast<std::size_t>(k); }
    return idx;
  }
  Table(Lat const &full, i64 clo, i64 chi) : enumr{clo, chi, 0, 0}, lat(full), k(chi - clo + 1)
  {
    std::size_t total = 1;
    for (std::size_t i = 0; i < 2 * N; ++i) total *= static_cast<std::size_t>(k);
    boxes.resize(total);
    info.resize(total);
    for (std::size_t idx = 0; idx < total; ++idx)
    {
      RBox b;
      std::size_t r = idx;
      for (std::size_t i = 0; i < N; ++i) { b.p[i] = clo + static_cast<i64>(r % static_cast<std::size_t>(k)); r /= static_cast<std::size_t>(k); }
      for (std::size_t i = 0; i < N; ++i) { b.m[i] = clo + static_cast<i64>(r % static_cast<std::size_t>(k)); r /= static_cast<std::size_t>(k); }
      boxes[idx] = b;
      info[idx] = r_info<N>(lat, b);
    }
  }
  Info<N> lookup(RBox const &b) const
  {
    if (in_corner_lattice(N, enumr, b)) return info[index(b)];
    return r_info<N>(lat, b);
  }
};

// ------------------------------------------------------------------ pairs of boxes
template <typename T>
constexpr char const *tname() { return std::is_signed_v<T> ? "int" : "unsigned"; }

template <typename T, std::size_t N, typename Lookup>
void pair_case(Lat const &lat, RBox const &a, RBox const &b, Info<N> const &ia, Info<N> const &ib, Lookup const &lookup)
{
  using box = fb::object<T, N>;
  count(shares_face_value(N, a, b) || degenerate(N, a) || degenerate(N, b));
  box const fa = mkbox<T, N>(a), fbx = mkbox<T, N>(b);
  auto const common = ia.mask & ib.mask;
  bool const both = ia.nonempty && ib.nonempty;
  auto const ctx = [&] { return std::string(tname<T>()) + " a=" + show(N, a) + " b=" + show(N, b); };
  // intersection: exactly the common points, for all boxes
  {
    RBox const r = rdbox(fb::intersection(fa, fbx));
    if (!in_corner_lattice(N, lat, r)) fail("box::intersection|corner-outside-operands", ctx() + ": result " + show(N, r));
    else
    {
      Info<N> const ir = lookup(r);
      if (ir.mask != common)
        fail(std::string("box::intersection|point-set|") + (both ? "non-empty operands" : "an empty operand"), ctx() + ": result " + show(N, r) + " has not exactly the common points");
    }
    if (both && !common.any())
    {
      RBox const zero;
      if (!same(N, r, zero)) fail("box::intersection|not-null-box|disjoint non-empty operands", ctx() + ": no common point but the result is " + show(N, r) + ", not the null box");
    }
  }
  // intersects: for non-empty boxes exactly when a common point exists
  if (both)
  {
    bool const r = fb::intersects(fa, fbx);
    if (r != common.any())
      fail(r ? "box::intersects|true-without-common-point" : "box::intersects|false-with-common-point", ctx() + ": intersects = " + (r ? "true" : "false"));
  }
  // contains(outer, inner): for non-empty inner exactly when inner is a subset
  if (ib.nonempty)
  {
    bool const subset = !ib.mask.minus(ia.mask).any();
    bool const r = fb::contains(fa, fbx);
    if (r != subset) fail(r ? "box::contains|true-for-non-subset" : "box::contains|false-for-subset", ctx() + ": contains(a, b) = " + (r ? "true" : "false"));
  }
  // extend_bounding_box: for non-empty boxes the smallest box containing both
  if (both)
  {
    RBox want;
    for (std::size_t i = 0; i < N; ++i)
    {
      want.p[i] = std::min(ia.lo[i], ib.lo[i]);      // smallest coordinate of any point of the union
      want.m[i] = std::max(ia.hi[i], ib.hi[i]) + 1;  // one past the largest
    }
    RBox const r = rdbox(fb::extend_bounding_box(fa, fbx));
    if (!same(N, r, want))
    {
      bool covers = in_corner_lattice(N, lat, r);
      if (covers) covers = !(ia.mask | ib.mask).minus(lookup(r).mask).any();
      fail(covers ? "box::extend_bounding_box|not-smallest" : "box::extend_bounding_box|loses-a-point", ctx() + ": result " + show(N, r) + ", smallest enclosing box is " + show(N, want));
    }
  }
  // distance: interval distance per coordinate. Reading (the weaker one, as for C06): for
  // ordered intervals that are disjoint or touch, the gap; otherwise only "not positive".
  // Signed coordinates only: the documented value is negative for overlapping intervals, so an
  // unsigned value_type is outside the function's domain (the implementation subtracts both ways).
  if constexpr (std::is_signed_v<T>)
  {
    if (ordered(N, a) && ordered(N, b))
    {
      A3 const d = rd<N>(fb::distance(fa, fbx));
      for (std::size_t i = 0; i < N; ++i)
      {
        bool const apart = a.m[i] <= b.p[i] || b.m[i] <= a.p[i];
        i64 const gap = a.m[i] <= b.p[i] ? b.p[i] - a.m[i] : a.p[i] - b.m[i];
        if (apart ? d[i] != gap : d[i] > 0)
        {
          fail(apart ? "box::distance|gap" : "box::distance|positive-for-overlap", ctx() + ": distance = " + show(N, d) + (apart ? ", expected " + str(gap) + " in coordinate " + str(i) : ""));
          break;
        }
      }
    }
  }
  // comparison: == exactly for equal corners, != its negation
  {
    bool const eq = same(N, a, b);
    if ((fa == fbx) != eq) fail(eq ? "box::operator==|false-for-equal" : "box::operator==|true-for-different", ctx());
    if ((fa != fbx) != !eq) fail("box::operator!=|not-negation", ctx());
    // operator<: lexicographic on (pos, size); size is only meaningful without wrap-around
    if (std::is_signed_v<T> || (ordered(N, a) && ordered(N, b)))
    {
      std::array<i64, 6> ka{}, kb{};
      for (std::size_t i = 0; i < N; ++i)
      {
        ka[i] = a.p[i]; kb[i] = b.p[i];
        ka[N + i] = a.m[i] - a.p[i]; kb[N + i] = b.m[i] - b.p[i];
      }
      bool const want = std::lexicographical_compare(ka.begin(), ka.begin() + 2 * N, kb.begin(), kb.begin() + 2 * N);
      if ((fa < fbx) != want) fail("box::operator<|not-lexicographic", ctx() + ": a < b = " + (want ? "false" : "true"));
    }
  }
}

template <typename T, std::size_t N>
void pair_one(RBox const &a, RBox const &b)
{
  constexpr Lat lat = max_lat(std::is_unsigned_v<T>, N);
  pair_case<T, N>(lat, a, b, r_info<N>(lat, a), r_info<N>(lat, b), [&](RBox const &r) { return r_info<N>(lat, r); });
}

// Ints of a pair case: type, N, a.pos[3], a.max[3], b.pos[3], b.max[3]
RBox dec_box(Ints const &c, std::size_t at, std::size_t n, Lat const &l)
{
  RBox b;
  for (std::size_t i = 0; i < n; ++i)
  {
    b.p[i] = clampi(geti(c, at + i), l.clo, l.chi);
    b.m[i] = clampi(geti(c, at + 3 + i), l.clo, l.chi);
  }
  return b;
}
bool dec_uns(Ints const &c) { return (geti(c, 0) & 1) != 0; }
std::size_t dec_n(Ints const &c) { return static_cast<std::size_t>(clampi(geti(c, 1), 1, 3)); }
template <typename F>
void with_tn(bool uns, std::size_t n, F const &f)
{
  auto const g = [&](auto tag) {
    using T = decltype(tag);
    if (n == 1) f(T{}, std::integral_constant<std::size_t, 1>{});
    else if (n == 2) f(T{}, std::integral_constant<std::size_t, 2>{});
    else f(T{}, std::integral_constant<std::size_t, 3>{});
  };
  if (uns) g(0U);
  else g(0);
}
void set_cur_pair(bool uns, std::size_t n, RBox const &a, RBox const &b)
{
  cur({uns ? 1 : 0, static_cast<i64>(n), a.p[0], a.p[1], a.p[2], a.m[0], a.m[1], a.m[2], b.p[0], b.p[1], b.p[2], b.m[0], b.m[1], b.m[2]});
}
void pairs_one(Ints const &c)
{
  bool const uns = dec_uns(c);
  std::size_t const n = dec_n(c);
  Lat const l = max_lat(uns, n);
  RBox const a = dec_box(c, 2, n, l), b = dec_box(c, 8, n, l);
  with_tn(uns, n, [&](auto t, auto N) { pair_one<decltype(t), N()>(a, b); });
}
std::string pairs_describe(Ints const &c)
{
  bool const uns = dec_uns(c);
  std::size_t const n = dec_n(c);
  Lat const l = max_lat(uns, n);
  return std::string("pair of ") + (uns ? "unsigned" : "int") + " boxes, N=" + std::to_string(n) + ": a=" + show(n, dec_box(c, 2, n, l)) + " b=" + show(n, dec_box(c, 8, n, l));
}
// corner range used by the enumeration: half = 3 -> [-3,3] (unsigned [0,6]), half = 4 -> [-4,4] ([0,8])
template <typename T, std::size_t N>
void pairs_run(i64 half, std::size_t slice, std::size_t slices)
{
  constexpr bool uns = std::is_unsigned_v<T>;
  constexpr Lat lat = max_lat(uns, N);
  i64 const clo = uns ? 0 : -half, chi = uns ? 2 * half : half;
  Table<N> const tab(lat, clo, chi);
  auto const lookup = [&](RBox const &r) { return tab.lookup(r); };
  for (std::size_t i = slice; i < tab.boxes.size(); i += slices)
    for (std::size_t j = 0; j < tab.boxes.size(); ++j)
    {
      set_cur_pair(uns, N, tab.boxes[i], tab.boxes[j]);
      pair_case<T, N>(lat, tab.boxes[i], tab.boxes[j], tab.info[i], tab.info[j], lookup);
    }
}
char const *const pairs_rule =
    "an ordered pair of boxes with integer corners (1-D: [-4,4]; 2-D: [-3,3], thorough [-4,4]; unsigned shifted to start at 0): the boxes share a coordinate value on some face (touching, nested on an edge) or one of them is degenerate/inverted";
i64 half2d() { return opts().thorough() ? 4 : 3; }
Reg const r_pairs1{"pairs_1d", Kind::exhaustive, pairs_rule, [] { pairs_run<int, 1>(4, 0, 1); pairs_run<unsigned, 1>(4, 0, 1); }, pairs_one, pairs_describe};
#define C13_P2(i) \
  Reg const VERIF_CAT(r_pairs2i_, i){"pairs_2d_int_" #i, Kind::exhaustive, pairs_rule, [] { pairs_run<int, 2>(half2d(), i, 8); }, pairs_one, pairs_describe}; \
  Reg const VERIF_CAT(r_pairs2u_, i){"pairs_2d_unsigned_" #i, Kind::exhaustive, pairs_rule, [] { pairs_run<unsigned, 2>(half2d(), i, 8); }, pairs_one, pairs_describe};
C13_P2(0) C13_P2(1) C13_P2(2) C13_P2(3) C13_P2(4) C13_P2(5) C13_P2(6) C13_P2(7)

// 3-D: seeded random pairs, corners in [-3,3]^3 (unsigned [0,6]^3)
RBox random_box(SplitMix &r, Lat const &l, std::size_t n)
{
  RBox b;
  u64 const span = static_cast<u64>(l.chi - l.clo + 1);
  for (std::size_t i = 0; i < n; ++i)
  {
    b.p[i] = l.clo + static_cast<i64>(r.next() % span);
    // 1/8: degenerate in this coordinate, else independent (inverted in about 3/7 of those)
    b.m[i] = r.next() % 8 == 0 ? b.p[i] : l.clo + static_cast<i64>(r.next() % span);
  }
  return b;
}
Reg const r_pairs3{
    "pairs_3d_random", Kind::random,
    "a seeded random ordered pair of 3-D boxes with corners in [-3,3]^3 (unsigned: [0,6]^3), the second box in 1/4 of the cases a copy of the first with one face moved: the boxes share a coordinate value on some face or one is degenerate/inverted",
    [] {
      SplitMix r(opts().seed * 1313 + static_cast<u64>(opts().shard) * 7919 + 5);
      u64 const n = opts().thorough() ? 400000 : 60000;
      for (u64 k = 0; k < n; ++k)
      {
        bool const uns = r.next() % 2 != 0;
        Lat const l = max_lat(uns, 3);
        RBox const a = random_box(r, l, 3);
        RBox b = random_box(r, l, 3);
        if (r.next() % 4 == 0)
        {
          b = a;
          std::size_t const i = static_cast<std::size_t>(r.next() % 3);
          i64 &f = r.next() % 2 ? b.p[i] : b.m[i];
          f = clampi(f + static_cast<i64>(r.next() % 3) - 1, l.clo, l.chi);
        }
        set_cur_pair(uns, 3, a, b);
        if (uns) pair_one<unsigned, 3>(a, b);
        else pair_one<int, 3>(a, b);
      }
    },
    [](Ints const &c) {
      Ints d = c;
      if (d.size() < 2) d.resize(2);
      d[1] = 3;
      pairs_one(d);
    },
    pairs_describe};

// ------------------------------------------------------------------ box and point
template <typename T, std::size_t N>
void point_case(RBox const &b, A3 const &pt)
{
  using box = fb::object<T, N>;
  using vec = typename box::vector;
  bool nt = degenerate(N, b);
  for (std::size_t i = 0; i < N; ++i) nt = nt || pt[i] == b.p[i] || pt[i] == b.m[i] || pt[i] + 1 == b.p[i] || pt[i] + 1 == b.m[i];
  count(nt);
  box const fbx = mkbox<T, N>(b);
  vec const fp = mk<vec, N>(pt);
  bool const in = r_in(N, b, pt);
  auto const ctx = [&] { return std::string(tname<T>()) + " box " + show(N, b) + " point " + show(N, pt); };
  if (fb::contains_point(fbx, fp) != in)
    fail(in ? "box::contains_point|member-rejected" : "box::contains_point|non-member-accepted", ctx() + ": contains_point = " + (in ? "false" : "true"));
  // extend_bounding_box(box, point). Reading: "the same box if the point is contained"; otherwise only
  // that the result still contains every point of the box and bounds the point (pos <= p <= max).
  RBox const e = rdbox(fb::extend_bounding_box(fbx, fp));
  if (in)
  {
    if (!same(N, e, b)) fail("box::extend_bounding_box(point)|changed-although-contained", ctx() + ": result " + show(N, e));
  }
  else if (!degenerate(N, b))
  {
    bool ok = true;
    for (std::size_t i = 0; i < N; ++i) ok = ok && e.p[i] <= b.p[i] && e.m[i] >= b.m[i] && e.p[i] <= pt[i] && pt[i] <= e.m[i];
    if (!ok) fail("box::extend_bounding_box(point)|does-not-enclose", ctx() + ": result " + show(N, e));
  }
}
void set_cur_point(bool uns, std::size_t n, RBox const &b, A3 const &pt)
{
  cur({uns ? 1 : 0, static_cast<i64>(n), b.p[0], b.p[1], b.p[2], b.m[0], b.m[1], b.m[2], pt[0], pt[1], pt[2]});
}
A3 dec_point(Ints const &c, std::size_t at, std::size_t n, Lat const &l)
{
  A3 p{{0, 0, 0}};
  for (std::size_t i = 0; i < n; ++i) p[i] = clampi(geti(c, at + i), l.plo, l.phi);
  return p;
}
void point_one(Ints const &c)
{
  bool const uns = dec_uns(c);
  std::size_t const n = dec_n(c);
  Lat const l = max_lat(uns, n);
  RBox const b = dec_box(c, 2, n, l);
  A3 const pt = dec_point(c, 8, n, l);
  with_tn(uns, n, [&](auto t, auto N) { point_case<decltype(t), N()>(b, pt); });
}
std::string point_describe(Ints const &c)
{
  bool const uns = dec_uns(c);
  std::size_t const n = dec_n(c);
  Lat const l = max_lat(uns, n);
  return std::string(uns ? "unsigned" : "int") + " N=" + std::to_string(n) + " box " + show(n, dec_box(c, 2, n, l)) + " point " + show(n, dec_point(c, 8, n, l));
}
template <typename F>
void for_boxes(std::size_t n, i64 clo, i64 chi, F const &f)
{
  i64 const k = chi - clo + 1;
  i64 total = 1;
  for (std::size_t i = 0; i < 2 * n; ++i) total *= k;
  for (i64 idx = 0; idx < total; ++idx)
  {
    RBox b;
    i64 r = idx;
    for (std::size_t i = 0; i < n; ++i) { b.p[i] = clo + r % k; r /= k; }
    for (std::size_t i = 0; i < n; ++i) { b.m[i] = clo + r % k; r /= k; }
    f(b);
  }
}
template <typename T, std::size_t N>
void points_run(i64 half)
{
  constexpr bool uns = std::is_unsigned_v<T>;
  i64 const clo = uns ? 0 : -half, chi = uns ? 2 * half : half;
  Lat const l{clo, chi, uns ? 0 : clo - 1, chi + 1};
  for_boxes(N, clo, chi, [&](RBox const &b) {
    for_points(N, l, [&](A3 const &pt, std::size_t) {
      set_cur_point(uns, N, b, pt);
      point_case<T, N>(b, pt);
    });
  });
}
char const *const point_rule =
    "a box (1-D corners in [-4,4], 2-D [-3,3], thorough [-4,4]; unsigned shifted to 0) and a lattice point one step beyond: the point has a coordinate on or directly below a face value of the box, or the box is degenerate/inverted";
Reg const r_points1{"box_point_1d", Kind::exhaustive, point_rule, [] { points_run<int, 1>(4); points_run<unsigned, 1>(4); }, point_one, point_describe};
Reg const r_points2i{"box_point_2d_int", Kind::exhaustive, point_rule, [] { points_run<int, 2>(half2d()); }, point_one, point_describe};
Reg const r_points2u{"box_point_2d_unsigned", Kind::exhaustive, point_rule, [] { points_run<unsigned, 2>(half2d()); }, point_one, point_describe};
Reg const r_points3{
    "box_point_3d_random", Kind::random, "a seeded random 3-D box with corners in [-3,3]^3 (unsigned [0,6]^3) and a point of the lattice one step larger; non-trivial as in box_point_1d",
    [] {
      SplitMix r(opts().seed * 4241 + static_cast<u64>(opts().shard) * 104729 + 11);
      u64 const n = opts().thorough() ? 2000000 : 300000;
      for (u64 k = 0; k < n; ++k)
      {
        bool const uns = r.next() % 2 != 0;
        Lat const l = max_lat(uns, 3);
        RBox const b = random_box(r, l, 3);
        A3 pt{{0, 0, 0}};
        for (std::size_t i = 0; i < 3; ++i)
        {
          u64 const w = r.next();
          // half of the coordinates are drawn next to a face of the box
          pt[i] = w % 2 ? clampi((w & 2 ? b.p[i] : b.m[i]) + static_cast<i64>((w >> 2) % 3) - 1, l.plo, l.phi) : l.plo + static_cast<i64>((w >> 2) % static_cast<u64>(l.side()));
        }
        set_cur_point(uns, 3, b, pt);
        if (uns) point_case<unsigned, 3>(b, pt);
        else point_case<int, 3>(b, pt);
      }
    },
    [](Ints const &c) {
      Ints d = c;
      if (d.size() < 2) d.resize(2);
      d[1] = 3;
      point_one(d);
    },
    point_describe};

// ------------------------------------------------------------------ a single box: accessors, size, corners, center, constructors
template <typename T, std::size_t N>
void single_case(RBox const &b)
{
  using box = fb::object<T, N>;
  using vec = typename box::vector;
  using dim = typename box::dim;
  count(degenerate(N, b));
  box const fbx = mkbox<T, N>(b);
  auto const ctx = [&] { return std::string(tname<T>()) + " box " + show(N, b); };
  if (rd<N>(fbx.pos()) != b.p || rd<N>(fbx.max()) != b.m) fail("box::object|pos-max-accessors", ctx() + ": pos() = " + show(N, rd<N>(fbx.pos())) + " max() = " + show(N, rd<N>(fbx.max())));
  if (static_cast<i64>(fbx.left()) != b.p[0] || static_cast<i64>(fbx.right()) != b.m[0]) fail("box::object|left-right", ctx());
  if constexpr (N >= 2)
    if (static_cast<i64>(fbx.top()) != b.p[1] || static_cast<i64>(fbx.bottom()) != b.m[1]) fail("box::object|top-bottom", ctx());
  if constexpr (N >= 3)
    if (static_cast<i64>(fbx.front()) != b.p[2] || static_cast<i64>(fbx.back()) != b.m[2]) fail("box::object|front-back", ctx());
  {
    A3 const i0{{static_cast<i64>(fcppt::tuple::get<0>(fb::interval<0>(fbx))), static_cast<i64>(fcppt::tuple::get<1>(fb::interval<0>(fbx))), 0}};
    if (i0[0] != b.p[0] || i0[1] != b.m[0]) fail("box::interval|value", ctx() + ": interval<0> = (" + str(i0[0]) + "," + str(i0[1]) + ")");
    if constexpr (N >= 2)
    {
      auto const i1 = fb::interval<N - 1>(fbx);
      if (static_cast<i64>(fcppt::tuple::get<0>(i1)) != b.p[N - 1] || static_cast<i64>(fcppt::tuple::get<1>(i1)) != b.m[N - 1]) fail("box::interval|value", ctx() + ": interval<N-1> wrong");
    }
  }
  // init_max: the pairs are (min, max) per coordinate
  {
    box const r = fb::init_max<box>([&b]<fcppt::math::size_type I>(fcppt::math::size_constant<I>) { return fcppt::tuple::make(static_cast<T>(b.p[I]), static_cast<T>(b.m[I])); });
    if (!same(N, rdbox(r), b)) fail("box::init_max|value", ctx() + ": result " + show(N, rdbox(r)));
  }
  // null
  {
    RBox const zero;
    if (!same(N, rdbox(fb::null<box>()), zero)) fail("box::null|value", "null box is " + show(N, rdbox(fb::null<box>())));
  }
  // the size-related clauses: signed always, unsigned only for pos <= max
  if (std::is_signed_v<T> || ordered(N, b))
  {
    A3 sz{{0, 0, 0}};
    for (std::size_t i = 0; i < N; ++i) sz[i] = b.m[i] - b.p[i];
    if (rd<N>(fbx.size()) != sz) fail("box::object::size|value", ctx() + ": size() = " + show(N, rd<N>(fbx.size())) + ", expected max - pos = " + show(N, sz));
    box const viadim(mk<vec, N>(b.p), mk<dim, N>(sz));
    if (!same(N, rdbox(viadim), b)) fail("box::object|pos-size-ctor", ctx() + ": box(pos, size) = " + show(N, rdbox(viadim)));
    box const r = fb::init_dim<box>([&b, &sz]<fcppt::math::size_type I>(fcppt::math::size_constant<I>) { return fcppt::tuple::make(static_cast<T>(b.p[I]), static_cast<T>(sz[I])); });
    if (!same(N, rdbox(r), b)) fail("box::init_dim|value", ctx() + ": result " + show(N, rdbox(r)));
    // corner_points: the 2^N combinations of pos/max (as a multiset; no order is documented)
    std::vector<A3> want, got;
    for (std::size_t k = 0; k < (std::size_t{1} << N); ++k)
    {
      A3 c{{0, 0, 0}};
      for (std::size_t i = 0; i < N; ++i) c[i] = (k >> i) & 1 ? b.m[i] : b.p[i];
      want.push_back(c);
    }
    auto const cp = fb::corner_points(fbx);
    for (auto const &v : cp) got.push_back(rd<N>(v));
    std::sort(want.begin(), want.end());
    std::sort(got.begin(), got.end());
    if (want != got) fail("box::corner_points|multiset", ctx() + ": corner points differ from the 2^N combinations of pos/max");
  }
  // center: pos + size/2 computed in T; demanded for pos <= max, where it must also be a point of a non-empty box
  if (ordered(N, b))
  {
    A3 want{{0, 0, 0}};
    for (std::size_t i = 0; i < N; ++i) want[i] = b.p[i] + (b.m[i] - b.p[i]) / 2;
    A3 const c = rd<N>(fb::center(fbx));
    if (c != want) fail("box::center|value", ctx() + ": center = " + show(N, c) + ", expected " + show(N, want));
    if (!degenerate(N, b) && !r_in(N, b, c)) fail("box::center|outside-box", ctx() + ": center = " + show(N, c));
  }
  if (!(fbx == fbx) || fbx != fbx || fbx < fbx) fail("box::comparison|reflexive", ctx());
  // the non-const pos() / max() hand out references: a box whose corners were WRITTEN through them
  // is the box with those corners for every other member and function (size, comparison, corners)
  {
    box m = fb::null<box>();
    m.max() = fbx.max();
    m.pos() = fbx.pos();
    if (!same(N, rdbox(m), b)) fail("box::object|corners-written-through-accessors|pos-max", ctx() + ": reads back as " + show(N, rdbox(m)));
    if (!(m == fbx) || m != fbx) fail("box::object|corners-written-through-accessors|comparison", ctx() + ": differs from the box constructed with these corners");
    if (std::is_signed_v<T> || ordered(N, b))
    {
      if (!(m.size() == fbx.size())) fail("box::object|corners-written-through-accessors|size", ctx() + ": size() = " + show(N, rd<N>(m.size())) + " after writing the corners, the constructed box has " + show(N, rd<N>(fbx.size())));
      auto cm = fb::corner_points(m);
      auto cf = fb::corner_points(fbx);
      std::vector<A3> a, c2;
      for (auto const &v : cm) a.push_back(rd<N>(v));
      for (auto const &v : cf) c2.push_back(rd<N>(v));
      std::sort(a.begin(), a.end());
      std::sort(c2.begin(), c2.end());
      if (a != c2) fail("box::object|corners-written-through-accessors|corner_points", ctx());
    }
  }
}
void set_cur_single(bool uns, std::size_t n, RBox const &b) { cur({uns ? 1 : 0, static_cast<i64>(n), b.p[0], b.p[1], b.p[2], b.m[0], b.m[1], b.m[2]}); }
void single_one(Ints const &c)
{
  bool const uns = dec_uns(c);
  std::size_t const n = dec_n(c);
  RBox const b = dec_box(c, 2, n, max_lat(uns, n));
  with_tn(uns, n, [&](auto t, auto N) { single_case<decltype(t), N()>(b); });
}
std::string single_describe(Ints const &c)
{
  bool const uns = dec_uns(c);
  std::size_t const n = dec_n(c);
  return std::string(uns ? "unsigned" : "int") + " N=" + std::to_string(n) + " box " + show(n, dec_box(c, 2, n, max_lat(uns, n)));
}
template <typename T, std::size_t N>
void single_run(i64 half)
{
  constexpr bool uns = std::is_unsigned_v<T>;
  for_boxes(N, uns ? 0 : -half, uns ? 2 * half : half, [&](RBox const &b) {
    set_cur_single(uns, N, b);
    single_case<T, N>(b);
  });
}
Reg const r_single{
    "single_box", Kind::exhaustive,
    "every box with corners in [-4,4] (1-D, 2-D) or [-2,2] (3-D), int and unsigned (shifted): degenerate or inverted in some coordinate",
    [] {
      single_run<int, 1>(4); single_run<unsigned, 1>(4);
      single_run<int, 2>(4); single_run<unsigned, 2>(4);
      single_run<int, 3>(2); single_run<unsigned, 3>(2);
    },
    single_one, single_describe};

// ------------------------------------------------------------------ shrink / stretch_absolute
template <typename T, std::size_t N>
void shrink_case(RBox const &b, A3 const &v)
{
  using box = fb::object<T, N>;
  using vec = typename box::vector;
  bool zero = false, collapses = false;
  RBox ws, wt;
  bool representable = true;
  for (std::size_t i = 0; i < N; ++i)
  {
    ws.p[i] = b.p[i] + v[i]; ws.m[i] = b.m[i] - v[i];
    wt.p[i] = b.p[i] - v[i]; wt.m[i] = b.m[i] + v[i];
    zero = zero || v[i] == 0;
    collapses = collapses || ws.p[i] >= ws.m[i] || wt.p[i] >= wt.m[i];
    if (std::is_unsigned_v<T> && (ws.m[i] < 0 || wt.p[i] < 0)) representable = false;
  }
  if (!representable) { skip(); return; }
  count(zero || collapses);
  box const fbx = mkbox<T, N>(b);
  vec const fv = mk<vec, N>(v);
  auto const ctx = [&] { return std::string(tname<T>()) + " box " + show(N, b) + " by " + show(N, v); };
  RBox const s = rdbox(fb::shrink(fbx, fv));
  if (!same(N, s, ws)) fail("box::shrink|faces", ctx() + ": shrink = " + show(N, s) + ", expected " + show(N, ws));
  RBox const t = rdbox(fb::stretch_absolute(fbx, fv));
  if (!same(N, t, wt)) fail("box::stretch_absolute|faces", ctx() + ": stretch_absolute = " + show(N, t) + ", expected " + show(N, wt));
}
void shrink_one(Ints const &c)
{
  bool const uns = dec_uns(c);
  std::size_t const n = dec_n(c);
  Lat const l = max_lat(uns, n);
  RBox const b = dec_box(c, 2, n, l);
  A3 v{{0, 0, 0}};
  for (std::size_t i = 0; i < n; ++i) v[i] = clampi(geti(c, 8 + i), uns ? 0 : -2, 2);
  with_tn(uns, n, [&](auto t, auto N) { shrink_case<decltype(t), N()>(b, v); });
}
template <typename T, std::size_t N>
void shrink_run(i64 half)
{
  constexpr bool uns = std::is_unsigned_v<T>;
  for_boxes(N, uns ? 0 : -half, uns ? 2 * half : half, [&](RBox const &b) {
    A3 lo{{uns ? 0 : -2, uns ? 0 : -2, uns ? 0 : -2}}, hi{{2, 2, 2}};
    for (std::size_t i = N; i < 3; ++i) lo[i] = hi[i] = 0;
    for (i64 z = lo[2]; z <= hi[2]; ++z)
      for (i64 y = lo[1]; y <= hi[1]; ++y)
        for (i64 x = lo[0]; x <= hi[0]; ++x)
        {
          cur({uns ? 1 : 0, static_cast<i64>(N), b.p[0], b.p[1], b.p[2], b.m[0], b.m[1], b.m[2], x, y, z});
          shrink_case<T, N>(b, A3{{x, y, z}});
        }
  });
}
Reg const r_shrink{
    "shrink_stretch", Kind::exhaustive,
    "a box (corners [-3,3] in 1-D/2-D, [-1,1] in 3-D; unsigned shifted) and a vector with components -2..2 (unsigned 0..2, results that would wrap below 0 are skipped): a zero component, or a result that is empty/inverted in some coordinate",
    [] {
      shrink_run<int, 1>(3); shrink_run<unsigned, 1>(3);
      shrink_run<int, 2>(3); shrink_run<unsigned, 2>(3);
      shrink_run<int, 3>(1); shrink_run<unsigned, 3>(1);
    },
    shrink_one,
    [](Ints const &c) {
      std::size_t const n = dec_n(c);
      A3 v{{0, 0, 0}};
      for (std::size_t i = 0; i < n; ++i) v[i] = clampi(geti(c, 8 + i), dec_uns(c) ? 0 : -2, 2);
      return "shrink/stretch_absolute " + single_describe(c) + " by " + show(n, v);
    }};
}
