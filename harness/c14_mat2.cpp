// VERIF: thorough_flavour=fast quick_shards=8
// C14 - matrix arithmetic obeys the exact ring and module laws: exhaustive over all 2x2 int matrices
// with entries in {-1,0,1,2} (256 matrices): every single matrix, all pairs, triples (all 16.7 M in the
// thorough tier, all pairs x a seeded sample of third operands in quick). Oracle: the naive array
// reference of c14_common.hpp AND the algebraic identities; static and view storage per operand.
#include "c14_matrix.hpp"

using namespace verif;
using namespace c14;

namespace
{
using M2 = Mat<int, 2, 2>;
constexpr int vals[4] = {-1, 0, 1, 2};
M2 m2(i64 const i)
{
  return M2{{vals[i & 3], vals[(i >> 2) & 3], vals[(i >> 4) & 3], vals[(i >> 6) & 3]}};
}
Vec<int, 2> v2(i64 const i) { return Vec<int, 2>{{vals[i & 3], vals[(i >> 2) & 3]}}; }
std::array<bool, 256> const diag_table = [] {
  std::array<bool, 256> r{};
  for (i64 i = 0; i < 256; ++i) r[static_cast<std::size_t>(i)] = is_diagonal<int, 2>(m2(i));
  return r;
}();
constexpr i64 null_index = 85; // digits 1,1,1,1 = the null matrix (diagonal): the default operands are trivial
bool nontrivial(i64 a, i64 b = null_index, i64 c = null_index)
{
  return !diag_table[static_cast<std::size_t>(a & 255)] || !diag_table[static_cast<std::size_t>(b & 255)] || !diag_table[static_cast<std::size_t>(c & 255)];
}
std::string d3(Ints const &c, std::size_t n)
{
  std::string r;
  for (std::size_t i = 0; i < n; ++i) r += (i ? ", " : "") + std::string(1, static_cast<char>('A' + i)) + " = " + show_arr(m2(c.at(i) & 255), 2);
  return r;
}

// {matrix, mode, vector, scalar}
void single_one(Ints const &c)
{
  i64 const a = c.at(0) & 255;
  count(nontrivial(a));
  check_single<int, 2>(m2(a), static_cast<int>(c.at(1) & 3), v2(c.at(2) & 15), static_cast<int>(c.at(3)));
}
Reg const r_single{
    "m2_single", Kind::exhaustive,
    "every 2x2 matrix over {-1,0,1,2} x storage x vector over {-1,0,1,2}^2 x scalar in [-2,3]; non-trivial: the matrix is not diagonal (null, identity, diagonal excluded)",
    [] {
      for (i64 a = 0; a < 256; ++a)
        for (i64 mode = 0; mode < 4; ++mode)
          for (i64 v = 0; v < 16; ++v)
          {
            i64 const k = (a + mode + v) % 6 - 2;
            Ints const c{a, mode, v, k};
            cur4(a, mode, v, k);
            single_one(c);
          }
    },
    single_one,
    [](Ints const &c) {
      return "2x2 " + show_arr(m2(c.at(0) & 255), 2) + " (" + storage_name(static_cast<int>(c.at(1) & 1)) + "), v = " + show_arr(v2(c.at(2) & 15)) + ", k = " + std::to_string(c.at(3));
    }};

// {A, B, mode, vector}
void pair_one(Ints const &c)
{
  i64 const a = c.at(0) & 255, b = c.at(1) & 255;
  count(nontrivial(a, b));
  check_pair<int, 2>(m2(a), m2(b), static_cast<int>(c.at(2) & 3), v2(c.at(3) & 15), true);
}
bool const r_pairs = (add_section(
    "m2_pairs", Kind::exhaustive,
    "all 65536 pairs of 2x2 matrices over {-1,0,1,2}, all four storage combinations; non-trivial: A or B is not diagonal",
    [] {
      u64 idx = 0;
      for (i64 a = 0; a < 256; ++a)
        for (i64 b = 0; b < 256; ++b)
        {
          if (static_cast<int>(idx++ % static_cast<u64>(opts().nshards)) != opts().shard) continue;
          for (i64 mode = 0; mode < 4; ++mode)
          {
            i64 const v = (a * 7 + b * 3 + mode) & 15;
            cur4(a, b, mode, v);
            pair_one({a, b, mode, v});
          }
        }
    },
    pair_one,
    [](Ints const &c) { return d3(c, 2) + " storages " + std::to_string(c.at(2) & 3) + ", v = " + show_arr(v2(c.at(3) & 15)); }).self_sharded = true);

// {A, B, C, mode}
void triple_one(Ints const &c)
{
  i64 const a = c.at(0) & 255, b = c.at(1) & 255, cc = c.at(2) & 255;
  count(nontrivial(a, b, cc));
  check_triple<int, 2>(m2(a), m2(b), m2(cc), static_cast<int>(c.at(3) & 7));
}
bool const r_triples = (add_section(
    "m2_triples", Kind::exhaustive,
    "triples of 2x2 matrices over {-1,0,1,2}: all 16.7 M in the thorough tier, all pairs x 6 seeded third operands in quick; storage combination varies with the triple; non-trivial: one of A, B, C is not diagonal",
    [] {
      bool const th = opts().thorough();
      SplitMix r(opts().seed * 1000003ULL + 41);
      std::vector<i64> thirds;
      if (th)
        for (i64 c = 0; c < 256; ++c) thirds.push_back(c);
      else
        while (thirds.size() < 6)
        {
          i64 const c = static_cast<i64>(r.next() % 256);
          bool dup = false;
          for (i64 t : thirds) dup = dup || t == c;
          if (!dup) thirds.push_back(c);
        }
      u64 idx = 0;
      for (i64 a = 0; a < 256; ++a)
        for (i64 b = 0; b < 256; ++b)
        {
          if (static_cast<int>(idx++ % static_cast<u64>(opts().nshards)) != opts().shard) continue;
          for (i64 c : thirds)
          {
            i64 const mode = (a + 3 * b + 5 * c + (a >> 4) + (b >> 5)) & 7;
            cur4(a, b, c, mode);
            triple_one({a, b, c, mode});
          }
        }
    },
    triple_one,
    [](Ints const &c) { return d3(c, 3) + " storages " + std::to_string(c.at(3) & 7); }).self_sharded = true);
}
