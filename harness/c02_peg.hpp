// C02 - parser combinators implement ordered-choice (PEG) semantics for every grammar.
// Grammars are generated at run time: every combinator node is the REAL fcppt template instantiated
// on type-erased children (fcppt::parse::base) and converted back to one uniform result type (a
// printable derivation string). Oracle: a PEG interpreter written from the documentation over
// (grammar AST, input, index). Compared: success/failure, the fatal flag of the error, the value.
#ifndef VERIF_C02_PEG_HPP
#define VERIF_C02_PEG_HPP

#include "verif.hpp"

#include <fcppt/make_cref.hpp>
#include <fcppt/recursive.hpp>
#include <fcppt/reference.hpp>
#include <fcppt/unit.hpp>
#include <fcppt/either/make_failure.hpp>
#include <fcppt/either/match.hpp>
#include <fcppt/optional/maybe.hpp>
#include <fcppt/optional/object.hpp>
#include <fcppt/parse/base_decl.hpp>
#include <fcppt/parse/base_impl.hpp>
#include <fcppt/parse/base_unique_ptr.hpp>
#include <fcppt/parse/basic_char.hpp>
#include <fcppt/parse/basic_char_set.hpp>
#include <fcppt/parse/basic_literal.hpp>
#include <fcppt/parse/basic_stream_impl.hpp>
#include <fcppt/parse/basic_string.hpp>
#include <fcppt/parse/construct.hpp>
#include <fcppt/parse/convert_const.hpp>
#include <fcppt/parse/epsilon.hpp>
#include <fcppt/parse/error.hpp>
#include <fcppt/parse/fail.hpp>
#include <fcppt/parse/float.hpp>
#include <fcppt/parse/grammar.hpp>
#include <fcppt/parse/grammar_parse_string.hpp>
#include <fcppt/parse/int.hpp>
#include <fcppt/parse/list.hpp>
#include <fcppt/parse/make_base.hpp>
#include <fcppt/parse/make_convert.hpp>
#include <fcppt/parse/make_convert_if.hpp>
#include <fcppt/parse/make_fatal.hpp>
#include <fcppt/parse/make_ignore.hpp>
#include <fcppt/parse/make_lexeme.hpp>
#include <fcppt/parse/make_recursive.hpp>
#include <fcppt/parse/make_success.hpp>
#include <fcppt/parse/named.hpp>
#include <fcppt/parse/phrase_parse_stream.hpp>
#include <fcppt/parse/phrase_parse_string.hpp>
#include <fcppt/parse/result.hpp>
#include <fcppt/parse/separator.hpp>
#include <fcppt/parse/space_set.hpp>
#include <fcppt/parse/tag.hpp>
#include <fcppt/parse/uint.hpp>
#include <fcppt/parse/operators/alternative.hpp>
#include <fcppt/parse/operators/complement.hpp>
#include <fcppt/parse/operators/not.hpp>
#include <fcppt/parse/operators/optional.hpp>
#include <fcppt/parse/operators/repetition.hpp>
#include <fcppt/parse/operators/repetition_plus.hpp>
#include <fcppt/parse/operators/sequence.hpp>
#include <fcppt/parse/skipper/basic_char_set.hpp>
#include <fcppt/parse/skipper/basic_literal.hpp>
#include <fcppt/parse/skipper/epsilon.hpp>
#include <fcppt/parse/skipper/result.hpp>
#include <fcppt/parse/skipper/run.hpp>
#include <fcppt/parse/skipper/tag.hpp>
#include <fcppt/parse/skipper/operators/repetition.hpp>
#include <fcppt/parse/skipper/operators/sequence.hpp>
#include <fcppt/tuple/get.hpp>
#include <fcppt/tuple/object.hpp>

#include <cstdio>
#include <cstdlib>
#include <memory>
#include <new>
#include <sstream>
#include <string>
#include <vector>

namespace c02
{
using namespace verif;
namespace fp = fcppt::parse;
namespace sk = fcppt::parse::skipper;

using R = std::string; // the uniform result: a printable derivation

enum kind_t
{
  LIT, SET, COMPL, ANY, STR, EPS, FAIL, INT, UINT, FLOAT, SEQ, ALT, REP, PLUS, OPT, NOT, FATAL, LEXEME, SEP, LIST, CONVIF, NAMED, IGNORE, CONSTRUCT, REF
};
struct node
{
  kind_t k;
  std::string s;
  std::vector<std::shared_ptr<node>> c;
  int ref = -1;
};
using np = std::shared_ptr<node>;

inline bool convif_ok(R const &r) { return r.size() % 3 != 0; }
inline std::string fmt_double(double d)
{
  char b[64];
  std::snprintf(b, sizeof b, "%a", d);
  return b;
}
struct wrapped
{
  R inner;
};

inline std::string show(np const &n)
{
  static char const *nm[] = {"lit", "set", "compl", "any", "str", "eps", "fail", "int", "uint", "float", "seq", "alt", "rep", "plus", "opt", "not", "fatal", "lexeme", "sep", "list", "convif", "named", "ignore", "construct", "ref"};
  std::string r = nm[n->k];
  if (!n->s.empty())
  {
    r += "'";
    for (char ch : n->s) r += ch == '\t' ? std::string("\\t") : ch == '\xff' ? std::string("\\xff") : std::string(1, ch);
    r += "'";
  }
  if (n->k == REF) r += std::to_string(n->ref);
  if (!n->c.empty())
  {
    r += "(";
    for (std::size_t i = 0; i < n->c.size(); ++i) r += (i ? " " : "") + show(n->c[i]);
    r += ")";
  }
  return r;
}

inline std::string const &alphabet()
{
  static std::string const a = "ab, ()1-.2\t\xff"; // 0xFF: the char whose value collides with a char-converted EOF
  return a;
}
constexpr std::size_t alpha_main = 10; // the first 10 are used for grammar literals; '\t' only by skippers/inputs, 0xFF only by inputs
constexpr int n_skippers = 8;

// ------------------------------------------------------------------------------------- reference model
struct res
{
  bool ok;
  bool fatal;
  R val;
  std::size_t pos;
};
struct model
{
  std::string const &in;
  std::vector<np> const &rules;
  // leaves == false: values are derivation strings (dynamic family);
  // leaves == true: values are the left-to-right sequence of leaf values (static family), which is
  // insensitive to tuple nesting / variant wrapping but not to a dropped, duplicated or wrong element
  bool leaves{false};
  // non-trivial rule bookkeeping
  mutable bool rewound_after_consuming{false}, skipper_consumed{false}, fatal_seen{false};
  mutable long steps{0};

  static bool is_in(std::string const &set, char c) { return set.find(c) != std::string::npos; }
  bool skip1(std::size_t &p, std::string const &set) const
  {
    if (p >= in.size()) return false;
    char const c = in[p++];
    return is_in(set, c);
  }
  // the six skippers: 0 epsilon, 1 space() = *{' ','\n','\t'}, 2 literal ' ' (fails unless a blank follows),
  // 3 *literal ' ', 4 literal ' ' >> *char_set{' ','\t'}, 5 char_set{' ','b'} (exactly one, may fail),
  // 6 *(literal '-' >> literal '-'), 7 *(char_set{' ','\t'} >> literal ' '): repetitions of a two-part
  // skipper - an iteration that fails in its second part must give back what its first part consumed
  bool skip(int k, std::size_t &p) const
  {
    std::size_t const before = p;
    bool r = true;
    switch (k)
    {
    case 0: break;
    case 1: while (p < in.size() && is_in(" \n\t", in[p])) ++p; break;
    case 2: r = skip1(p, " "); break;
    case 3: while (p < in.size() && in[p] == ' ') ++p; break;
    case 4:
      r = skip1(p, " ");
      if (r) while (p < in.size() && is_in(" \t", in[p])) ++p;
      break;
    case 5: r = skip1(p, " b"); break;
    case 6:
      for (;;)
      {
        std::size_t q = p;
        if (!skip1(q, "-") || !skip1(q, "-")) break;
        p = q;
      }
      break;
    default:
      for (;;)
      {
        std::size_t q = p;
        if (!skip1(q, " \t") || !skip1(q, " ")) break;
        p = q;
      }
      break;
    }
    if (r && p > before) skipper_consumed = true;
    return r;
  }
  res fail(std::size_t p, bool fatal = false) const { return res{false, fatal, "", p}; }
  template <typename F>
  res chr(std::size_t p, F f) const
  {
    if (p >= in.size()) return fail(p);
    char const c = in[p];
    return f(c) ? res{true, false, R(1, c), p + 1} : fail(p + 1);
  }
  res leafchar(res r) const
  {
    if (leaves && r.ok) r.val = "c" + r.val + ";";
    return r;
  }
  res digits(std::size_t p) const
  {
    std::size_t q = p;
    while (q < in.size() && in[q] >= '0' && in[q] <= '9') ++q;
    if (q == p) return fail(p < in.size() ? p + 1 : p);
    return res{true, false, in.substr(p, q - p), q};
  }
  res run(np const &n, std::size_t p, int sk_) const
  {
    ++steps;
    res const r = run_impl(n, p, sk_);
    if (!r.ok && r.fatal) fatal_seen = true;
    return r;
  }
  void rewind(res const &failed, std::size_t p) const
  {
    if (failed.pos > p) rewound_after_consuming = true;
  }
  res run_impl(np const &n, std::size_t p, int sk_) const
  {
    switch (n->k)
    {
    case LIT:
    {
      auto r = chr(p, [&](char c) { return c == n->s[0]; });
      if (r.ok) r.val = leaves ? R() : R("'") + n->s[0];
      return r;
    }
    case SET: return leafchar(chr(p, [&](char c) { return is_in(n->s, c); }));
    case COMPL: return leafchar(chr(p, [&](char c) { return !is_in(n->s, c); }));
    case ANY: return leafchar(chr(p, [](char) { return true; }));
    case STR:
    {
      std::size_t q = p;
      for (char e : n->s)
      {
        if (q >= in.size()) return fail(q);
        if (in[q++] != e) return fail(q);
      }
      return res{true, false, leaves ? R() : "\"" + n->s, q};
    }
    case EPS: return res{true, false, leaves ? R() : R("e"), p};
    case FAIL: return fail(p);
    case INT:
    {
      std::size_t q = p;
      bool neg = false;
      if (q < in.size() && in[q] == '-') { neg = true; ++q; }
      auto d = digits(q);
      if (!d.ok) return d;
      long long v = 0;
      for (char c : d.val)
      {
        v = v * 10 + (c - '0');
        if (v > 2147483647LL + (neg ? 1 : 0)) return fail(d.pos); // the signed number does not fit the type (documented: the string, sign included, is converted)
      }
      return res{true, false, "i" + std::to_string(neg ? -v : v) + (leaves ? ";" : ""), d.pos};
    }
    case UINT:
    {
      auto d = digits(p);
      if (!d.ok) return d;
      unsigned long long v = 0;
      for (char c : d.val)
      {
        v = v * 10 + static_cast<unsigned>(c - '0');
        if (v > 4294967295ULL) return fail(d.pos);
      }
      return res{true, false, "u" + std::to_string(v) + (leaves ? ";" : ""), d.pos};
    }
    case FLOAT:
    {
      std::size_t q = p;
      bool neg = false;
      if (q < in.size() && in[q] == '-') { neg = true; ++q; }
      auto d1 = digits(q);
      if (!d1.ok) return d1;
      if (d1.pos >= in.size()) return fail(d1.pos);
      if (in[d1.pos] != '.') return fail(d1.pos + 1);
      auto d2 = digits(d1.pos + 1);
      if (!d2.ok) return d2;
      double const v = std::strtod((d1.val + "." + d2.val).c_str(), nullptr);
      return res{true, false, "f" + fmt_double(neg ? -v : v) + (leaves ? ";" : ""), d2.pos};
    }
    case SEQ:
    {
      auto a = run(n->c[0], p, sk_);
      if (!a.ok) return a;
      std::size_t q = a.pos;
      if (!skip(sk_, q)) return fail(q);
      auto b = run(n->c[1], q, sk_);
      if (!b.ok) return b;
      return res{true, false, leaves ? a.val + b.val : "S(" + a.val + "," + b.val + ")", b.pos};
    }
    case ALT:
    {
      auto a = run(n->c[0], p, sk_);
      if (a.ok) { if (!leaves) a.val = "L" + a.val; return a; }
      rewind(a, p);
      if (a.fatal) return fail(p, true);
      auto b = run(n->c[1], p, sk_);
      if (b.ok) { if (!leaves) b.val = "R" + b.val; return b; }
      return fail(b.pos, b.fatal);
    }
    case REP:
    case PLUS:
    {
      std::size_t cur = p;
      std::vector<R> vals;
      R const pre = n->k == PLUS ? "+[" : "[";
      if (n->k == PLUS)
      {
        // p >> *p : the first element, then the skipper (which must succeed), then the repetition
        auto a = run(n->c[0], p, sk_);
        if (!a.ok) return a;
        std::size_t q = a.pos;
        if (!skip(sk_, q)) return fail(q);
        vals.push_back(a.val);
        cur = q;
      }
      for (;;)
      {
        // an element counts only if the element AND the following skipper succeed
        auto a = run(n->c[0], cur, sk_);
        if (!a.ok)
        {
          rewind(a, cur);
          if (a.fatal) return fail(cur, true);
          break;
        }
        std::size_t q = a.pos;
        if (!skip(sk_, q)) { rewound_after_consuming = rewound_after_consuming || a.pos > cur; break; }
        vals.push_back(a.val);
        cur = q;
      }
      R r = leaves ? R() : pre;
      for (auto &e : vals) r += leaves ? e : e + ";";
      return res{true, false, leaves ? r : r + "]", cur};
    }
    case OPT:
    {
      auto a = run(n->c[0], p, sk_);
      if (a.ok) { if (!leaves) a.val = "J" + a.val; return a; }
      rewind(a, p);
      if (a.fatal) return fail(p, true);
      return res{true, false, leaves ? R() : R("N"), p};
    }
    case NOT:
    {
      auto a = run(n->c[0], p, sk_);
      if (a.ok ? a.pos > p : a.pos > p) rewound_after_consuming = true;
      // Reading: !p succeeds whenever p fails, also fatally (it "reverses" the parser); nothing is consumed
      return a.ok ? fail(p) : res{true, false, leaves ? R() : R("!"), p};
    }
    case FATAL:
    {
      auto a = run(n->c[0], p, sk_);
      if (!a.ok) a.fatal = true;
      return a;
    }
    case LEXEME: return run(n->c[0], p, 0);
    case SEP:
    {
      // documented as -(inner >> *(sep >> inner)) with sep = ','
      auto whole = [&]() -> res {
        auto first = run(n->c[0], p, sk_);
        if (!first.ok) return first;
        std::size_t q = first.pos;
        if (!skip(sk_, q)) return fail(q);
        std::vector<R> vals{first.val};
        std::size_t cur = q;
        for (;;)
        {
          // element = (',' >> inner), then the skipper
          std::size_t e = cur;
          if (e >= in.size()) break;
          if (in[e] != (n->s.empty() ? ',' : (n->k == SEP ? n->s[0] : n->s[1]))) break;
          ++e;
          std::size_t e2 = e;
          if (!skip(sk_, e2)) { rewound_after_consuming = true; break; }
          auto a = run(n->c[0], e2, sk_);
          if (!a.ok)
          {
            rewound_after_consuming = true;
            if (a.fatal) return fail(cur, true);
            break;
          }
          std::size_t q2 = a.pos;
          if (!skip(sk_, q2)) { rewound_after_consuming = true; break; }
          vals.push_back(a.val);
          cur = q2;
        }
        R r = leaves ? R() : R("{");
        for (auto &v : vals) r += leaves ? v : v + ";";
        return res{true, false, leaves ? r : r + "}", cur};
      }();
      if (whole.ok) return whole;
      rewind(whole, p);
      if (whole.fatal) return fail(p, true);
      return res{true, false, leaves ? R() : R("{}"), p};
    }
    case LIST:
    {
      // documented as '(' >> ( ')' -> {}  |  separator >> ')' )
      char const lopen = n->s.empty() ? '(' : n->s[0], lclose = n->s.empty() ? ')' : n->s[2];
      if (p >= in.size()) return fail(p);
      if (in[p] != lopen) return fail(p + 1);
      std::size_t q = p + 1;
      if (!skip(sk_, q)) return fail(q);
      if (q < in.size() && in[q] == lclose) return res{true, false, leaves ? R() : R("()"), q + 1};
      if (q < in.size()) rewound_after_consuming = true; // the first alternative consumed a character and failed
      node sepn{SEP, n->s.empty() ? std::string() : std::string(1, n->s[1]), {n->c[0]}};
      auto s = run(std::make_shared<node>(sepn), q, sk_);
      if (!s.ok) return s;
      std::size_t q2 = s.pos;
      if (!skip(sk_, q2)) return fail(q2);
      if (q2 >= in.size()) return fail(q2);
      if (in[q2] != lclose) return fail(q2 + 1);
      R v = s.val;
      if (!leaves)
      {
        v[0] = '(';
        v.back() = ')';
      }
      return res{true, false, v, q2 + 1};
    }
    case CONVIF:
    {
      auto a = run(n->c[0], p, sk_);
      if (!a.ok) return a;
      if (!convif_ok(a.val)) return fail(a.pos);
      a.val = "C" + a.val;
      return a;
    }
    case NAMED:
    {
      // Reading: named replaces the error by "Expected <name>", which is an ordinary (non-fatal) error
      auto a = run(n->c[0], p, sk_);
      if (!a.ok) a.fatal = false;
      return a;
    }
    case IGNORE:
    {
      auto a = run(n->c[0], p, sk_);
      if (a.ok) a.val = leaves ? R() : R("_");
      return a;
    }
    case CONSTRUCT:
    {
      auto a = run(n->c[0], p, sk_);
      if (a.ok) a.val = "W<" + a.val + ">";
      return a;
    }
    case REF: return run(rules[static_cast<std::size_t>(n->ref)], p, sk_);
    }
    std::abort();
  }
};

// ------------------------------------------------------------------------------------- generator
struct gen
{
  Choices &c;
  int nrules;
  char letter() { return alphabet()[c.index(alpha_main)]; }
  void leaf(np const &n, std::size_t w)
  {
    switch (w % 7)
    {
    case 0: n->k = LIT; n->s = std::string(1, letter()); break;
    case 1: n->k = SET; n->s = std::string(1, letter()) + letter(); break;
    case 2: n->k = COMPL; n->s = std::string(1, letter()) + letter(); break;
    case 3: n->k = ANY; break;
    case 4: n->k = STR; n->s = std::string(1, letter()) + letter(); break;
    case 5: n->k = c.flag() ? INT : UINT; break;
    default: n->k = FLOAT; break;
    }
  }
  // nonnull: the parser must consume >= 1 character on success; guarded: it may refer to a rule
  // (an input-consuming parser precedes it), so there is no left recursion and no repetition of a
  // nullable parser - the grammars are well-formed by construction
  np make(int depth, bool nonnull, bool guarded)
  {
    auto n = std::make_shared<node>();
    std::size_t const pick = depth <= 0 ? c.index(7) : (depth >= 4 ? 7 + c.index(21) : c.index(28));
    if (pick < 7) { leaf(n, pick); return n; }
    switch (pick)
    {
    case 7: if (nonnull) leaf(n, c.index(7)); else n->k = EPS; return n;
    case 8: n->k = FAIL; return n;
    case 9: case 10: case 11:
    {
      n->k = SEQ;
      bool const first_nn = nonnull ? !c.flag() : false;
      auto a = make(depth - 1, first_nn, guarded);
      auto b = make(depth - 1, nonnull && !first_nn, guarded || first_nn);
      n->c = {a, b};
      return n;
    }
    case 12: case 13: case 14: n->k = ALT; n->c = {make(depth - 1, nonnull, guarded), make(depth - 1, nonnull, guarded)}; return n;
    case 15: case 16: n->k = nonnull ? PLUS : REP; n->c = {make(depth - 1, true, guarded)}; return n;
    case 17:
      if (nonnull) { n->k = PLUS; n->c = {make(depth - 1, true, guarded)}; }
      else { n->k = OPT; n->c = {make(depth - 1, false, guarded)}; }
      return n;
    case 18:
      if (nonnull) { leaf(n, c.index(7)); return n; }
      n->k = NOT; n->c = {make(depth - 1, false, guarded)}; return n;
    case 19: n->k = FATAL; n->c = {make(depth - 1, nonnull, guarded)}; return n;
    case 20: n->k = LEXEME; n->c = {make(depth - 1, nonnull, guarded)}; return n;
    case 21:
      n->k = nonnull ? LIST : (c.flag() ? SEP : LIST);
      n->c = {make(depth - 1, true, guarded)};
      return n;
    case 22: n->k = CONVIF; n->c = {make(depth - 1, nonnull, guarded)}; return n;
    case 23: n->k = NAMED; n->c = {make(depth - 1, nonnull, guarded)}; return n;
    case 24: n->k = IGNORE; n->c = {make(depth - 1, nonnull, guarded)}; return n;
    case 25: n->k = CONSTRUCT; n->c = {make(depth - 1, nonnull, guarded)}; return n;
    default:
      if (guarded && nrules > 0 && !nonnull) { n->k = REF; n->ref = static_cast<int>(c.index(static_cast<std::size_t>(nrules))); return n; }
      leaf(n, c.index(7));
      return n;
    }
  }
};

// derives a sentence from the grammar (so that most inputs get deep), to be mutated afterwards
struct deriver
{
  Choices &c;
  int skipper;
  std::vector<np> const &rules;
  int fuel = 40;
  std::string gap()
  {
    switch (skipper)
    {
    case 0: return "";
    case 1: return c.flag() ? " " : (c.flag() ? "\t " : "");
    case 2: return " ";
    case 3: return c.flag() ? " " : "";
    case 4: return c.flag() ? " " : " \t";
    case 5: return c.flag() ? " " : "b";
    case 6: return c.flag() ? "--" : (c.flag() ? "" : "----");
    default: return c.flag() ? "\t " : (c.flag() ? "" : "  \t ");
    }
  }
  static std::string notin(std::string const &set)
  {
    for (char x : alphabet())
      if (set.find(x) == std::string::npos) return std::string(1, x);
    return "z";
  }
  std::string run(np const &n)
  {
    if (--fuel < 0) return "";
    switch (n->k)
    {
    case LIT: return n->s;
    case SET: return std::string(1, n->s[c.index(2)]);
    case COMPL: return notin(n->s);
    case ANY: return std::string(1, alphabet()[c.index(alpha_main)]);
    case STR: return n->s;
    case EPS: case FAIL: case NOT: return "";
    case INT: return c.flag() ? "-1" : (c.flag() ? "12" : "2147483648");
    case UINT: return c.flag() ? "1" : "4294967295";
    case FLOAT: return c.flag() ? "1.2" : "-21.1";
    case SEQ: { auto a = run(n->c[0]); auto g = gap(); return a + g + run(n->c[1]); }
    case ALT: return run(n->c[c.index(2)]);
    case REP: case PLUS:
    {
      std::string r;
      std::size_t const k = c.index(3) + (n->k == PLUS ? 1 : 0);
      for (std::size_t i = 0; i < k; ++i) { r += run(n->c[0]); r += gap(); }
      return r;
    }
    case OPT: return c.flag() ? run(n->c[0]) : "";
    case FATAL: case CONVIF: case NAMED: case IGNORE: case CONSTRUCT: return run(n->c[0]);
    case LEXEME: { int const sv = skipper; skipper = 0; auto r = run(n->c[0]); skipper = sv; return r; }
    case SEP: case LIST:
    {
      std::string r;
      std::size_t const k = c.index(3);
      for (std::size_t i = 0; i < k; ++i)
      {
        if (i) { r += ","; r += gap(); }
        r += run(n->c[0]);
        r += gap();
      }
      if (n->k == LIST) return "(" + gap() + r + ")";
      return r;
    }
    case REF: return run(rules[static_cast<std::size_t>(n->ref)]);
    }
    return "";
  }
};

struct peg_case
{
  std::vector<np> rules;
  np top;
  int skipper;
  std::string input;
  bool via_grammar;
};
inline peg_case decode(Ints const &ints)
{
  Choices c(ints);
  peg_case pc;
  int const nrules = static_cast<int>(c.index(3));
  gen g{c, nrules};
  for (int i = 0; i < nrules; ++i) pc.rules.push_back(g.make(3, true, false));
  pc.top = g.make(4, false, false);
  pc.skipper = static_cast<int>(c.index(n_skippers));
  pc.via_grammar = c.flag();
  std::string in;
  if (c.index(4) == 0)
  {
    std::size_t const len = c.index(10);
    for (std::size_t i = 0; i < len; ++i) in += alphabet()[c.index(alphabet().size())];
  }
  else
  {
    deriver d{c, pc.skipper, pc.rules};
    in = d.gap();
    if (pc.skipper == 2) in = " ";
    if (pc.skipper == 5) in = c.flag() ? " " : "b";
    in += d.run(pc.top);
    std::size_t const muts = c.index(3);
    for (std::size_t i = 0; i < muts && !in.empty(); ++i)
    {
      std::size_t const at = c.index(in.size());
      switch (c.index(3))
      {
      case 0: in[at] = alphabet()[c.index(alphabet().size())]; break;
      case 1: in.erase(at, 1); break;
      default: in.insert(at, 1, alphabet()[c.index(alphabet().size())]); break;
      }
    }
    if (in.size() > 24) in.resize(24);
  }
  pc.input = in;
  return pc;
}
inline std::string describe(Ints const &ints, char const *chname)
{
  peg_case const pc = decode(ints);
  static char const *const sks[] = {"epsilon", "space", "literal' '", "*literal' '", "literal' '>>*set{' ','\\t'}", "set{' ','b'}", "*(literal'-'>>literal'-')", "*(set{' ','\\t'}>>literal' ')"};
  std::string r = std::string("<") + chname + "> grammar: " + show(pc.top);
  for (std::size_t i = 0; i < pc.rules.size(); ++i) r += " rule" + std::to_string(i) + ": " + show(pc.rules[i]);
  r += std::string(" skipper: ") + sks[pc.skipper] + " input: \"";
  for (char ch : pc.input) r += ch == '\t' ? std::string("\\t") : ch == '\xff' ? std::string("\\xff") : std::string(1, ch);
  return r + "\"" + (pc.via_grammar ? " (grammar_parse_string)" : " (phrase_parse_string)");
}

// ------------------------------------------------------------------------------------- real parser construction
template <typename Ch>
struct real
{
  using str = std::basic_string<Ch>;
  static Ch w(char c) { return static_cast<Ch>(static_cast<unsigned char>(c)); }
  static str ws(std::string const &s)
  {
    str r;
    for (char c : s) r.push_back(w(c));
    return r;
  }
  static char n(Ch c) { return static_cast<char>(c); }

  // a skipper whose kind is chosen at run time; every branch runs a REAL fcppt skipper
  struct dyn_skipper : sk::tag
  {
    int kind;
    explicit dyn_skipper(int k) : kind(k) {}
    dyn_skipper(sk::epsilon const &) : kind(0) {}
    sk::result<Ch> skip(fcppt::reference<fp::basic_stream<Ch>> s) const
    {
      using lit = sk::basic_literal<Ch>;
      using set = sk::basic_char_set<Ch>;
      switch (kind)
      {
      case 0: return sk::run(sk::epsilon{}, s);
      case 1: return sk::run(*set{fp::space_set<Ch>()}, s); // what skipper::space() is defined as
      case 2: return sk::run(lit{w(' ')}, s);
      case 3: return sk::run(*lit{w(' ')}, s);
      case 4: return sk::run(lit{w(' ')} >> *set{w(' '), w('\t')}, s);
      case 5: return sk::run(set{w(' '), w('b')}, s);
      case 6: return sk::run(*(lit{w('-')} >> lit{w('-')}), s);
      default: return sk::run(*(set{w(' '), w('\t')} >> lit{w(' ')}), s);
      }
    }
  };
  using P = fp::base_unique_ptr<R, Ch, dyn_skipper>;
  template <typename X>
  static P mk(X &&x) { return fp::make_base<Ch, dyn_skipper>(std::forward<X>(x)); }

  // rule slots: a rule may refer to any rule (also itself / later ones), so references are taken to
  // raw storage that is filled in afterwards, exactly like the members of a grammar class
  struct slot
  {
    alignas(P) unsigned char buf[sizeof(P)];
    bool live{false};
    P const &ref() const { return *std::launder(reinterpret_cast<P const *>(buf)); }
  };
  struct slots
  {
    std::vector<slot> v;
    explicit slots(std::size_t n) : v(n) {}
    ~slots()
    {
      for (std::size_t i = v.size(); i-- > 0;)
        if (v[i].live) std::launder(reinterpret_cast<P *>(v[i].buf))->~P();
    }
  };

  static typename fp::basic_char_set<Ch>::char_set_type cset(std::string const &s)
  {
    typename fp::basic_char_set<Ch>::char_set_type r;
    for (char c : s) r.insert(w(c));
    return r;
  }
  static P build(np const &nd, slots const &rules)
  {
    auto ch = [](Ch c) { return R(1, n(c)); };
    auto vec = [](char open, char close) {
      return [open, close](std::vector<R> &&v) {
        R r(1, open);
        if (open == '+') r = "+[";
        for (auto &e : v) r += e + ";";
        return r + close;
      };
    };
    switch (nd->k)
    {
    case LIT: return mk(fp::convert_const{fp::basic_literal<Ch>{w(nd->s[0])}, R("'") + nd->s[0]});
    case SET: return mk(fp::make_convert(fp::basic_char_set<Ch>{cset(nd->s)}, ch));
    case COMPL: return mk(fp::make_convert(~fp::basic_char_set<Ch>{cset(nd->s)}, ch));
    case ANY: return mk(fp::make_convert(fp::basic_char<Ch>{}, ch));
    case STR: return mk(fp::convert_const{fp::basic_string<Ch>{ws(nd->s)}, "\"" + nd->s});
    case EPS: return mk(fp::convert_const{fp::epsilon{}, R("e")});
    case FAIL: return mk(fp::fail<R>{});
    case INT: return mk(fp::make_convert(fp::int_<int>{}, [](int i) { return "i" + std::to_string(i); }));
    case UINT: return mk(fp::make_convert(fp::uint<unsigned>{}, [](unsigned i) { return "u" + std::to_string(i); }));
    case FLOAT: return mk(fp::make_convert(fp::float_<double>{}, [](double d) { return "f" + fmt_double(d); }));
    case SEQ:
      return mk(fp::make_convert(build(nd->c[0], rules) >> build(nd->c[1], rules), [](fcppt::tuple::object<R, R> &&t) {
        return "S(" + fcppt::tuple::get<0>(t) + "," + fcppt::tuple::get<1>(t) + ")";
      }));
    case ALT:
      return mk(fp::make_convert(build(nd->c[0], rules), [](R &&r) { return "L" + r; }) | fp::make_convert(build(nd->c[1], rules), [](R &&r) { return "R" + r; }));
    case REP: return mk(fp::make_convert(*build(nd->c[0], rules), vec('[', ']')));
    case PLUS: return mk(fp::make_convert(+build(nd->c[0], rules), vec('+', ']')));
    case OPT:
      return mk(fp::make_convert(-build(nd->c[0], rules), [](fcppt::optional::object<R> &&o) {
        return fcppt::optional::maybe(std::move(o), [] { return R("N"); }, [](R &&x) { return "J" + x; });
      }));
    case NOT: return mk(fp::convert_const{!fp::make_ignore(build(nd->c[0], rules)), R("!")});
    case FATAL: return mk(fp::make_fatal(build(nd->c[0], rules)));
    case LEXEME: return mk(fp::make_lexeme(build(nd->c[0], rules)));
    case SEP: return mk(fp::make_convert(fp::separator{build(nd->c[0], rules), fp::basic_literal<Ch>{w(',')}}, vec('{', '}')));
    case LIST:
      return mk(fp::make_convert(
          fp::list{fp::basic_literal<Ch>{w('(')}, build(nd->c[0], rules), fp::basic_literal<Ch>{w(',')}, fp::basic_literal<Ch>{w(')')}}, vec('(', ')')));
    case CONVIF:
      return mk(fp::make_convert_if(build(nd->c[0], rules), [](R &&r) -> fp::result<Ch, R> {
        return convif_ok(r) ? fp::make_success<Ch>(R("C" + r)) : fcppt::either::make_failure<R>(fp::error<Ch>{ws("convif")});
      }));
    case NAMED: return mk(fp::named<Ch, P>{build(nd->c[0], rules), ws("nm")});
    case IGNORE: return mk(fp::convert_const{fp::make_ignore(build(nd->c[0], rules)), R("_")});
    case CONSTRUCT: return mk(fp::make_convert(fp::construct<wrapped>(build(nd->c[0], rules)), [](wrapped &&x) { return "W<" + x.inner + ">"; }));
    case REF:
      return mk(fp::make_convert(
          fp::make_recursive(fcppt::make_cref(rules.v[static_cast<std::size_t>(nd->ref)].ref())),
          [](fcppt::recursive<R> &&r) { return R(std::move(r.get())); }));
    }
    std::abort();
  }

  // one case: build, parse for real, interpret, compare
  static void run_case(Ints const &ints, char const *chname) { run_decoded(decode(ints), chname); }
  // warmups: the SAME parser objects first parse `warm_input` that many times (results ignored):
  // parsers are immutable values, an earlier parse must not influence a later one
  static void run_decoded(peg_case const &pc, char const *chname, int warmups = 0, std::string const &warm_input = std::string(), bool extended = false)
  {
    std::string real_out;
    {
      slots rs(pc.rules.size());
      for (std::size_t i = 0; i < pc.rules.size(); ++i)
      {
        new (rs.v[i].buf) P(build(pc.rules[i], rs));
        rs.v[i].live = true;
      }
      P const top = build(pc.top, rs);
      auto const render = [](fp::result<Ch, R> const &r) {
        return fcppt::either::match(
            r, [](fp::error<Ch> const &e) { return std::string(e.is_fatal() ? "FATAL" : "FAIL"); }, [](R const &s) { return "OK:" + s; });
      };
      if (pc.via_grammar)
      {
        fp::grammar<R, Ch, dyn_skipper> const g{fcppt::make_cref(top), dyn_skipper{pc.skipper}};
        for (int w = 0; w < warmups; ++w) (void)fp::grammar_parse_string(ws(warm_input), g);
        real_out = render(fp::grammar_parse_string(ws(pc.input), g));
      }
      else
      {
        for (int w = 0; w < warmups; ++w) (void)fp::phrase_parse_string(*top.get_pointer(), ws(warm_input), dyn_skipper{pc.skipper});
        real_out = render(fp::phrase_parse_string(*top.get_pointer(), ws(pc.input), dyn_skipper{pc.skipper}));
      }
    }
    model m{pc.input, pc.rules};
    std::size_t p0 = 0;
    res mr{false, false, "", 0};
    if (!m.skip(pc.skipper, p0)) mr = m.fail(p0);
    else mr = m.run(pc.top, p0, pc.skipper);
    bool const mok = mr.ok && mr.pos == pc.input.size();
    std::string const model_out = mok ? "OK:" + mr.val : (mr.ok ? "FAIL" : (mr.fatal ? "FATAL" : "FAIL"));
    count(m.rewound_after_consuming || m.skipper_consumed || m.fatal_seen);
    cls(mok ? "model-accepts" : (mr.fatal && !mr.ok ? "model-fatal" : "model-rejects"));
    if (m.rewound_after_consuming) cls("rewind-after-consuming");
    if (m.skipper_consumed) cls("skipper-consumed");
    if (real_out != model_out)
    {
      std::string const kind = (real_out.substr(0, 2) == "OK") != (model_out.substr(0, 2) == "OK") ? "accept-vs-reject" : (real_out.substr(0, 2) == "OK" ? "value" : "fatal-flag");
      fail(std::string("parse|peg-semantics|") + kind + (extended ? "|input-extended-behind-an-accepted-parse" : ""),
           (extended ? "on the extended input \"" + pc.input + "\": " : std::string()) + "fcppt: " + real_out + "  documented semantics: " + model_out);
    }
    // "the string entry points succeed if and only if the whole input was consumed": behind every
    // accepted input, more input is appended - a newline, a newline and a letter, a blank - and the
    // case is judged again against the model (which accepts it only if the grammar or the skipper
    // really consumes the addition)
    if (!extended && mok && warmups == 0 && pc.input.size() < 64)
      for (char const *extra : {"\n", "\nb", " ", "\t\n"})
      {
        peg_case more = pc;
        more.input += extra;
        run_decoded(more, chname, 0, std::string(), true);
      }
    (void)chname;
  }
};

// ---- long inputs and repeated parses over grammars with type-erased (base) rules -----------------
inline np mkn(kind_t k, std::string s = std::string(), std::vector<np> kids = {})
{
  auto n = std::make_shared<node>();
  n->k = k;
  n->s = std::move(s);
  n->c = std::move(kids);
  return n;
}
inline np mkref(int i)
{
  auto n = std::make_shared<node>();
  n->k = REF;
  n->ref = i;
  return n;
}
constexpr int long_templates = 4;
constexpr int long_sizes_n = 8;
inline int long_size(i64 i)
{
  static int const sizes[] = {0, 10, 255, 256, 257, 300, 700, 2000};
  return sizes[((i % long_sizes_n) + long_sizes_n) % long_sizes_n];
}
// template 0: (rule0 / 'b')* with rule0 = 'a' on b^n "ab" - rule0 fails (and is backtracked over) n times
// template 1: the same, the input ends in "ac": the leftover makes the string entry point fail
// template 2: nested brackets rule0 = '(' rule0 ')' / eps, depth min(n, 300)
// template 3: template 0 on the short input "bab" after n earlier FAILING parses ("c") and n
//             succeeding ones through the very same parser objects
inline peg_case long_case(i64 t_, i64 n_, bool via_grammar, int &warmups, std::string &warm_input)
{
  int const t = static_cast<int>(((t_ % long_templates) + long_templates) % long_templates), n = long_size(n_);
  peg_case pc;
  pc.skipper = 0;
  pc.via_grammar = via_grammar;
  warmups = 0;
  if (t == 2)
  {
    pc.rules.push_back(mkn(ALT, "", {mkn(SEQ, "", {mkn(LIT, "("), mkn(SEQ, "", {mkref(0), mkn(LIT, ")")})}), mkn(EPS)}));
    pc.top = mkref(0);
    int const depth = n > 300 ? 300 : n;
    pc.input = std::string(static_cast<std::size_t>(depth), '(') + std::string(static_cast<std::size_t>(depth), ')');
    return pc;
  }
  pc.rules.push_back(mkn(LIT, "a"));
  pc.top = mkn(REP, "", {mkn(ALT, "", {mkref(0), mkn(LIT, "b")})});
  if (t == 3)
  {
    pc.input = "bab";
    warmups = n;
    warm_input = n % 2 == 0 ? "bbbbc" : "bbab";
    return pc;
  }
  pc.input = std::string(static_cast<std::size_t>(n), 'b') + (t == 0 ? "ab" : "ac");
  return pc;
}
template <typename Ch>
void long_one(Ints const &c, char const *chname)
{
  int warmups = 0;
  std::string warm;
  i64 const t = c.size() > 0 ? c[0] : 0, n = c.size() > 1 ? c[1] : 0, g = c.size() > 2 ? c[2] : 0;
  peg_case const pc = long_case(t, n, g % 2 != 0, warmups, warm);
  real<Ch>::run_decoded(pc, chname, warmups, warm);
}
inline std::string long_describe(Ints const &c, char const *chname)
{
  i64 const t = c.size() > 0 ? c[0] : 0, n = c.size() > 1 ? c[1] : 0, g = c.size() > 2 ? c[2] : 0;
  static char const *const names[] = {"(rule0/'b')* with rule0='a' on b^n ab", "(rule0/'b')* with rule0='a' on b^n ac", "rule0 = '(' rule0 ')' / eps on brackets of depth min(n,300)", "(rule0/'b')* on bab after n earlier parses through the same parser objects"};
  return std::string("<") + chname + "> " + names[((t % long_templates) + long_templates) % long_templates] + ", n = " + std::to_string(long_size(n)) + (g % 2 != 0 ? " (grammar_parse_string)" : " (phrase_parse_string)");
}
template <typename Ch>
void long_run(char const *chname)
{
  for (i64 t = 0; t < long_templates; ++t)
    for (i64 n = 0; n < long_sizes_n; ++n)
      for (i64 g = 0; g < 2; ++g)
      {
        cur3(t, n, g);
        long_one<Ch>({t, n, g}, chname);
      }
}
}

#endif
