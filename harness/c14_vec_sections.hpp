// C14 - the sections of the vector / dim harnesses; included by c14_vec12.cpp, c14_vec3.cpp and
// c14_vec4.cpp, which select the dimensions through C14_NMIN / C14_NMAX (one translation unit per
// group of dimensions keeps each compile under a minute).
#include "c14_vector.hpp"

using namespace verif;
using namespace c14;

namespace
{
constexpr int vals[4] = {-1, 0, 1, 2};
constexpr int nmin = C14_NMIN, nmax = C14_NMAX;
constexpr bool in_range(int n) { return n >= nmin && n <= nmax; }
i64 clamp_n(i64 n) { return n < nmin ? nmin : n > nmax ? nmax : n; }
std::string const tag = C14_TAG;
template <std::size_t N>
Vec<int, N> small_vec(i64 idx)
{
  Vec<int, N> r{};
  for (std::size_t i = 0; i < N; ++i)
  {
    r[i] = vals[idx & 3];
    idx >>= 2;
  }
  return r;
}
template <std::size_t N>
void run_case(Vec<int, N> const &a, Vec<int, N> const &b, int const ma, int const mb, int const k)
{
  count(!is_null_or_unit<int, N>(a) || !is_null_or_unit<int, N>(b));
  check_vec_single<int, N>(a, ma, k, std::make_index_sequence<N>{});
  check_vec_pair<int, N>(a, b, ma, mb);
}

// {N, index of a, index of b, storage of a, storage of b, k}
void small_one(Ints const &c)
{
  int const ma = static_cast<int>(c.at(3) % 3), mb = static_cast<int>(c.at(4) % 3), k = static_cast<int>(c.at(5));
  i64 const n = clamp_n(c.at(0));
  if constexpr (in_range(1))
    if (n == 1) run_case<1>(small_vec<1>(c.at(1)), small_vec<1>(c.at(2)), ma, mb, k);
  if constexpr (in_range(2))
    if (n == 2) run_case<2>(small_vec<2>(c.at(1)), small_vec<2>(c.at(2)), ma, mb, k);
  if constexpr (in_range(3))
    if (n == 3) run_case<3>(small_vec<3>(c.at(1)), small_vec<3>(c.at(2)), ma, mb, k);
}
std::string small_describe(Ints const &c)
{
  i64 const nn = clamp_n(c.at(0));
  std::string const n = std::to_string(nn);
  std::string const a = nn == 1 ? show_arr(small_vec<1>(c.at(1))) : nn == 2 ? show_arr(small_vec<2>(c.at(1))) : show_arr(small_vec<3>(c.at(1)));
  std::string const b = nn == 1 ? show_arr(small_vec<1>(c.at(2))) : nn == 2 ? show_arr(small_vec<2>(c.at(2))) : show_arr(small_vec<3>(c.at(2)));
  return "dimension " + n + ": a = " + a + " (" + storage_name(static_cast<int>(c.at(3) % 3)) + "), b = " + b + " (" + storage_name(static_cast<int>(c.at(4) % 3)) + "), k = " + std::to_string(c.at(5));
}
#if C14_NMIN <= 3
bool const r_small = (add_section(
    "vec_small_" + tag, Kind::exhaustive,
    "dimension " + tag + ": all pairs of vectors (and the dims with the same components) over {-1,0,1,2}, all nine storage combinations (static / view / matrix row view), scalar in [-2,3]; non-trivial: a or b is neither null nor a unit vector",
    [] {
      u64 idx = 0;
      for (i64 n = nmin; n <= nmax && n <= 3; ++n)
      {
        i64 const cnt = i64{1} << (2 * n);
        for (i64 a = 0; a < cnt; ++a)
          for (i64 b = 0; b < cnt; ++b)
          {
            if (static_cast<int>(idx++ % static_cast<u64>(opts().nshards)) != opts().shard) continue;
            for (i64 ma = 0; ma < 3; ++ma)
              for (i64 mb = 0; mb < 3; ++mb)
              {
                i64 const k = (a + 2 * b + ma + mb) % 6 - 2;
                Ints const c{n, a, b, ma, mb, k};
                cur_vec(c);
                small_one(c);
              }
          }
      }
    },
    small_one, small_describe).self_sharded = true);
#endif

// random: dimension 1-4, components in [-9,9] packed base 19 (digit 0 = component 0)
struct RCase
{
  int n, ma, mb, k;
  Vec<int, 4> a, b;
};
RCase decode_r(Ints const &in)
{
  Choices ch(in);
  RCase s;
  u64 const w = ch.raw();
  s.n = nmin + static_cast<int>((w & 3) % static_cast<u64>(nmax - nmin + 1));
  s.ma = static_cast<int>((w >> 2) % 3);
  s.mb = static_cast<int>((w >> 8) % 3);
  auto dig = [](u64 &x) {
    int const d = static_cast<int>(x % 19);
    x /= 19;
    return d <= 9 ? d : d - 19;
  };
  u64 wk = (w >> 12);
  s.k = dig(wk);
  u64 wa = ch.raw() & 0xffffffffULL, wb = ch.raw() & 0xffffffffULL;
  for (int i = 0; i < 4; ++i)
  {
    s.a[static_cast<std::size_t>(i)] = dig(wa);
    s.b[static_cast<std::size_t>(i)] = dig(wb);
  }
  return s;
}
template <std::size_t N>
Vec<int, N> head(Vec<int, 4> const &v)
{
  Vec<int, N> r{};
  for (std::size_t i = 0; i < N; ++i) r[i] = v[i];
  return r;
}
void random_one(Ints const &in)
{
  RCase const s = decode_r(in);
  if constexpr (in_range(1))
    if (s.n == 1) run_case<1>(head<1>(s.a), head<1>(s.b), s.ma, s.mb, s.k);
  if constexpr (in_range(2))
    if (s.n == 2) run_case<2>(head<2>(s.a), head<2>(s.b), s.ma, s.mb, s.k);
  if constexpr (in_range(3))
    if (s.n == 3) run_case<3>(head<3>(s.a), head<3>(s.b), s.ma, s.mb, s.k);
  if constexpr (in_range(4))
    if (s.n == 4) run_case<4>(head<4>(s.a), head<4>(s.b), s.ma, s.mb, s.k);
}
Reg const r_random{"vec_random_" + tag, Kind::random,
                   "dimension " + tag + ": two vectors (and dims) with components in [-9,9], scalar in [-9,9], storage per operand (static / view / matrix row view); non-trivial: a or b is neither null nor a unit vector",
                   [] { run_random(*g_cur.sec, {60000, 4}, {300000, 4}); }, random_one,
                   [](Ints const &in) {
                     RCase const s = decode_r(in);
                     std::string a = "[", b = "[";
                     for (int i = 0; i < s.n; ++i)
                     {
                       a += (i ? "," : "") + std::to_string(s.a[static_cast<std::size_t>(i)]);
                       b += (i ? "," : "") + std::to_string(s.b[static_cast<std::size_t>(i)]);
                     }
                     return "dimension " + std::to_string(s.n) + ": a = " + a + "] (" + storage_name(s.ma) + "), b = " + b + "] (" + storage_name(s.mb) + "), k = " + std::to_string(s.k);
                   }};

#if C14_NMAX == 4
Reg const r_bits{"bit_strings", Kind::exhaustive, "bit_strings<int,N> and <unsigned,N> for N = 1..5 (fixed outputs); non-trivial: N >= 2",
                 [] {
                   for (i64 n = 1; n <= 5; ++n)
                   {
                     cur1(n);
                     g_cur.sec->one({n});
                   }
                 },
                 [](Ints const &c) {
                   count(c.at(0) >= 2);
                   switch (c.at(0))
                   {
                   case 1: check_bit_strings<int, 1>(); check_bit_strings<unsigned, 1>(); break;
                   case 2: check_bit_strings<int, 2>(); check_bit_strings<unsigned, 2>(); break;
                   case 3: check_bit_strings<int, 3>(); check_bit_strings<unsigned, 3>(); break;
                   case 4: check_bit_strings<int, 4>(); check_bit_strings<unsigned, 4>(); break;
                   default: check_bit_strings<int, 5>(); check_bit_strings<unsigned, 5>(); break;
                   }
                 },
                 [](Ints const &c) { return "bit_strings<" + std::to_string(c.at(0)) + ">"; }};
#endif
}
