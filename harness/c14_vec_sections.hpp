// C14 - the sections of the vector / dim harnesses; included by c14_vec12.cpp, c14_vec3.cpp and
// c14_vec4.cpp, which select the dimensions through C14_NMIN / C14_NMAX (one translation unit per
// group of dimensions keeps each compile under a minute).
#include "c14_vector.hpp"

#include <cstring>

using namespace verif;
using namespace c14;

namespace
{
constexpr int vals[4] = {-1, 0, 1, 2};
constexpr int nmin = C14_NMIN, nmax = C14_NMAX;
constexpr bool in_range(int n) { return n >= nmin && n <= nmax; }
i64 clamp_n(i64 n) { return n < nmin ? nmin : n > nmax ? nmax : n; }
std::string const tag = C14_TAG;
template <std::size_t N>
Vec<int, N> small_vec(i64 idx)
{
  Vec<int, N> r{};
  for (std::size_t i = 0; i < N; ++i)
  {
    r[i] = vals[idx & 3];
    idx >>= 2;
  }
  return r;
}
template <std::size_t N>
void run_case(Vec<int, N> const &a, Vec<int, N> const &b, int const ma, int const mb, int const k)
{
  count(!is_null_or_unit<int, N>(a) || !is_null_or_unit<int, N>(b));
  check_vec_single<int, N>(a, ma, k, std::make_index_sequence<N>{});
  check_vec_pair<int, N>(a, b, ma, mb);
}

// {N, index of a, index of b, storage of a, storage of b, k}
void small_one(Ints const &c)
{
  int const ma = static_cast<int>(c.at(3) % 3), mb = static_cast<int>(c.at(4) % 3), k = static_cast<int>(c.at(5));
  i64 const n = clamp_n(c.at(0));
  if constexpr (in_range(1))
    if (n == 1) run_case<1>(small_vec<1>(c.at(1)), small_vec<1>(c.at(2)), ma, mb, k);
  if constexpr (in_range(2))
    if (n == 2) run_case<2>(small_vec<2>(c.at(1)), small_vec<2>(c.at(2)), ma, mb, k);
  if constexpr (in_range(3))
    if (n == 3) run_case<3>(small_vec<3>(c.at(1)), small_vec<3>(c.at(2)), ma, mb, k);
}
std::string small_describe(Ints const &c)
{
  i64 const nn = clamp_n(c.at(0));
  std::string const n = std::to_string(nn);
  std::string const a = nn == 1 ? show_arr(small_vec<1>(c.at(1))) : nn == 2 ? show_arr(small_vec<2>(c.at(1))) : show_arr(small_vec<3>(c.at(1)));
  std::string const b = nn == 1 ? show_arr(small_vec<1>(c.at(2))) : nn == 2 ? show_arr(small_vec<2>(c.at(2))) : show_arr(small_vec<3>(c.at(2)));
  return "dimension " + n + ": a = " + a + " (" + storage_name(static_cast<int>(c.at(3) % 3)) + "), b = " + b + " (" + storage_name(static_cast<int>(c.at(4) % 3)) + "), k = " + std::to_string(c.at(5));
}
#if C14_NMIN <= 3
bool const r_small = (add_section(
    "vec_small_" + tag, Kind::exhaustive,
    "dimension " + tag + ": all pairs of vectors (and the dims with the same components) over {-1,0,1,2}, all nine storage combinations (static / view / matrix row view), scalar in [-2,3]; non-trivial: a or b is neither null nor a unit vector",
    [] {
      u64 idx = 0;
      for (i64 n = nmin; n <= nmax && n <= 3; ++n)
      {
        i64 const cnt = i64{1} << (2 * n);
        for (i64 a = 0; a < cnt; ++a)
          for (i64 b = 0; b < cnt; ++b)
          {
            if (static_cast<int>(idx++ % static_cast<u64>(opts().nshards)) != opts().shard) continue;
            for (i64 ma = 0; ma < 3; ++ma)
              for (i64 mb = 0; mb < 3; ++mb)
              {
                i64 const k = (a + 2 * b + ma + mb) % 6 - 2;
                Ints const c{n, a, b, ma, mb, k};
                cur_vec(c);
                small_one(c);
              }
          }
      }
    },
    small_one, small_describe).self_sharded = true);
#endif

// random: dimension 1-4, components in [-9,9] packed base 19 (digit 0 = component 0)
struct RCase
{
  int n, ma, mb, k;
  Vec<int, 4> a, b;
};
RCase decode_r(Ints const &in)
{
  Choices ch(in);
  RCase s;
  u64 const w = ch.raw();
  s.n = nmin + static_cast<int>((w & 3) % static_cast<u64>(nmax - nmin + 1));
  s.ma = static_cast<int>((w >> 2) % 3);
  s.mb = static_cast<int>((w >> 8) % 3);
  auto dig = [](u64 &x) {
    int const d = static_cast<int>(x % 19);
    x /= 19;
    return d <= 9 ? d : d - 19;
  };
  u64 wk = (w >> 12);
  s.k = dig(wk);
  u64 wa = ch.raw() & 0xffffffffULL, wb = ch.raw() & 0xffffffffULL;
  for (int i = 0; i < 4; ++i)
  {
    s.a[static_cast<std::size_t>(i)] = dig(wa);
    s.b[static_cast<std::size_t>(i)] = dig(wb);
  }
  return s;
}
template <std::size_t N>
Vec<int, N> head(Vec<int, 4> const &v)
{
  Vec<int, N> r{};
  for (std::size_t i = 0; i < N; ++i) r[i] = v[i];
  return r;
}
void random_one(Ints const &in)
{
  RCase const s = decode_r(in);
  if constexpr (in_range(1))
    if (s.n == 1) run_case<1>(head<1>(s.a), head<1>(s.b), s.ma, s.mb, s.k);
  if constexpr (in_range(2))
    if (s.n == 2) run_case<2>(head<2>(s.a), head<2>(s.b), s.ma, s.mb, s.k);
  if constexpr (in_range(3))
    if (s.n == 3) run_case<3>(head<3>(s.a), head<3>(s.b), s.ma, s.mb, s.k);
  if constexpr (in_range(4))
    if (s.n == 4) run_case<4>(head<4>(s.a), head<4>(s.b), s.ma, s.mb, s.k);
}
Reg const r_random{"vec_random_" + tag, Kind::random,
                   "dimension " + tag + ": two vectors (and dims) with components in [-9,9], scalar in [-9,9], storage per operand (static / view / matrix row view); non-trivial: a or b is neither null nor a unit vector",
                   [] { run_random(*g_cur.sec, {60000, 4}, {300000, 4}); }, random_one,
                   [](Ints const &in) {
                     RCase const s = decode_r(in);
                     std::string a = "[", b = "[";
                     for (int i = 0; i < s.n; ++i)
                     {
                       a += (i ? "," : "") + std::to_string(s.a[static_cast<std::size_t>(i)]);
                       b += (i ? "," : "") + std::to_string(s.b[static_cast<std::size_t>(i)]);
                     }
                     return "dimension " + std::to_string(s.n) + ": a = " + a + "] (" + storage_name(s.ma) + "), b = " + b + "] (" + storage_name(s.mb) + "), k = " + std::to_string(s.k);
                   }};

#if C14_NMAX == 4
// ---------------------------------------------------------------- raw_view: a storage whose references are memcpy proxies
// (the storage of test/math/vector/raw_view.cpp; only the operations shown there are used: element
// access through x()..w() / get_unsafe / at, assignment through the proxy, copying the vector)
template <typename Type, typename Pointer>
class byte_proxy
{
public:
  explicit byte_proxy(Pointer const p) : data_{p} {}
  operator Type() const // NOLINT
  {
    Type r;
    std::memcpy(&r, data_, sizeof(Type));
    return r;
  }
  byte_proxy &operator=(Type const &v)
  {
    std::memcpy(data_, &v, sizeof(Type));
    return *this;
  }

private:
  Pointer data_;
};
template <typename Type>
class raw_view
{
public:
  using size_type = fcppt::math::size_type;
  using pointer = unsigned char *;
  using const_pointer = unsigned char const *;
  using reference = byte_proxy<Type, pointer>;
  using const_reference = byte_proxy<Type, const_pointer>;
  explicit raw_view(pointer const p) : data_(p) {}
  reference operator[](size_type const i) { return reference{data_ + i * sizeof(Type)}; }
  const_reference operator[](size_type const i) const { return const_reference{data_ + i * sizeof(Type)}; }

private:
  pointer data_;
};
template <std::size_t N, std::size_t... I>
void raw_view_case(Vec<int, N> const &a, int const route, std::index_sequence<I...>)
{
  using V = fcppt::math::vector::object<int, N, raw_view<int>>;
  // the buffer is deliberately misaligned for int
  alignas(int) unsigned char bytes[N * sizeof(int) + 1] = {};
  V v{raw_view<int>(bytes + 1)};
  (vec_write_one<int, N, I>(v, a, route), ...);
  Vec<int, N> stored{};
  std::memcpy(stored.data(), bytes + 1, N * sizeof(int));
  V const copy(v);
  bool ok = stored == a;
  ok = ok && ((static_cast<int>(fcppt::math::vector::at<I>(copy)) == a[I] && static_cast<int>(copy.get_unsafe(I)) == a[I] && static_cast<int>(v.get_unsafe(I)) == a[I]) && ...);
  if constexpr (N >= 1) ok = ok && static_cast<int>(copy.x()) == a[0];
  if constexpr (N >= 2) ok = ok && static_cast<int>(copy.y()) == a[1];
  if constexpr (N >= 3) ok = ok && static_cast<int>(copy.z()) == a[2];
  if constexpr (N >= 4) ok = ok && static_cast<int>(copy.w()) == a[3];
  if (!ok) fail("vector::object|raw_view-storage|" + vlbl<N>(), "values " + show_arr(a) + " written through route " + std::to_string(route) + " read back as " + show_arr(stored));
}
// {N, route, four components as one packed word}
void raw_view_one(Ints const &c)
{
  i64 const n = 1 + (c.at(0) + 3) % 4;
  int const route = static_cast<int>(c.at(1) % 3);
  Vec<int, 4> a{};
  u64 w = static_cast<u64>(c.at(2));
  for (int &x : a)
  {
    x = static_cast<int>(w % 19) - 9;
    w /= 19;
  }
  count(!is_null_or_unit<int, 4>(a));
  switch (n)
  {
  case 1: raw_view_case<1>(head<1>(a), route, std::make_index_sequence<1>{}); break;
  case 2: raw_view_case<2>(head<2>(a), route, std::make_index_sequence<2>{}); break;
  case 3: raw_view_case<3>(head<3>(a), route, std::make_index_sequence<3>{}); break;
  default: raw_view_case<4>(a, route, std::make_index_sequence<4>{}); break;
  }
}
Reg const r_raw{"raw_view", Kind::exhaustive,
                "vectors of dimension 1-4 over a memcpy-proxy storage on a misaligned byte buffer: writes through at / get_unsafe / x..w, read back from the bytes and through a copy; components from a fixed lattice of packed words; non-trivial: not null / unit",
                [] {
                  for (i64 n = 1; n <= 4; ++n)
                    for (i64 route = 0; route < 3; ++route)
                      for (i64 w = 0; w < 19 * 19 * 19 * 19; w += 7)
                      {
                        cur3(n, route, w);
                        raw_view_one({n, route, w});
                      }
                },
                raw_view_one,
                [](Ints const &c) { return "raw_view vector of dimension " + std::to_string(1 + (c.at(0) + 3) % 4) + ", route " + std::to_string(c.at(1) % 3) + ", packed components " + std::to_string(c.at(2)); }};

Reg const r_bits{"bit_strings", Kind::exhaustive, "bit_strings<int,N> and <unsigned,N> for N = 1..5 (fixed outputs); non-trivial: N >= 2",
                 [] {
                   for (i64 n = 1; n <= 5; ++n)
                   {
                     cur1(n);
                     g_cur.sec->one({n});
                   }
                 },
                 [](Ints const &c) {
                   count(c.at(0) >= 2);
                   switch (c.at(0))
                   {
                   case 1: check_bit_strings<int, 1>(); check_bit_strings<unsigned, 1>(); break;
                   case 2: check_bit_strings<int, 2>(); check_bit_strings<unsigned, 2>(); break;
                   case 3: check_bit_strings<int, 3>(); check_bit_strings<unsigned, 3>(); break;
                   case 4: check_bit_strings<int, 4>(); check_bit_strings<unsigned, 4>(); break;
                   default: check_bit_strings<int, 5>(); check_bit_strings<unsigned, 5>(); break;
                   }
                 },
                 [](Ints const &c) { return "bit_strings<" + std::to_string(c.at(0)) + ">"; }};
#endif
}
