// VERIF: quick_shards=1
// C16 - set_union / set_intersection / set_difference with std::map operands ("Set must be an
// associative container"). Kept in a translation unit of its own: a library change that only fits
// std::set stops this file from compiling, and the other C16 harnesses still run and report.
#include "c16_common.hpp"

#include <fcppt/container/set_difference.hpp>
#include <fcppt/container/set_intersection.hpp>
#include <fcppt/container/set_union.hpp>

#include <map>

using namespace verif;

namespace
{
std::map<int, int> mkm(int mask)
{
  std::map<int, int> m;
  for (int i = 0; i < 5; ++i)
    if (mask & (1 << i)) m[i] = i * 10;
  return m;
}
std::string showm(std::map<int, int> const &m)
{
  std::string r = "{";
  for (auto const &p : m) r += std::to_string(p.first) + "->" + std::to_string(p.second) + " ";
  return r + "}";
}
void map_sets_case(i64 a_, i64 b_)
{
  int const a = static_cast<int>(c16::mod(a_, 32)), b = static_cast<int>(c16::mod(b_, 32));
  count((a & b) != 0 && (a & ~b) != 0 && (b & ~a) != 0);
  auto const u = fcppt::container::set_union(mkm(a), mkm(b));
  auto const n = fcppt::container::set_intersection(mkm(a), mkm(b));
  auto const d = fcppt::container::set_difference(mkm(a), mkm(b));
  std::string const ctx = "maps of masks " + std::to_string(a) + "," + std::to_string(b);
  if (!(u == mkm(a | b))) fail("container::set_union|result|map", "set_union on " + ctx + " = " + showm(u));
  if (!(n == mkm(a & b))) fail("container::set_intersection|result|map", "set_intersection on " + ctx + " = " + showm(n));
  if (!(d == mkm(a & ~b))) fail("container::set_difference|result|map", "set_difference on " + ctx + " = " + showm(d));
}
Reg const r_map_sets{
    "cont_set_operations_on_maps", Kind::exhaustive, "set_union / set_intersection / set_difference on std::map: the key sets overlap and each has a key the other lacks",
    [] {
      for (i64 a = 0; a < 32; ++a)
        for (i64 b = 0; b < 32; ++b)
        {
          cur2(a, b);
          map_sets_case(a, b);
        }
    },
    [](Ints const &c) { map_sets_case(c.at(0), c.at(1)); },
    [](Ints const &c) { return "set operations on maps key->10*key over the subsets of {0..4} with bit masks " + std::to_string(c16::mod(c.at(0), 32)) + " and " + std::to_string(c16::mod(c.at(1), 32)); }};
}
