// VERIF: tiers=thorough
// C16 - the sections of c16_transform_impl.hpp once more (thorough tier only) with elements that own a
// heap std::string (E1 payloads of DESIGN.md); sections suffixed "_heap".
#define C16_HEAP_ELEMENTS
#include "c16_transform_impl.hpp"
