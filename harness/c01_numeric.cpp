// VERIF: quick_shards=8
// C01 (numeric part of the registry) - the integer helpers and checked conversions are total:
// the complete C06 enumeration (all 8/16-bit values and pairs, boundary lattice squared, seeded
// samples; every instantiation) is run under ASan/UBSan/_GLIBCXX_ASSERTIONS with the value oracle
// switched off: a case fails only by undefined behaviour, an escaping exception or a hang.
#define VERIF_TOTALITY_ONLY
#include "c06_numeric.cpp"
