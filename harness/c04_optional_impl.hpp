// Section code of c04_optional.cpp (plain values) and c04_heap_optional.cpp (thorough tier, heap-owning values).
// C04 (part 1) - fcppt::optional combinators against the tagged-union model.
// Domain: all optionals over D = {d0,d1,d2} (4), optional<optional<D>> (5), ALL functions between the
// finite domains as tables (D->D 27, D->optional<D> 64, D->bool 8, DxD->D 19683), all containers of
// optionals up to length 4. Every continuation counts its calls per argument value.
// Oracle: integer model (0 = nothing, 1+d = optional{d}) with the textbook definitions.
// Reading: "If _source is set to x then _function(x) is returned" (bind, map, filter, apply, combine,
// maybe, ...) denotes one evaluation of _function(x): the continuation must be called exactly once
// with the held value and never when a needed value is absent; defaults of maybe/from/alternative/
// make_if are called iff their value is needed, once.
#include "c04_common.hpp"

#include <fcppt/algorithm/loop_break_tuple.hpp>
#include <fcppt/algorithm/map_tuple.hpp>
#include <fcppt/reference_impl.hpp>
#include <fcppt/make_ref.hpp>
#include <fcppt/make_cref.hpp>
#include <fcppt/monad/bind.hpp>
#include <fcppt/monad/chain.hpp>
#include <fcppt/monad/return.hpp>
#include <fcppt/optional/alternative.hpp>
#include <fcppt/optional/apply.hpp>
#include <fcppt/optional/assign.hpp>
#include <fcppt/optional/bind.hpp>
#include <fcppt/optional/cat.hpp>
#include <fcppt/optional/combine.hpp>
#include <fcppt/optional/comparison.hpp>
#include <fcppt/optional/copy_value.hpp>
#include <fcppt/optional/deref.hpp>
#include <fcppt/optional/filter.hpp>
#include <fcppt/optional/from.hpp>
#include <fcppt/optional/from_pointer.hpp>
#include <fcppt/optional/join.hpp>
#include <fcppt/optional/make.hpp>
#include <fcppt/optional/make_if.hpp>
#include <fcppt/optional/map.hpp>
#include <fcppt/optional/maybe.hpp>
#include <fcppt/optional/maybe_multi.hpp>
#include <fcppt/optional/maybe_void.hpp>
#include <fcppt/optional/maybe_void_multi.hpp>
#include <fcppt/optional/monad.hpp>
#include <fcppt/optional/nothing.hpp>
#include <fcppt/optional/object.hpp>
#include <fcppt/optional/reference.hpp>
#include <fcppt/optional/sequence.hpp>
#include <fcppt/optional/to_container.hpp>
#include <fcppt/optional/to_exception.hpp>
#include <fcppt/optional/to_pointer.hpp>
#include <fcppt/tuple/get.hpp>
#include <fcppt/tuple/make.hpp>
#include <fcppt/tuple/object.hpp>

#include <deque>
#include <list>
#include <string>
#include <vector>

using namespace c04;

namespace
{
using OD = fcppt::optional::object<D>;
using OE = fcppt::optional::object<E>;
using OR = fcppt::optional::object<R>;
using OOD = fcppt::optional::object<OD>;

OD mk(int o) { return o == 0 ? OD{} : OD{D(o - 1)}; }
OE mke(int o) { return o == 0 ? OE{} : OE{E(o - 1)}; }
OOD mkoo(int k) { return k == 0 ? OOD{} : OOD{mk(k - 1)}; }
template <typename V>
int code(fcppt::optional::object<V> const &o)
{
  if (!o.has_value()) return 0;
  int const i = o.get_unsafe().idx();
  return i < 0 ? -1 : 1 + i;
}
int codeoo(OOD const &o) { return o.has_value() ? (code(o.get_unsafe()) < 0 ? -1 : 1 + code(o.get_unsafe())) : 0; }

// counting continuations (arguments are taken by value: from an rvalue optional the held value is
// moved into the parameter, which is what move_type documents)
auto kleisli(i64 f, Calls &c)
{
  return [f, &c](D x) -> OD {
    int const i = x.idx();
    c.hit(i);
    return mk(i < 0 ? 0 : dig(f, i, 4));
  };
}
template <typename To>
auto table(i64 f, Calls &c)
{
  return [f, &c](D x) -> To {
    int const i = x.idx();
    c.hit(i);
    return To(i < 0 ? 0 : dig(f, i, 3));
  };
}
auto table2(i64 t, Calls2 &c)
{
  return [t, &c](D x, D y) -> D {
    int const i = x.idx(), j = y.idx();
    c.hit(i, j);
    return D((i < 0 || j < 0) ? 0 : dig(t, i * 3 + j, 3));
  };
}

#define KEY(present, base) ((present) ? base "|present" : base "|absent")

// ------------------------------------------------------------------------------------------------
// bind: value, call counts, monad laws (left/right identity, associativity), monad::bind / chain
void bind_case(i64 o_, i64 f_, i64 g_)
{
  int const o = static_cast<int>(mod(o_, 4));
  i64 const f = mod(f_, 64), g = mod(g_, 64);
  int const m1 = o == 0 ? 0 : dig(f, o - 1, 4);
  int const m2 = m1 == 0 ? 0 : dig(g, m1 - 1, 4);
  count(o != 0 && !constant_table(f, 3, 4));
  both_categories([&](auto rv) {
    constexpr bool RV = decltype(rv)::value;
    {
      Calls cf;
      OD src = mk(o);
      OD const r = fcppt::optional::bind(pass<RV>(src), kleisli(f, cf));
      chk(code(r) == m1, KEY(o, "optional::bind|result"), [&] { return std::string(cat_name(RV)) + " bind(" + oname(o) + ", f) = " + oname(code(r)) + ", expected " + oname(m1); });
      chk(cf.exactly(o - 1), KEY(o, "optional::bind|calls"), [&] { return std::string(cat_name(RV)) + " bind(" + oname(o) + ", f): " + cf.str() + ", expected " + held_str(o - 1); });
    }
    {
      // associativity, left association
      Calls cf, cg;
      OD src = mk(o);
      OD const r = fcppt::optional::bind(fcppt::optional::bind(pass<RV>(src), kleisli(f, cf)), kleisli(g, cg));
      chk(code(r) == m2, KEY(o, "optional::bind|associativity-left"), [&] { return "bind(bind(" + oname(o) + ",f),g) = " + oname(code(r)) + ", expected " + oname(m2); });
      chk(cf.exactly(o - 1) && cg.exactly(m1 - 1), KEY(o, "optional::bind|associativity-left-calls"), [&] { return "bind(bind(" + oname(o) + ",f),g): f " + cf.str() + " g " + cg.str(); });
    }
    {
      // associativity, right association
      Calls cf, cg;
      OD src = mk(o);
      auto const fk = kleisli(f, cf);
      auto const gk = kleisli(g, cg);
      OD const r = fcppt::optional::bind(pass<RV>(src), [&](D x) { return fcppt::optional::bind(fk(std::move(x)), gk); });
      chk(code(r) == m2, KEY(o, "optional::bind|associativity-right"), [&] { return "bind(" + oname(o) + ", x -> bind(f(x),g)) = " + oname(code(r)) + ", expected " + oname(m2); });
      chk(cf.exactly(o - 1) && cg.exactly(m1 - 1), KEY(o, "optional::bind|associativity-right-calls"), [&] { return "bind(" + oname(o) + ", x -> bind(f(x),g)): f " + cf.str() + " g " + cg.str(); });
    }
    {
      // monad::chain(o, f, g) = bind(bind(o,f),g)
      Calls cf, cg;
      OD src = mk(o);
      OD const r = fcppt::monad::chain(pass<RV>(src), kleisli(f, cf), kleisli(g, cg));
      chk(code(r) == m2, KEY(o, "monad::chain<optional>|result"), [&] { return "chain(" + oname(o) + ",f,g) = " + oname(code(r)) + ", expected " + oname(m2); });
      chk(cf.exactly(o - 1) && cg.exactly(m1 - 1), KEY(o, "monad::chain<optional>|calls"), [&] { return "chain(" + oname(o) + ",f,g): f " + cf.str() + " g " + cg.str(); });
    }
    if (g == 0)
    {
      // monad::bind is optional::bind
      Calls cf;
      OD src = mk(o);
      OD const r = fcppt::monad::bind(pass<RV>(src), kleisli(f, cf));
      chk(code(r) == m1, KEY(o, "monad::bind<optional>|result"), [&] { return "monad::bind(" + oname(o) + ", f) = " + oname(code(r)) + ", expected " + oname(m1); });
      chk(cf.exactly(o - 1), KEY(o, "monad::bind<optional>|calls"), [&] { return "monad::bind(" + oname(o) + ", f): " + cf.str(); });
      if (o != 0)
      {
        // left identity: bind(return x, f) = f(x)
        Calls c1, c2;
        OD const a = fcppt::optional::bind(fcppt::optional::make(D(o - 1)), kleisli(f, c1));
        OD const b = fcppt::optional::bind(fcppt::monad::return_<OD>(D(o - 1)), kleisli(f, c2));
        chk(code(a) == m1 && code(b) == m1, "optional::bind|left-identity|present", [&] { return "bind(make(d" + std::to_string(o - 1) + "), f) = " + oname(code(a)) + " / via monad::return_ " + oname(code(b)) + ", expected f(x) = " + oname(m1); });
        chk(c1.exactly(o - 1) && c2.exactly(o - 1), "optional::bind|left-identity-calls|present", [&] { return c1.str() + " " + c2.str(); });
      }
    }
    if (g == 0 && f == 0)
    {
      // right identity: bind(o, return) = o
      OD src = mk(o);
      OD const r = fcppt::optional::bind(pass<RV>(src), [](D x) { return fcppt::optional::make(std::move(x)); });
      chk(code(r) == o, KEY(o, "optional::bind|right-identity"), [&] { return "bind(" + oname(o) + ", make) = " + oname(code(r)); });
    }
  });
}

Reg const r_bind{
    C04_SEC("opt_bind_laws"), Kind::exhaustive,
    "optional::bind / monad::bind / monad::chain: the optional holds a value and the first continuation table D->optional<D> is not constant",
    [] {
      for (i64 o = 0; o < 4; ++o)
        for (i64 f = 0; f < 64; ++f)
          for (i64 g = 0; g < 64; ++g)
          {
            cur3(o, f, g);
            bind_case(o, f, g);
          }
    },
    [](Ints const &c) { bind_case(c.at(0), c.at(1), c.at(2)); },
    [](Ints const &c) { return "bind laws: o=" + oname(static_cast<int>(mod(c.at(0), 4))) + " f=table#" + std::to_string(mod(c.at(1), 64)) + " g=table#" + std::to_string(mod(c.at(2), 64)) + " (D->optional<D>, base-4 digits, 0=nothing)"; }};

// ------------------------------------------------------------------------------------------------
// map: value, calls, functor laws; type-changing map; join o map = bind
void map_case(i64 o_, i64 f_, i64 g_)
{
  int const o = static_cast<int>(mod(o_, 4));
  i64 const f = mod(f_, 27), g = mod(g_, 27);
  int const m1 = o == 0 ? 0 : 1 + dig(f, o - 1, 3);
  int const m2 = m1 == 0 ? 0 : 1 + dig(g, m1 - 1, 3);
  count(o != 0 && !constant_table(f, 3, 3));
  both_categories([&](auto rv) {
    constexpr bool RV = decltype(rv)::value;
    {
      Calls cf;
      OD src = mk(o);
      OD const r = fcppt::optional::map(pass<RV>(src), table<D>(f, cf));
      if constexpr (!RV)
      {
        // a NON-CONST lvalue argument: map is a pure function of it; the argument is the same value
        // afterwards and a second call gives the same result
        Calls c1, c2;
        OD lv = mk(o);
        OD const r1 = fcppt::optional::map(lv, table<D>(f, c1));
        bool const unchanged = lv == mk(o);
        OD const r2 = fcppt::optional::map(lv, table<D>(f, c2));
        chk(code(r1) == code(r) && unchanged && code(r2) == code(r), "optional::map|non-const-lvalue-argument", [&] {
          return "map(lvalue " + oname(o) + ", f) = " + oname(code(r1)) + ", argument " + (unchanged ? "unchanged" : "CHANGED to " + oname(code(lv))) + ", second call = " + oname(code(r2)) + "; const lvalue gives " + oname(code(r));
        });
      }
      chk(code(r) == m1, KEY(o, "optional::map|result"), [&] { return std::string(cat_name(RV)) + " map(" + oname(o) + ", f) = " + oname(code(r)) + ", expected " + oname(m1); });
      chk(cf.exactly(o - 1), KEY(o, "optional::map|calls"), [&] { return std::string(cat_name(RV)) + " map(" + oname(o) + ", f): " + cf.str() + ", expected " + held_str(o - 1); });
    }
    {
      // composition: map(map(o,f),g) = map(o, g.f)
      Calls cf, cg, cf2, cg2;
      OD src = mk(o), src2 = mk(o);
      OD const a = fcppt::optional::map(fcppt::optional::map(pass<RV>(src), table<D>(f, cf)), table<D>(g, cg));
      auto const ft = table<D>(f, cf2);
      auto const gt = table<D>(g, cg2);
      OD const b = fcppt::optional::map(pass<RV>(src2), [&](D x) { return gt(ft(std::move(x))); });
      chk(code(a) == m2 && code(b) == m2, KEY(o, "optional::map|composition"), [&] { return "map(map(" + oname(o) + ",f),g) = " + oname(code(a)) + ", map(o, g.f) = " + oname(code(b)) + ", expected " + oname(m2); });
      chk(cf.exactly(o - 1) && cg.exactly(m1 - 1) && cf2.exactly(o - 1) && cg2.exactly(m1 - 1), KEY(o, "optional::map|composition-calls"), [&] { return cf.str() + cg.str() + cf2.str() + cg2.str(); });
    }
    if (g == 0)
    {
      // type-changing map D -> E
      Calls cf;
      OD src = mk(o);
      OE const r = fcppt::optional::map(pass<RV>(src), table<E>(f, cf));
      chk(code(r) == m1, KEY(o, "optional::map|result-other-type"), [&] { return "map<D->E>(" + oname(o) + ") = " + std::to_string(code(r)) + ", expected " + std::to_string(m1); });
      chk(cf.exactly(o - 1), KEY(o, "optional::map|calls-other-type"), [&] { return cf.str(); });
    }
    if (g == 0 && f == 0)
    {
      OD src = mk(o);
      OD const r = fcppt::optional::map(pass<RV>(src), [](D x) { return x; });
      chk(code(r) == o, KEY(o, "optional::map|identity"), [&] { return "map(" + oname(o) + ", id) = " + oname(code(r)); });
    }
  });
}
Reg const r_map{
    C04_SEC("opt_map_laws"), Kind::exhaustive, "optional::map: the optional holds a value and the first table D->D is not constant",
    [] {
      for (i64 o = 0; o < 4; ++o)
        for (i64 f = 0; f < 27; ++f)
          for (i64 g = 0; g < 27; ++g)
          {
            cur3(o, f, g);
            map_case(o, f, g);
          }
    },
    [](Ints const &c) { map_case(c.at(0), c.at(1), c.at(2)); },
    [](Ints const &c) { return "map laws: o=" + oname(static_cast<int>(mod(c.at(0), 4))) + " f=table#" + std::to_string(mod(c.at(1), 27)) + " g=table#" + std::to_string(mod(c.at(2), 27)) + " (D->D, base-3 digits)"; }};

// join: value, join = bind id, join(map(o,f)) = bind(o,f)
void join_case(i64 k_, i64 f_)
{
  int const k = static_cast<int>(mod(k_, 5));
  i64 const f = mod(f_, 64);
  int const mj = k < 2 ? 0 : k - 1;
  count(k >= 2 || (k >= 1 && !constant_table(f, 3, 4)));
  both_categories([&](auto rv) {
    constexpr bool RV = decltype(rv)::value;
    if (f == 0)
    {
      OOD src = mkoo(k), src2 = mkoo(k);
      OD const r = fcppt::optional::join(pass<RV>(src));
      chk(code(r) == mj, KEY(k, "optional::join|result"), [&] { return std::string(cat_name(RV)) + " join(#" + std::to_string(k) + ") = " + oname(code(r)) + ", expected " + oname(mj) + " (0 nothing, 1 optional{nothing}, 2+d optional{optional{d}})"; });
      OD const b = fcppt::optional::bind(pass<RV>(src2), [](OD x) { return x; });
      chk(code(b) == mj, KEY(k, "optional::join|equals-bind-identity"), [&] { return "bind(#" + std::to_string(k) + ", id) = " + oname(code(b)) + ", expected " + oname(mj); });
      if constexpr (!RV)
      {
        // a NON-CONST lvalue argument is the same value after the call
        OOD lv = mkoo(k);
        OD const r2 = fcppt::optional::join(lv);
        chk(code(r2) == mj, KEY(k, "optional::join|result|non-const-lvalue"), [&] { return "lvalue join(#" + std::to_string(k) + ") = " + oname(code(r2)); });
        chk(lv == mkoo(k), KEY(k, "optional::join|non-const-lvalue-argument|modified"), [&] { return "join(#" + std::to_string(k) + ") changed its non-const lvalue argument"; });
      }
    }
    if (k < 4)
    {
      int const o = k;
      int const m1 = o == 0 ? 0 : dig(f, o - 1, 4);
      Calls cf;
      OD src = mk(o);
      OOD mapped = fcppt::optional::map(pass<RV>(src), kleisli(f, cf));
      int const want_mapped = o == 0 ? 0 : 1 + m1;
      chk(codeoo(mapped) == want_mapped, KEY(o, "optional::map|result-nested"), [&] { return "map(" + oname(o) + ", D->optional<D>) = #" + std::to_string(codeoo(mapped)) + ", expected #" + std::to_string(want_mapped); });
      OD const r = fcppt::optional::join(std::move(mapped));
      chk(code(r) == m1, KEY(o, "optional::join|join-map-is-bind"), [&] { return "join(map(" + oname(o) + ",f)) = " + oname(code(r)) + ", expected bind = " + oname(m1); });
      chk(cf.exactly(o - 1), KEY(o, "optional::map|calls-nested"), [&] { return cf.str(); });
    }
  });
}
Reg const r_join{
    C04_SEC("opt_join"), Kind::exhaustive, "optional::join: an inner optional is present, or join(map(o,f)) with o present and f not constant",
    [] {
      for (i64 k = 0; k < 5; ++k)
        for (i64 f = 0; f < 64; ++f)
        {
          cur2(k, f);
          join_case(k, f);
        }
    },
    [](Ints const &c) { join_case(c.at(0), c.at(1)); },
    [](Ints const &c) { return "join: nested optional #" + std::to_string(mod(c.at(0), 5)) + " (0 nothing, 1 optional{nothing}, 2+d optional{optional{d}}), f=table#" + std::to_string(mod(c.at(1), 64)); }};

// ------------------------------------------------------------------------------------------------
// maybe / from / maybe_void / to_container / to_exception: branch selection, laziness, exactly once
struct Exc
{
  int v;
};
void maybe_case(i64 o_, i64 d_, i64 f_)
{
  int const o = static_cast<int>(mod(o_, 4)), dv = static_cast<int>(mod(d_, 3));
  i64 const f = mod(f_, 27);
  int const want = o == 0 ? dv : dig(f, o - 1, 3);
  count(o != 0 && !constant_table(f, 3, 3));
  both_categories([&](auto rv) {
    constexpr bool RV = decltype(rv)::value;
    {
      Calls cf;
      Calls0 cd;
      OD src = mk(o);
      R const r = fcppt::optional::maybe(
          pass<RV>(src), [&cd, dv] { ++cd.n; return R(dv); }, table<R>(f, cf));
      chk(r.idx() == want, KEY(o, "optional::maybe|result"), [&] { return std::string(cat_name(RV)) + " maybe(" + oname(o) + ", default r" + std::to_string(dv) + ", f) = " + vname<R>(r.idx()) + ", expected r" + std::to_string(want); });
      chk(cf.exactly(o - 1), KEY(o, "optional::maybe|transform-calls"), [&] { return "maybe(" + oname(o) + "): transform " + cf.str() + ", expected " + held_str(o - 1); });
      chk(cd.n == (o == 0 ? 1 : 0), KEY(o, "optional::maybe|default-calls"), [&] { return "maybe(" + oname(o) + "): default called " + std::to_string(cd.n) + " times"; });
    }
    if (f == 0)
    {
      {
        Calls0 cd;
        OD src = mk(o);
        D const r = fcppt::optional::from(pass<RV>(src), [&cd, dv] { ++cd.n; return D(dv); });
        int const w = o == 0 ? dv : o - 1;
        chk(r.idx() == w, KEY(o, "optional::from|result"), [&] { return std::string(cat_name(RV)) + " from(" + oname(o) + ", default d" + std::to_string(dv) + ") = " + vname<D>(r.idx()); });
        chk(cd.n == (o == 0 ? 1 : 0), KEY(o, "optional::from|default-calls"), [&] { return "from(" + oname(o) + "): default called " + std::to_string(cd.n) + " times"; });
      }
      {
        Calls0 cd;
        OD src = mk(o);
        int got = -2;
        try
        {
          D const r = fcppt::optional::to_exception(pass<RV>(src), [&cd, dv] { ++cd.n; return Exc{dv}; });
          got = r.idx();
        }
        catch (Exc const &e)
        {
          got = 100 + e.v;
        }
        int const w = o == 0 ? 100 + dv : o - 1;
        chk(got == w, KEY(o, "optional::to_exception|result"), [&] { return "to_exception(" + oname(o) + ") gave " + std::to_string(got) + ", expected " + std::to_string(w) + " (100+k = exception k thrown)"; });
        chk(cd.n == (o == 0 ? 1 : 0), KEY(o, "optional::to_exception|make-calls"), [&] { return "make_exception called " + std::to_string(cd.n) + " times"; });
      }
    }
    if (f == 0 && dv == 0)
    {
      {
        Calls cf;
        OD src = mk(o);
        fcppt::optional::maybe_void(pass<RV>(src), [&cf](D x) { cf.hit(x.idx()); });
        chk(cf.exactly(o - 1), KEY(o, "optional::maybe_void|calls"), [&] { return "maybe_void(" + oname(o) + "): " + cf.str() + ", expected " + held_str(o - 1); });
      }
      {
        // to_container only accepts rvalue optionals (container::make moves its arguments)
        std::vector<D> const v = fcppt::optional::to_container<std::vector<D>>(mk(o));
        std::list<D> const l = fcppt::optional::to_container<std::list<D>>(mk(o));
        bool const ok = o == 0 ? (v.empty() && l.empty()) : (v.size() == 1 && l.size() == 1 && v.front().idx() == o - 1 && l.front().idx() == o - 1);
        chk(ok, KEY(o, "optional::to_container|result"), [&] { return "to_container(" + oname(o) + ") has " + std::to_string(v.size()) + "/" + std::to_string(l.size()) + " elements"; });
      }
    }
  });
}
Reg const r_maybe{
    C04_SEC("opt_maybe_from"), Kind::exhaustive, "optional::maybe / from / maybe_void / to_container / to_exception: the optional holds a value and the transform table D->R is not constant",
    [] {
      for (i64 o = 0; o < 4; ++o)
        for (i64 d = 0; d < 3; ++d)
          for (i64 f = 0; f < 27; ++f)
          {
            cur3(o, d, f);
            maybe_case(o, d, f);
          }
    },
    [](Ints const &c) { maybe_case(c.at(0), c.at(1), c.at(2)); },
    [](Ints const &c) { return "maybe/from: o=" + oname(static_cast<int>(mod(c.at(0), 4))) + " default=#" + std::to_string(mod(c.at(1), 3)) + " transform=table#" + std::to_string(mod(c.at(2), 27)); }};

// ------------------------------------------------------------------------------------------------
// alternative / filter / make_if / comparison / object / assign / references
void misc_case(i64 op_, i64 a_, i64 b_)
{
  int const op = static_cast<int>(mod(op_, 6));
  switch (op)
  {
  case 0: // alternative(o1, -> o2)
  {
    int const a = static_cast<int>(mod(a_, 4)), b = static_cast<int>(mod(b_, 4));
    count(a != 0 || b != 0);
    both_categories([&](auto rv) {
      constexpr bool RV = decltype(rv)::value;
      Calls0 c;
      OD src = mk(a);
      OD const r = fcppt::optional::alternative(pass<RV>(src), [&c, b] { ++c.n; return mk(b); });
      int const w = a != 0 ? a : b;
      chk(code(r) == w, KEY(a, "optional::alternative|result"), [&] { return "alternative(" + oname(a) + ", -> " + oname(b) + ") = " + oname(code(r)); });
      chk(c.n == (a == 0 ? 1 : 0), KEY(a, "optional::alternative|second-calls"), [&] { return "alternative(" + oname(a) + ", ...): second argument evaluated " + std::to_string(c.n) + " times"; });
    });
    break;
  }
  case 1: // filter(o, p)
  {
    int const a = static_cast<int>(mod(a_, 4));
    i64 const p = mod(b_, 8);
    count(a != 0 && !constant_table(p, 3, 2));
    both_categories([&](auto rv) {
      constexpr bool RV = decltype(rv)::value;
      Calls c;
      OD src = mk(a);
      OD const r = fcppt::optional::filter(pass<RV>(src), [&c, p](D const &x) -> bool { c.hit(x.idx()); return x.idx() >= 0 && dig(p, x.idx(), 2) != 0; });
      int const w = (a != 0 && dig(p, a - 1, 2) != 0) ? a : 0;
      chk(code(r) == w, KEY(a, "optional::filter|result"), [&] { return std::string(cat_name(RV)) + " filter(" + oname(a) + ", pred#" + std::to_string(p) + ") = " + oname(code(r)) + ", expected " + oname(w); });
      chk(c.exactly(a - 1), KEY(a, "optional::filter|calls"), [&] { return "filter(" + oname(a) + "): " + c.str(); });
      // the documented callable shape is bool (value_type): a predicate that takes its argument BY VALUE.
      // filter returns _source, so the stored value must still be the original (not moved into the predicate).
      Calls c2;
      OD src2 = mk(a);
      OD const r2 = fcppt::optional::filter(pass<RV>(src2), [&c2, p](D x) -> bool { c2.hit(x.idx()); return x.idx() >= 0 && dig(p, x.idx(), 2) != 0; });
      chk(code(r2) == w, KEY(a, "optional::filter|result|by-value-predicate"), [&] { return std::string(cat_name(RV)) + " filter(" + oname(a) + ", by-value pred#" + std::to_string(p) + ") = " + oname(code(r2)) + ", expected " + oname(w); });
      chk(c2.exactly(a - 1), KEY(a, "optional::filter|calls|by-value-predicate"), [&] { return "filter(" + oname(a) + ") with a by-value predicate: " + c2.str(); });
      if (!RV) chk(code(src2) == a, KEY(a, "optional::filter|lvalue-source-changed"), [&] { return "filter changed its lvalue argument " + oname(a) + " to " + oname(code(src2)); });
    });
    break;
  }
  case 2: // make_if(b, f)
  {
    bool const flag = mod(a_, 2) != 0;
    int const d = static_cast<int>(mod(b_, 3));
    count(flag);
    Calls0 c;
    OD const r = fcppt::optional::make_if(flag, [&c, d] { ++c.n; return D(d); });
    chk(code(r) == (flag ? 1 + d : 0), flag ? "optional::make_if|result|true" : "optional::make_if|result|false", [&] { return "make_if(" + std::to_string(flag) + ", -> d" + std::to_string(d) + ") = " + oname(code(r)); });
    chk(c.n == (flag ? 1 : 0), flag ? "optional::make_if|calls|true" : "optional::make_if|calls|false", [&] { return "function called " + std::to_string(c.n) + " times"; });
    break;
  }
  case 3: // comparison
  {
    int const a = static_cast<int>(mod(a_, 4)), b = static_cast<int>(mod(b_, 4));
    count(a != 0 || b != 0);
    OD const x = mk(a), y = mk(b);
    // documented: equal iff both empty or both set with equal values; a<b = (both set ? va<vb : has(a)<has(b))
    chk((x == y) == (a == b), "optional::operator==|value", [&] { return oname(a) + " == " + oname(b) + " gave " + std::to_string(x == y); });
    chk((x != y) == (a != b), "optional::operator!=|value", [&] { return oname(a) + " != " + oname(b) + " gave " + std::to_string(x != y); });
    chk((x < y) == (a < b), "optional::operator<|value", [&] { return oname(a) + " < " + oname(b) + " gave " + std::to_string(x < y); });
    break;
  }
  case 4: // object: construction, observers, copy, move, assignment, optional::assign, nothing, make
  {
    int const a = static_cast<int>(mod(a_, 4)), b = static_cast<int>(mod(b_, 4));
    count(a != 0 && b != 0 && a != b);
    OD x = mk(a);
    chk(x.has_value() == (a != 0), "optional::object|has_value", [&] { return "has_value of " + oname(a) + " wrong"; });
    if (a != 0)
      chk(x.get_unsafe().idx() == a - 1 && std::as_const(x).get_unsafe().idx() == a - 1, "optional::object|get_unsafe", [&] { return "get_unsafe of " + oname(a) + " = " + vname<D>(x.get_unsafe().idx()); });
    OD const cp(x);
    chk(code(cp) == a && code(x) == a, "optional::object|copy-construct", [&] { return "copy of " + oname(a) + " = " + oname(code(cp)) + ", source afterwards " + oname(code(x)); });
    OD mv(std::move(x));
    chk(code(mv) == a, "optional::object|move-construct", [&] { return "move of " + oname(a) + " = " + oname(code(mv)); });
    OD y = mk(b);
    mv = y; // copy assignment
    chk(code(mv) == b && code(y) == b, "optional::object|copy-assign", [&] { return oname(a) + " = " + oname(b) + " gave " + oname(code(mv)); });
    OD z = mk(a);
    z = std::move(y); // move assignment
    chk(code(z) == b, "optional::object|move-assign", [&] { return oname(a) + " = move(" + oname(b) + ") gave " + oname(code(z)); });
    z = OD{cp}; // restore a
    chk(code(z) == a, "optional::object|assign-temporary", [&] { return "assignment of a temporary gave " + oname(code(z)); });
    if (a != 0)
    {
      // mutation through get_unsafe
      z.get_unsafe() = D((a - 1 + 1) % 3);
      chk(code(z) == 1 + (a % 3), "optional::object|get_unsafe-mutation", [&] { return "after get_unsafe() = d: " + oname(code(z)); });
    }
    if (b != 0)
    {
      OD t = mk(a);
      D &ref1 = fcppt::optional::assign(t, D(b - 1)); // assign only accepts rvalues
      chk(code(t) == b && &ref1 == &t.get_unsafe(), "optional::assign|result", [&] { return "assign(" + oname(a) + ", d" + std::to_string(b - 1) + ") gave " + oname(code(t)); });
      OD const m = fcppt::optional::make(D(b - 1));
      chk(code(m) == b, "optional::make|result", [&] { return "make(d) = " + oname(code(m)); });
    }
    OD const n = fcppt::optional::nothing{};
    chk(code(n) == 0, "optional::nothing|result", [&] { return std::string("nothing converts to a set optional"); });
    break;
  }
  default: // optional references: from_pointer / to_pointer / copy_value / deref
  {
    int const a = static_cast<int>(mod(a_, 4));
    count(a != 0);
    D obj(a == 0 ? 0 : a - 1);
    D *const p = a == 0 ? nullptr : &obj;
    fcppt::optional::reference<D> const ref_ = fcppt::optional::from_pointer(p);
    chk(ref_.has_value() == (a != 0) && (a == 0 || &ref_.get_unsafe().get() == &obj), KEY(a, "optional::from_pointer|result"), [&] { return std::string("from_pointer gave the wrong reference"); });
    chk(fcppt::optional::to_pointer(ref_) == p, KEY(a, "optional::to_pointer|result"), [&] { return std::string("to_pointer(from_pointer(p)) != p"); });
    OD const cv = fcppt::optional::copy_value(ref_);
    chk(code(cv) == a && obj.idx() == (a == 0 ? 0 : a - 1), KEY(a, "optional::copy_value|result"), [&] { return "copy_value = " + oname(code(cv)) + ", expected " + oname(a); });
    fcppt::optional::object<D *> const optr = a == 0 ? fcppt::optional::object<D *>{} : fcppt::optional::object<D *>{&obj};
    auto const dr = fcppt::optional::deref(optr);
    chk(dr.has_value() == (a != 0) && (a == 0 || &dr.get_unsafe().get() == &obj), KEY(a, "optional::deref|result"), [&] { return std::string("deref gave the wrong reference"); });
    break;
  }
  }
}
Reg const r_misc{
    C04_SEC("opt_select_compare_object"), Kind::exhaustive,
    "alternative / filter / make_if / comparison / object / references: a value is present (filter: and the predicate is not constant; make_if: the flag is true)",
    [] {
      i64 const na[] = {4, 4, 2, 4, 4, 4}, nb[] = {4, 8, 3, 4, 4, 1};
      for (i64 op = 0; op < 6; ++op)
        for (i64 a = 0; a < na[op]; ++a)
          for (i64 b = 0; b < nb[op]; ++b)
          {
            cur3(op, a, b);
            misc_case(op, a, b);
          }
    },
    [](Ints const &c) { misc_case(c.at(0), c.at(1), c.at(2)); },
    [](Ints const &c) {
      static char const *const names[] = {"alternative(o#a, ->o#b)", "filter(o#a, pred#b)", "make_if(a, ->d#b)", "compare(o#a, o#b)", "object ops(o#a, o#b)", "references(o#a)"};
      return std::string(names[mod(c.at(0), 6)]) + " a=" + std::to_string(c.at(1)) + " b=" + std::to_string(c.at(2));
    }};

// ------------------------------------------------------------------------------------------------
// apply / combine / maybe_multi with two optionals and ALL binary tables DxD->D
void apply2_case(i64 a_, i64 b_, i64 t_)
{
  int const a = static_cast<int>(mod(a_, 4)), b = static_cast<int>(mod(b_, 4));
  i64 const t = mod(t_, 19683);
  bool const all = a != 0 && b != 0;
  int const fv = all ? dig(t, (a - 1) * 3 + (b - 1), 3) : -1;
  count(all && !constant_table(t, 9, 3));
  both_categories([&](auto rv) {
    constexpr bool RV = decltype(rv)::value;
    {
      Calls2 c;
      OD x = mk(a), y = mk(b);
      OD const r = fcppt::optional::apply(table2(t, c), pass<RV>(x), pass<RV>(y));
      int const w = all ? 1 + fv : 0;
      chk(code(r) == w, KEY(all, "optional::apply|result"), [&] { return std::string(cat_name(RV)) + " apply(f," + oname(a) + "," + oname(b) + ") = " + oname(code(r)) + ", expected " + oname(w); });
      chk(c.exactly(all ? a - 1 : -1, b - 1), KEY(all, "optional::apply|calls"), [&] { return "apply(f," + oname(a) + "," + oname(b) + "): " + c.str(); });
    }
    {
      Calls2 c;
      OD x = mk(a), y = mk(b);
      OD const r = fcppt::optional::combine(pass<RV>(x), pass<RV>(y), table2(t, c));
      int const w = all ? 1 + fv : (a != 0 ? a : b);
      chk(code(r) == w, all ? "optional::combine|result|both-present" : (a != 0 || b != 0) ? "optional::combine|result|one-present" : "optional::combine|result|none-present", [&] { return std::string(cat_name(RV)) + " combine(" + oname(a) + "," + oname(b) + ",f) = " + oname(code(r)) + ", expected " + oname(w); });
      chk(c.exactly(all ? a - 1 : -1, b - 1), KEY(all, "optional::combine|calls"), [&] { return "combine(" + oname(a) + "," + oname(b) + ",f): " + c.str(); });
    }
    {
      Calls2 c;
      Calls0 cd;
      int const dv = static_cast<int>(t % 3);
      OD x = mk(a), y = mk(b);
      D const r = fcppt::optional::maybe_multi([&cd, dv] { ++cd.n; return D(dv); }, table2(t, c), pass<RV>(x), pass<RV>(y));
      int const w = all ? fv : dv;
      chk(r.idx() == w, KEY(all, "optional::maybe_multi|result"), [&] { return std::string(cat_name(RV)) + " maybe_multi(default d" + std::to_string(dv) + ",f," + oname(a) + "," + oname(b) + ") = " + vname<D>(r.idx()) + ", expected d" + std::to_string(w); });
      chk(c.exactly(all ? a - 1 : -1, b - 1) && cd.n == (all ? 0 : 1), KEY(all, "optional::maybe_multi|calls"), [&] { return "maybe_multi: transform " + c.str() + " default called " + std::to_string(cd.n) + " times"; });
    }
  });
}
Reg const r_apply2{
    C04_SEC("opt_apply_combine_binary"), Kind::exhaustive, "optional::apply / combine / maybe_multi with two optionals: both hold a value and the binary table DxD->D is not constant",
    [] {
      for (i64 a = 0; a < 4; ++a)
        for (i64 b = 0; b < 4; ++b)
          for (i64 t = 0; t < 19683; ++t)
          {
            cur3(a, b, t);
            apply2_case(a, b, t);
          }
    },
    [](Ints const &c) { apply2_case(c.at(0), c.at(1), c.at(2)); },
    [](Ints const &c) { return "apply/combine/maybe_multi: o1=" + oname(static_cast<int>(mod(c.at(0), 4))) + " o2=" + oname(static_cast<int>(mod(c.at(1), 4))) + " f=binary table#" + std::to_string(mod(c.at(2), 19683)) + " (digit 3i+j = f(di,dj))"; }};

// three optionals of three different types, an injective continuation (every ternary function factors
// through it); unary apply; mixed value categories
struct Tri
{
  int a, b, c;
};
void apply3_case(i64 a_, i64 b_, i64 c_)
{
  int const a = static_cast<int>(mod(a_, 4)), b = static_cast<int>(mod(b_, 4)), c = static_cast<int>(mod(c_, 4));
  bool const all = a != 0 && b != 0 && c != 0;
  count(all || (a != 0) + (b != 0) + (c != 0) == 2);
  int calls = 0;
  bool args_ok = true;
  auto const f3 = [&](D x, E y, R z) {
    ++calls;
    args_ok = args_ok && x.idx() == a - 1 && y.idx() == b - 1 && z.idx() == c - 1;
    return Tri{x.idx(), y.idx(), z.idx()};
  };
  auto mkr = [](int o) { return o == 0 ? OR{} : OR{R(o - 1)}; };
  auto check =[&](fcppt::optional::object<Tri> const &r, char const *flavour) {
    bool const ok = all ? (r.has_value() && r.get_unsafe().a == a - 1 && r.get_unsafe().b == b - 1 && r.get_unsafe().c == c - 1) : !r.has_value();
    chk(ok, KEY(all, "optional::apply|result-3-arguments"), [&] { return std::string(flavour) + " apply(f," + std::to_string(a) + "," + std::to_string(b) + "," + std::to_string(c) + ") wrong (0 = nothing, 1+k = value k)"; });
    chk(calls == (all ? 1 : 0) && args_ok, KEY(all, "optional::apply|calls-3-arguments"), [&] { return std::string(flavour) + " apply with 3 arguments: " + std::to_string(calls) + " calls, arguments " + (args_ok ? "right" : "wrong"); });
    calls = 0;
    args_ok = true;
  };
  {
    OD const x = mk(a);
    OE const y = mke(b);
    OR const z = mkr(c);
    check(fcppt::optional::apply(f3, x, y, z), "const lvalues");
  }
  check(fcppt::optional::apply(f3, mk(a), mke(b), mkr(c)), "rvalues");
  {
    OE const y = mke(b);
    check(fcppt::optional::apply(f3, mk(a), y, mkr(c)), "mixed");
  }
  // mixed categories with a NON-const lvalue holding a heap string: the temporaries may be consumed,
  // the lvalue is left untouched, and a second apply with it gives the same result
  {
    using OS = fcppt::optional::object<std::string>;
    std::string const text(40, static_cast<char>('a' + b));
    OS s = b == 0 ? OS{} : OS{text};
    auto const g = [](D x, std::string y, R z) { return static_cast<int>(y.size()) * 100 + x.idx() * 10 + z.idx(); };
    fcppt::optional::object<int> const r1 = fcppt::optional::apply(g, mk(a), s, mkr(c));
    bool const untouched = b == 0 ? !s.has_value() : (s.has_value() && s.get_unsafe() == text);
    chk(untouched, KEY(all, "optional::apply|non-const-lvalue-argument|modified"), [&] { return "apply(f, rvalue, lvalue, rvalue) changed its non-const lvalue argument (a string of 40 characters" + std::string(s.has_value() ? ", now of " + std::to_string(s.get_unsafe().size()) : ", now nothing") + ")"; });
    fcppt::optional::object<int> const r2 = fcppt::optional::apply(g, mk(a), s, mkr(c));
    bool const same = r1.has_value() == r2.has_value() && (!r1.has_value() || r1.get_unsafe() == r2.get_unsafe());
    chk(same && r1.has_value() == all && (!all || r1.get_unsafe() == 4000 + (a - 1) * 10 + (c - 1)), KEY(all, "optional::apply|result|second-call-on-the-same-lvalue"), [&] { return "apply(f, rvalue, lvalue, rvalue) twice with the same lvalue: results differ or are wrong"; });
  }
  // maybe_multi / maybe_void_multi with three arguments
  {
    int dcalls = 0;
    OE const y = mke(b);
    Tri const r = fcppt::optional::maybe_multi([&dcalls] { ++dcalls; return Tri{-5, -5, -5}; }, f3, mk(a), y, mkr(c));
    bool const ok = all ? (r.a == a - 1 && r.b == b - 1 && r.c == c - 1) : (r.a == -5);
    chk(ok, KEY(all, "optional::maybe_multi|result-3-arguments"), [&] { return "maybe_multi with (" + std::to_string(a) + "," + std::to_string(b) + "," + std::to_string(c) + ") wrong"; });
    chk(calls == (all ? 1 : 0) && args_ok && dcalls == (all ? 0 : 1), KEY(all, "optional::maybe_multi|calls-3-arguments"), [&] { return "transform calls " + std::to_string(calls) + ", default calls " + std::to_string(dcalls); });
    calls = 0;
    args_ok = true;
  }
  {
    OD const x = mk(a);
    fcppt::optional::maybe_void_multi([&](D p, E q, R s) { (void)f3(std::move(p), std::move(q), std::move(s)); }, x, mke(b), mkr(c));
    chk(calls == (all ? 1 : 0) && args_ok, KEY(all, "optional::maybe_void_multi|calls"), [&] { return "maybe_void_multi with (" + std::to_string(a) + "," + std::to_string(b) + "," + std::to_string(c) + "): " + std::to_string(calls) + " calls"; });
    calls = 0;
    args_ok = true;
  }
  if (b == 0 && c == 0)
  {
    // unary apply = map
    Calls cf;
    OD const r = fcppt::optional::apply(table<D>(5, cf), mk(a));
    chk(code(r) == (a == 0 ? 0 : 1 + dig(5, a - 1, 3)) && cf.exactly(a - 1), KEY(a, "optional::apply|unary"), [&] { return "apply(f," + oname(a) + ") = " + oname(code(r)) + " " + cf.str(); });
  }
}
Reg const r_apply3{
    C04_SEC("opt_apply_ternary"), Kind::exhaustive, "optional::apply / maybe_multi / maybe_void_multi with three optionals of different types: at most one of them is empty",
    [] {
      for (i64 a = 0; a < 4; ++a)
        for (i64 b = 0; b < 4; ++b)
          for (i64 c = 0; c < 4; ++c)
          {
            cur3(a, b, c);
            apply3_case(a, b, c);
          }
    },
    [](Ints const &c) { apply3_case(c.at(0), c.at(1), c.at(2)); },
    [](Ints const &c) { return "apply3: optionals (" + std::to_string(mod(c.at(0), 4)) + "," + std::to_string(mod(c.at(1), 4)) + "," + std::to_string(mod(c.at(2), 4)) + ") of types D,E,R; 0 = nothing, 1+k = value k"; }};

// ------------------------------------------------------------------------------------------------
// cat / sequence over all containers of optionals up to length 4
template <typename Src>
Src make_src(int len, i64 code_)
{
  Src s;
  for (int i = 0; i < len; ++i) s.insert(s.end(), mk(dig(code_, i, 4)));
  return s;
}
template <typename C>
bool same_seq(C const &c, std::vector<int> const &want)
{
  if (c.size() != want.size()) return false;
  std::size_t i = 0;
  for (auto const &x : c)
    if (x.idx() != want[i++]) return false;
  return true;
}
template <typename C>
std::string seq_str(C const &c)
{
  std::string r = "[";
  for (auto const &x : c) r += vname<D>(x.idx()) + " ";
  return r + "]";
}
template <typename Src, typename Res, bool RV>
void container_checks(int len, i64 cd, std::vector<int> const &present, bool all_present, char const *names)
{
  {
    Src src = make_src<Src>(len, cd);
    Res const r = fcppt::optional::cat<Res>(pass<RV>(src));
    chk(same_seq(r, present), present.empty() ? "optional::cat|result|no-value-present" : "optional::cat|result|values-present", [&] { return std::string(names) + " " + cat_name(RV) + ": cat = " + seq_str(r) + " (" + std::to_string(present.size()) + " values expected)"; });
  }
  {
    Src src = make_src<Src>(len, cd);
    fcppt::optional::object<Res> const r = fcppt::optional::sequence<Res>(pass<RV>(src));
    bool const ok = all_present ? (r.has_value() && same_seq(r.get_unsafe(), present)) : !r.has_value();
    chk(ok, all_present ? "optional::sequence|result|all-present" : "optional::sequence|result|one-absent", [&] { return std::string(names) + " " + cat_name(RV) + ": sequence = " + (r.has_value() ? seq_str(r.get_unsafe()) : std::string("nothing")) + ", expected " + (all_present ? "all values" : "nothing"); });
  }
}
void container_case(i64 len_, i64 code_)
{
  int const len = static_cast<int>(mod(len_, 5));
  i64 const cd = mod(code_, ipow(4, len));
  std::vector<int> present;
  bool all_present = true;
  for (int i = 0; i < len; ++i)
  {
    int const o = dig(cd, i, 4);
    if (o == 0)
      all_present = false;
    else
      present.push_back(o - 1);
  }
  count(!present.empty() && (present.size() >= 2 || len >= 2));
  container_checks<std::vector<OD>, std::vector<D>, false>(len, cd, present, all_present, "vector->vector");
  container_checks<std::vector<OD>, std::vector<D>, true>(len, cd, present, all_present, "vector->vector");
  container_checks<std::list<OD>, std::vector<D>, false>(len, cd, present, all_present, "list->vector");
  container_checks<std::list<OD>, std::list<D>, true>(len, cd, present, all_present, "list->list");
  container_checks<std::deque<OD>, std::deque<D>, true>(len, cd, present, all_present, "deque->deque");
  if (len == 2)
  {
    // tuple flavour of sequence (heterogeneous)
    int const a = dig(cd, 0, 4), b = dig(cd, 1, 4);
    auto const r = fcppt::optional::sequence<fcppt::tuple::object<D, E>>(fcppt::tuple::make(mk(a), mke(b)));
    bool const ok = (a != 0 && b != 0) ? (r.has_value() && fcppt::tuple::get<0>(r.get_unsafe()).idx() == a - 1 && fcppt::tuple::get<1>(r.get_unsafe()).idx() == b - 1) : !r.has_value();
    chk(ok, (a != 0 && b != 0) ? "optional::sequence|tuple|all-present" : "optional::sequence|tuple|one-absent", [&] { return "sequence<tuple>(" + std::to_string(a) + "," + std::to_string(b) + ") wrong"; });
  }
}
Reg const r_containers{
    C04_SEC("opt_cat_sequence"), Kind::exhaustive, "optional::cat / sequence: container of length >= 2 with at least one present value (or >= 2 present values)",
    [] {
      for (i64 len = 0; len <= 4; ++len)
        for (i64 cd = 0; cd < ipow(4, static_cast<int>(len)); ++cd)
        {
          cur2(len, cd);
          container_case(len, cd);
        }
    },
    [](Ints const &c) { container_case(c.at(0), c.at(1)); },
    [](Ints const &c) {
      int const len = static_cast<int>(mod(c.at(0), 5));
      std::string r = "cat/sequence of [";
      for (int i = 0; i < len; ++i) r += oname(dig(mod(c.at(1), ipow(4, len)), i, 4)) + " ";
      return r + "]";
    }};
}
