// VERIF: thorough_flavour=fast quick_shards=8
// C06 - checked conversions and integer helpers equal their mathematical definition.
// Oracle: the definition evaluated in __int128. Exhaustive for 8/16-bit, lattice + seeded sample
// for 32/64-bit.
#include "verif.hpp"

#include <fcppt/bit/mask.hpp>
#include <fcppt/bit/shifted_mask.hpp>
#include <fcppt/bit/test.hpp>
#include <fcppt/cast/truncation_check.hpp>
#include <fcppt/enum/from_int.hpp>
#include <fcppt/math/ceil_div.hpp>
#include <fcppt/math/ceil_div_signed.hpp>
#include <fcppt/math/clamp.hpp>
#include <fcppt/math/diff.hpp>
#include <fcppt/math/div.hpp>
#include <fcppt/math/interval_distance.hpp>
#include <fcppt/math/is_power_of_2.hpp>
#include <fcppt/math/log2.hpp>
#include <fcppt/math/mod.hpp>
#include <fcppt/math/next_power_of_2.hpp>
#include <fcppt/math/power_of_2.hpp>
#include <fcppt/optional/object.hpp>
#include <fcppt/tuple/make.hpp>

#include <array>
#include <cstdint>
#include <limits>
#include <tuple>
#include <type_traits>

using namespace verif;
using i128 = __int128;

#ifdef VERIF_TOTALITY_ONLY
// C01 reuses these sweeps for its "no UB / no exception / terminates" reading: value mismatches are
// C06's business and are ignored here; only sanitizer aborts, escaping exceptions and hangs count.
namespace
{
inline void totality_only_fail(std::string const &, std::string const &) {}
}
#define fail totality_only_fail
#endif

namespace
{
using types = std::tuple<
    std::int8_t, std::uint8_t, std::int16_t, std::uint16_t, std::int32_t, std::uint32_t, std::int64_t, std::uint64_t>;
char const *const type_names[] = {"i8", "u8", "i16", "u16", "i32", "u32", "i64", "u64"};
template <std::size_t I>
using type_at = std::tuple_element_t<I, types>;

template <typename T>
T from_bits(i64 v)
{
  return static_cast<T>(static_cast<std::make_unsigned_t<T>>(static_cast<u64>(v)));
}
template <typename T>
i64 to_bits(T v)
{
  return static_cast<i64>(v);
}
template <typename T>
constexpr i128 lo() { return std::numeric_limits<T>::min(); }
template <typename T>
constexpr i128 hi() { return std::numeric_limits<T>::max(); }
template <typename T>
bool fits(i128 v) { return v >= lo<T>() && v <= hi<T>(); }

// ------------------------------------------------------------------ truncation_check
template <typename S, typename D>
std::string trunc_class()
{
  std::string r = std::is_signed_v<S> ? "signed" : "unsigned";
  r += "->";
  r += std::is_signed_v<D> ? "signed" : "unsigned";
  r += sizeof(D) < sizeof(S) ? "|narrower" : sizeof(D) == sizeof(S) ? "|same-size" : "|wider";
  return r;
}

template <typename S, typename D>
void trunc_one(i64 bits)
{
  S const v = from_bits<S>(bits);
  i128 const m = v;
  bool const rep = fits<D>(m);
  fcppt::optional::object<D> const r = fcppt::cast::truncation_check<D>(v);
  count(on_lattice(v) || !rep);
  if (r.has_value() != rep)
  {
    fail("cast::truncation_check|" + trunc_class<S, D>() + (rep ? "|representable-rejected" : "|unrepresentable-accepted"),
         "value " + str(m) + (rep ? " is representable but nothing was returned" : " is not representable but " + str(static_cast<i128>(r.get_unsafe())) + " was returned"));
  }
  else if (rep && static_cast<i128>(r.get_unsafe()) != m)
  {
    fail("cast::truncation_check|" + trunc_class<S, D>() + "|wrong-value",
         "value " + str(m) + " converted to " + str(static_cast<i128>(r.get_unsafe())));
  }
}

using trunc_fn = void (*)(i64);
template <std::size_t... I>
std::array<trunc_fn, 64> make_trunc_table(std::index_sequence<I...>)
{
  return {{&trunc_one<type_at<I / 8>, type_at<I % 8>>...}};
}
std::array<trunc_fn, 64> const trunc_table = make_trunc_table(std::make_index_sequence<64>{});

void trunc_case(Ints const &c)
{
  std::size_t const s = static_cast<std::size_t>(c.at(0)) % 8, d = static_cast<std::size_t>(c.at(1)) % 8;
  trunc_table[s * 8 + d](c.at(2));
}
std::string trunc_describe(Ints const &c)
{
  std::size_t const s = static_cast<std::size_t>(c.at(0)) % 8, d = static_cast<std::size_t>(c.at(1)) % 8;
  return std::string("truncation_check<") + type_names[d] + ">(" + type_names[s] + " bits " + std::to_string(c.at(2)) + ")";
}

template <std::size_t S>
void trunc_all_values()
{
  using T = type_at<S>;
  for (i64 v = static_cast<i64>(lo<T>()); v <= static_cast<i64>(hi<T>()); ++v)
    for (std::size_t d = 0; d < 8; ++d)
    {
      cur3(static_cast<i64>(S), static_cast<i64>(d), v);
      trunc_table[S * 8 + d](v);
    }
}
template <std::size_t S>
void trunc_lattice_values()
{
  using T = type_at<S>;
  for (T v : lattice<T>())
    for (std::size_t d = 0; d < 8; ++d)
    {
      cur3(static_cast<i64>(S), static_cast<i64>(d), to_bits(v));
      trunc_table[S * 8 + d](to_bits(v));
    }
}

// boundary-biased pseudo random 64-bit value (deterministic in the seed)
u64 biased(SplitMix &r)
{
  u64 const x = r.next();
  switch (x & 7U)
  {
  case 0: return r.next();
  case 1: return r.next() >> (r.next() % 64);
  case 2: return ~(r.next() >> (r.next() % 64));
  case 3: return (1ULL << (r.next() % 64)) + (r.next() % 5) - 2;
  case 4: return static_cast<u64>(-static_cast<i64>((1ULL << (r.next() % 63)) + (r.next() % 5) - 2));
  case 5: return r.next() & 0xffffffffULL;
  case 6: return (r.next() & 0xffffffffULL) | 0x80000000ULL;
  default: return r.next() % 70000;
  }
}

Reg const r_trunc_small{
    "trunc_small", Kind::exhaustive,
    "truncation_check: source value on the boundary lattice of its type (within 2 of 0, a power of two or a limit) or not representable in the destination",
    [] { trunc_all_values<0>(); trunc_all_values<1>(); trunc_all_values<2>(); trunc_all_values<3>(); },
    trunc_case, trunc_describe};
Reg const r_trunc_lattice{
    "trunc_lattice", Kind::exhaustive, "as trunc_small (32/64-bit sources on the full boundary lattice)",
    [] { trunc_lattice_values<4>(); trunc_lattice_values<5>(); trunc_lattice_values<6>(); trunc_lattice_values<7>(); },
    trunc_case, trunc_describe};
Reg const r_trunc_random{
    "trunc_random", Kind::random, "as trunc_small (seeded boundary-biased 32/64-bit sources)",
    [] {
      SplitMix r(opts().seed * 77 + static_cast<u64>(opts().shard));
      u64 const n = opts().thorough() ? 20000000 : 1500000;
      for (u64 i = 0; i < n; ++i)
      {
        i64 const s = 4 + static_cast<i64>(r.next() % 4), d = static_cast<i64>(r.next() % 8);
        i64 const v = static_cast<i64>(biased(r));
        cur3(s, d, v);
        trunc_table[static_cast<std::size_t>(s * 8 + d)](v);
      }
    },
    trunc_case, trunc_describe};

// ------------------------------------------------------------------ from_int
enum class e8_1 : std::uint8_t { a, fcppt_maximum = a };
enum class e8_3 : std::uint8_t { a, b, c, fcppt_maximum = c };
enum class e8_200 : std::uint8_t { a, fcppt_maximum = 199 };
enum class e32_1 : unsigned { a, fcppt_maximum = a };
enum class e32_3 : unsigned { a, b, c, fcppt_maximum = c };
enum class e32_200 : unsigned { a, fcppt_maximum = 199 };
enum class e16_300 : std::uint16_t { a, fcppt_maximum = 299 };
enum class es_3 : int { a, b, c, fcppt_maximum = c };
using enums = std::tuple<e8_1, e8_3, e8_200, e32_1, e32_3, e32_200, e16_300, es_3>;
char const *const enum_names[] = {"e8_1", "e8_3", "e8_200", "e32_1", "e32_3", "e32_200", "e16_300", "es_3"};
constexpr unsigned enum_sizes[] = {1, 3, 200, 1, 3, 200, 300, 3};
using utypes = std::tuple<std::uint8_t, std::uint16_t, std::uint32_t, std::uint64_t>;
char const *const utype_names[] = {"u8", "u16", "u32", "u64"};

template <typename E, typename V, std::size_t EI>
void from_int_one(i64 bits)
{
  V const v = from_bits<V>(bits);
  bool const expect = static_cast<u64>(v) < enum_sizes[EI];
  fcppt::optional::object<E> const r = fcppt::enum_::from_int<E>(v);
  count(on_lattice(v) || static_cast<u64>(v) + 2 >= enum_sizes[EI] && static_cast<u64>(v) <= enum_sizes[EI] + 2U);
  char const *const cls = sizeof(V) > sizeof(E) ? "value-wider-than-enum" : "value-fits-enum-type";
  if (r.has_value() != expect)
    fail(std::string("enum::from_int|") + cls + (expect ? "|valid-rejected" : "|invalid-accepted"),
         std::string("from_int<") + enum_names[EI] + ">(" + str(static_cast<u64>(v)) + ") " + (expect ? "returned nothing" : "returned enumerator " + str(static_cast<u64>(r.get_unsafe()))));
  else if (expect && static_cast<u64>(r.get_unsafe()) != static_cast<u64>(v))
    fail(std::string("enum::from_int|") + cls + "|wrong-enumerator", "got " + str(static_cast<u64>(r.get_unsafe())) + " for " + str(static_cast<u64>(v)));
}
using fi_fn = void (*)(i64);
template <std::size_t... I>
std::array<fi_fn, 32> make_fi_table(std::index_sequence<I...>)
{
  return {{&from_int_one<std::tuple_element_t<I / 4, enums>, std::tuple_element_t<I % 4, utypes>, I / 4>...}};
}
std::array<fi_fn, 32> const fi_table = make_fi_table(std::make_index_sequence<32>{});
void fi_case(Ints const &c) { fi_table[static_cast<std::size_t>(c.at(0)) % 8 * 4 + static_cast<std::size_t>(c.at(1)) % 4](c.at(2)); }
std::string fi_describe(Ints const &c)
{
  return std::string("from_int<") + enum_names[static_cast<std::size_t>(c.at(0)) % 8] + ">(" + utype_names[static_cast<std::size_t>(c.at(1)) % 4] + " " + std::to_string(c.at(2)) + ")";
}
Reg const r_from_int{
    "from_int", Kind::exhaustive,
    "from_int: value on the lattice of its type or within 2 of the enum size",
    [] {
      for (i64 e = 0; e < 8; ++e)
      {
        for (i64 v = 0; v < 65536; ++v)
        {
          if (v < 256) { cur3(e, 0, v); fi_case({e, 0, v}); }
          cur3(e, 1, v); fi_table[static_cast<std::size_t>(e * 4 + 1)](v);
          cur3(e, 2, v); fi_table[static_cast<std::size_t>(e * 4 + 2)](v);
          cur3(e, 3, v); fi_table[static_cast<std::size_t>(e * 4 + 3)](v);
        }
        for (std::uint32_t v : lattice<std::uint32_t>()) { cur3(e, 2, to_bits(v)); fi_table[static_cast<std::size_t>(e * 4 + 2)](to_bits(v)); }
        for (std::uint64_t v : lattice<std::uint64_t>()) { cur3(e, 3, to_bits(v)); fi_table[static_cast<std::size_t>(e * 4 + 3)](to_bits(v)); }
        // every multiple of 256 / 65536 plus small offsets: the wrap-around candidates
        for (u64 k = 1; k < 300; ++k)
          for (u64 off = 0; off < 4; ++off)
          {
            u64 const a = k * 256 + off, b = k * 65536 + off, c = (k << 32) + off;
            cur3(e, 2, static_cast<i64>(a)); fi_table[static_cast<std::size_t>(e * 4 + 2)](static_cast<i64>(a));
            cur3(e, 2, static_cast<i64>(b)); fi_table[static_cast<std::size_t>(e * 4 + 2)](static_cast<i64>(b));
            cur3(e, 3, static_cast<i64>(c)); fi_table[static_cast<std::size_t>(e * 4 + 3)](static_cast<i64>(c));
          }
      }
    },
    fi_case, fi_describe};

// ------------------------------------------------------------------ unary helpers on unsigned types
i128 ref_log2(i128 x) { int r = 0; while ((x >> (r + 1)) != 0) ++r; return r; }
i128 ref_next_pow2(i128 x) { i128 p = 1; while (p < x) p *= 2; return p; }
bool ref_is_pow2(i128 x) { if (x <= 0) return false; while (x % 2 == 0) x /= 2; return x == 1; }

template <typename T>
void unary_one(i64 bits)
{
  T const x = from_bits<T>(bits);
  i128 const m = x;
  count(on_lattice(x));
  static std::string const tn = "u" + std::to_string(sizeof(T) * 8);
  if (fcppt::math::is_power_of_2(x) != ref_is_pow2(m))
    fail("math::is_power_of_2|value", "is_power_of_2<" + tn + ">(" + str(m) + ") wrong");
  if (m > 0)
  {
    bool const top = (m >> (sizeof(T) * 8 - 1)) != 0;
    static bool const kn = is_known("math::log2|value|top-bit-set");
    if (top && kn)
      known("math::log2|value|top-bit-set");
    else
    {
      T const l = fcppt::math::log2(x);
      if (static_cast<i128>(l) != ref_log2(m))
        fail(std::string("math::log2|value|") + (top ? "top-bit-set" : "top-bit-clear"), "log2<" + tn + ">(" + str(m) + ") = " + str(static_cast<i128>(l)) + ", expected " + str(ref_log2(m)));
    }
  }
  i128 const np = ref_next_pow2(m);
  if (fits<T>(np))
  {
    T const r = fcppt::math::next_power_of_2(x);
    if (static_cast<i128>(r) != np)
      fail("math::next_power_of_2|value", "next_power_of_2<" + tn + ">(" + str(m) + ") = " + str(static_cast<i128>(r)) + ", expected " + str(np));
  }
  else
    skip();
}
using un_fn = void (*)(i64);
un_fn const un_table[] = {&unary_one<std::uint8_t>, &unary_one<std::uint16_t>, &unary_one<std::uint32_t>, &unary_one<std::uint64_t>, &unary_one<unsigned long long>};
void un_case(Ints const &c) { un_table[static_cast<std::size_t>(c.at(0)) % 5](c.at(1)); }
std::string un_describe(Ints const &c) { return std::string("is_power_of_2/log2/next_power_of_2<") + utype_names[static_cast<std::size_t>(c.at(0)) % 4] + ">(bits " + std::to_string(c.at(1)) + ")"; }

Reg const r_unary{
    "unary_pow2", Kind::exhaustive, "operand within 2 of 0, a power of two or the type's maximum",
    [] {
      for (i64 v = 0; v < 65536; ++v)
      {
        if (v < 256) { cur2(0, v); un_table[0](v); }
        cur2(1, v); un_table[1](v);
        cur2(2, v); un_table[2](v);
        cur2(3, v); un_table[3](v);
      }
      for (std::uint32_t v : lattice<std::uint32_t>()) { cur2(2, to_bits(v)); un_table[2](to_bits(v)); }
      for (std::uint64_t v : lattice<std::uint64_t>()) { cur2(3, to_bits(v)); un_table[3](to_bits(v)); }
    },
    un_case, un_describe};
Reg const r_unary_random{
    "unary_pow2_random", Kind::random, "as unary_pow2 (seeded boundary-biased 32/64-bit values)",
    [] {
      SplitMix r(opts().seed * 131 + static_cast<u64>(opts().shard));
      u64 const n = opts().thorough() ? 5000000 : 400000;
      for (u64 i = 0; i < n; ++i)
      {
        i64 const t = 2 + static_cast<i64>(r.next() % 2);
        i64 const v = static_cast<i64>(biased(r));
        cur2(t, v);
        un_table[static_cast<std::size_t>(t)](v);
      }
    },
    un_case, un_describe};

// power_of_2<Result>(exponent), shifted_mask, test
template <typename R>
void pow2_one(i64 e)
{
  unsigned const ex = static_cast<unsigned>(e);
  i128 const m = static_cast<i128>(1) << ex;
  count(ex == 0 || ex + 2 >= sizeof(R) * 8);
  if (!fits<R>(m)) { skip(); return; }
  R const r = fcppt::math::power_of_2<R>(ex);
  if (static_cast<i128>(r) != m) fail("math::power_of_2|value", "power_of_2(" + str(ex) + ") = " + str(static_cast<i128>(r)));
  R const r8 = fcppt::math::power_of_2<R>(static_cast<std::uint8_t>(ex));
  if (static_cast<i128>(r8) != m) fail("math::power_of_2|value|u8-exponent", "power_of_2(u8 " + str(ex) + ") = " + str(static_cast<i128>(r8)));
  R const r64 = fcppt::math::power_of_2<R>(static_cast<std::uint64_t>(ex));
  if (static_cast<i128>(r64) != m) fail("math::power_of_2|value|u64-exponent", "power_of_2(u64 " + str(ex) + ") = " + str(static_cast<i128>(r64)));
  fcppt::bit::mask<R> const mk = fcppt::bit::shifted_mask<R>(ex);
  if (static_cast<i128>(mk.get()) != m) fail("bit::shifted_mask|value", "shifted_mask(" + str(ex) + ") = " + str(static_cast<i128>(mk.get())));
  // test(): bit ex of every lattice value
  for (R v : lattice<R>())
  {
    bool const expect = ((static_cast<i128>(static_cast<std::make_unsigned_t<R>>(v)) >> ex) & 1) != 0;
    if (fcppt::bit::test(v, mk) != expect)
      fail("bit::test|value", "test(" + str(static_cast<i128>(v)) + ", bit " + str(ex) + ") wrong");
  }
}
// test() against ARBITRARY masks (not only the single-bit ones shifted_mask can build): "some bit of
// the mask is set in the value", also for signed types and masks that contain the sign bit
template <typename R>
void mask_test_one(i64 vi, i64 mi)
{
  static auto const lat = lattice<R>(); // built once per type
  R const v = lat[static_cast<std::size_t>(static_cast<u64>(vi) % lat.size())], m = lat[static_cast<std::size_t>(static_cast<u64>(mi) % lat.size())];
  using U = std::make_unsigned_t<R>;
  count(std::is_signed_v<R> && (m < 0));
  bool const expect = (static_cast<U>(v) & static_cast<U>(m)) != 0;
  if (fcppt::bit::test(v, fcppt::bit::mask<R>{m}) != expect)
    fail(std::string("bit::test|arbitrary-mask|") + (std::is_signed_v<R> ? "signed" : "unsigned"), "test(" + str(static_cast<i128>(v)) + ", mask " + str(static_cast<i128>(m)) + ") wrong");
}
using mt_fn = void (*)(i64, i64);
mt_fn const mt_table[] = {&mask_test_one<type_at<0>>, &mask_test_one<type_at<1>>, &mask_test_one<type_at<2>>, &mask_test_one<type_at<3>>,
                          &mask_test_one<type_at<4>>, &mask_test_one<type_at<5>>, &mask_test_one<type_at<6>>, &mask_test_one<type_at<7>>};
template <std::size_t... I>
std::array<std::size_t, 8> lattice_sizes(std::index_sequence<I...>) { return {{lattice<type_at<I>>().size()...}}; }
Reg const r_mask_test{
    "bit_test_arbitrary_masks", Kind::exhaustive, "a signed type and a mask that contains the sign bit",
    [] {
      auto const sizes = lattice_sizes(std::make_index_sequence<8>{});
      for (i64 t = 0; t < 8; ++t)
        for (std::size_t a = 0; a < sizes[static_cast<std::size_t>(t)]; ++a)
          for (std::size_t b = 0; b < sizes[static_cast<std::size_t>(t)]; ++b)
          {
            cur3(t, static_cast<i64>(a), static_cast<i64>(b));
            mt_table[static_cast<std::size_t>(t)](static_cast<i64>(a), static_cast<i64>(b));
          }
    },
    [](Ints const &c) { mt_table[static_cast<std::size_t>(c.at(0)) % 8](c.at(1), c.at(2)); },
    [](Ints const &c) { return std::string("bit::test<") + type_names[static_cast<std::size_t>(c.at(0)) % 8] + "> with lattice value #" + std::to_string(c.at(1)) + " and lattice mask #" + std::to_string(c.at(2)); }};

using p2_fn = void (*)(i64);
p2_fn const p2_table[] = {&pow2_one<type_at<0>>, &pow2_one<type_at<1>>, &pow2_one<type_at<2>>, &pow2_one<type_at<3>>,
                          &pow2_one<type_at<4>>, &pow2_one<type_at<5>>, &pow2_one<type_at<6>>, &pow2_one<type_at<7>>};
Reg const r_pow2{
    "power_of_2_masks", Kind::exhaustive, "exponent 0 or within 2 of the result type's width",
    [] {
      for (i64 t = 0; t < 8; ++t)
        for (i64 e = 0; e < 64; ++e)
        {
          cur2(t, e);
          p2_table[static_cast<std::size_t>(t)](e);
        }
    },
    [](Ints const &c) { p2_table[static_cast<std::size_t>(c.at(0)) % 8](c.at(1) % 64); },
    [](Ints const &c) { return std::string("power_of_2/shifted_mask/test<") + type_names[static_cast<std::size_t>(c.at(0)) % 8] + ">(" + std::to_string(c.at(1)) + ")"; }};

// ------------------------------------------------------------------ binary helpers
// div: both operands any integral type (result type = type of a/b after promotion)
template <typename T>
void binary_one(i64 abits, i64 bbits)
{
  T const a = from_bits<T>(abits), b = from_bits<T>(bbits);
  i128 const ma = a, mb = b;
  static std::string const tn = std::string(std::is_signed_v<T> ? "i" : "u") + std::to_string(sizeof(T) * 8);
  bool const nt = on_lattice(a) || on_lattice(b) || a == b;
  count(nt);
  // div
  {
    using R = decltype(a / b);
    if (mb == 0)
    {
      if (fcppt::math::div(a, b).has_value()) fail("math::div|zero-divisor", "div<" + tn + ">(" + str(ma) + ",0) has a value");
    }
    else
    {
      i128 const q = ma / mb;
      if (fits<R>(q))
      {
        auto const r = fcppt::math::div(a, b);
        if (!r.has_value() || static_cast<i128>(r.get_unsafe()) != q)
          fail("math::div|value", "div<" + tn + ">(" + str(ma) + "," + str(mb) + ") wrong");
      }
      else
        skip();
    }
  }
  // diff
  {
    i128 const d = ma > mb ? ma - mb : mb - ma;
    using P = decltype(a - b);
    // signed: abs(a-b) in the promoted type must be representable; unsigned: always representable
    bool const computable = std::is_unsigned_v<T> || (fits<P>(ma - mb) && fits<T>(d));
    if (computable)
    {
      static char const *const classes[] = {"unsigned|distance>half-range", "unsigned|narrower-than-int", "unsigned|other", "signed"};
      static bool const kn[] = {is_known(std::string("math::diff|value|") + classes[0]), is_known(std::string("math::diff|value|") + classes[1]),
                                is_known(std::string("math::diff|value|") + classes[2]), is_known(std::string("math::diff|value|") + classes[3])};
      int ci = 3;
      if constexpr (std::is_unsigned_v<T>)
        ci = d > (static_cast<i128>(1) << (sizeof(T) * 8 - 1)) ? 0 : (sizeof(T) < sizeof(int) ? 1 : 2);
      if (kn[ci])
        known(std::string("math::diff|value|") + classes[ci]);
      else
      {
        T const r = fcppt::math::diff(a, b);
        if (static_cast<i128>(r) != d)
          fail(std::string("math::diff|value|") + classes[ci], "diff<" + tn + ">(" + str(ma) + "," + str(mb) + ") = " + str(static_cast<i128>(r)) + ", expected " + str(d));
      }
    }
    else
      skip();
  }
  if constexpr (std::is_unsigned_v<T>)
  {
    // mod
    auto const r = fcppt::math::mod(a, b);
    if (mb == 0)
    {
      if (r.has_value()) fail("math::mod|zero-divisor", "mod(" + str(ma) + ",0) has a value");
    }
    else if (!r.has_value() || static_cast<i128>(r.get_unsafe()) != ma % mb)
      fail("math::mod|value", "mod<" + tn + ">(" + str(ma) + "," + str(mb) + ") wrong");
  }
}
using bin_fn = void (*)(i64, i64);
bin_fn const bin_table[] = {&binary_one<type_at<0>>, &binary_one<type_at<1>>, &binary_one<type_at<2>>, &binary_one<type_at<3>>,
                            &binary_one<type_at<4>>, &binary_one<type_at<5>>, &binary_one<type_at<6>>, &binary_one<type_at<7>>};
void bin_case(Ints const &c) { bin_table[static_cast<std::size_t>(c.at(0)) % 8](c.at(1), c.at(2)); }
std::string bin_describe(Ints const &c) { return std::string("div/mod/diff<") + type_names[static_cast<std::size_t>(c.at(0)) % 8] + ">(" + std::to_string(c.at(1)) + "," + std::to_string(c.at(2)) + ")"; }

template <std::size_t TI>
void bin_all_pairs()
{
  using T = type_at<TI>;
  for (i64 a = static_cast<i64>(lo<T>()); a <= static_cast<i64>(hi<T>()); ++a)
    for (i64 b = static_cast<i64>(lo<T>()); b <= static_cast<i64>(hi<T>()); ++b)
    {
      cur3(static_cast<i64>(TI), a, b);
      bin_table[TI](a, b);
    }
}
template <std::size_t TI>
void bin_lattice_pairs()
{
  using T = type_at<TI>;
  auto const l = lattice<T>();
  for (T a : l)
    for (T b : l)
    {
      cur3(static_cast<i64>(TI), to_bits(a), to_bits(b));
      bin_table[TI](to_bits(a), to_bits(b));
    }
}
Reg const r_bin8{"binary_8bit_pairs", Kind::exhaustive, "an operand on the boundary lattice of its type, or equal operands",
                 [] { bin_all_pairs<0>(); bin_all_pairs<1>(); }, bin_case, bin_describe};
// splits its own outer loop over the shards (runs on every shard)
bool const r_bin16 = (add_section(
    "binary_16bit_pairs", Kind::exhaustive, "as binary_8bit_pairs (all 2^32 pairs in the thorough tier, lattice x all values in quick)",
    [] {
      int const n = opts().nshards, s = opts().shard;
      if (opts().thorough())
      {
        for (int ti = 2; ti <= 3; ++ti)
          for (i64 a = -32768; a <= 65535; ++a)
          {
            if (ti == 2 && a > 32767) break;
            if (ti == 3 && a < 0) continue;
            if (((a % n) + n) % n != s) continue;
            i64 const blo = ti == 2 ? -32768 : 0, bhi = ti == 2 ? 32767 : 65535;
            for (i64 b = blo; b <= bhi; ++b)
            {
              cur3(ti, a, b);
              bin_table[static_cast<std::size_t>(ti)](a, b);
            }
          }
      }
      else
      {
        int k = 0;
        for (std::int16_t a : lattice<std::int16_t>())
        {
          if (k++ % n != s) continue;
          for (i64 b = -32768; b <= 32767; ++b)
          {
            cur3(2, a, b); bin_table[2](a, b);
            cur3(2, b, a); bin_table[2](b, a);
          }
        }
        for (std::uint16_t a : lattice<std::uint16_t>())
        {
          if (k++ % n != s) continue;
          for (i64 b = 0; b <= 65535; ++b)
          {
            cur3(3, a, b); bin_table[3](a, b);
            cur3(3, b, a); bin_table[3](b, a);
          }
        }
      }
    },
    bin_case, bin_describe).self_sharded = true);
Reg const r_binl{"binary_lattice_pairs", Kind::exhaustive, "as binary_8bit_pairs (32/64-bit lattice squared)",
                 [] { bin_lattice_pairs<4>(); bin_lattice_pairs<5>(); bin_lattice_pairs<6>(); bin_lattice_pairs<7>(); }, bin_case, bin_describe};
Reg const r_binr{"binary_random", Kind::random, "as binary_8bit_pairs (seeded boundary-biased 32/64-bit pairs)",
                 [] {
                   SplitMix r(opts().seed * 313 + static_cast<u64>(opts().shard));
                   u64 const n = opts().thorough() ? 10000000 : 600000;
                   for (u64 i = 0; i < n; ++i)
                   {
                     i64 const t = 4 + static_cast<i64>(r.next() % 4);
                     i64 const a = static_cast<i64>(biased(r));
                     i64 const b = (r.next() % 4 == 0) ? static_cast<i64>(static_cast<u64>(a) + (r.next() % 5) - 2U) : static_cast<i64>(biased(r));
                     cur3(t, a, b);
                     bin_table[static_cast<std::size_t>(t)](a, b);
                   }
                 },
                 bin_case, bin_describe};

// ------------------------------------------------------------------ ceil_div / ceil_div_signed (32/64-bit only)
i128 ref_ceil(i128 a, i128 b)
{
  i128 q = a / b;
  if (a % b != 0 && ((a < 0) == (b < 0))) ++q;
  return q;
}
template <typename S>
void ceil_one(i64 a, i64 b)
{
  using U = std::make_unsigned_t<S>;
  count(a == 0 || b == 0 || a == b || static_cast<i128>(a) % static_cast<i128>(b == 0 ? 1 : b) == 0 || on_lattice(static_cast<S>(a)) || on_lattice(static_cast<S>(b)));
  // signed
  if (fits<S>(a) && fits<S>(b))
  {
    S const sa = static_cast<S>(a), sb = static_cast<S>(b);
    static char const *const classes[] = {"dividend<0,divisor<0", "dividend>=0,divisor<0", "dividend<0,divisor>0", "dividend>=0,divisor>0"};
    static bool const kn[] = {is_known(std::string("math::ceil_div_signed|value|") + classes[0]), is_known(std::string("math::ceil_div_signed|value|") + classes[1]),
                              is_known(std::string("math::ceil_div_signed|value|") + classes[2]), is_known(std::string("math::ceil_div_signed|value|") + classes[3])};
    int const ci = b < 0 ? (a < 0 ? 0 : 1) : (a < 0 ? 2 : 3);
    if (b == 0)
    {
      if (fcppt::math::ceil_div_signed(sa, sb).has_value()) fail("math::ceil_div_signed|zero-divisor", "has a value for divisor 0");
    }
    else if (fits<S>(ref_ceil(a, b)) && !(a == lo<S>() && b == -1))
    {
      if (kn[ci])
        known(std::string("math::ceil_div_signed|value|") + classes[ci]);
      else
      {
        auto const r = fcppt::math::ceil_div_signed(sa, sb);
        if (!r.has_value() || static_cast<i128>(r.get_unsafe()) != ref_ceil(a, b))
          fail(std::string("math::ceil_div_signed|value|") + classes[ci],
               "ceil_div_signed(" + str(a) + "," + str(b) + ") = " + (r.has_value() ? str(static_cast<i128>(r.get_unsafe())) : std::string("nothing")) + ", expected " + str(ref_ceil(a, b)));
      }
    }
    else
      skip();
  }
  // unsigned
  if (a >= 0 && b >= 0)
  {
    U const ua = static_cast<U>(a), ub = static_cast<U>(b);
    auto const r = fcppt::math::ceil_div(ua, ub);
    if (b == 0)
    {
      if (r.has_value()) fail("math::ceil_div|zero-divisor", "has a value for divisor 0");
    }
    else if (!r.has_value() || static_cast<i128>(r.get_unsafe()) != ref_ceil(a, b))
      fail("math::ceil_div|value", "ceil_div(" + str(a) + "," + str(b) + ") wrong");
  }
}
void ceil_case(Ints const &c)
{
  if (c.at(0) % 2 == 0) ceil_one<std::int32_t>(c.at(1), c.at(2));
  else ceil_one<std::int64_t>(c.at(1), c.at(2));
}
Reg const r_ceil{"ceil_div_square", Kind::exhaustive, "a zero operand, equal operands, exact division, or an operand on the lattice",
                 [] {
                   for (i64 a = -1024; a <= 2047; ++a)
                     for (i64 b = -1024; b <= 2047; ++b)
                     {
                       cur3(0, a, b); ceil_one<std::int32_t>(a, b);
                       if ((a & 3) == 0) { cur3(1, a, b); ceil_one<std::int64_t>(a, b); }
                     }
                   for (std::int32_t a : lattice<std::int32_t>())
                     for (std::int32_t b : lattice<std::int32_t>()) { cur3(0, a, b); ceil_one<std::int32_t>(a, b); }
                   for (std::int64_t a : lattice<std::int64_t>())
                     for (std::int64_t b : lattice<std::int64_t>()) { cur3(1, a, b); ceil_one<std::int64_t>(a, b); }
                   // unsigned upper half: ceil_div on values with the top bit set
                   for (std::uint32_t a : lattice<std::uint32_t>())
                     for (std::uint32_t b : lattice<std::uint32_t>())
                     {
                       cur3(2, a, b);
                       count(true);
                       auto const r = fcppt::math::ceil_div(a, b);
                       if (b == 0 ? r.has_value() : (!r.has_value() || static_cast<i128>(r.get_unsafe()) != ref_ceil(a, b)))
                         fail("math::ceil_div|value|u32", "ceil_div(" + str(a) + "," + str(b) + ") wrong");
                     }
                 },
                 [](Ints const &c) {
                   if (c.at(0) == 2)
                   {
                     std::uint32_t const a = static_cast<std::uint32_t>(c.at(1)), b = static_cast<std::uint32_t>(c.at(2));
                     count(true);
                     auto const r = fcppt::math::ceil_div(a, b);
                     if (b == 0 ? r.has_value() : (!r.has_value() || static_cast<i128>(r.get_unsafe()) != ref_ceil(a, b)))
                       fail("math::ceil_div|value|u32", "ceil_div(" + str(a) + "," + str(b) + ") wrong");
                   }
                   else
                     ceil_case(c);
                 },
                 [](Ints const &c) { return "ceil_div/ceil_div_signed<" + std::string(c.at(0) == 1 ? "64" : "32") + ">(" + std::to_string(c.at(1)) + "," + std::to_string(c.at(2)) + ")"; }};

// ------------------------------------------------------------------ clamp (ternary) and interval_distance
template <typename T>
void clamp_one(i64 v, i64 a, i64 b)
{
  T const tv = from_bits<T>(v), ta = from_bits<T>(a), tb = from_bits<T>(b);
  count(ta >= tb || tv == ta || tv == tb || on_lattice(tv));
  auto const r = fcppt::math::clamp(tv, ta, tb);
  if (ta > tb)
  {
    if (r.has_value()) fail("math::clamp|empty-interval", "clamp returned a value for min > max");
  }
  else
  {
    T const e = tv < ta ? ta : (tv > tb ? tb : tv);
    if (!r.has_value() || r.get_unsafe() != e)
      fail("math::clamp|value", "clamp(" + str(static_cast<i128>(tv)) + "," + str(static_cast<i128>(ta)) + "," + str(static_cast<i128>(tb)) + ") wrong");
  }
}
using cl_fn = void (*)(i64, i64, i64);
cl_fn const cl_table[] = {&clamp_one<type_at<0>>, &clamp_one<type_at<1>>, &clamp_one<type_at<2>>, &clamp_one<type_at<3>>,
                          &clamp_one<type_at<4>>, &clamp_one<type_at<5>>, &clamp_one<type_at<6>>, &clamp_one<type_at<7>>};
void clamp8(i64 ti)
{
  i64 const l = ti == 0 ? -128 : 0, h = ti == 0 ? 127 : 255;
  for (i64 v = l; v <= h; ++v)
    for (i64 a = l; a <= h; ++a)
      for (i64 b = l; b <= h; ++b)
      {
        cur4(ti, v, a, b);
        cl_table[static_cast<std::size_t>(ti)](v, a, b);
      }
}
void clamp_case(Ints const &c) { cl_table[static_cast<std::size_t>(c.at(0)) % 8](c.at(1), c.at(2), c.at(3)); }
std::string clamp_describe(Ints const &c) { return std::string("clamp<") + type_names[static_cast<std::size_t>(c.at(0)) % 8] + ">(" + std::to_string(c.at(1)) + "," + std::to_string(c.at(2)) + "," + std::to_string(c.at(3)) + ")"; }
char const *const clamp_rule = "empty or one-point interval, value on an end of the interval or on the lattice";
Reg const r_clamp_i8{"clamp_triples_i8", Kind::exhaustive, clamp_rule, [] { clamp8(0); }, clamp_case, clamp_describe};
Reg const r_clamp_u8{"clamp_triples_u8", Kind::exhaustive, clamp_rule, [] { clamp8(1); }, clamp_case, clamp_describe};
Reg const r_clamp{"clamp_lattice_cubes", Kind::exhaustive, clamp_rule,
                  [] {
                    auto lat = [](auto tag, i64 ti) {
                      using T = decltype(tag);
                      std::vector<T> l;
                      for (T x : lattice<T>())
                        if (on_lattice(x) && (x <= 2 && x >= -2 || x >= std::numeric_limits<T>::max() - 1 || x <= std::numeric_limits<T>::min() + 1 || (x & (x - 1)) == 0)) l.push_back(x);
                      // thin the lattice to at most ~40 points for the cube
                      std::vector<T> t;
                      for (std::size_t i = 0; i < l.size(); i += (l.size() / 40 + 1)) t.push_back(l[i]);
                      t.push_back(std::numeric_limits<T>::max());
                      t.push_back(std::numeric_limits<T>::min());
                      for (T v : t) for (T a : t) for (T b : t) { cur4(ti, to_bits(v), to_bits(a), to_bits(b)); cl_table[static_cast<std::size_t>(ti)](to_bits(v), to_bits(a), to_bits(b)); }
                    };
                    lat(std::int16_t{}, 2); lat(std::uint16_t{}, 3); lat(std::int32_t{}, 4); lat(std::uint32_t{}, 5); lat(std::int64_t{}, 6); lat(std::uint64_t{}, 7);
                  },
                  clamp_case, clamp_describe};

// interval_distance over int: all intervals [a,b], [c,d] with a<=b, c<=d in [-4,4]
i128 ref_interval_distance(i128 a, i128 b, i128 c, i128 d)
{
  // documented: positive gap if disjoint, 0 if touching, -(overlap length) for partial overlap,
  // -(shorter remaining part of the outer) if one contains the other
  if (b <= c) return c - b;
  if (d <= a) return a - d;
  bool const first_contains = a <= c && d <= b, second_contains = c <= a && b <= d;
  if (first_contains) return -(std::min(c - a, b - d));
  if (second_contains) return -(std::min(a - c, d - b));
  // partial overlap
  return -(std::min(b, d) - std::max(a, c));
}
Reg const r_interval{"interval_distance", Kind::exhaustive, "intervals touch, are nested or share an end point",
                     [] {
                       for (i64 a = -4; a <= 4; ++a) for (i64 b = a; b <= 4; ++b) for (i64 c = -4; c <= 4; ++c) for (i64 d = c; d <= 4; ++d)
                       {
                         cur4(a, b, c, d);
                         g_cur.sec->one({a, b, c, d});
                       }
                     },
                     [](Ints const &x) {
                       i64 const a = x.at(0), b = x.at(1), c = x.at(2), d = x.at(3);
                       if (a > b || c > d) return;
                       count(a == c || b == d || b == c || a == d || (a <= c && d <= b) || (c <= a && b <= d));
                       int const r = fcppt::math::interval_distance(fcppt::tuple::make(static_cast<int>(a), static_cast<int>(b)), fcppt::tuple::make(static_cast<int>(c), static_cast<int>(d)));
                       // the documentation defines the value for disjoint/touching/partially overlapping and strictly nested intervals;
                       // we demand the sign and the documented magnitude
                       i128 const e = ref_interval_distance(a, b, c, d);
                       bool const disjoint = b <= c || d <= a;
                       if (disjoint ? r != e : r > 0)
                         fail("math::interval_distance|sign-or-gap", "interval_distance([" + str(a) + "," + str(b) + "],[" + str(c) + "," + str(d) + "]) = " + str(r) + ", expected " + str(e));
                     }};
}
