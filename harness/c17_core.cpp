// VERIF: quick_shards=4
// C17 (part 2) - ==, !=, < and hash laws for optional, either, variant, tuple, array, record,
// strong_typedef, reference, shared_ptr, recursive, unit. Components in {0,1,2}; every value set
// contains equal values reached through different operations.
#include "c17_laws.hpp"

#include <fcppt/hash.hpp>
#include <fcppt/make_cref.hpp>
#include <fcppt/make_ref.hpp>
#include <fcppt/make_shared_ptr.hpp>
#include <fcppt/make_strong_typedef.hpp>
#include <fcppt/make_unique_ptr.hpp>
#include <fcppt/recursive.hpp>
#include <fcppt/recursive_comparison.hpp>
#include <fcppt/reference.hpp>
#include <fcppt/reference_comparison.hpp>
#include <fcppt/reference_hash.hpp>
#include <fcppt/reference_std_hash.hpp>
#include <fcppt/reference_to_const.hpp>
#include <fcppt/shared_ptr.hpp>
#include <fcppt/shared_ptr_hash_decl.hpp>
#include <fcppt/shared_ptr_hash_impl.hpp>
#include <fcppt/shared_ptr_std_hash.hpp>
#include <fcppt/strong_typedef.hpp>
#include <fcppt/strong_typedef_arithmetic.hpp>
#include <fcppt/strong_typedef_assignment.hpp>
#include <fcppt/strong_typedef_comparison.hpp>
#include <fcppt/strong_typedef_hash.hpp>
#include <fcppt/strong_typedef_std_hash.hpp>
#include <fcppt/unique_ptr.hpp>
#include <fcppt/unit.hpp>
#include <fcppt/unit_comparison.hpp>
#include <fcppt/array/comparison.hpp>
#include <fcppt/array/get.hpp>
#include <fcppt/array/init.hpp>
#include <fcppt/array/make.hpp>
#include <fcppt/array/map.hpp>
#include <fcppt/array/object.hpp>
#include <fcppt/either/bind.hpp>
#include <fcppt/either/comparison.hpp>
#include <fcppt/either/make_failure.hpp>
#include <fcppt/either/make_success.hpp>
#include <fcppt/either/map.hpp>
#include <fcppt/either/map_failure.hpp>
#include <fcppt/either/object.hpp>
#include <fcppt/optional/bind.hpp>
#include <fcppt/optional/comparison.hpp>
#include <fcppt/optional/join.hpp>
#include <fcppt/optional/make.hpp>
#include <fcppt/optional/map.hpp>
#include <fcppt/optional/object.hpp>
#include <fcppt/record/comparison.hpp>
#include <fcppt/record/element.hpp>
#include <fcppt/record/get.hpp>
#include <fcppt/record/make_label.hpp>
#include <fcppt/record/object.hpp>
#include <fcppt/record/permute.hpp>
#include <fcppt/record/set.hpp>
#include <fcppt/tuple/comparison.hpp>
#include <fcppt/tuple/get.hpp>
#include <fcppt/tuple/make.hpp>
#include <fcppt/tuple/map.hpp>
#include <fcppt/tuple/object.hpp>
#include <fcppt/variant/compare.hpp>
#include <fcppt/variant/comparison.hpp>
#include <fcppt/variant/get_unsafe.hpp>
#include <fcppt/variant/holds_type.hpp>
#include <fcppt/variant/object.hpp>

#include <cstdint>
#include <functional>
#include <string>
#include <vector>

using namespace verif;
using namespace c17;

namespace
{
std::string s(i64 v) { return std::to_string(v); }

// ---------------------------------------------------------------- optional<int>
using opt_int = fcppt::optional::object<int>;
RegLaws<opt_int, Order::documented, false> const r_optional{{
    .name = "optional<int>",
    .build =
        [](Entries<opt_int> &e) {
          put(e, opt_int{}, 0, "optional{}");
          for (int v = 0; v < 3; ++v)
          {
            put(e, opt_int{v}, 1, "optional{" + s(v) + "}");
            put(e, fcppt::optional::make(v), 2, "make(" + s(v) + ")");
            opt_int o{(v + 1) % 3};
            o = opt_int{v};
            put(e, o, 3, "optional{" + s((v + 1) % 3) + "} assigned optional{" + s(v) + "}");
            if (v > 0)
              put(e, fcppt::optional::map(opt_int{v - 1}, [](int x) { return x + 1; }), 4, "map(optional{" + s(v - 1) + "}, +1)");
            opt_int filled{v};
            filled = opt_int{};
            put(e, filled, 5, "optional{" + s(v) + "} assigned optional{}");
            opt_int empty{};
            empty = opt_int{v};
            put(e, empty, 6, "optional{} assigned optional{" + s(v) + "}");
          }
          put(e, fcppt::optional::bind(opt_int{1}, [](int) { return opt_int{}; }), 7, "bind(optional{1}, -> nothing)");
          put(e, fcppt::optional::join(fcppt::optional::object<opt_int>{opt_int{2}}), 8, "join(optional{optional{2}})");
        },
    .obs =
        [](opt_int const &o) {
          Ints r{o.has_value() ? 1 : 0};
          if (o.has_value()) r.push_back(o.get_unsafe());
          return r;
        },
    .key = {},
    .hashes = {},
    .equalities = {}}};

// ---------------------------------------------------------------- optional<optional<int>>
using opt_opt = fcppt::optional::object<opt_int>;
RegLaws<opt_opt, Order::documented, false> const r_optional2{{
    .name = "optional<optional<int>>",
    .build =
        [](Entries<opt_opt> &e) {
          put(e, opt_opt{}, 0, "{}");
          put(e, opt_opt{opt_int{}}, 1, "{{}}");
          put(e, fcppt::optional::make(opt_int{}), 2, "make({})");
          for (int v = 0; v < 3; ++v)
          {
            put(e, opt_opt{opt_int{v}}, 1, "{{" + s(v) + "}}");
            put(e, fcppt::optional::make(fcppt::optional::make(v)), 2, "make(make(" + s(v) + "))");
            opt_opt o{opt_int{}};
            o.get_unsafe() = opt_int{v};
            put(e, o, 3, "{{}} with inner assigned {" + s(v) + "}");
          }
          opt_opt o{opt_int{1}};
          o = opt_opt{};
          put(e, o, 4, "{{1}} assigned {}");
          opt_opt p{opt_int{1}};
          p.get_unsafe() = opt_int{};
          put(e, p, 5, "{{1}} with inner assigned {}");
        },
    .obs =
        [](opt_opt const &o) {
          Ints r{o.has_value() ? 1 : 0};
          if (o.has_value())
          {
            r.push_back(o.get_unsafe().has_value() ? 1 : 0);
            if (o.get_unsafe().has_value()) r.push_back(o.get_unsafe().get_unsafe());
          }
          return r;
        },
    .key = {},
    .hashes = {},
    .equalities = {}}};

// ---------------------------------------------------------------- either<short,int>
using eith = fcppt::either::object<short, int>;
RegLaws<eith, Order::none, false> const r_either{{
    .name = "either<short,int>",
    .build =
        [](Entries<eith> &e) {
          for (int v = 0; v < 3; ++v)
          {
            short const f = static_cast<short>(v);
            put(e, eith{f}, 0, "failure " + s(v));
            put(e, eith{v}, 0, "success " + s(v));
            put(e, fcppt::either::make_failure<int>(f), 1, "make_failure(" + s(v) + ")");
            put(e, fcppt::either::make_success<short>(v), 1, "make_success(" + s(v) + ")");
            eith a{f};
            a = eith{v};
            put(e, a, 2, "failure " + s(v) + " assigned success " + s(v));
            eith b{v};
            b = eith{f};
            put(e, b, 2, "success " + s(v) + " assigned failure " + s(v));
            if (v > 0)
            {
              put(e, fcppt::either::map(eith{v - 1}, [](int x) { return x + 1; }), 3, "map(success " + s(v - 1) + ", +1)");
              put(e, fcppt::either::map_failure(eith{static_cast<short>(v - 1)}, [](short x) { return static_cast<short>(x + 1); }), 3, "map_failure(failure " + s(v - 1) + ", +1)");
            }
          }
          put(e, fcppt::either::bind(eith{2}, [](int x) { return eith{static_cast<short>(x)}; }), 4, "bind(success 2, -> failure 2)");
        },
    .obs = [](eith const &x) { return x.has_success() ? Ints{1, x.get_success_unsafe()} : Ints{0, x.get_failure_unsafe()}; },
    .key = {},
    .hashes = {},
    .equalities = {}}};

// ---------------------------------------------------------------- variant<int,unsigned,char>
using var = fcppt::variant::object<int, unsigned, char>;
RegLaws<var, Order::documented, false> const r_variant{{
    .name = "variant<int,unsigned,char>",
    .build =
        [](Entries<var> &e) {
          for (int v = 0; v < 3; ++v)
          {
            put(e, var{v}, 0, "int " + s(v));
            put(e, var{static_cast<unsigned>(v)}, 0, "unsigned " + s(v));
            put(e, var{static_cast<char>(v)}, 0, "char " + s(v));
            // re-assigned to another alternative and back
            var a{v};
            a = var{static_cast<char>(v)};
            put(e, a, 1, "int " + s(v) + " assigned char " + s(v));
            var b{static_cast<char>(v)};
            b = var{static_cast<unsigned>(2 - v)};
            b = var{v};
            put(e, b, 2, "char " + s(v) + " assigned unsigned " + s(2 - v) + " assigned int " + s(v));
            var c{static_cast<unsigned>(0)};
            c.get_unsafe<unsigned>() = static_cast<unsigned>(v);
            put(e, c, 3, "unsigned 0 with the value overwritten by " + s(v));
          }
        },
    .obs =
        [](var const &x) {
          if (fcppt::variant::holds_type<int>(x)) return Ints{0, fcppt::variant::get_unsafe<int>(x)};
          if (fcppt::variant::holds_type<unsigned>(x)) return Ints{1, static_cast<i64>(fcppt::variant::get_unsafe<unsigned>(x))};
          return Ints{2, static_cast<i64>(fcppt::variant::get_unsafe<char>(x))};
        },
    .key = {},
    .hashes = {},
    .equalities = {
        {"variant::compare(equal_to)", [](var const &a, var const &b) { return fcppt::variant::compare(a, b, [](auto const &x, auto const &y) { return x == y; }); }},
        {"type_index-and-value", [](var const &a, var const &b) { return a.type_index() == b.type_index() && fcppt::variant::compare(a, b, [](auto const &x, auto const &y) { return !(x < y) && !(y < x); }); }}}}};

// ---------------------------------------------------------------- tuple<int,short,int>
using tup = fcppt::tuple::object<int, short, int>;
RegLaws<tup, Order::none, false> const r_tuple{{
    .name = "tuple<int,short,int>",
    .build =
        [](Entries<tup> &e) {
          for (int a = 0; a < 3; ++a)
            for (int b = 0; b < 3; ++b)
              for (int c = 0; c < 3; ++c)
                put(e, tup{a, static_cast<short>(b), c}, 0, "tuple{" + s(a) + "," + s(b) + "," + s(c) + "}");
          put(e, fcppt::tuple::make(1, static_cast<short>(2), 0), 1, "make(1,2,0)");
          put(e, fcppt::tuple::make(2, static_cast<short>(2), 2), 1, "make(2,2,2)");
          tup t{0, static_cast<short>(0), 0};
          fcppt::tuple::get<2>(t) = 2;
          put(e, t, 2, "tuple{0,0,0} with element 2 set to 2");
          tup u{2, static_cast<short>(1), 1};
          u = tup{0, static_cast<short>(1), 1};
          put(e, u, 3, "tuple{2,1,1} assigned tuple{0,1,1}");
        },
    .obs = [](tup const &t) { return Ints{fcppt::tuple::get<0>(t), fcppt::tuple::get<1>(t), fcppt::tuple::get<2>(t)}; },
    .key = {},
    .hashes = {},
    .equalities = {}}};

// ---------------------------------------------------------------- array<int,3>
using arr = fcppt::array::object<int, 3>;
RegLaws<arr, Order::none, false> const r_array{{
    .name = "array<int,3>",
    .build =
        [](Entries<arr> &e) {
          for (int a = 0; a < 3; ++a)
            for (int b = 0; b < 3; ++b)
              for (int c = 0; c < 3; ++c)
                put(e, arr{a, b, c}, 0, "array{" + s(a) + "," + s(b) + "," + s(c) + "}");
          put(e, fcppt::array::make(1, 2, 0), 1, "make(1,2,0)");
          put(e, fcppt::array::init<arr>([](auto const idx) { return static_cast<int>(idx()); }), 2, "init(index)");
          put(e, fcppt::array::map(arr{0, 1, 1}, [](int x) { return x + 1; }), 3, "map(array{0,1,1}, +1)");
          arr t{0, 0, 0};
          fcppt::array::get<2>(t) = 2;
          put(e, t, 4, "array{0,0,0} with element 2 set to 2");
          arr u{2, 1, 1};
          u.get_unsafe(0) = 0;
          put(e, u, 4, "array{2,1,1} with element 0 set to 0");
        },
    .obs = [](arr const &t) { return Ints{t.get_unsafe(0), t.get_unsafe(1), t.get_unsafe(2)}; },
    .key = {},
    .hashes = {},
    .equalities = {}}};

// ---------------------------------------------------------------- array<double,2> with signed zeros
// Equality is equality of the components (operator== of the element type): 0.0 and -0.0 are equal
// components with different object representations. (No NaN: == is not reflexive on it, so the
// element type itself is outside "== is an equivalence".)
using darr = fcppt::array::object<double, 2>;
RegLaws<darr, Order::none, false> const r_array_double{{
    .name = "array<double,2>",
    .build =
        [](Entries<darr> &e) {
          double const vals[] = {0.0, -0.0, 1.5, -1.5};
          char const *const names[] = {"0.0", "-0.0", "1.5", "-1.5"};
          for (int a = 0; a < 4; ++a)
            for (int b = 0; b < 4; ++b) put(e, darr{vals[a], vals[b]}, 0, std::string("array{") + names[a] + "," + names[b] + "}");
          put(e, fcppt::array::map(darr{0.0, 1.5}, [](double x) { return -x; }), 1, "map(array{0.0,1.5}, negate)");
        },
    .obs = [](darr const &t) { return Ints{static_cast<i64>(t.get_unsafe(0) * 2), static_cast<i64>(t.get_unsafe(1) * 2)}; },
    .key = {},
    .hashes = {},
    .equalities = {}}};

// ---------------------------------------------------------------- record
FCPPT_RECORD_MAKE_LABEL(lab_a);
FCPPT_RECORD_MAKE_LABEL(lab_b);
FCPPT_RECORD_MAKE_LABEL(lab_c);
using el_a = fcppt::record::element<lab_a, int>;
using el_b = fcppt::record::element<lab_b, short>;
using el_c = fcppt::record::element<lab_c, int>;
using rec = fcppt::record::object<el_a, el_b, el_c>;
using rec_perm = fcppt::record::object<el_c, el_a, el_b>;
// the labels permuted while the SEQUENCE OF ELEMENT TYPES stays (int, short, int): a comparison that
// goes by position instead of by label cannot tell from the types that it is wrong
using rec_swap = fcppt::record::object<el_c, el_b, el_a>;
RegLaws<rec, Order::none, false> const r_record{{
    .name = "record<a:int,b:short,c:int>",
    .build =
        [](Entries<rec> &e) {
          for (int a = 0; a < 3; ++a)
            for (int b = 0; b < 3; ++b)
              for (int c = 0; c < 3; ++c)
                put(e, rec{lab_a{} = a, lab_b{} = static_cast<short>(b), lab_c{} = c}, 0, "record{a=" + s(a) + ",b=" + s(b) + ",c=" + s(c) + "}");
          // arguments given in another order
          put(e, rec{lab_c{} = 0, lab_b{} = static_cast<short>(2), lab_a{} = 1}, 1, "record{c=0,b=2,a=1}");
          rec r{lab_a{} = 0, lab_b{} = static_cast<short>(0), lab_c{} = 0};
          fcppt::record::set<lab_c>(r, 2);
          put(e, r, 2, "record{0,0,0} with c set to 2");
          rec q{lab_a{} = 2, lab_b{} = static_cast<short>(1), lab_c{} = 1};
          fcppt::record::get<lab_a>(q) = 0;
          put(e, q, 2, "record{2,1,1} with a set to 0");
          put(e, fcppt::record::permute<rec>(rec_perm{lab_c{} = 1, lab_a{} = 1, lab_b{} = static_cast<short>(1)}), 3, "permute(record{c=1,a=1,b=1})");
        },
    .obs = [](rec const &r) { return Ints{fcppt::record::get<lab_a>(r), fcppt::record::get<lab_b>(r), fcppt::record::get<lab_c>(r)}; },
    .key = {},
    .hashes = {},
    .equalities = {
        // documented: records with equivalent element sets in another order compare by label
        {"operator==(record, permuted record)", [](rec const &a, rec const &b) { return a == fcppt::record::permute<rec_perm>(rec{b}); }},
        {"!operator!=(permuted record, record)", [](rec const &a, rec const &b) { return !(fcppt::record::permute<rec_perm>(rec{a}) != b); }},
        {"operator==(record, record with labels a and c swapped in the type)", [](rec const &a, rec const &b) { return a == fcppt::record::permute<rec_swap>(rec{b}); }},
        {"!operator!=(record with labels a and c swapped in the type, record)", [](rec const &a, rec const &b) { return !(fcppt::record::permute<rec_swap>(rec{a}) != b); }}}}};

// ---------------------------------------------------------------- strong_typedef<int>
FCPPT_MAKE_STRONG_TYPEDEF(int, sint);
RegLaws<sint, Order::documented, true> const r_strong{{
    .name = "strong_typedef<int>",
    .build =
        [](Entries<sint> &e) {
          for (int v = 0; v < 3; ++v)
          {
            put(e, sint{v}, 0, "sint{" + s(v) + "}");
            sint a{(v + 2) % 3};
            a = sint{v};
            put(e, a, 1, "sint{" + s((v + 2) % 3) + "} assigned sint{" + s(v) + "}");
            sint b{v - 1};
            ++b;
            put(e, b, 2, "++sint{" + s(v - 1) + "}");
            put(e, sint{2} - sint{2 - v}, 3, "sint{2} - sint{" + s(2 - v) + "}");
            sint c{0};
            c.get() = v;
            put(e, c, 4, "sint{0} with get() = " + s(v));
            sint d{1};
            d *= sint{v};
            put(e, d, 5, "sint{1} *= sint{" + s(v) + "}");
          }
        },
    .obs = [](sint const &x) { return Ints{x.get()}; },
    .key = {},
    .hashes = {{"strong_typedef_hash", [](sint const &x) { return fcppt::strong_typedef_hash<sint>{}(x); }},
               {"std::hash", [](sint const &x) { return std::hash<sint>{}(x); }},
               {"fcppt::hash", [](sint const &x) { return fcppt::hash(x); }}},
    .equalities = {}}};

// ---------------------------------------------------------------- reference<int>
// three objects in one array (so that the address order is the index order); two hold the same value
int ref_targets[3] = {1, 1, 2};
using iref = fcppt::reference<int>;
RegLaws<iref, Order::documented, false> const r_reference{{
    .name = "reference<int>",
    .build =
        [](Entries<iref> &e) {
          for (int i = 0; i < 3; ++i)
          {
            put(e, fcppt::make_ref(ref_targets[i]), 0, "make_ref(object " + s(i) + " holding " + s(ref_targets[i]) + ")");
            put(e, iref{ref_targets[i]}, 1, "reference{object " + s(i) + "}");
            iref r{ref_targets[(i + 1) % 3]};
            r = iref{ref_targets[i]};
            put(e, r, 2, "reference{object " + s((i + 1) % 3) + "} assigned reference{object " + s(i) + "}");
            iref const c{e.back().v};
            put(e, c, 3, "copy of the previous");
          }
        },
    .obs = [](iref const &r) { return Ints{static_cast<i64>(&r.get() - ref_targets)}; },
    .key = {},
    .hashes = {{"reference_hash", [](iref const &r) { return fcppt::reference_hash<iref>{}(r); }},
               {"std::hash", [](iref const &r) { return std::hash<iref>{}(r); }},
               {"fcppt::hash", [](iref const &r) { return fcppt::hash(r); }}},
    .equalities = {}}};

using cref = fcppt::reference<int const>;
RegLaws<cref, Order::documented, false> const r_creference{{
    .name = "reference<int const>",
    .build =
        [](Entries<cref> &e) {
          for (int i = 0; i < 3; ++i)
          {
            put(e, fcppt::make_cref(ref_targets[i]), 0, "make_cref(object " + s(i) + ")");
            put(e, fcppt::reference_to_const(fcppt::make_ref(ref_targets[i])), 1, "reference_to_const(make_ref(object " + s(i) + "))");
          }
        },
    .obs = [](cref const &r) { return Ints{static_cast<i64>(&r.get() - ref_targets)}; },
    .key = {},
    .hashes = {{"reference_hash", [](cref const &r) { return fcppt::reference_hash<cref>{}(r); }},
               {"std::hash", [](cref const &r) { return std::hash<cref>{}(r); }}},
    .equalities = {}}};

// ---------------------------------------------------------------- shared_ptr<int>
using sptr = fcppt::shared_ptr<int>;
// the objects the pointers of the value set refer to, in creation order (observable component =
// which object; the documented order is std::less on the addresses)
std::vector<int const *> &shared_objects()
{
  static std::vector<int const *> v;
  return v;
}
RegLaws<sptr, Order::documented, false> const r_shared{{
    .name = "shared_ptr<int>",
    .build =
        [](Entries<sptr> &e) {
          // three objects, two with the same payload
          int const payload[3] = {1, 1, 2};
          for (int i = 0; i < 3; ++i)
          {
            sptr const p = fcppt::make_shared_ptr<int>(payload[i]);
            shared_objects().push_back(p.get_pointer());
            put(e, p, 0, "make_shared_ptr(" + s(payload[i]) + ") object " + s(i));
            put(e, sptr{p}, 1, "copy of object " + s(i));
            sptr q = fcppt::make_shared_ptr<int>(0);
            q = p;
            put(e, q, 2, "another pointer assigned object " + s(i));
            put(e, sptr{p, p.get_pointer()}, 3, "aliasing constructor on object " + s(i));
          }
          sptr const u{fcppt::make_unique_ptr<int>(1)};
          shared_objects().push_back(u.get_pointer());
          put(e, u, 4, "from unique_ptr holding 1 (object 3)");
        },
    .obs =
        [](sptr const &p) {
          for (std::size_t i = 0; i < shared_objects().size(); ++i)
            if (shared_objects()[i] == p.get_pointer()) return Ints{static_cast<i64>(i)};
          return Ints{-1};
        },
    .key = [](sptr const &p) { return Ints{static_cast<i64>(reinterpret_cast<std::uintptr_t>(p.get_pointer()))}; },
    .hashes = {{"shared_ptr_hash", [](sptr const &p) { return fcppt::shared_ptr_hash<sptr>{}(p); }},
               {"std::hash", [](sptr const &p) { return std::hash<sptr>{}(p); }}},
    .equalities = {}}};

// ---------------------------------------------------------------- recursive<int>
using rcs = fcppt::recursive<int>;
RegLaws<rcs, Order::none, false> const r_recursive{{
    .name = "recursive<int>",
    .build =
        [](Entries<rcs> &e) {
          for (int v = 0; v < 3; ++v)
          {
            put(e, rcs{v}, 0, "recursive{" + s(v) + "}");
            rcs const src{v};
            put(e, rcs{src}, 1, "copy of recursive{" + s(v) + "}");
            rcs a{(v + 1) % 3};
            a = src;
            put(e, a, 2, "recursive{" + s((v + 1) % 3) + "} copy-assigned recursive{" + s(v) + "}");
            rcs b{0};
            b.get() = v;
            put(e, b, 3, "recursive{0} with get() = " + s(v));
            rcs c{(v + 2) % 3};
            c = rcs{v};
            put(e, c, 4, "recursive{" + s((v + 2) % 3) + "} move-assigned recursive{" + s(v) + "}");
          }
        },
    .obs = [](rcs const &r) { return Ints{r.get()}; },
    .key = {},
    .hashes = {},
    .equalities = {}}};

// ---------------------------------------------------------------- unit
RegLaws<fcppt::unit, Order::none, false> const r_unit{{
    .name = "unit",
    .build =
        [](Entries<fcppt::unit> &e) {
          put(e, fcppt::unit{}, 0, "unit{}");
          fcppt::unit u{};
          u = fcppt::unit{};
          put(e, u, 1, "unit assigned unit");
        },
    .obs = [](fcppt::unit const &) { return Ints{}; },
    .key = {},
    .hashes = {},
    .equalities = {}}};
}
