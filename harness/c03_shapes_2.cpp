// VERIF: lib rc quick_shards=1 fuzz=options_random_part2
// C03 - parser shapes, part 2 of 8 (see c03_options.hpp).
#include "c03_options.hpp"
namespace
{
using namespace c03;
using S = std::string;
c03::shape_list make_shapes()
{
  c03::shape_list s;
  s.push_back(c03::mk_shape(10, "prod(many(arg<int>), sw)", prod(many(arg<la, int>("a")), sw<lb>("f", "ff"))));
  s.push_back(c03::mk_shape(11, "prod(flag<int>, many(opt<int>))", prod(flag<la, int>("", "ff", 1, 0), many(opt<lb, int>("o", "oo", std::nullopt)))));
  s.push_back(c03::mk_shape(12, "prod(sw, opt<str>, arg<str>)", prod(sw<la>("f", "ff"), opt<lb, S>("o", "oo", std::nullopt), arg<lc, S>("c"))));
  s.push_back(c03::mk_shape(13, "sum(prod(sw,arg<str>), arg<int>)", sum<ld>(prod(sw<la>("f", "ff"), arg<lb, S>("b")), arg<lc, int>("c"))));
  s.push_back(c03::mk_shape(14, "prod(optional(arg<int>), arg<str>)", prod(optional(arg<la, int>("a")), arg<lb, S>("b"))));
  return s;
}
}
C03_TU(2, make_shapes)
