// VERIF: quick_shards=5
// C16 - search / remove / unique / reverse / split_string / join_strings / *_iteration of fcppt.algorithm
// against loop references; the sections are in c16_search_impl.hpp (shared with c16_heap_search.cpp).
#include "c16_search_impl.hpp"
