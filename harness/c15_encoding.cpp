// VERIF: lib rc quick_shards=6 fuzz=utf8_random_strings
// C15 - textual and binary encodings round-trip losslessly.
// Oracles: round trip = identity (bitwise for floats); written bytes = the value's bytes computed by
// shifting; a hand-written strict UTF-8 codec for valid input; for ill-formed input the model-free
// inverse direction ("complete result or failure").
#include "verif.hpp"

#include <fcppt/extract_from_string.hpp>
#include <fcppt/from_std_string.hpp>
#include <fcppt/from_std_wstring.hpp>
#include <fcppt/narrow.hpp>
#include <fcppt/narrow_locale.hpp>
#include <fcppt/output_to_fcppt_string.hpp>
#include <fcppt/output_to_std_string.hpp>
#include <fcppt/output_to_std_wstring.hpp>
#include <fcppt/string.hpp>
#include <fcppt/to_std_string.hpp>
#include <fcppt/to_std_wstring.hpp>
#include <fcppt/widen.hpp>
#include <fcppt/widen_locale.hpp>
#include <fcppt/assert/unreachable.hpp>
#include <fcppt/endianness/convert.hpp>
#include <fcppt/endianness/swap.hpp>
#include <fcppt/enum/from_string.hpp>
#include <fcppt/enum/input.hpp>
#include <fcppt/enum/make_range.hpp>
#include <fcppt/enum/output.hpp>
#include <fcppt/enum/to_string.hpp>
#include <fcppt/enum/to_string_case.hpp>
#include <fcppt/enum/to_string_impl_fwd.hpp>
#include <fcppt/io/read.hpp>
#include <fcppt/io/write.hpp>
#include <fcppt/math/dim/comparison.hpp>
#include <fcppt/math/dim/input.hpp>
#include <fcppt/math/dim/output.hpp>
#include <fcppt/math/dim/static.hpp>
#include <fcppt/math/vector/comparison.hpp>
#include <fcppt/math/vector/input.hpp>
#include <fcppt/math/vector/output.hpp>
#include <fcppt/math/vector/static.hpp>
#include <fcppt/optional/object.hpp>

#include <bit>
#include <cstdint>
#include <cstring>
#include <limits>
#include <locale>
#include <sstream>
#include <streambuf>
#include <ostream>
#include <stdexcept>
#include <string>
#include <tuple>
#include <vector>

using namespace verif;

namespace
{
enum class color { red, green, blue, fcppt_maximum = blue };
enum class single { only, fcppt_maximum = only };
enum class longer : std::uint8_t { a, ab, abc, b, ba, c, x_1, fcppt_maximum = x_1 };
// names handed out as sub-views of ONE packed table: a std::string_view is not NUL-terminated at its
// end (what follows "north" in memory is "eastsouthwest")
enum class packed { north, east, south, west, fcppt_maximum = west };
// names that end in an underscore (the usual spelling of an enumerator that collides with a keyword)
enum class under { int_, float_, x_, fcppt_maximum = x_ };
}
namespace fcppt::enum_
{
template <>
struct to_string_impl<color>
{
  static std::string_view get(color const v)
  {
    switch (v)
    {
      FCPPT_ENUM_TO_STRING_CASE(color, red);
      FCPPT_ENUM_TO_STRING_CASE(color, green);
      FCPPT_ENUM_TO_STRING_CASE(color, blue);
    }
    FCPPT_ASSERT_UNREACHABLE;
  }
};
template <>
struct to_string_impl<packed>
{
  static std::string_view get(packed const v)
  {
    static constexpr std::string_view table{"northeastsouthwest"};
    switch (v)
    {
    case packed::north: return table.substr(0, 5);
    case packed::east: return table.substr(5, 4);
    case packed::south: return table.substr(9, 5);
    case packed::west: return table.substr(14, 4);
    }
    FCPPT_ASSERT_UNREACHABLE;
  }
};
template <>
struct to_string_impl<under>
{
  static std::string_view get(under const v)
  {
    switch (v)
    {
      FCPPT_ENUM_TO_STRING_CASE(under, int_);
      FCPPT_ENUM_TO_STRING_CASE(under, float_);
      FCPPT_ENUM_TO_STRING_CASE(under, x_);
    }
    FCPPT_ASSERT_UNREACHABLE;
  }
};
template <>
struct to_string_impl<single>
{
  static std::string_view get(single) { return "only"; }
};
template <>
struct to_string_impl<longer>
{
  static std::string_view get(longer const v)
  {
    switch (v)
    {
      FCPPT_ENUM_TO_STRING_CASE(longer, a);
      FCPPT_ENUM_TO_STRING_CASE(longer, ab);
      FCPPT_ENUM_TO_STRING_CASE(longer, abc);
      FCPPT_ENUM_TO_STRING_CASE(longer, b);
      FCPPT_ENUM_TO_STRING_CASE(longer, ba);
      FCPPT_ENUM_TO_STRING_CASE(longer, c);
      FCPPT_ENUM_TO_STRING_CASE(longer, x_1);
    }
    FCPPT_ASSERT_UNREACHABLE;
  }
};
}

namespace
{
// -------------------------------------------------------------------- binary io
using arith = std::tuple<std::int8_t, std::uint8_t, std::int16_t, std::uint16_t, std::int32_t, std::uint32_t, std::int64_t, std::uint64_t, float, double>;
char const *const arith_names[] = {"i8", "u8", "i16", "u16", "i32", "u32", "i64", "u64", "float", "double"};

template <typename T>
using bits_of = std::conditional_t<sizeof(T) == 1, std::uint8_t, std::conditional_t<sizeof(T) == 2, std::uint16_t, std::conditional_t<sizeof(T) == 4, std::uint32_t, std::uint64_t>>>;

template <typename T>
bool is_snan(bits_of<T> b)
{
  if constexpr (std::is_same_v<T, float>)
    return (b & 0x7f800000U) == 0x7f800000U && (b & 0x007fffffU) != 0 && (b & 0x00400000U) == 0;
  else if constexpr (std::is_same_v<T, double>)
    return (b & 0x7ff0000000000000ULL) == 0x7ff0000000000000ULL && (b & 0x000fffffffffffffULL) != 0 && (b & 0x0008000000000000ULL) == 0;
  else
    return false;
}

template <typename T>
void io_one(i64 raw, i64 big)
{
  using B = bits_of<T>;
  B const b = static_cast<B>(static_cast<u64>(raw));
  std::endian const fmt = big ? std::endian::big : std::endian::little;
  bool const nontrivial = sizeof(T) >= 2 && (fmt != std::endian::native || static_cast<u64>(b) >= 256U);
  if (is_snan<T>(b)) { skip(); return; }
  // a swapped floating-point pattern may be a signalling NaN while it travels by value through
  // fcppt::endianness::swap (the library's own design for floats); such patterns are excluded too
  if constexpr (std::is_floating_point_v<T>)
  {
    B sw = 0;
    for (unsigned i = 0; i < sizeof(T); ++i) sw = static_cast<B>(sw | (((b >> (8 * i)) & 0xffU) << (8 * (sizeof(T) - 1 - i))));
    if (is_snan<T>(sw)) { skip(); return; }
  }
  count(nontrivial);
  T v;
  std::memcpy(&v, &b, sizeof v);
  std::ostringstream os;
  fcppt::io::write(os, v, fmt);
  std::string const bytes = os.str();
  std::string expect;
  for (unsigned i = 0; i < sizeof(T); ++i)
  {
    unsigned const shift = big ? 8 * (sizeof(T) - 1 - i) : 8 * i;
    expect.push_back(static_cast<char>(static_cast<unsigned char>((b >> shift) & 0xffU)));
  }
  char const *const en = big ? "|big" : "|little";
  if (bytes != expect)
  {
    fail(std::string("io::write|byte-order") + en, std::string("io::write<") + (std::is_floating_point_v<T> ? "fp" : std::is_signed_v<T> ? "i" : "u") + std::to_string(sizeof(T) * 8) + "> wrote the wrong bytes for bits " + std::to_string(static_cast<u64>(b)));
    return;
  }
  std::istringstream is(bytes);
  fcppt::optional::object<T> const r = fcppt::io::read<T>(is, fmt);
  if (!r.has_value())
  {
    fail(std::string("io::read|presence") + en, "io::read returned nothing for a complete value");
    return;
  }
  B rb;
  std::memcpy(&rb, &r.get_unsafe(), sizeof rb);
  if (rb != b) fail(std::string("io::read|round-trip") + en, "read back bits " + std::to_string(static_cast<u64>(rb)) + " instead of " + std::to_string(static_cast<u64>(b)));
  // too short a stream: nothing
  if (sizeof(T) > 1 || true)
  {
    std::istringstream shortis(bytes.substr(0, sizeof(T) - 1));
    if (fcppt::io::read<T>(shortis, fmt).has_value()) fail("io::read|short-stream", "io::read returned a value from a stream that is one byte short");
  }
  // swap twice, convert
  T const s2 = fcppt::endianness::swap(fcppt::endianness::swap(v));
  B s2b;
  std::memcpy(&s2b, &s2, sizeof s2b);
  if (s2b != b) fail("endianness::swap|involution", "swap(swap(x)) != x for bits " + std::to_string(static_cast<u64>(b)));
  T const cn = fcppt::endianness::convert(v, std::endian::native);
  B cnb;
  std::memcpy(&cnb, &cn, sizeof cnb);
  if (cnb != b) fail("endianness::convert|native-identity", "convert(x, native) != x");
  T const co = fcppt::endianness::convert(v, std::endian::native == std::endian::little ? std::endian::big : std::endian::little);
  T const sw = fcppt::endianness::swap(v);
  if (std::memcmp(&co, &sw, sizeof co) != 0) fail("endianness::convert|foreign-swaps", "convert(x, non-native) != swap(x)");
  B swb;
  std::memcpy(&swb, &sw, sizeof swb);
  B expect_sw = 0;
  for (unsigned i = 0; i < sizeof(T); ++i) expect_sw = static_cast<B>(expect_sw | (((b >> (8 * i)) & 0xffU) << (8 * (sizeof(T) - 1 - i))));
  if (swb != expect_sw) fail("endianness::swap|value", "swap reversed the bytes incorrectly for bits " + std::to_string(static_cast<u64>(b)));
}
using io_fn = void (*)(i64, i64);
template <std::size_t... I>
std::array<io_fn, 10> make_io(std::index_sequence<I...>) { return {{&io_one<std::tuple_element_t<I, arith>>...}}; }
auto const io_table = make_io(std::make_index_sequence<10>{});
void io_case(Ints const &c) { io_table[static_cast<std::size_t>(c.at(0)) % 10](c.at(1), c.at(2) & 1); }
std::string io_describe(Ints const &c)
{
  return std::string("io::write/read/swap/convert<") + arith_names[static_cast<std::size_t>(c.at(0)) % 10] + ">(bits " + std::to_string(c.at(1)) + (c.at(2) & 1 ? ", big endian)" : ", little endian)");
}
char const *const io_rule = "value needs >= 2 bytes (multi-byte type and value >= 256 as bits) or the byte order is not the native one";
Reg const r_io_small{"io_all_8_16_bit", Kind::exhaustive, io_rule,
                     [] {
                       for (i64 t = 0; t < 4; ++t)
                         for (i64 v = 0; v < (t < 2 ? 256 : 65536); ++v)
                           for (i64 e = 0; e < 2; ++e) { cur3(t, v, e); io_table[static_cast<std::size_t>(t)](v, e); }
                     },
                     io_case, io_describe};
Reg const r_io_lattice{"io_lattice_32_64_float", Kind::exhaustive, io_rule,
                       [] {
                         auto run = [](i64 t, std::vector<u64> const &vals) {
                           for (u64 v : vals)
                             for (i64 e = 0; e < 2; ++e) { cur3(t, static_cast<i64>(v), e); io_table[static_cast<std::size_t>(t)](static_cast<i64>(v), e); }
                         };
                         std::vector<u64> l32, l64;
                         for (auto v : lattice<std::uint32_t>()) l32.push_back(v);
                         for (auto v : lattice<std::uint64_t>()) l64.push_back(v);
                         run(4, l32); run(5, l32); run(6, l64); run(7, l64);
                         // floats: +-0, denormals, +-inf, quiet NaNs, limits, lattice bit patterns
                         std::vector<u64> f32 = l32, f64 = l64;
                         for (u64 x : {0x00000000ULL, 0x80000000ULL, 0x00000001ULL, 0x807fffffULL, 0x7f800000ULL, 0xff800000ULL, 0x7fc00000ULL, 0xffc00001ULL, 0x7f7fffffULL, 0x00800000ULL, 0x3f800000ULL, 0x40490fdbULL}) f32.push_back(x);
                         for (u64 x : {0x0ULL, 0x8000000000000000ULL, 0x1ULL, 0x800fffffffffffffULL, 0x7ff0000000000000ULL, 0xfff0000000000000ULL, 0x7ff8000000000000ULL, 0xfff8000000000001ULL, 0x7fefffffffffffffULL, 0x0010000000000000ULL, 0x3ff0000000000000ULL, 0x400921fb54442d18ULL}) f64.push_back(x);
                         run(8, f32); run(9, f64);
                       },
                       io_case, io_describe};
Reg const r_io_random{"io_random_32_64_float", Kind::random, io_rule,
                      [] {
                        SplitMix r(opts().seed * 17 + static_cast<u64>(opts().shard));
                        u64 const n = opts().thorough() ? 3000000 : 150000;
                        for (u64 i = 0; i < n; ++i)
                        {
                          i64 const t = 4 + static_cast<i64>(r.next() % 6);
                          u64 v = r.next();
                          if ((r.next() & 3U) == 0) v >>= (r.next() % 64);
                          if (t == 4 || t == 5 || t == 8) v &= 0xffffffffULL;
                          i64 const e = static_cast<i64>(r.next() & 1U);
                          cur3(t, static_cast<i64>(v), e);
                          io_table[static_cast<std::size_t>(t)](static_cast<i64>(v), e);
                        }
                      },
                      io_case, io_describe};

// -------------------------------------------------------------------- textual integers
using text_types = std::tuple<std::int16_t, std::uint16_t, std::int32_t, std::uint32_t, std::int64_t, std::uint64_t, long, unsigned long long>;
char const *const text_names[] = {"i16", "u16", "i32", "u32", "i64", "u64", "long", "unsigned long long"};
template <typename T>
void text_one(i64 raw)
{
  T const v = static_cast<T>(static_cast<std::make_unsigned_t<T>>(static_cast<u64>(raw)));
  count(v < 0 || static_cast<u64>(v) >= 256U);
  std::string const expect = std::to_string(v);
  std::string const s = fcppt::output_to_std_string(v);
  std::wstring const w = fcppt::output_to_std_wstring(v);
  fcppt::string const f = fcppt::output_to_fcppt_string(v);
  if (s != expect || f != fcppt::string(expect.begin(), expect.end()) || w != std::wstring(expect.begin(), expect.end()))
  {
    fail("output_to_string|digits", "output_to_*string(" + expect + ") produced '" + s + "'");
    return;
  }
  auto const r1 = fcppt::extract_from_string<T>(s);
  auto const r2 = fcppt::extract_from_string<T>(w);
  auto const r3 = fcppt::extract_from_string<T>(f);
  if (!r1.has_value() || r1.get_unsafe() != v) fail("extract_from_string|round-trip|std::string", "extract_from_string('" + s + "') did not give back " + expect);
  if (!r2.has_value() || r2.get_unsafe() != v) fail("extract_from_string|round-trip|std::wstring", "extract_from_string(L'" + s + "') did not give back " + expect);
  if (!r3.has_value() || r3.get_unsafe() != v) fail("extract_from_string|round-trip|fcppt::string", "extract_from_string(fcppt '" + s + "') did not give back " + expect);
  // never silently truncate: trailing garbage and out-of-range digit strings are failures
  if (fcppt::extract_from_string<T>(s + "x").has_value()) fail("extract_from_string|trailing-garbage", "'" + s + "x' was accepted");
  if (v != 0 && fcppt::extract_from_string<T>(s + "0000000000000000000000").has_value()) fail("extract_from_string|overflow-accepted", "'" + s + "0000000000000000000000' was accepted");
}
using text_fn = void (*)(i64);
template <std::size_t... I>
std::array<text_fn, 8> make_text(std::index_sequence<I...>) { return {{&text_one<std::tuple_element_t<I, text_types>>...}}; }
auto const text_table = make_text(std::make_index_sequence<8>{});
void text_case(Ints const &c) { text_table[static_cast<std::size_t>(c.at(0)) % 8](c.at(1)); }
std::string text_describe(Ints const &c) { return std::string("output_to_*string -> extract_from_string<") + text_names[static_cast<std::size_t>(c.at(0)) % 8] + ">(bits " + std::to_string(c.at(1)) + ")"; }
char const *const text_rule = "value is negative or >= 256";
Reg const r_text16{"text_all_16_bit", Kind::exhaustive, text_rule,
                   [] {
                     for (i64 t = 0; t < 2; ++t)
                       for (i64 v = 0; v < 65536; ++v) { cur2(t, v); text_table[static_cast<std::size_t>(t)](v); }
                   },
                   text_case, text_describe};
Reg const r_text_wide{"text_lattice_random_wide", Kind::random, text_rule,
                      [] {
                        for (auto v : lattice<std::int32_t>()) { cur2(2, v); text_table[2](v); }
                        for (auto v : lattice<std::uint32_t>()) { cur2(3, v); text_table[3](v); }
                        for (auto v : lattice<std::int64_t>()) { cur2(4, v); text_table[4](v); cur2(6, v); text_table[6](v); }
                        for (auto v : lattice<std::uint64_t>()) { cur2(5, static_cast<i64>(v)); text_table[5](static_cast<i64>(v)); cur2(7, static_cast<i64>(v)); text_table[7](static_cast<i64>(v)); }
                        SplitMix r(opts().seed * 29 + static_cast<u64>(opts().shard));
                        u64 const n = opts().thorough() ? 400000 : 30000;
                        for (u64 i = 0; i < n; ++i)
                        {
                          i64 const t = 2 + static_cast<i64>(r.next() % 6);
                          u64 v = r.next();
                          if ((r.next() & 1U) == 0) v >>= (r.next() % 64);
                          if ((r.next() & 7U) == 0) v = ~v;
                          cur2(t, static_cast<i64>(v));
                          text_table[static_cast<std::size_t>(t)](static_cast<i64>(v));
                        }
                      },
                      text_case, text_describe};
// 8-bit integers are character types for iostreams: only the weaker clause (a value that comes
// back is the original) is demanded - see DESIGN.md C15 "Reading".
Reg const r_text8{"text_8_bit_weak", Kind::exhaustive, "every value (character types: only 'what comes back is the original' is demanded)",
                  [] {
                    for (i64 t = 0; t < 2; ++t)
                      for (i64 v = 0; v < 256; ++v) { cur2(t, v); g_cur.sec->one({t, v}); }
                  },
                  [](Ints const &c) {
                    count(true);
                    if (c.at(0) % 2 == 0)
                    {
                      std::int8_t const v = static_cast<std::int8_t>(static_cast<std::uint8_t>(c.at(1)));
                      auto const r = fcppt::extract_from_string<std::int8_t>(fcppt::output_to_std_string(v));
                      if (r.has_value() && r.get_unsafe() != v) fail("extract_from_string|i8|different-value", "a different value came back");
                    }
                    else
                    {
                      std::uint8_t const v = static_cast<std::uint8_t>(c.at(1));
                      auto const r = fcppt::extract_from_string<std::uint8_t>(fcppt::output_to_std_string(v));
                      if (r.has_value() && r.get_unsafe() != v) fail("extract_from_string|u8|different-value", "a different value came back");
                    }
                  }};

// -------------------------------------------------------------------- io::write into a sink that fills up
// "Conversions never silently truncate: they return the complete result or report failure." A sink
// with room for `cap` bytes receives 32-bit values one after the other: a write after which the
// stream is still good has put all its bytes into the sink (and the value reads back); a write that
// could not be completed leaves the stream in a failed state.
class bounded_buf : public std::streambuf
{
public:
  explicit bounded_buf(std::size_t cap) : cap_(cap) {}
  std::string const &bytes() const { return data_; }

protected:
  std::streamsize xsputn(char const *s, std::streamsize n) override
  {
    std::streamsize done = 0;
    while (done < n && data_.size() < cap_) data_.push_back(s[done++]);
    return done;
  }
  int_type overflow(int_type ch) override
  {
    if (traits_type::eq_int_type(ch, traits_type::eof())) return traits_type::not_eof(ch);
    if (data_.size() >= cap_) return traits_type::eof();
    data_.push_back(traits_type::to_char_type(ch));
    return ch;
  }

private:
  std::size_t cap_;
  std::string data_;
};
void bounded_sink_case(std::size_t cap, bool big)
{
  std::endian const order = big ? std::endian::big : std::endian::little;
  std::uint32_t const values[] = {0x01020304U, 0xdeadbeefU, 0x00000080U, 0xffffffffU};
  count(cap % 4 != 0 || cap < 16);
  bounded_buf buf(cap);
  std::ostream os(&buf);
  std::size_t reported = 0;
  for (std::uint32_t v : values)
  {
    fcppt::io::write(os, v, order);
    if (!os) break;
    ++reported;
  }
  std::string const ctx = "sink with room for " + std::to_string(cap) + " bytes, four 32-bit values, " + (big ? "big" : "little") + " endian";
  if (buf.bytes().size() < reported * 4)
    fail("io::write|short-write-not-reported", ctx + ": " + std::to_string(reported) + " writes left the stream good but only " + std::to_string(buf.bytes().size()) + " bytes arrived");
  else
  {
    std::istringstream is(buf.bytes().substr(0, reported * 4));
    for (std::size_t i = 0; i < reported; ++i)
    {
      auto const r = fcppt::io::read<std::uint32_t>(is, order);
      if (!r.has_value() || r.get_unsafe() != values[i]) { fail("io::read|round-trip|bounded-sink", ctx + ": value #" + std::to_string(i) + " reported as written does not read back"); break; }
    }
  }
  if (reported < 4 && cap >= (reported + 1) * 4) fail("io::write|failure-although-room", ctx + ": write #" + std::to_string(reported) + " failed although the sink had room");
}
// io::read from a stream that is in a failed state although bytes are available (failbit after an
// earlier failed extraction, badbit): "return the complete result or report failure" - a failed
// stream has delivered nothing, so nothing is what comes back (never a value made of stale bytes)
void failed_stream_read_case(std::size_t state, bool big, std::size_t width)
{
  std::endian const order = big ? std::endian::big : std::endian::little;
  std::string const bytes("\x01\x02\x03\x04\x05\x06\x07\x08\x09", 9);
  std::ios_base::iostate const st = state == 0 ? std::ios_base::failbit : state == 1 ? std::ios_base::badbit : (std::ios_base::failbit | std::ios_base::badbit);
  count(true);
  std::istringstream is(bytes);
  is.setstate(st);
  bool got = false;
  if (width == 0) got = fcppt::io::read<std::uint8_t>(is, order).has_value();
  else if (width == 1) got = fcppt::io::read<std::uint16_t>(is, order).has_value();
  else if (width == 2) got = fcppt::io::read<std::uint32_t>(is, order).has_value();
  else got = fcppt::io::read<std::uint64_t>(is, order).has_value();
  if (got) fail("io::read|value-from-a-failed-stream", std::string("io::read of a ") + std::to_string(8 << width) + "-bit value returned a value although the stream had " + (state == 0 ? "failbit" : state == 1 ? "badbit" : "failbit|badbit") + " set before the call");
}
Reg const r_failed_read{"io_read_failed_stream", Kind::exhaustive, "every case",
                        [] { for (i64 s = 0; s < 3; ++s) for (i64 b = 0; b < 2; ++b) for (i64 w = 0; w < 4; ++w) { cur3(s, b, w); failed_stream_read_case(static_cast<std::size_t>(s), b != 0, static_cast<std::size_t>(w)); } },
                        [](Ints const &c) { failed_stream_read_case(static_cast<std::size_t>(static_cast<u64>(c.at(0)) % 3), c.at(1) % 2 != 0, static_cast<std::size_t>(static_cast<u64>(c.at(2)) % 4)); },
                        [](Ints const &c) { static char const *const st[] = {"failbit", "badbit", "failbit|badbit"}; return "io::read of a " + std::to_string(8 << (static_cast<u64>(c.at(2)) % 4)) + "-bit value from a stream of 9 bytes with " + st[static_cast<u64>(c.at(0)) % 3] + " set"; }};

Reg const r_bounded{"io_write_bounded_sink", Kind::exhaustive, "the sink cannot take all four values, or ends inside a value",
                    [] { for (i64 cap = 0; cap <= 17; ++cap) for (i64 b = 0; b < 2; ++b) { cur2(cap, b); bounded_sink_case(static_cast<std::size_t>(cap), b != 0); } },
                    [](Ints const &c) { bounded_sink_case(static_cast<std::size_t>(static_cast<u64>(c.at(0)) % 18), c.at(1) % 2 != 0); },
                    [](Ints const &c) { return "io::write of four 32-bit values (" + std::string(c.at(1) % 2 != 0 ? "big" : "little") + " endian) into a sink with room for " + std::to_string(static_cast<u64>(c.at(0)) % 18) + " bytes"; }};

// -------------------------------------------------------------------- enums
template <typename E>
void enum_all(char const *ename, std::vector<std::string> const &names)
{
  unsigned idx = 0;
  for (E const e : fcppt::enum_::make_range<E>())
  {
    cur2(static_cast<i64>(idx), 0);
    count(names.size() >= 2);
    std::string const n{fcppt::enum_::to_string(e)};
    if (n != names.at(idx)) fail("enum::to_string|name", std::string(ename) + " enumerator " + std::to_string(idx) + " -> '" + n + "'");
    auto const back = fcppt::enum_::from_string<E>(n);
    if (!back.has_value() || back.get_unsafe() != e) fail("enum::from_string|round-trip", std::string(ename) + ": from_string(to_string(e)) != e for '" + n + "'");
    {
      std::ostringstream os;
      fcppt::enum_::output(os, e);
      if (os.str() != n) fail("enum::output|char", "output wrote '" + os.str() + "'");
      std::istringstream is(os.str() + " rest");
      E r = static_cast<E>((idx + 1) % names.size());
      fcppt::enum_::input(is, r);
      if (!is || r != e) fail("enum::input|char|round-trip", "input did not read back '" + n + "'");
    }
    {
      std::wostringstream os;
      fcppt::enum_::output(os, e);
      if (os.str() != std::wstring(n.begin(), n.end())) fail("enum::output|wchar_t", "wide output wrong for '" + n + "'");
      std::wistringstream is(os.str());
      E r = static_cast<E>((idx + 1) % names.size());
      fcppt::enum_::input(is, r);
      if (is.fail() || r != e) fail("enum::input|wchar_t|round-trip", "wide input did not read back '" + n + "'");
    }
    // non-names: prefixes, extensions, case changes
    for (std::string const &bad : {n + "x", n.substr(0, n.size() - 1), std::string("X") + n, std::string(), n + " "})
    {
      bool is_name = false;
      for (auto const &nm : names) is_name = is_name || nm == bad;
      if (is_name) continue;
      if (fcppt::enum_::from_string<E>(bad).has_value()) fail("enum::from_string|non-name-accepted", std::string(ename) + ": '" + bad + "' was accepted");
      std::istringstream is(bad);
      E r = e;
      fcppt::enum_::input(is, r);
      if (!is.fail() && !bad.empty() && bad.back() != ' ') fail("enum::input|non-name-accepted", std::string(ename) + ": stream input accepted '" + bad + "'");
    }
    ++idx;
  }
  if (idx != names.size()) fail("enum::make_range|count", std::string(ename) + " enumerates " + std::to_string(idx) + " values");
}
Reg const r_enum{"enum_text", Kind::exhaustive, "enum has >= 2 enumerators (names that are prefixes of each other included)",
                 [] {
                   enum_all<color>("color", {"red", "green", "blue"});
                   enum_all<single>("single", {"only"});
                   enum_all<longer>("longer", {"a", "ab", "abc", "b", "ba", "c", "x_1"});
                   enum_all<packed>("packed", {"north", "east", "south", "west"});
                   enum_all<under>("under", {"int_", "float_", "x_"});
                 },
                 [](Ints const &) {
                   enum_all<color>("color", {"red", "green", "blue"});
                   enum_all<single>("single", {"only"});
                   enum_all<longer>("longer", {"a", "ab", "abc", "b", "ba", "c", "x_1"});
                   enum_all<packed>("packed", {"north", "east", "south", "west"});
                   enum_all<under>("under", {"int_", "float_", "x_"});
                 }};

// -------------------------------------------------------------------- vector / dim text
int const comp_vals[] = {-1, 0, 7, 12345, -2147483647 - 1};
template <std::size_t N>
void vec_one(Ints const &c)
{
  using vec = fcppt::math::vector::static_<int, N>;
  using dim = fcppt::math::dim::static_<int, N>;
  std::array<int, N> comps;
  bool wide = false;
  for (std::size_t i = 0; i < N; ++i)
  {
    comps[i] = comp_vals[static_cast<std::size_t>(c.at(1 + i)) % 5];
    wide = wide || comps[i] < 0 || comps[i] >= 256;
  }
  count(wide && N >= 2);
  vec v{fcppt::no_init{}};
  dim d{fcppt::no_init{}};
  for (std::size_t i = 0; i < N; ++i) { v.storage()[i] = comps[i]; d.storage()[i] = comps[i]; }
  std::string expect = "(";
  for (std::size_t i = 0; i < N; ++i) expect += (i ? "," : "") + std::to_string(comps[i]);
  expect += ")";
  {
    std::ostringstream os;
    os << v;
    if (os.str() != expect) { fail("math::vector|output|format", "vector printed as '" + os.str() + "', expected '" + expect + "'"); return; }
    std::istringstream is(os.str());
    vec r{fcppt::no_init{}};
    for (std::size_t i = 0; i < N; ++i) r.storage()[i] = 99;
    is >> r;
    if (!is || !(r == v)) fail("math::vector|input|round-trip", "vector '" + expect + "' did not read back");
    std::wostringstream wos;
    wos << v;
    std::wistringstream wis(wos.str());
    vec wr{fcppt::no_init{}};
    for (std::size_t i = 0; i < N; ++i) wr.storage()[i] = 99;
    wis >> wr;
    if (wos.str() != std::wstring(expect.begin(), expect.end()) || !wis || !(wr == v)) fail("math::vector|wide|round-trip", "wide vector '" + expect + "' did not round-trip");
  }
  {
    std::ostringstream os;
    os << d;
    std::istringstream is(os.str());
    dim r{fcppt::no_init{}};
    for (std::size_t i = 0; i < N; ++i) r.storage()[i] = 99;
    is >> r;
    if (os.str() != expect || !is || !(r == d)) fail("math::dim|text|round-trip", "dim '" + expect + "' did not round-trip");
  }
  // the same round trip with formatting flags set on BOTH streams (writer and reader agree): the
  // components are written and read with the stream's own integer formatting. Non-negative
  // components only: iostreams print a negative int in hex / oct as its unsigned bit pattern, which
  // does not read back into an int whatever fcppt does.
  {
    bool nonneg = true;
    for (std::size_t i = 0; i < N; ++i) nonneg = nonneg && comps[i] >= 0;
    if (nonneg)
    {
      std::ios_base::fmtflags const variants[] = {std::ios_base::hex, std::ios_base::oct, std::ios_base::hex | std::ios_base::showbase, std::ios_base::oct | std::ios_base::showbase, std::ios_base::dec | std::ios_base::showpos, std::ios_base::hex | std::ios_base::uppercase};
      char const *const names[] = {"hex", "oct", "hex|showbase", "oct|showbase", "dec|showpos", "hex|uppercase"};
      for (std::size_t f = 0; f < 6; ++f)
      {
        std::ostringstream os;
        os.setf(variants[f], std::ios_base::basefield | std::ios_base::showbase | std::ios_base::showpos | std::ios_base::uppercase);
        os << v << ' ' << d;
        std::istringstream is(os.str());
        is.setf(variants[f], std::ios_base::basefield | std::ios_base::showbase | std::ios_base::showpos | std::ios_base::uppercase);
        vec r{fcppt::no_init{}};
        dim rd{fcppt::no_init{}};
        for (std::size_t i = 0; i < N; ++i) { r.storage()[i] = 99; rd.storage()[i] = 99; }
        is >> r >> rd;
        if (!is || !(r == v) || !(rd == d))
          fail("math::vector|text|round-trip-with-format-flags", "vector / dim '" + expect + "' written with the flags " + names[f] + " as '" + os.str() + "' did not read back from a stream with the same flags");
      }
    }
  }
  // malformed text must set failbit
  for (std::string const &bad : {expect.substr(1), expect.substr(0, expect.size() - 1), std::string("[") + expect.substr(1), expect.substr(0, 2)})
  {
    if (N == 1 && bad == expect.substr(0, expect.size() - 1) && false) continue;
    std::istringstream is(bad);
    vec r{fcppt::no_init{}};
    for (std::size_t i = 0; i < N; ++i) r.storage()[i] = 0;
    is >> r;
    if (!is.fail()) fail("math::vector|input|malformed-accepted", "'" + bad + "' was accepted as a vector of dimension " + std::to_string(N));
  }
}
void vec_case(Ints const &c)
{
  switch (c.at(0) % 4)
  {
  case 0: vec_one<1>(c); break;
  case 1: vec_one<2>(c); break;
  case 2: vec_one<3>(c); break;
  default: vec_one<4>(c); break;
  }
}
Reg const r_vec{"vector_dim_text", Kind::exhaustive, "dimension >= 2 and a component that is negative or >= 256",
                [] {
                  for (i64 n = 0; n < 4; ++n)
                  {
                    i64 total = 1;
                    for (i64 i = 0; i <= n; ++i) total *= 5;
                    for (i64 k = 0; k < total; ++k)
                    {
                      Ints c{n, k % 5, (k / 5) % 5, (k / 25) % 5, (k / 125) % 5};
                      cur_vec(c);
                      vec_case(c);
                    }
                  }
                },
                vec_case,
                [](Ints const &c) { return "vector/dim<int," + std::to_string(c.at(0) % 4 + 1) + "> components idx " + std::to_string(c.at(1)) + "," + std::to_string(c.at(2)) + "," + std::to_string(c.at(3)) + "," + std::to_string(c.at(4)) + " of {-1,0,7,12345,INT_MIN}"; }};

// -------------------------------------------------------------------- UTF-8
std::string enc(char32_t c)
{
  std::string r;
  if (c < 0x80) r.push_back(static_cast<char>(c));
  else if (c < 0x800) { r.push_back(static_cast<char>(0xC0 | (c >> 6))); r.push_back(static_cast<char>(0x80 | (c & 0x3F))); }
  else if (c < 0x10000) { r.push_back(static_cast<char>(0xE0 | (c >> 12))); r.push_back(static_cast<char>(0x80 | ((c >> 6) & 0x3F))); r.push_back(static_cast<char>(0x80 | (c & 0x3F))); }
  else { r.push_back(static_cast<char>(0xF0 | (c >> 18))); r.push_back(static_cast<char>(0x80 | ((c >> 12) & 0x3F))); r.push_back(static_cast<char>(0x80 | ((c >> 6) & 0x3F))); r.push_back(static_cast<char>(0x80 | (c & 0x3F))); }
  return r;
}
bool is_scalar(u64 c) { return c >= 1 && c <= 0x10FFFF && !(c >= 0xD800 && c <= 0xDFFF); }
std::locale const &utf8()
{
  static std::locale const l("C.utf8");
  return l;
}
std::string hex(std::string const &s)
{
  static char const *d = "0123456789abcdef";
  std::string r;
  for (unsigned char c : s) { r.push_back(d[c >> 4]); r.push_back(d[c & 15]); r.push_back(' '); }
  return r;
}
std::string whex(std::wstring const &s)
{
  std::string r;
  for (wchar_t c : s)
  {
    char b[16];
    std::snprintf(b, sizeof b, "U+%04X ", static_cast<unsigned>(static_cast<std::uint32_t>(c)));
    r += b;
  }
  return r;
}
// a wide string of valid scalars and its reference encoding must map to each other completely
void utf8_valid(std::wstring const &w, bool const global_too = true)
{
  std::string s;
  unsigned maxlen = 0;
  for (wchar_t c : w) { std::string const e = enc(static_cast<char32_t>(c)); maxlen = std::max<unsigned>(maxlen, static_cast<unsigned>(e.size())); s += e; }
  count(maxlen >= 2);
  std::string const cls = maxlen >= 2 ? "|multi-byte" : "|ascii";
  static bool const kn_narrow = is_known("narrow|valid-input|multi-byte");
  if (!(kn_narrow && maxlen >= 2))
  {
    auto const n = fcppt::narrow_locale(w, utf8());
    if (!n.has_value()) fail("narrow|valid-input" + cls, "narrow_locale(" + whex(w) + ") failed");
    else if (n.get_unsafe() != s) fail("narrow|valid-input" + cls, "narrow_locale(" + whex(w) + ") = [" + hex(n.get_unsafe()) + "], expected [" + hex(s) + "]");
    if (global_too)
    {
      // the variants that construct std::locale("") on every call (slow): sampled in the big sweep
      auto const n2 = fcppt::narrow(w);
      if (!n2.has_value() || n2.get_unsafe() != s) fail("narrow|global-locale" + cls, "narrow(" + whex(w) + ") wrong or failed");
      auto const n3 = fcppt::from_std_wstring(w);
      if (!n3.has_value() || n3.get_unsafe() != fcppt::string(s.begin(), s.end())) fail("from_std_wstring|valid-input" + cls, "from_std_wstring(" + whex(w) + ") wrong or failed");
    }
  }
  else
    known("narrow|valid-input|multi-byte");
  try
  {
    std::wstring const back = fcppt::widen_locale(s, utf8());
    if (back != w) fail("widen|valid-input" + cls, "widen_locale([" + hex(s) + "]) = " + whex(back) + ", expected " + whex(w));
    if (global_too)
    {
      if (fcppt::widen(s) != w) fail("widen|global-locale" + cls, "widen([" + hex(s) + "]) wrong");
      if (fcppt::to_std_wstring(fcppt::string(s.begin(), s.end())) != w) fail("to_std_wstring|valid-input" + cls, "to_std_wstring wrong");
      auto const t = fcppt::to_std_string(fcppt::from_std_string(s));
      if (!t.has_value() || t.get_unsafe() != s) fail("to_std_string|round-trip" + cls, "to_std_string(from_std_string(s)) != s");
    }
  }
  catch (std::runtime_error const &e)
  {
    fail("widen|valid-input-rejected" + cls, "widen of valid UTF-8 [" + hex(s) + "] threw: " + e.what());
  }
}
std::wstring wide_of(Ints const &c)
{
  std::wstring w;
  for (i64 x : c) w.push_back(static_cast<wchar_t>(x));
  return w;
}
Reg const r_scalars{"utf8_every_scalar", Kind::exhaustive, "the character needs >= 2 bytes in UTF-8",
                    [] {
                      setenv("LC_ALL", "C.utf8", 1);
                      int const n = opts().nshards;
                      (void)n;
                      for (i64 c = 1; c <= 0x10FFFF; ++c)
                      {
                        if (!is_scalar(static_cast<u64>(c))) continue;
                        cur1(c);
                        utf8_valid(std::wstring(1, static_cast<wchar_t>(c)), (c % 64) == 0 || c < 0x900 || on_lattice<std::uint32_t>(static_cast<std::uint32_t>(c)));
                      }
                    },
                    [](Ints const &c) { setenv("LC_ALL", "C.utf8", 1); if (is_scalar(static_cast<u64>(c.at(0)))) utf8_valid(wide_of(c)); },
                    [](Ints const &c) { return "narrow/widen of the single character " + whex(wide_of(c)); }};
char32_t const pair_set[] = {0x41, 0x7F, 0x80, 0xE4, 0x7FF, 0x800, 0x20AC, 0xD7FF, 0xE000, 0xFFFF, 0x10000, 0x1F600, 0x10FFFF, 0x1};
constexpr std::size_t n_pair = sizeof(pair_set) / sizeof(pair_set[0]);
Reg const r_pairs{"utf8_pairs_and_triples", Kind::exhaustive, "the string contains a character that needs >= 2 bytes",
                  [] {
                    setenv("LC_ALL", "C.utf8", 1);
                    for (std::size_t a = 0; a < n_pair; ++a)
                      for (std::size_t b = 0; b < n_pair; ++b)
                      {
                        cur2(pair_set[a], pair_set[b]);
                        utf8_valid(std::wstring{static_cast<wchar_t>(pair_set[a]), static_cast<wchar_t>(pair_set[b])});
                        for (std::size_t c = 0; c < n_pair; ++c)
                        {
                          cur3(pair_set[a], pair_set[b], pair_set[c]);
                          utf8_valid(std::wstring{static_cast<wchar_t>(pair_set[a]), static_cast<wchar_t>(pair_set[b]), static_cast<wchar_t>(pair_set[c])});
                        }
                      }
                  },
                  [](Ints const &c) { setenv("LC_ALL", "C.utf8", 1); for (i64 x : c) if (!is_scalar(static_cast<u64>(x))) return; utf8_valid(wide_of(c)); },
                  [](Ints const &c) { return "narrow/widen of " + whex(wide_of(c)); }};

std::wstring random_wide(Ints const &c)
{
  Choices ch(c);
  std::wstring w;
  std::size_t const n = c.size() / 2;
  for (std::size_t i = 0; i < n && i < 48; ++i)
  {
    u64 const cls = ch.raw() % 6, x = ch.raw();
    char32_t cp;
    switch (cls)
    {
    case 0: cp = static_cast<char32_t>(1 + x % 0x7F); break;
    case 1: cp = static_cast<char32_t>(0x80 + x % (0x800 - 0x80)); break;
    case 2: cp = static_cast<char32_t>(0x800 + x % (0x10000 - 0x800)); break;
    case 3: cp = static_cast<char32_t>(0x10000 + x % (0x110000 - 0x10000)); break;
    case 4: cp = pair_set[x % n_pair]; break;
    default: cp = static_cast<char32_t>('a' + x % 26); break;
    }
    if (!is_scalar(cp)) cp = 0xE000;
    w.push_back(static_cast<wchar_t>(cp));
  }
  return w;
}
Reg const r_rand_str{"utf8_random_strings", Kind::random, "the string contains a character that needs >= 2 bytes (lengths 0..48 exercise every output-buffer growth step)",
                     [] { setenv("LC_ALL", "C.utf8", 1); run_random(*g_cur.sec, {6000, 24}, {60000, 24}); },
                     [](Ints const &c) { setenv("LC_ALL", "C.utf8", 1); std::wstring const w = random_wide(c); cls(w.size() > 16 ? "len>16" : w.size() > 4 ? "len5-16" : "len<=4"); utf8_valid(w); },
                     [](Ints const &c) { return "narrow/widen of " + whex(random_wide(c)); }};

// ill-formed input: "complete result or failure", decided by the inverse direction
unsigned char const bad_bytes[] = {0x41, 0x80, 0xBF, 0xC0, 0xC3, 0xA4, 0xE2, 0x82, 0xAC, 0xED, 0xA0, 0xF0, 0x9F, 0xF4, 0x90, 0xFF};
constexpr std::size_t n_bad = sizeof(bad_bytes);
void illformed_bytes(std::string const &s)
{
  count(true);
  try
  {
    std::wstring const w = fcppt::widen_locale(s, utf8());
    // a value came back: it must be the complete conversion, i.e. map back to exactly s
    static bool const kn = is_known("narrow|valid-input|multi-byte");
    if (kn) { known("narrow|valid-input|multi-byte"); return; }
    auto const back = fcppt::narrow_locale(w, utf8());
    if (!back.has_value() || back.get_unsafe() != s)
      fail("widen|ill-formed-input|incomplete-result", "widen_locale([" + hex(s) + "]) returned " + whex(w) + ", which does not map back to the input (silently truncated or altered)");
  }
  catch (std::runtime_error const &)
  {
    // documented failure
  }
}
void illformed_wide(std::wstring const &w)
{
  count(true);
  auto const s = fcppt::narrow_locale(w, utf8());
  if (!s.has_value()) return; // failure reported
  try
  {
    std::wstring const back = fcppt::widen_locale(s.get_unsafe(), utf8());
    if (back != w) fail("narrow|ill-formed-or-any-input|incomplete-result", "narrow_locale(" + whex(w) + ") returned [" + hex(s.get_unsafe()) + "], which maps back to " + whex(back));
  }
  catch (std::runtime_error const &)
  {
    fail("narrow|ill-formed-or-any-input|unreadable-result", "narrow_locale(" + whex(w) + ") returned bytes that widen_locale rejects");
  }
}
Reg const r_ill{"utf8_ill_formed_bytes", Kind::exhaustive, "every case (byte strings up to length 4 over lead/continuation/invalid bytes, with and without a valid prefix)",
                [] {
                  for (std::size_t len = 1; len <= 4; ++len)
                  {
                    std::size_t total = 1;
                    for (std::size_t i = 0; i < len; ++i) total *= n_bad;
                    for (std::size_t k = 0; k < total; ++k)
                    {
                      std::string s;
                      Ints c;
                      std::size_t kk = k;
                      for (std::size_t i = 0; i < len; ++i) { s.push_back(static_cast<char>(bad_bytes[kk % n_bad])); c.push_back(bad_bytes[kk % n_bad]); kk /= n_bad; }
                      cur_vec(c);
                      illformed_bytes(s);
                      if (len <= 3)
                      {
                        Ints c2{0x61, 0x62};
                        c2.insert(c2.end(), c.begin(), c.end());
                        cur_vec(c2);
                        illformed_bytes("ab" + s);
                      }
                    }
                  }
                },
                [](Ints const &c) { std::string s; for (i64 x : c) s.push_back(static_cast<char>(static_cast<unsigned char>(x))); illformed_bytes(s); },
                [](Ints const &c) { std::string s; for (i64 x : c) s.push_back(static_cast<char>(static_cast<unsigned char>(x))); return "widen_locale of the bytes [" + hex(s) + "]"; }};
wchar_t const bad_wide[] = {0x41, 0xE4, 0xD800, 0xDFFF, 0x110000, 0x7FFFFFFF, 0x20AC, 0x1F600, static_cast<wchar_t>(0x80000000U), 0xFFFE};
constexpr std::size_t n_bad_wide = sizeof(bad_wide) / sizeof(bad_wide[0]);
Reg const r_ill_wide{"utf8_ill_formed_wide", Kind::exhaustive, "every case (wide strings up to length 3 over surrogates, out-of-range values and valid characters)",
                     [] {
                       for (std::size_t len = 1; len <= 3; ++len)
                       {
                         std::size_t total = 1;
                         for (std::size_t i = 0; i < len; ++i) total *= n_bad_wide;
                         for (std::size_t k = 0; k < total; ++k)
                         {
                           std::wstring w;
                           Ints c;
                           std::size_t kk = k;
                           for (std::size_t i = 0; i < len; ++i) { w.push_back(bad_wide[kk % n_bad_wide]); c.push_back(static_cast<i64>(static_cast<std::uint32_t>(bad_wide[kk % n_bad_wide]))); kk /= n_bad_wide; }
                           cur_vec(c);
                           illformed_wide(w);
                         }
                       }
                     },
                     [](Ints const &c) { illformed_wide(wide_of(c)); },
                     [](Ints const &c) { return "narrow_locale of " + whex(wide_of(c)); }};
}
