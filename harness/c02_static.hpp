// C02 - the static grammar family: grammars written with the natural >> | * + - ! operator syntax
// and heterogeneous result types (tuple flattening, variant merging, unit dropping, as_struct),
// inputs enumerated exhaustively. The value is compared as the left-to-right sequence of leaves.
#ifndef VERIF_C02_STATIC_HPP
#define VERIF_C02_STATIC_HPP

#include "c02_peg.hpp"

#include <fcppt/parse/as_struct.hpp>
#include <fcppt/parse/char.hpp>
#include <fcppt/parse/char_set.hpp>
#include <fcppt/parse/literal.hpp>
#include <fcppt/parse/parse_string.hpp>
#include <fcppt/parse/result_of.hpp>
#include <fcppt/parse/string.hpp>
#include <fcppt/parse/skipper/literal.hpp>
#include <fcppt/parse/skipper/space.hpp>
#include <fcppt/tuple/invoke.hpp>
#include <fcppt/variant/apply.hpp>
#include <fcppt/variant/object.hpp>

#include <tuple>
#include <type_traits>

namespace c02s
{
using namespace verif;
namespace fp = fcppt::parse;
namespace sk = fcppt::parse::skipper;
using c02::R;

inline c02::np N(c02::kind_t k, char const *s, std::initializer_list<c02::np> kids)
{
  auto n = std::make_shared<c02::node>();
  n->k = k;
  n->s = s;
  n->c.assign(kids.begin(), kids.end());
  return n;
}
template <typename P>
fp::named<char, std::remove_cvref_t<P>> mk_named(P &&p)
{
  return fp::named<char, std::remove_cvref_t<P>>{std::forward<P>(p), std::string{"nm"}};
}
// target of as_struct: constructible from the elements of the tuple, remembers them in order
template <typename... Ts>
struct agg
{
  std::tuple<Ts...> members;
  agg(Ts... a) : members{std::move(a)...} {}
};
template <typename T>
struct agg_of_impl;
template <typename... Ts>
struct agg_of_impl<fcppt::tuple::object<Ts...>>
{
  using type = agg<Ts...>;
};
template <typename T>
using agg_of = typename agg_of_impl<T>::type;

// generic fold to the left-to-right leaf sequence
inline void leaves(R &o, fcppt::unit) { (void)o; }
inline void leaves(R &o, char c) { o += "c"; o += c; o += ";"; }
inline void leaves(R &o, int i) { o += "i" + std::to_string(i) + ";"; }
inline void leaves(R &o, unsigned i) { o += "u" + std::to_string(i) + ";"; }
inline void leaves(R &o, std::string const &s) { for (char c : s) leaves(o, c); }
template <typename T>
void leaves(R &o, std::vector<T> const &v);
template <typename T>
void leaves(R &o, fcppt::optional::object<T> const &v);
template <typename... Ts>
void leaves(R &o, fcppt::tuple::object<Ts...> const &t);
template <typename... Ts>
void leaves(R &o, fcppt::variant::object<Ts...> const &v);
template <typename... Ts>
void leaves(R &o, agg<Ts...> const &a);
template <typename T>
void leaves(R &o, std::vector<T> const &v)
{
  for (auto const &e : v) leaves(o, e);
}
template <typename T>
void leaves(R &o, fcppt::optional::object<T> const &v)
{
  if (v.has_value()) leaves(o, v.get_unsafe());
}
template <typename... Ts>
void leaves(R &o, fcppt::tuple::object<Ts...> const &t)
{
  fcppt::tuple::invoke([&o](auto const &...e) { (leaves(o, e), ...); }, t);
}
template <typename... Ts>
void leaves(R &o, fcppt::variant::object<Ts...> const &v)
{
  fcppt::variant::apply([&o](auto const &e) { leaves(o, e); }, v);
}
template <typename... Ts>
void leaves(R &o, agg<Ts...> const &a)
{
  std::apply([&o](auto const &...e) { (leaves(o, e), ...); }, a.members);
}

inline std::string const &salpha()
{
  static std::string const a = "ab1-, ";
  return a;
}
inline std::string decode_input(Ints const &c)
{
  std::string s;
  for (std::size_t i = 2; i < c.size(); ++i) s.push_back(salpha()[static_cast<u64>(c[i]) % salpha().size()]);
  return s;
}

template <typename G>
void run_grammar(int skipper, std::string const &in)
{
  static auto const parser = G::parser();
  static c02::np const tree = G::ast();
  using value_t = fp::result_of<std::remove_cvref_t<decltype(parser)>>;
  auto const render = [](fp::result<char, value_t> const &r) {
    return fcppt::either::match(
        r, [](fp::error<char> const &e) { return std::string(e.is_fatal() ? "FATAL" : "FAIL"); },
        [](value_t const &v) {
          R o = "OK:";
          leaves(o, v);
          return o;
        });
  };
  std::string real_out;
  // model skipper kinds: 0 epsilon, 1 space(), 3 *literal' '
  int model_skipper = 0;
  switch (skipper % 3)
  {
  case 0: real_out = render(fp::parse_string(parser, std::string{in})); model_skipper = 0; break;
  case 1: real_out = render(fp::phrase_parse_string(parser, std::string{in}, sk::space())); model_skipper = 1; break;
  default: real_out = render(fp::phrase_parse_string(parser, std::string{in}, *sk::literal{' '})); model_skipper = 3; break;
  }
  static std::vector<c02::np> const no_rules;
  c02::model m{in, no_rules};
  m.leaves = true;
  std::size_t p0 = 0;
  c02::res mr{false, false, "", 0};
  if (!m.skip(model_skipper, p0)) mr = m.fail(p0);
  else mr = m.run(tree, p0, model_skipper);
  bool const mok = mr.ok && mr.pos == in.size();
  std::string const model_out = mok ? "OK:" + mr.val : (mr.ok ? "FAIL" : (mr.fatal ? "FATAL" : "FAIL"));
  count(m.rewound_after_consuming || m.skipper_consumed || m.fatal_seen);
  if (real_out != model_out)
  {
    std::string const kind = (real_out.substr(0, 2) == "OK") != (model_out.substr(0, 2) == "OK") ? "accept-vs-reject" : (real_out.substr(0, 2) == "OK" ? "value" : "fatal-flag");
    fail(std::string("parse|peg-semantics|static-family|") + kind, std::string("fcppt: ") + real_out + "  documented semantics: " + model_out);
  }
}

using run_fn = void (*)(int, std::string const &);
struct entry
{
  int id;
  run_fn run;
  c02::np (*ast)();
};

template <typename... Gs>
std::vector<entry> make_entries(std::initializer_list<int> ids)
{
  std::vector<entry> r;
  auto it = ids.begin();
  ((r.push_back(entry{*it++, &run_grammar<Gs>, &Gs::ast})), ...);
  return r;
}

inline void run_all(std::vector<entry> const &entries)
{
  std::size_t const maxlen = opts().thorough() ? 6 : 4;
  std::size_t const na = salpha().size();
  for (entry const &e : entries)
    for (int skipper = 0; skipper < 3; ++skipper)
      for (std::size_t len = 0; len <= maxlen; ++len)
      {
        std::size_t total = 1;
        for (std::size_t i = 0; i < len; ++i) total *= na;
        std::string in(len, ' ');
        for (std::size_t k = 0; k < total; ++k)
        {
          std::size_t kk = k;
          g_cur.ints[0] = e.id;
          g_cur.ints[1] = skipper;
          for (std::size_t i = 0; i < len; ++i)
          {
            in[i] = salpha()[kk % na];
            g_cur.ints[2 + i] = static_cast<i64>(kk % na);
            kk /= na;
          }
          g_cur.n = 2 + len;
          e.run(skipper, in);
        }
      }
}
inline void run_one(std::vector<entry> const &entries, Ints const &c)
{
  for (entry const &e : entries)
    if (e.id == c.at(0)) e.run(static_cast<int>(c.at(1)), decode_input(c));
}
inline std::string describe(std::vector<entry> const &entries, Ints const &c)
{
  static char const *const sks[] = {"epsilon (parse_string)", "space", "*literal' '"};
  for (entry const &e : entries)
    if (e.id == c.at(0)) return "static grammar #" + std::to_string(e.id) + ": " + c02::show(e.ast()) + " skipper: " + sks[c.at(1) % 3] + " input: \"" + decode_input(c) + "\"";
  return "static grammar #" + std::to_string(c.at(0)) + " (not in this translation unit)";
}
}

#define C02_STATIC_TU(PART)                                                                                                        \
  namespace                                                                                                                        \
  {                                                                                                                                \
  namespace fp = fcppt::parse;                                                                                                     \
  }                                                                                                                                \
  static std::vector<c02s::entry> const &entries_##PART()                                                                          \
  {                                                                                                                                \
    static std::vector<c02s::entry> const e = c02s::make_entries<C02_STATIC_PART_##PART>({C02_STATIC_IDS_##PART});                 \
    return e;                                                                                                                      \
  }                                                                                                                                \
  static verif::Reg const r_static_##PART{                                                                                         \
      "peg_static_part" #PART, verif::Kind::exhaustive,                                                                            \
      "the reference run rewound after consuming input, or ran a non-epsilon skipper that consumed input, or propagated a fatal error", \
      [] { c02s::run_all(entries_##PART()); }, [](verif::Ints const &c) { c02s::run_one(entries_##PART(), c); },                  \
      [](verif::Ints const &c) { return c02s::describe(entries_##PART(), c); }};

#endif
