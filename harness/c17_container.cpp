// VERIF: quick_shards=4
// C17 (part 4) - ==, !=, <, hash laws for bitfield, enum array, grid, tree, raw_vector and
// range::hash. Components in {0,1,2}; equal values are also reached through ~ | & ^ on bitfields,
// resizing grids back, different insertion orders of tree children, different capacities.
#include "c17_laws.hpp"

#include <fcppt/hash.hpp>
#include <fcppt/container/bitfield/comparison.hpp>
#include <fcppt/container/bitfield/hash.hpp>
#include <fcppt/container/bitfield/init.hpp>
#include <fcppt/container/bitfield/object.hpp>
#include <fcppt/container/bitfield/operators.hpp>
#include <fcppt/container/bitfield/std_hash.hpp>
#include <fcppt/container/grid/comparison.hpp>
#include <fcppt/container/grid/map.hpp>
#include <fcppt/container/grid/object.hpp>
#include <fcppt/container/grid/resize.hpp>
#include <fcppt/container/grid/static_row.hpp>
#include <fcppt/container/raw_vector/comparison.hpp>
#include <fcppt/container/raw_vector/object.hpp>
#include <fcppt/container/tree/comparison.hpp>
#include <fcppt/container/tree/object.hpp>
#include <fcppt/enum/array.hpp>
#include <fcppt/enum/array_comparison.hpp>
#include <fcppt/enum/array_init.hpp>
#include <fcppt/enum/make_range.hpp>
#include <fcppt/range/hash.hpp>

#include <array>
#include <cstdint>
#include <functional>
#include <list>
#include <string>
#include <vector>

using namespace verif;
using namespace c17;

namespace
{
std::string s(i64 v) { return std::to_string(v); }

// ---------------------------------------------------------------- bitfield
enum class e3
{
  a,
  b,
  c,
  fcppt_maximum = c
};
enum class e8 : std::uint8_t
{
  b0, b1, b2, b3, b4, b5, b6, b7,
  fcppt_maximum = b7
};
enum class e9 : std::uint16_t
{
  b0, b1, b2, b3, b4, b5, b6, b7, b8,
  fcppt_maximum = b8
};

char const *const padding_key = "bitfield|operator~|padding";

template <typename BF>
BF from_mask(unsigned mask)
{
  // built bit by bit on the null set
  BF r{BF::null()};
  for (auto const v : fcppt::enum_::make_range<typename BF::element_type>())
    r.set(v, ((mask >> static_cast<unsigned>(v)) & 1U) != 0U);
  return r;
}
template <typename BF>
BF from_list(unsigned mask)
{
  using E = typename BF::element_type;
  std::vector<E> l;
  for (auto const v : fcppt::enum_::make_range<E>())
    if ((mask >> static_cast<unsigned>(v)) & 1U) l.push_back(v);
  switch (l.size())
  {
  case 0: return BF(std::initializer_list<E>{});
  case 1: return BF{l[0]};
  case 2: return BF{l[0], l[1]};
  case 3: return BF{l[0], l[1], l[2]};
  default: break;
  }
  // longer lists: initializer list of the first three, the rest with |=
  BF r{l[0], l[1], l[2]};
  for (std::size_t i = 3; i < l.size(); ++i) r |= l[i];
  return r;
}

template <typename BF>
Laws<BF, Order::none, false> bitfield_laws(std::string name, std::vector<unsigned> masks, bool all_hows)
{
  constexpr unsigned n = BF::static_size::value;
  constexpr unsigned all = (1U << n) - 1U;
  constexpr bool padded = n % static_cast<unsigned>(std::numeric_limits<typename BF::internal_type>::digits) != 0U;
  return Laws<BF, Order::none, false>{
      .name = std::move(name),
      .build =
          [masks, all_hows](Entries<BF> &e) {
            for (unsigned m : masks)
            {
              std::string const t = "mask " + s(m);
              put(e, from_list<BF>(m), 0, "initializer list / |= enumerator, " + t);
              // the complement of the complementary set
              put(e, ~from_list<BF>(all & ~m), 1, "~(initializer list of the other enumerators), " + t, padded ? padding_key : nullptr);
              put(e, from_mask<BF>(m), 2, "null() and set() per enumerator, " + t);
              if (all_hows)
              {
                BF x{BF::null()};
                for (auto const v : fcppt::enum_::make_range<typename BF::element_type>())
                  if ((m >> static_cast<unsigned>(v)) & 1U) x[v] = true;
                put(e, x, 3, "null() and operator[] = true, " + t);
                put(e, from_list<BF>(all) ^ from_list<BF>(all & ~m), 4, "all ^ others, " + t);
              }
            }
            put(e, from_list<BF>(all) & from_list<BF>(masks.back()), 5, "all & mask " + s(masks.back()));
            put(e, fcppt::container::bitfield::init<BF>([m = masks[1]](typename BF::element_type v) { return ((m >> static_cast<unsigned>(v)) & 1U) != 0U; }), 6, "init(mask " + s(masks[1]) + ")");
            put(e, BF{from_list<BF>(masks[1]).array()}, 7, "from the array of mask " + s(masks[1]));
            put(e, ~~from_list<BF>(masks[1]), 8, "~~(mask " + s(masks[1]) + ")");
          },
      .obs =
          [](BF const &b) {
            Ints r;
            for (auto const v : fcppt::enum_::make_range<typename BF::element_type>()) r.push_back(b.get(v) ? 1 : 0);
            return r;
          },
      .key = {},
      .hashes = {{"bitfield::hash", [](BF const &b) { return fcppt::container::bitfield::hash<BF>{}(b); }},
                 {"std::hash", [](BF const &b) { return std::hash<BF>{}(b); }},
                 {"fcppt::hash", [](BF const &b) { return fcppt::hash(b); }}},
      .equalities = {
          {"operator&(bitfield, enumerator) for every enumerator", [](BF const &a, BF const &b) {
             for (auto const v : fcppt::enum_::make_range<typename BF::element_type>())
               if ((a & v) != (b & v)) return false;
             return true;
           }}}};
}

using bf3 = fcppt::container::bitfield::object<e3>;
using bf8 = fcppt::container::bitfield::object<e8, std::uint8_t>;
using bf9 = fcppt::container::bitfield::object<e9, std::uint8_t>;
RegLaws<bf3, Order::none, false> const r_bf3{bitfield_laws<bf3>("bitfield<3 enumerators,unsigned>", {0, 1, 2, 4, 3, 5, 6, 7}, false)};
RegLaws<bf8, Order::none, false> const r_bf8{bitfield_laws<bf8>("bitfield<8 enumerators,uint8>", {0x00, 0x01, 0x80, 0xff, 0x0f, 0x7f}, true)};
RegLaws<bf9, Order::none, false> const r_bf9{bitfield_laws<bf9>("bitfield<9 enumerators,uint8>", {0x000, 0x001, 0x100, 0x080, 0x180, 0x1ff, 0x0ff}, true)};

// ---------------------------------------------------------------- enum array
using earr = fcppt::enum_::array<e3, int>;
RegLaws<earr, Order::none, false> const r_earr{{
    .name = "enum::array<3 enumerators,int>",
    .build =
        [](Entries<earr> &e) {
          for (int a = 0; a < 3; ++a)
            for (int b = 0; b < 3; ++b)
              for (int c = 0; c < 3; ++c)
                put(e, earr{a, b, c}, 0, "array{" + s(a) + "," + s(b) + "," + s(c) + "}");
          put(e, fcppt::enum_::array_init<earr>([](auto const v) { return static_cast<int>(v()); }), 1, "array_init(enumerator index)");
          earr x{0, 0, 0};
          x[e3::c] = 2;
          put(e, x, 2, "array{0,0,0} with [c]=2");
          earr y{2, 1, 1};
          y[e3::a] = 0;
          put(e, y, 2, "array{2,1,1} with [a]=0");
          earr z{1, 1, 1};
          z = earr{1, 1, 0};
          put(e, z, 3, "array{1,1,1} assigned array{1,1,0}");
          earr w{0, 0, 0};
          int i = 2;
          for (int &v : w) v = i--;
          put(e, w, 4, "array{0,0,0} filled through iterators with 2,1,0");
        },
    .obs = [](earr const &a) { return Ints{a[e3::a], a[e3::b], a[e3::c]}; },
    .key = {},
    .hashes = {},
    .equalities = {}}};

// ---------------------------------------------------------------- grid<int,2>
using grid2 = fcppt::container::grid::object<int, 2>;
grid2 make_grid(unsigned w, unsigned h, std::vector<int> const &v)
{
  return grid2{grid2::dim{w, h}, [&v, w](grid2::pos const &p) { return v[static_cast<std::size_t>(p.y() * w + p.x())]; }};
}
RegLaws<grid2, Order::documented, true> const r_grid{{
    .name = "grid<int,2>",
    .build =
        [](Entries<grid2> &e) {
          put(e, grid2{}, 0, "grid()");
          put(e, grid2{grid2::dim{0U, 2U}, 1}, 1, "grid(dim(0,2),1)");
          put(e, grid2{grid2::dim{2U, 0U}, 1}, 1, "grid(dim(2,0),1)");
          for (int a = 0; a < 3; ++a)
          {
            put(e, grid2{grid2::dim{1U, 1U}, a}, 1, "grid(dim(1,1)," + s(a) + ")");
            for (int b = 0; b < 3; ++b)
            {
              put(e, make_grid(2, 1, {a, b}), 2, "grid(dim(2,1),{" + s(a) + "," + s(b) + "})");
              if (a != 1 && b != 1) put(e, make_grid(1, 2, {a, b}), 2, "grid(dim(1,2),{" + s(a) + "," + s(b) + "})");
            }
          }
          put(e, grid2{grid2::dim{2U, 2U}, 0}, 1, "grid(dim(2,2),0)");
          put(e, make_grid(2, 2, {0, 0, 0, 1}), 2, "grid(dim(2,2),{0,0,0,1})");
          put(e, make_grid(2, 2, {0, 1, 0, 0}), 2, "grid(dim(2,2),{0,1,0,0})");
          // equal values reached differently
          put(e, grid2{fcppt::container::grid::static_row(1, 2)}, 3, "grid(static_row(1,2))");
          put(e, grid2{fcppt::container::grid::static_row(2), fcppt::container::grid::static_row(0)}, 3, "grid(static_row(2),static_row(0))");
          // resized up and back: the elements outside are gone, the size is the old one
          grid2 const small = make_grid(2, 1, {2, 1});
          grid2 const big = fcppt::container::grid::resize(small, grid2::dim{2U, 2U}, [](grid2::pos const &) { return 2; });
          put(e, fcppt::container::grid::resize(big, grid2::dim{2U, 1U}, [](grid2::pos const &) { return 0; }), 4, "grid(dim(2,1),{2,1}) resized to (2,2) and back");
          put(e, fcppt::container::grid::resize(big, grid2::dim{1U, 1U}, [](grid2::pos const &) { return 0; }), 4, "the same resized to (1,1)");
          put(e, fcppt::container::grid::resize(grid2{grid2::dim{2U, 2U}, 1}, grid2::dim{0U, 0U}, [](grid2::pos const &) { return 0; }), 4, "grid(dim(2,2),1) resized to (0,0)");
          grid2 g = make_grid(2, 1, {0, 0});
          g.get_unsafe(grid2::pos{1U, 0U}) = 2;
          put(e, g, 5, "grid(dim(2,1),{0,0}) with (1,0)=2");
          grid2 h{grid2::dim{2U, 2U}, 1};
          h = make_grid(1, 2, {2, 0});
          put(e, h, 6, "grid(dim(2,2),1) copy-assigned grid(dim(1,2),{2,0})");
          grid2 k{grid2::dim{1U, 1U}, 1};
          k = grid2{grid2::dim{2U, 2U}, 0};
          put(e, k, 6, "grid(dim(1,1),1) move-assigned grid(dim(2,2),0)");
          put(e, fcppt::container::grid::map(make_grid(2, 1, {0, 1}), [](int x) { return x + 1; }), 7, "map(grid(dim(2,1),{0,1}),+1)");
        },
    .obs =
        [](grid2 const &g) {
          Ints r{static_cast<i64>(g.size().w()), static_cast<i64>(g.size().h())};
          for (grid2::size_type y = 0; y < g.size().h(); ++y)
            for (grid2::size_type x = 0; x < g.size().w(); ++x) r.push_back(g.get_unsafe(grid2::pos{x, y}));
          return r;
        },
    // documented: the size first (dims compare lexicographically), then lexicographical_compare over the element sequence
    .key =
        [](grid2 const &g) {
          Ints r{static_cast<i64>(g.size().w()), static_cast<i64>(g.size().h())};
          for (int v : g) r.push_back(v);
          return r;
        },
    .hashes = {},
    .equalities = {}}};

// ---------------------------------------------------------------- tree<int>
using tree = fcppt::container::tree::object<int>;
void tree_obs(tree const &t, Ints &r)
{
  r.push_back(t.value());
  r.push_back(static_cast<i64>(t.size()));
  for (tree const &c : t) tree_obs(c, r);
}
tree node(int v, std::vector<tree> children)
{
  tree r{v};
  for (tree &c : children) r.push_back(std::move(c));
  return r;
}
RegLaws<tree, Order::none, false> const r_tree{{
    .name = "tree<int>",
    .build =
        [](Entries<tree> &e) {
          for (int v = 0; v < 3; ++v)
          {
            put(e, tree{v}, 0, "leaf " + s(v));
            put(e, node(0, {tree{v}}), 1, "0(" + s(v) + ")");
            put(e, node(v, {tree{1}, tree{2}}), 1, s(v) + "(1,2)");
            put(e, node(0, {node(1, {tree{v}})}), 1, "0(1(" + s(v) + "))");
          }
          put(e, node(1, {tree{0}}), 1, "1(0)");
          put(e, node(0, {tree{2}, tree{1}}), 1, "0(2,1)");
          put(e, node(0, {tree{1}, tree{1}}), 1, "0(1,1)");
          put(e, node(0, {node(1, {}), node(2, {tree{0}})}), 1, "0(1,2(0))");
          put(e, node(0, {node(1, {tree{0}}), node(2, {})}), 1, "0(1(0),2)");
          put(e, node(0, {tree{1}, tree{2}, tree{0}}), 1, "0(1,2,0)");
          // the same trees through other operations
          {
            tree t{0};
            t.push_front(2);
            t.push_front(1);
            put(e, std::move(t), 2, "0 with push_front(2), push_front(1)");
          }
          {
            tree t{0};
            t.push_back(1);
            t.push_back(2);
            t.push_back(0);
            (void)t.pop_back();
            put(e, std::move(t), 3, "0(1,2,0) with pop_back()");
          }
          {
            tree t = node(0, {tree{2}, tree{1}});
            tree c = t.release(t.begin());
            t.push_back(std::move(c));
            put(e, std::move(t), 4, "0(2,1) with the first child released and pushed back");
          }
          {
            tree const src = node(0, {node(1, {tree{2}})});
            tree copy{src};
            put(e, std::move(copy), 5, "copy of 0(1(2))");
            tree assigned{1};
            assigned = src;
            put(e, std::move(assigned), 6, "leaf 1 copy-assigned 0(1(2))");
          }
          {
            tree t = node(1, {tree{1}, tree{2}});
            t.value(0);
            put(e, std::move(t), 7, "1(1,2) with value(0)");
          }
          {
            tree t = node(2, {tree{1}, tree{2}});
            t.clear();
            put(e, std::move(t), 8, "2(1,2) with clear()");
          }
          {
            tree t = node(0, {tree{2}});
            t.insert(t.begin(), 1);
            put(e, std::move(t), 9, "0(2) with insert(begin,1)");
          }
          {
            tree t = node(0, {tree{1}, tree{0}, tree{2}});
            t.erase(std::next(t.begin()));
            put(e, std::move(t), 10, "0(1,0,2) with the middle child erased");
          }
          {
            tree::child_list l;
            l.push_back(tree{1});
            l.push_back(tree{2});
            put(e, tree{1, std::move(l)}, 11, "tree(1, child_list{1,2})");
          }
        },
    .obs =
        [](tree const &t) {
          Ints r;
          tree_obs(t, r);
          return r;
        },
    .key = {},
    .hashes = {},
    .equalities = {}}};

// ---------------------------------------------------------------- raw_vector<int>
using rvec = fcppt::container::raw_vector::object<int>;
RegLaws<rvec, Order::laws, true> const r_rvec{{
    .name = "raw_vector<int>",
    .build =
        [](Entries<rvec> &e) {
          put(e, rvec{}, 0, "raw_vector()");
          for (int a = 0; a < 3; ++a)
          {
            put(e, rvec{a}, 1, "raw_vector{" + s(a) + "}");
            for (int b = 0; b < 3; ++b) put(e, rvec{a, b}, 1, "raw_vector{" + s(a) + "," + s(b) + "}");
          }
          put(e, rvec{0, 1, 2}, 1, "raw_vector{0,1,2}");
          put(e, rvec{0, 1, 0}, 1, "raw_vector{0,1,0}");
          put(e, rvec{2, 2, 2}, 1, "raw_vector{2,2,2}");
          // equal contents, different capacity / history
          {
            rvec v;
            v.reserve(16);
            v.push_back(0);
            v.push_back(1);
            put(e, std::move(v), 2, "reserve(16), push_back(0), push_back(1)");
          }
          {
            rvec v{0, 1, 2, 2};
            v.pop_back();
            put(e, std::move(v), 3, "raw_vector{0,1,2,2} with pop_back()");
          }
          {
            rvec v{2, 0, 1};
            v.erase(v.begin());
            put(e, std::move(v), 4, "raw_vector{2,0,1} with erase(begin)");
          }
          {
            rvec v{1, 2};
            v.clear();
            put(e, std::move(v), 5, "raw_vector{1,2} with clear()");
          }
          put(e, rvec(static_cast<rvec::size_type>(3), 2), 6, "raw_vector(3,2)");
          {
            std::array<int, 2> const src{{1, 1}};
            put(e, rvec(src.begin(), src.end()), 7, "raw_vector(range{1,1})");
          }
          {
            rvec v{2};
            v.resize(2, 0);
            put(e, std::move(v), 8, "raw_vector{2} with resize(2,0)");
          }
          {
            rvec v{2, 1, 0};
            v.resize(1, 0);
            v.shrink_to_fit();
            put(e, std::move(v), 8, "raw_vector{2,1,0} with resize(1), shrink_to_fit()");
          }
          {
            rvec v{0, 2};
            v.insert(v.begin() + 1, 1);
            put(e, std::move(v), 9, "raw_vector{0,2} with insert(begin+1,1)");
          }
          {
            rvec a{1, 0}, b{2, 2, 2};
            a.swap(b);
            put(e, std::move(b), 10, "raw_vector{2,2,2} swapped with raw_vector{1,0}");
          }
          {
            rvec a{1};
            a = rvec{0, 0};
            put(e, std::move(a), 11, "raw_vector{1} move-assigned raw_vector{0,0}");
          }
        },
    .obs =
        [](rvec const &v) {
          Ints r{static_cast<i64>(v.size())};
          for (rvec::size_type i = 0; i < v.size(); ++i) r.push_back(v[i]);
          return r;
        },
    .key = {},
    .hashes = {},
    .equalities = {}}};

// ---------------------------------------------------------------- range::hash over standard ranges
using ivec = std::vector<int>;
RegLaws<ivec, Order::none, false> const r_range_hash{{
    .name = "range::hash<std::vector<int>>",
    .build =
        [](Entries<ivec> &e) {
          put(e, ivec{}, 0, "{}");
          for (int a = 0; a < 3; ++a)
          {
            put(e, ivec{a}, 0, "{" + s(a) + "}");
            for (int b = 0; b < 3; ++b) put(e, ivec{a, b}, 0, "{" + s(a) + "," + s(b) + "}");
          }
          put(e, ivec{0, 1, 2}, 0, "{0,1,2}");
          {
            ivec v;
            v.reserve(32);
            v.push_back(0);
            v.push_back(1);
            v.push_back(2);
            put(e, v, 1, "reserve(32) then 0,1,2");
          }
          {
            ivec v{1, 2, 0};
            v.pop_back();
            put(e, v, 2, "{1,2,0} with pop_back()");
          }
          {
            ivec v{1};
            v.clear();
            put(e, v, 3, "{1} with clear()");
          }
        },
    .obs =
        [](ivec const &v) {
          Ints r{static_cast<i64>(v.size())};
          for (int x : v) r.push_back(x);
          return r;
        },
    .key = {},
    .hashes = {{"range::hash", [](ivec const &v) { return fcppt::range::hash<ivec>{}(v); }},
               // coherence of range::hash over another range type holding the same sequence
               {"range::hash<std::list<int>>", [](ivec const &v) { return fcppt::range::hash<std::list<int>>{}(std::list<int>(v.begin(), v.end())); }}},
    .equalities = {}}};
}
