// VERIF: rc quick_shards=4 fuzz=intrusive_list_histories,signal_unregister_histories
// C11 - intrusive list / signal membership equals the set of live connections.
// Stateful model-based tests. Lists and elements live on the heap (so a destroyed head/element is
// poisoned for ASan). Model: each list is an ordered vector of element slot ids.
#include "verif.hpp"

#include <fcppt/function.hpp>
#include <fcppt/noncopyable.hpp>
#include <fcppt/intrusive/base.hpp>
#include <fcppt/intrusive/list.hpp>
#include <fcppt/signal/auto_connection.hpp>
#include <fcppt/signal/base.hpp>
#include <fcppt/signal/connection.hpp>
#include <fcppt/signal/optional_auto_connection.hpp>
#include <fcppt/signal/object.hpp>
#include <fcppt/signal/unregister/base.hpp>
#include <fcppt/signal/unregister/function.hpp>

#include <algorithm>
#include <array>
#include <iterator>
#include <memory>
#include <vector>

using namespace verif;

namespace
{
class elem;
using elist = fcppt::intrusive::list<elem>;
class elem : public fcppt::intrusive::base<elem>
{
  FCPPT_NONCOPYABLE(elem);
public:
  elem(elist &l, int i) : fcppt::intrusive::base<elem>{l}, id{i} {}
  elem(elem &&) noexcept = default;
  elem &operator=(elem &&) noexcept = default;
  ~elem() = default;
  int id;
};

constexpr std::size_t n_lists = 3, n_elems = 8;
char const *const list_ops[] = {"create", "destroy_elem", "move_construct_elem", "move_assign_elem", "unlink", "move_construct_list",
                                "move_assign_list", "destroy_list", "new_list", "iterate"};
constexpr unsigned n_list_ops = 10;
// weighted choice of the operation (creation and list assignment are made more likely)
constexpr unsigned list_op_table[] = {0, 0, 0, 0, 1, 1, 2, 3, 4, 5, 6, 6, 6, 7, 8, 9};
constexpr unsigned n_list_choices = sizeof(list_op_table) / sizeof(list_op_table[0]);

struct list_machine
{
  std::array<std::unique_ptr<elist>, n_lists> lists;
  std::array<std::unique_ptr<elem>, n_elems> elems;
  std::array<std::vector<int>, n_lists> model; // element slots per list, in link order
  // non-trivial rule bookkeeping
  bool assigned_over_two{false}, destroyed_after{false}, iterated_after{false};
  std::vector<int> detached_by_assign;

  int where(int e) const
  {
    for (std::size_t l = 0; l < n_lists; ++l)
      if (std::find(model[l].begin(), model[l].end(), e) != model[l].end()) return static_cast<int>(l);
    return -1;
  }
  void remove(int e)
  {
    for (auto &m : model) m.erase(std::remove(m.begin(), m.end(), e), m.end());
  }
  static std::string show(std::vector<int> const &v)
  {
    std::string r = "[";
    for (int x : v) r += std::to_string(x) + " ";
    return r + "]";
  }
  bool check(char const *after)
  {
    for (std::size_t l = 0; l < n_lists; ++l)
    {
      if (!lists[l]) continue;
      elist &L = *lists[l];
      std::vector<int> fwd, bwd;
      std::size_t guard = 0;
      for (auto it = L.begin(); it != L.end() && guard < 64; ++it, ++guard) fwd.push_back(it->id);
      guard = 0;
      for (auto it = L.end(); it != L.begin() && guard < 64; ++guard)
      {
        --it;
        bwd.push_back(it->id);
      }
      std::reverse(bwd.begin(), bwd.end());
      elist const &CL = L;
      std::vector<int> cf;
      guard = 0;
      for (auto it = CL.begin(); it != CL.end() && guard < 64; ++it, ++guard) cf.push_back(it->id);
      if (fwd != model[l])
      {
        fail(std::string("intrusive::list|") + after + "|forward-iteration", "list " + std::to_string(l) + " iterates " + show(fwd) + ", expected " + show(model[l]));
        return false;
      }
      if (bwd != model[l] || cf != model[l])
      {
        fail(std::string("intrusive::list|") + after + "|backward-or-const-iteration", "list " + std::to_string(l) + " iterates backwards " + show(bwd) + " / const " + show(cf) + ", expected " + show(model[l]));
        return false;
      }
      if (L.empty() != model[l].empty())
      {
        fail(std::string("intrusive::list|") + after + "|empty", "empty() disagrees with the model for list " + std::to_string(l));
        return false;
      }
    }
    return true;
  }

  // self: whether the element is self-linked (unlinked or moved-from) - tracked in the model
  std::array<bool, n_elems> self_linked{};

  void step(unsigned op, u64 x, u64 y)
  {
    char const *const name = list_ops[op];
    std::vector<std::size_t> live_l, free_l, live_e, free_e;
    for (std::size_t i = 0; i < n_lists; ++i) (lists[i] ? live_l : free_l).push_back(i);
    for (std::size_t i = 0; i < n_elems; ++i) (elems[i] ? live_e : free_e).push_back(i);
    switch (op)
    {
    case 0:
    {
      if (live_l.empty() || free_e.empty()) break;
      std::size_t const l = live_l[x % live_l.size()], e = free_e[0];
      elems[e] = std::make_unique<elem>(*lists[l], static_cast<int>(e));
      model[l].push_back(static_cast<int>(e));
      self_linked[e] = false;
      break;
    }
    case 1:
    {
      if (live_e.empty()) break;
      std::size_t const e = live_e[x % live_e.size()];
      if (std::find(detached_by_assign.begin(), detached_by_assign.end(), static_cast<int>(e)) != detached_by_assign.end()) destroyed_after = true;
      elems[e].reset();
      remove(static_cast<int>(e));
      break;
    }
    case 2:
    {
      if (live_e.empty() || free_e.empty()) break;
      std::size_t const s = live_e[x % live_e.size()], d = free_e[0];
      if (self_linked[s] && known("intrusive::base|move-from-self-linked")) break;
      cls(self_linked[s] ? "move-construct-from-unlinked" : "move-construct-from-linked");
      elems[d] = std::make_unique<elem>(std::move(*elems[s]));
      elems[d]->id = static_cast<int>(d);
      for (auto &m : model) std::replace(m.begin(), m.end(), static_cast<int>(s), static_cast<int>(d));
      std::replace(detached_by_assign.begin(), detached_by_assign.end(), static_cast<int>(s), static_cast<int>(d));
      self_linked[d] = self_linked[s];
      self_linked[s] = true;
      break;
    }
    case 3:
    {
      if (live_e.empty()) break;
      std::size_t const s = live_e[x % live_e.size()], d = live_e[y % live_e.size()];
      if (s == d)
      {
        // self-move-assignment is explicitly handled by the implementation: nothing changes
        elem &self = *elems[d];
        *elems[d] = std::move(self);
        cls("self-move-assign-element");
        break;
      }
      if (self_linked[s] && known("intrusive::base|move-from-self-linked")) break;
      cls(self_linked[s] ? "move-assign-from-unlinked" : "move-assign-from-linked");
      *elems[d] = std::move(*elems[s]);
      elems[d]->id = static_cast<int>(d);
      remove(static_cast<int>(d));
      for (auto &m : model) std::replace(m.begin(), m.end(), static_cast<int>(s), static_cast<int>(d));
      detached_by_assign.erase(std::remove(detached_by_assign.begin(), detached_by_assign.end(), static_cast<int>(d)), detached_by_assign.end());
      std::replace(detached_by_assign.begin(), detached_by_assign.end(), static_cast<int>(s), static_cast<int>(d));
      self_linked[d] = self_linked[s];
      self_linked[s] = true;
      break;
    }
    case 4:
    {
      if (live_e.empty()) break;
      std::size_t const e = live_e[x % live_e.size()];
      elems[e]->unlink();
      remove(static_cast<int>(e));
      self_linked[e] = true;
      break;
    }
    case 5:
    {
      if (live_l.empty() || free_l.empty()) break;
      std::size_t const s = live_l[x % live_l.size()], d = free_l[0];
      lists[d] = std::make_unique<elist>(std::move(*lists[s]));
      model[d] = model[s];
      model[s].clear();
      break;
    }
    case 6:
    {
      if (live_l.empty()) break;
      std::size_t const s = live_l[x % live_l.size()], d = live_l[y % live_l.size()];
      if (s == d)
      {
        elist &self = *lists[d];
        *lists[d] = std::move(self);
        cls("self-move-assign-list");
        break;
      }
      if (model[s].empty() && !model[d].empty() && known("intrusive::list|move-assign-from-empty")) break;
      cls(model[s].empty() ? (model[d].empty() ? "assign empty->empty" : "assign empty->non-empty") : (model[d].empty() ? "assign non-empty->empty" : "assign non-empty->non-empty"));
      if (model[d].size() >= 2)
      {
        assigned_over_two = true;
        detached_by_assign = model[d];
      }
      *lists[d] = std::move(*lists[s]);
      model[d] = model[s];
      model[s].clear();
      break;
    }
    case 7:
    {
      if (live_l.empty()) break;
      std::size_t const l = live_l[x % live_l.size()];
      lists[l].reset();
      model[l].clear();
      break;
    }
    case 8:
    {
      if (free_l.empty()) break;
      lists[free_l[0]] = std::make_unique<elist>();
      model[free_l[0]].clear();
      break;
    }
    default:
      if (destroyed_after) iterated_after = true;
      break;
    }
    if (!failed_in_current_case()) check(name);
  }
};

void list_case(Ints const &c)
{
  Choices ch(c);
  std::size_t const nframes = c.size() / 4;
  list_machine m;
  m.lists[0] = std::make_unique<elist>();
  m.lists[1] = std::make_unique<elist>();
  // pre-populate: list 0 = [0 1 2], list 1 = [3 4] (so that assignments over >= 2 members are common)
  for (std::size_t e = 0; e < 5; ++e)
  {
    std::size_t const l = e < 3 ? 0 : 1;
    m.elems[e] = std::make_unique<elem>(*m.lists[l], static_cast<int>(e));
    m.model[l].push_back(static_cast<int>(e));
  }
  if (!m.check("construct")) { count(false); return; }
  for (std::size_t i = 0; i < nframes; ++i)
  {
    unsigned const op = list_op_table[ch.range(0, n_list_choices - 1)];
    u64 const x = ch.raw(), y = ch.raw();
    ch.skip_to_frame();
    m.step(op, x, y);
    if (failed_in_current_case()) break;
  }
  count(m.assigned_over_two && m.destroyed_after);
  // teardown order is part of the case: lists first if the last word says so
  bool const lists_first = !c.empty() && (c.back() & 1) != 0;
  if (lists_first)
    for (auto &l : m.lists) l.reset();
  for (auto &e : m.elems) e.reset();
  for (auto &l : m.lists) l.reset();
}
std::string list_describe(Ints const &c)
{
  Choices ch(c);
  std::size_t const nframes = c.size() / 4;
  std::string r = "lists [0 1 2] [3 4]:";
  for (std::size_t i = 0; i < nframes && i < 70; ++i)
  {
    unsigned const op = list_op_table[ch.range(0, n_list_choices - 1)];
    u64 const x = ch.raw(), y = ch.raw();
    ch.skip_to_frame();
    r += std::string(" ") + list_ops[op] + "(" + std::to_string(x % 24) + "," + std::to_string(y % 24) + ")";
  }
  return r + ((!c.empty() && (c.back() & 1) != 0) ? " teardown: lists first" : " teardown: elements first");
}
Reg const r_list{"intrusive_list_histories", Kind::random,
                 "history contains a list move-assignment whose destination had >= 2 members, followed by the destruction of one of them",
                 [] { run_random(*g_cur.sec, {20000, 40}, {60000, 52}); }, list_case, list_describe};

// ------------------------------------------------------------------------------------- signals
constexpr std::size_t n_sigs = 3, n_conns = 8;
char const *const sig_ops[] = {"connect", "disconnect", "move_construct_signal", "move_assign_signal", "destroy_signal", "new_signal", "call", "call"};
constexpr unsigned n_sig_ops = 8;
constexpr unsigned sig_op_table[] = {0, 0, 0, 0, 1, 1, 2, 3, 3, 3, 4, 5, 6, 6, 6, 7};
constexpr unsigned n_sig_choices = sizeof(sig_op_table) / sizeof(sig_op_table[0]);

template <bool Unregister>
struct sig_machine
{
  using sig_int = std::conditional_t<Unregister, fcppt::signal::object<int(int), fcppt::signal::unregister::base>, fcppt::signal::object<int(int)>>;
  using sig_void = std::conditional_t<Unregister, fcppt::signal::object<void(), fcppt::signal::unregister::base>, fcppt::signal::object<void()>>;
  std::array<std::unique_ptr<sig_int>, n_sigs> sigs;
  std::array<std::unique_ptr<sig_void>, n_sigs> vsigs;
  std::array<fcppt::signal::optional_auto_connection, n_conns> conns, vconns;
  std::array<std::vector<int>, n_sigs> model;
  std::vector<int> calls, vcalls;
  std::array<int, n_conns> unregistered{};
  bool assigned_over_two{false}, dropped_after{false}, called_after{false};
  std::vector<int> detached;
  // observation from INSIDE an unregister callback (the documented idiom checks sig.empty() there):
  // the dying connection must no longer be a member of its signal
  sig_int *observe_sig{nullptr};
  bool obs_done{false}, obs_empty{false};
  std::size_t obs_count{0};
  std::vector<int> obs_calls;

  // every signal gets a combiner of its own (a * 3 + b + id): the combiner is part of the signal's
  // state, a move construction / move assignment hands it over together with the connections
  std::array<int, n_sigs> comb{};
  int next_comb{1};
  static sig_int *make_int(int id)
  {
    return new sig_int(typename sig_int::combiner_function{[id](int a, int b) { return a * 3 + b + id; }});
  }
  void remove(int k)
  {
    for (auto &m : model) m.erase(std::remove(m.begin(), m.end(), k), m.end());
  }
  void step(unsigned op, u64 x, u64 y)
  {
    char const *const name = sig_ops[op];
    std::vector<std::size_t> live_s, free_s, live_c, free_c;
    for (std::size_t i = 0; i < n_sigs; ++i) (sigs[i] ? live_s : free_s).push_back(i);
    for (std::size_t i = 0; i < n_conns; ++i) (conns[i].has_value() ? live_c : free_c).push_back(i);
    switch (op)
    {
    case 0:
    {
      if (live_s.empty() || free_c.empty()) break;
      std::size_t const s = live_s[x % live_s.size()], k = free_c[0];
      int const ki = static_cast<int>(k);
      unregistered[k] = 0;
      if constexpr (Unregister)
      {
        conns[k] = fcppt::signal::optional_auto_connection{sigs[s]->connect(
            typename sig_int::function{[this, ki](int a) { calls.push_back(ki); return a * 7 + ki; }},
            fcppt::signal::unregister::function{[this, k] {
              ++unregistered[k];
              if (observe_sig != nullptr)
              {
                obs_done = true;
                obs_empty = observe_sig->empty();
                obs_count = static_cast<std::size_t>(std::distance(observe_sig->connections().begin(), observe_sig->connections().end()));
                calls.clear();
                (*observe_sig)(typename sig_int::initial_value{0}, 1);
                obs_calls = calls;
              }
            }})};
        vconns[k] = fcppt::signal::optional_auto_connection{vsigs[s]->connect(
            typename sig_void::function{[this, ki] { vcalls.push_back(ki); }}, fcppt::signal::unregister::function{[] {}})};
      }
      else
      {
        conns[k] = fcppt::signal::optional_auto_connection{sigs[s]->connect(typename sig_int::function{[this, ki](int a) { calls.push_back(ki); return a * 7 + ki; }})};
        vconns[k] = fcppt::signal::optional_auto_connection{vsigs[s]->connect(typename sig_void::function{[this, ki] { vcalls.push_back(ki); }})};
      }
      model[s].push_back(ki);
      break;
    }
    case 1:
    {
      if (live_c.empty()) break;
      std::size_t const k = live_c[x % live_c.size()];
      if (std::find(detached.begin(), detached.end(), static_cast<int>(k)) != detached.end()) dropped_after = true;
      std::vector<int> expect_members;
      observe_sig = nullptr;
      obs_done = false;
      if constexpr (Unregister)
      {
        for (std::size_t si = 0; si < n_sigs; ++si)
          if (sigs[si] && std::find(model[si].begin(), model[si].end(), static_cast<int>(k)) != model[si].end())
          {
            observe_sig = sigs[si].get();
            expect_members = model[si];
            expect_members.erase(std::remove(expect_members.begin(), expect_members.end(), static_cast<int>(k)), expect_members.end());
          }
      }
      conns[k] = fcppt::signal::optional_auto_connection{};
      if (Unregister && observe_sig != nullptr)
      {
        observe_sig = nullptr;
        if (!obs_done)
          fail("signal::unregister|disconnect|callback-not-run", "the unregister callback of connection " + std::to_string(k) + " did not run when it died");
        else if (obs_empty != expect_members.empty() || obs_count != expect_members.size() || obs_calls != expect_members)
          fail("signal::unregister|inside-callback|dying-connection-still-a-member",
               "inside the unregister callback of connection " + std::to_string(k) + " the signal reports empty()=" + (obs_empty ? "true" : "false") + ", " + std::to_string(obs_count) +
                   " connections and a call invokes " + std::to_string(obs_calls.size()) + " callbacks; expected the " + std::to_string(expect_members.size()) + " other live connections only");
      }
      vconns[k] = fcppt::signal::optional_auto_connection{};
      remove(static_cast<int>(k));
      if (Unregister && unregistered[k] != 1)
        fail("signal::unregister|disconnect|callback-count", "unregister callback ran " + std::to_string(unregistered[k]) + " times when connection " + std::to_string(k) + " died");
      break;
    }
    case 2:
    {
      if (live_s.empty() || free_s.empty()) break;
      std::size_t const s = live_s[x % live_s.size()], d = free_s[0];
      sigs[d] = std::make_unique<sig_int>(std::move(*sigs[s]));
      vsigs[d] = std::make_unique<sig_void>(std::move(*vsigs[s]));
      model[d] = model[s];
      comb[d] = comb[s];
      model[s].clear();
      // Reading: a moved-from signal has no combiner any more; it is destroyed right away and never called
      sigs[s].reset();
      vsigs[s].reset();
      break;
    }
    case 3:
    {
      if (live_s.size() < 2) break;
      std::size_t const s = live_s[x % live_s.size()], d = live_s[y % live_s.size()];
      if (s == d) break;
      if (model[s].empty() && !model[d].empty() && known("intrusive::list|move-assign-from-empty")) break;
      if (model[d].size() >= 2)
      {
        assigned_over_two = true;
        detached = model[d];
      }
      *sigs[d] = std::move(*sigs[s]);
      *vsigs[d] = std::move(*vsigs[s]);
      model[d] = model[s];
      comb[d] = comb[s];
      model[s].clear();
      sigs[s].reset();
      vsigs[s].reset();
      break;
    }
    case 4:
    {
      if (live_s.empty()) break;
      std::size_t const s = live_s[x % live_s.size()];
      sigs[s].reset();
      vsigs[s].reset();
      model[s].clear();
      break;
    }
    case 5:
    {
      if (free_s.empty()) break;
      comb[free_s[0]] = next_comb++;
      sigs[free_s[0]].reset(make_int(comb[free_s[0]]));
      vsigs[free_s[0]] = std::make_unique<sig_void>();
      model[free_s[0]].clear();
      break;
    }
    default:
    {
      if (live_s.empty()) break;
      std::size_t const s = live_s[x % live_s.size()];
      int const arg = static_cast<int>(y % 5), init = static_cast<int>((y >> 8) % 5);
      calls.clear();
      vcalls.clear();
      int const got = (*sigs[s])(typename sig_int::initial_value{init}, arg);
      (*vsigs[s])();
      int expect = init;
      for (int k : model[s]) expect = expect * 3 + (arg * 7 + k) + comb[s];
      if (dropped_after) called_after = true;
      if (calls != model[s] || vcalls != model[s])
      {
        std::string a = "[", b = "[";
        for (int k : calls) a += std::to_string(k) + " ";
        for (int k : model[s]) b += std::to_string(k) + " ";
        fail(std::string("signal|call|invoked-callbacks") + (Unregister ? "|unregister-base" : ""), "signal " + std::to_string(s) + " invoked callbacks " + a + "], live connections in order are " + b + "]");
      }
      else if (got != expect)
        fail("signal|call|combined-result", "result " + std::to_string(got) + ", left fold gives " + std::to_string(expect));
      if (sigs[s]->empty() != model[s].empty() || vsigs[s]->empty() != model[s].empty())
        fail("signal|empty|value", "empty() disagrees with the model");
      break;
    }
    }
    (void)name;
    if (Unregister)
      for (std::size_t k = 0; k < n_conns; ++k)
        if (conns[k].has_value() && unregistered[k] != 0)
          fail("signal::unregister|alive|callback-ran-early", "unregister callback of live connection " + std::to_string(k) + " already ran");
  }
};

template <bool U>
void sig_case_t(Ints const &c)
{
  Choices ch(c);
  std::size_t const nframes = c.size() / 4;
  auto m = std::make_unique<sig_machine<U>>();
  m->comb[0] = m->next_comb++;
  m->sigs[0].reset(sig_machine<U>::make_int(m->comb[0]));
  m->vsigs[0] = std::make_unique<typename sig_machine<U>::sig_void>();
  m->comb[1] = m->next_comb++;
  m->sigs[1].reset(sig_machine<U>::make_int(m->comb[1]));
  m->vsigs[1] = std::make_unique<typename sig_machine<U>::sig_void>();
  // pre-populate: signal 0 has connections 0 1 2, signal 1 has 3 4
  for (u64 k = 0; k < 5; ++k) m->step(0, k < 3 ? 0 : 1, 0);
  for (std::size_t i = 0; i < nframes; ++i)
  {
    unsigned const op = sig_op_table[ch.range(0, n_sig_choices - 1)];
    u64 const x = ch.raw(), y = ch.raw();
    ch.skip_to_frame();
    m->step(op, x, y);
    if (failed_in_current_case()) break;
  }
  count(m->assigned_over_two && m->dropped_after && m->called_after);
  bool const sigs_first = !c.empty() && (c.back() & 1) != 0;
  if (sigs_first)
    for (std::size_t i = 0; i < n_sigs; ++i) { m->sigs[i].reset(); m->vsigs[i].reset(); }
  for (std::size_t k = 0; k < n_conns; ++k)
  {
    bool const had = m->conns[k].has_value();
    m->conns[k] = fcppt::signal::optional_auto_connection{};
    m->vconns[k] = fcppt::signal::optional_auto_connection{};
    if (U && had && m->unregistered[k] != 1 && !failed_in_current_case())
      fail("signal::unregister|teardown|callback-count", "unregister callback ran " + std::to_string(m->unregistered[k]) + " times for connection " + std::to_string(k));
  }
}
std::string sig_describe(Ints const &c)
{
  Choices ch(c);
  std::size_t const nframes = c.size() / 4;
  std::string r = "signals [0 1 2] [3 4]:";
  for (std::size_t i = 0; i < nframes && i < 70; ++i)
  {
    unsigned const op = sig_op_table[ch.range(0, n_sig_choices - 1)];
    u64 const x = ch.raw(), y = ch.raw();
    ch.skip_to_frame();
    r += std::string(" ") + sig_ops[op] + "(" + std::to_string(x % 24) + "," + std::to_string(y % 24) + ")";
  }
  return r + ((!c.empty() && (c.back() & 1) != 0) ? " teardown: signals first" : " teardown: connections first");
}
char const *const sig_rule = "history contains a signal move-assignment whose destination had >= 2 connections, followed by dropping one of them and a call";
Reg const r_sig{"signal_histories", Kind::random, sig_rule, [] { run_random(*g_cur.sec, {12000, 40}, {40000, 52}); }, sig_case_t<false>, sig_describe};
Reg const r_usig{"signal_unregister_histories", Kind::random, sig_rule, [] { run_random(*g_cur.sec, {12000, 40}, {40000, 52}); }, sig_case_t<true>, sig_describe};

// ------------------------------------------------------------------ arguments and throwing callbacks
// (a) A signal whose argument is a class type taken BY VALUE: every live callback receives the
// argument the signal was called with (the first callback must not be handed the original to move
// from), and the fold combines the results computed from it.
// (b) A callback that throws: the exception leaves the call, and afterwards the signal still holds
// exactly its live connections - a later call invokes all of them again, in order.
struct callback_failure
{
};
template <bool Unregister>
void args_case(std::size_t n, std::size_t thrower, bool void_signal)
{
  using sig_vec = std::conditional_t<Unregister, fcppt::signal::object<int(std::vector<int>), fcppt::signal::unregister::base>, fcppt::signal::object<int(std::vector<int>)>>;
  using sig_vvec = std::conditional_t<Unregister, fcppt::signal::object<void(std::vector<int>), fcppt::signal::unregister::base>, fcppt::signal::object<void(std::vector<int>)>>;
  count(n >= 2);
  std::vector<int> const arg{4, 5, 6};
  std::vector<std::pair<int, std::size_t>> seen; // (callback id, size of the argument it received)
  bool armed = thrower < n;
  std::vector<fcppt::signal::auto_connection> conns;
  auto const check_seen = [&](char const *when, std::size_t expect_count) {
    bool ok = seen.size() == expect_count;
    for (std::size_t i = 0; ok && i < seen.size(); ++i) ok = seen[i].first == static_cast<int>(i) && seen[i].second == arg.size();
    if (!ok)
    {
      std::string t;
      for (auto const &p : seen) t += "(" + std::to_string(p.first) + ":" + std::to_string(p.second) + ") ";
      fail(std::string("signal|call|") + when, std::string(void_signal ? "void" : "int") + " signal of " + std::to_string(n) + " connections called with a vector of 3 elements: callbacks (id:size of the argument received) " + t + ", expected ids 0.." + std::to_string(expect_count) + " each with 3 elements");
    }
  };
  if (void_signal)
  {
    sig_vvec sig;
    for (std::size_t i = 0; i < n; ++i)
    {
      typename sig_vvec::function f{[&seen, &armed, thrower, i](std::vector<int> v) {
        seen.emplace_back(static_cast<int>(i), v.size());
        if (armed && i == thrower) { armed = false; throw callback_failure{}; }
      }};
      if constexpr (Unregister) conns.push_back(sig.connect(std::move(f), fcppt::signal::unregister::function{[] {}}));
      else conns.push_back(sig.connect(std::move(f)));
    }
    bool threw = false;
    try { sig(arg); } catch (callback_failure const &) { threw = true; }
    if (threw != (thrower < n)) fail("signal|call|exception-swallowed", "the exception of a callback did not leave the call");
    check_seen(threw ? "argument-or-order|before-the-throwing-callback" : "argument-or-order", threw ? thrower + 1 : n);
    seen.clear();
    sig(arg); // nobody throws any more: every live connection again
    check_seen("connections-after-a-throwing-callback", n);
    if (sig.empty() != (n == 0)) fail("signal|empty|after-a-throwing-callback", "empty() is wrong after a call in which a callback threw");
  }
  else
  {
    sig_vec sig(typename sig_vec::combiner_function{[](int a, int b) { return a * 3 + b; }});
    for (std::size_t i = 0; i < n; ++i)
    {
      typename sig_vec::function f{[&seen, i](std::vector<int> v) {
        seen.emplace_back(static_cast<int>(i), v.size());
        int s = static_cast<int>(i);
        for (int x : v) s += x;
        return s;
      }};
      if constexpr (Unregister) conns.push_back(sig.connect(std::move(f), fcppt::signal::unregister::function{[] {}}));
      else conns.push_back(sig.connect(std::move(f)));
    }
    int const got = sig(typename sig_vec::initial_value{2}, arg);
    int want = 2;
    for (std::size_t i = 0; i < n; ++i) want = want * 3 + (15 + static_cast<int>(i));
    check_seen("argument-or-order", n);
    if (got != want) fail("signal|call|combined-result|class-type-argument", "result " + std::to_string(got) + ", the left fold over callbacks that all see the same argument gives " + std::to_string(want));
  }
}
void args_one(Ints const &c)
{
  std::size_t const n = static_cast<std::size_t>(static_cast<u64>(c.at(0)) % 5), thrower = static_cast<std::size_t>(static_cast<u64>(c.at(1)) % 6);
  bool const vs = c.at(2) % 2 != 0, unreg = c.at(3) % 2 != 0;
  if (unreg) args_case<true>(n, thrower, vs);
  else args_case<false>(n, thrower, vs);
}
Reg const r_args{"signal_arguments_and_throwing_callbacks", Kind::exhaustive, "at least two connections",
                 [] {
                   for (i64 n = 0; n < 5; ++n)
                     for (i64 t = 0; t < 6; ++t)
                       for (i64 v = 0; v < 2; ++v)
                         for (i64 u = 0; u < 2; ++u) { cur4(n, t, v, u); args_one({n, t, v, u}); }
                 },
                 args_one,
                 [](Ints const &c) {
                   return std::string(c.at(3) % 2 != 0 ? "unregister-base " : "") + (c.at(2) % 2 != 0 ? "void" : "int") + "(std::vector<int>) signal with " + std::to_string(static_cast<u64>(c.at(0)) % 5) + " connections" +
                          (c.at(2) % 2 != 0 ? ", callback #" + std::to_string(static_cast<u64>(c.at(1)) % 6) + " throws once (none if >= the number of connections)" : "");
                 }};
}
