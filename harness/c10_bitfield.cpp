// VERIF: rc quick_shards=6 fuzz=operator_programs
// C10 - bitfield is observationally a set of enumerators.
// Model: a 32-bit mask of enumerator indices. Exhaustive over all pairs of subsets for enums of
// 1, 3, 8, 9 enumerators in u8/u16/u32/u64 words; seeded pairs for 17; rapidcheck-generated
// operator programs (a stack machine = expression DAGs with assigning operators) for all 20
// instantiations.
#include "verif.hpp"

#include <fcppt/container/bitfield/comparison.hpp>
#include <fcppt/container/bitfield/hash.hpp>
#include <fcppt/container/bitfield/init.hpp>
#include <fcppt/container/bitfield/is_subset_eq.hpp>
#include <fcppt/container/bitfield/object.hpp>
#include <fcppt/container/bitfield/operators.hpp>
#include <fcppt/container/bitfield/std_hash.hpp>
#include <fcppt/container/bitfield/underlying_value.hpp>

#include <cstdint>
#include <functional>
#include <tuple>
#include <vector>

using namespace verif;

namespace
{
enum class e1 { v0, fcppt_maximum = v0 };
enum class e3 { v0, v1, v2, fcppt_maximum = v2 };
enum class e8 { v0, fcppt_maximum = 7 };
enum class e9 { v0, fcppt_maximum = 8 };
enum class e17 { v0, fcppt_maximum = 16 };
enum class e32 : std::uint8_t { v0, fcppt_maximum = 31 };

template <typename E>
constexpr unsigned esize = static_cast<unsigned>(E::fcppt_maximum) + 1U;

using enums = std::tuple<e1, e3, e8, e9, e17, e32>;
using words = std::tuple<std::uint8_t, std::uint16_t, std::uint32_t, std::uint64_t>;
char const *const enum_names[] = {"e1", "e3", "e8", "e9", "e17", "e32"};
char const *const word_names[] = {"u8", "u16", "u32", "u64"};
constexpr unsigned enum_sizes[] = {1, 3, 8, 9, 17, 32};
constexpr std::size_t n_inst = 24;

using mask_t = std::uint32_t;

template <typename E, typename W>
struct inst
{
  using bf = fcppt::container::bitfield::object<E, W>;
  static constexpr unsigned n = esize<E>;
  static constexpr mask_t full = n == 32 ? 0xffffffffU : ((mask_t{1} << n) - 1U);
  static constexpr bool padded = n % (sizeof(W) * 8U) != 0U;

  static bf build(mask_t m)
  {
    bf r{bf::null()};
    for (unsigned i = 0; i < n; ++i)
      if ((m >> i) & 1U) r.set(static_cast<E>(i), true);
    return r;
  }
  static mask_t read(bf const &b)
  {
    mask_t m = 0;
    for (unsigned i = 0; i < n; ++i)
      if (b.get(static_cast<E>(i))) m |= mask_t{1} << i;
    return m;
  }
  static std::string show(mask_t m)
  {
    std::string r = "{";
    for (unsigned i = 0; i < n; ++i)
      if ((m >> i) & 1U) r += (r.size() > 1 ? "," : "") + std::to_string(i);
    return r + "}";
  }

  // every observation of `b` must be the one of the set `m`, however `b` was computed
  // how: name of the operation that produced b; tilde: whether operator~ was involved
  static void observe(bf const &b, mask_t m, char const *how, bool tilde)
  {
    std::string const cls = tilde ? (padded ? "|after~|padded-word" : "|after~|full-word") : "";
    mask_t const got = read(b);
    if (got != m)
    {
      fail(std::string("bitfield|") + how + "|members" + cls, std::string(how) + " yields " + show(got) + ", expected " + show(m));
      return;
    }
    // operator[] const and operator& (element test)
    for (unsigned i = 0; i < n; ++i)
    {
      bool const e = ((m >> i) & 1U) != 0;
      bf const &cb = b;
      if (static_cast<bool>(cb[static_cast<E>(i)]) != e || (cb & static_cast<E>(i)) != e)
      {
        fail(std::string("bitfield|") + how + "|operator[]" + cls, "operator[]/& disagree with get at " + std::to_string(i));
        return;
      }
    }
    // representation independence: equal sets are equal and hash equally
    bf const canon = build(m);
    if (!(b == canon) || (b != canon) || !(canon == b))
      fail(tilde && padded ? std::string("bitfield|operator~|padding") : std::string("bitfield|") + how + "|equality" + cls, std::string(how) + " = " + show(m) + " compares unequal to the same set built with set()");
    if (fcppt::container::bitfield::hash<bf>{}(b) != fcppt::container::bitfield::hash<bf>{}(canon) ||
        std::hash<bf>{}(b) != std::hash<bf>{}(canon))
      fail(tilde && padded ? std::string("bitfield|operator~|padding") : std::string("bitfield|") + how + "|hash" + cls, std::string(how) + " = " + show(m) + " hashes differently from the same set built with set()");
    if (!fcppt::container::bitfield::is_subset_eq(b, canon) || !fcppt::container::bitfield::is_subset_eq(canon, b))
      fail(tilde && padded ? std::string("bitfield|operator~|padding") : std::string("bitfield|") + how + "|is_subset_eq-self" + cls, std::string(how) + " = " + show(m) + " is not a subset of the same set built with set()");
  }

  static void pair(mask_t a, mask_t b)
  {
    a &= full;
    b &= full;
    count(padded || (a != 0 && b != 0 && a != b));
    bf const A = build(a), B = build(b);
    observe(A, a, "set", false);
    observe(A | B, a | b, "operator|", false);
    observe(A & B, a & b, "operator&", false);
    observe(A ^ B, a ^ b, "operator^", false);
    static bool const kn = is_known("bitfield|operator~|padding");
    if (!(kn && padded))
    {
      observe(~A, ~a & full, "operator~", true);
      observe(~~A, a, "operator~~", true);
      observe(~A & B, ~a & b & full, "~a&b", true);
      observe(~A | B, (~a | b) & full, "~a|b", true);
      observe(~A ^ B, (~a ^ b) & full, "~a^b", true);
      observe(~(A | B), ~(a | b) & full, "~(a|b)", true);
      // subset through the complement: a subset-eq of ~b  iff  a and b disjoint
      if (fcppt::container::bitfield::is_subset_eq(A, ~B) != ((a & b) == 0))
        fail(padded ? std::string("bitfield|operator~|padding") : std::string("bitfield|is_subset_eq|complement-operand|full-word"), "is_subset_eq(" + show(a) + ", ~" + show(b) + ") wrong");
      if (fcppt::container::bitfield::is_subset_eq(~A, B) != (((~a & full) & ~b) == 0))
        fail(padded ? std::string("bitfield|operator~|padding") : std::string("bitfield|is_subset_eq|complement-left|full-word"), "is_subset_eq(~" + show(a) + ", " + show(b) + ") wrong");
    }
    else
      known("bitfield|operator~|padding");
    {
      bf t = A; t |= B; observe(t, a | b, "operator|=", false);
    }
    {
      bf t = A; t &= B; observe(t, a & b, "operator&=", false);
    }
    {
      bf t = A; t ^= B; observe(t, a ^ b, "operator^=", false);
    }
    {
      // the right operand is the object itself
      bf t1 = A; t1 |= t1; observe(t1, a, "a|=a", false);
      bf t2 = A; t2 &= t2; observe(t2, a, "a&=a", false);
      bf t3 = A; t3 ^= t3; observe(t3, 0, "a^=a", false);
    }
    if ((A == B) != (a == b) || (A != B) != (a != b))
      fail("bitfield|comparison|value", "== / != of " + show(a) + " and " + show(b) + " wrong");
    if (fcppt::container::bitfield::is_subset_eq(A, B) != ((a & ~b) == 0))
      fail("bitfield|is_subset_eq|value", "is_subset_eq(" + show(a) + "," + show(b) + ") wrong");
    // init()
    observe(fcppt::container::bitfield::init<bf>([a](E e) { return ((a >> static_cast<unsigned>(e)) & 1U) != 0; }), a, "init", false);
    // element forms on the lowest member of b
    for (unsigned i = 0; i < n; ++i)
      if ((b >> i) & 1U)
      {
        observe(A | static_cast<E>(i), a | (mask_t{1} << i), "operator|(element)", false);
        bf t = A;
        t |= static_cast<E>(i);
        observe(t, a | (mask_t{1} << i), "operator|=(element)", false);
        bf u = A;
        u[static_cast<E>(i)] = false;
        observe(u, a & ~(mask_t{1} << i), "proxy=false", false);
        bf w = A;
        w.set(static_cast<E>(i), !(((a >> i) & 1U) != 0));
        observe(w, a ^ (mask_t{1} << i), "set(toggle)", false);
        {
          // the reference operator[] hands out denotes the BIT, not a snapshot of it: changes made by
          // another path (set, a second reference, |=, &=) are visible through it
          bf x = A;
          bool const was = ((a >> i) & 1U) != 0;
          auto r1 = x[static_cast<E>(i)];
          auto r2 = x[static_cast<E>(i)];
          bool ok = static_cast<bool>(r1) == was;
          x.set(static_cast<E>(i), !was);
          ok = ok && static_cast<bool>(r1) == !was && static_cast<bool>(r2) == !was && x.get(static_cast<E>(i)) == !was;
          r2 = was;
          ok = ok && static_cast<bool>(r1) == was && x.get(static_cast<E>(i)) == was;
          x |= static_cast<E>(i);
          ok = ok && static_cast<bool>(r1) && static_cast<bool>(r2);
          x &= bf::null();
          ok = ok && !static_cast<bool>(r1) && !static_cast<bool>(r2);
          if (!ok) fail("bitfield|operator[]|reference-is-not-live", "a reference obtained from operator[] for enumerator " + std::to_string(i) + " of " + show(a) + " does not follow later changes of that bit");
        }
        break;
      }
    // initializer list with the first two members of a (duplicates allowed)
    {
      std::vector<E> mem;
      for (unsigned i = 0; i < n && mem.size() < 2; ++i)
        if ((a >> i) & 1U) mem.push_back(static_cast<E>(i));
      if (mem.size() == 2)
      {
        bf const il{mem[0], mem[1], mem[0]};
        observe(il, (mask_t{1} << static_cast<unsigned>(mem[0])) | (mask_t{1} << static_cast<unsigned>(mem[1])), "initializer_list", false);
      }
      else if (mem.size() == 1)
      {
        bf const il{mem[0]};
        observe(il, mask_t{1} << static_cast<unsigned>(mem[0]), "initializer_list", false);
      }
    }
    if constexpr (bf::array_size::value == 1U)
    {
      if (static_cast<std::uint64_t>(fcppt::container::bitfield::underlying_value(A)) != a)
        fail("bitfield|underlying_value|value", "underlying_value of " + show(a) + " is " + std::to_string(static_cast<std::uint64_t>(fcppt::container::bitfield::underlying_value(A))));
    }
  }

  // stack machine over bitfields: expression DAGs including assigning operators
  static void program(Choices &c, std::size_t nops)
  {
    std::vector<std::pair<bf, mask_t>> st;
    std::vector<bool> til;
    bool used_tilde = false, used_assign = false;
    static bool const kn = is_known("bitfield|operator~|padding");
    for (std::size_t k = 0; k < nops; ++k)
    {
      unsigned const op = static_cast<unsigned>(c.range(0, 11));
      u64 const x = c.raw(), y = c.raw();
      c.skip_to_frame();
      auto pick = [&](u64 r) -> std::size_t { return static_cast<std::size_t>(r % st.size()); };
      if (st.empty() || op <= 1)
      {
        mask_t const m = static_cast<mask_t>(x) & full;
        st.emplace_back(build(m), m);
        til.push_back(false);
        continue;
      }
      std::size_t const i = pick(x), j = pick(y);
      bf const L = st[i].first, R = st[j].first;
      mask_t const l = st[i].second, r = st[j].second;
      bool const t = til[i] || til[j];
      switch (op)
      {
      case 2: st.emplace_back(L | R, l | r); til.push_back(t); break;
      case 3: st.emplace_back(L & R, l & r); til.push_back(t); break;
      case 4: st.emplace_back(L ^ R, l ^ r); til.push_back(t); break;
      case 5:
        if (kn && padded) { known("bitfield|operator~|padding"); break; }
        st.emplace_back(~L, ~l & full); til.push_back(true); used_tilde = true; break;
      case 6: st[i].first |= R; st[i].second |= r; til[i] = t; used_assign = true; break;
      case 7: st[i].first &= R; st[i].second &= r; til[i] = t; used_assign = true; break;
      case 8: st[i].first ^= R; st[i].second ^= r; til[i] = t; used_assign = true; break;
      case 9:
      {
        unsigned const bit = static_cast<unsigned>(y % n);
        bool const v = ((y >> 8) & 1U) != 0;
        st[i].first.set(static_cast<E>(bit), v);
        st[i].second = v ? (st[i].second | (mask_t{1} << bit)) : (st[i].second & ~(mask_t{1} << bit));
        used_assign = true;
        break;
      }
      case 10:
      {
        unsigned const bit = static_cast<unsigned>(y % n);
        bool const v = ((y >> 8) & 1U) != 0;
        st[i].first[static_cast<E>(bit)] = v;
        st[i].second = v ? (st[i].second | (mask_t{1} << bit)) : (st[i].second & ~(mask_t{1} << bit));
        used_assign = true;
        break;
      }
      default:
        if ((L == R) != (l == r)) fail(std::string("bitfield|program|equality") + (t ? "|after~" : ""), "== of " + show(l) + " and " + show(r) + " wrong inside a program");
        if (fcppt::container::bitfield::is_subset_eq(L, R) != ((l & ~r) == 0))
          fail(std::string("bitfield|program|is_subset_eq") + (t ? "|after~" : ""), "is_subset_eq(" + show(l) + "," + show(r) + ") wrong inside a program");
        break;
      }
      if (failed_in_current_case()) return;
    }
    count((used_tilde || used_assign) && padded);
    cls(used_tilde ? "with~" : "without~");
    for (std::size_t i = 0; i < st.size(); ++i)
      observe(st[i].first, st[i].second, til[i] ? "program(~)" : "program", til[i]);
  }
};

using pair_fn = void (*)(mask_t, mask_t);
using prog_fn = void (*)(Choices &, std::size_t);
template <std::size_t... I>
std::array<pair_fn, n_inst> make_pairs(std::index_sequence<I...>)
{
  return {{&inst<std::tuple_element_t<I / 4, enums>, std::tuple_element_t<I % 4, words>>::pair...}};
}
template <std::size_t... I>
std::array<prog_fn, n_inst> make_progs(std::index_sequence<I...>)
{
  return {{&inst<std::tuple_element_t<I / 4, enums>, std::tuple_element_t<I % 4, words>>::program...}};
}
auto const pair_table = make_pairs(std::make_index_sequence<n_inst>{});
auto const prog_table = make_progs(std::make_index_sequence<n_inst>{});

void pair_case(Ints const &c)
{
  pair_table[static_cast<std::size_t>(c.at(0)) % n_inst](static_cast<mask_t>(c.at(1)), static_cast<mask_t>(c.at(2)));
}
std::string pair_describe(Ints const &c)
{
  std::size_t const i = static_cast<std::size_t>(c.at(0)) % n_inst;
  return std::string("bitfield<") + enum_names[i / 4] + "," + word_names[i % 4] + "> subsets a=" + std::to_string(c.at(1)) + " b=" + std::to_string(c.at(2)) + " (bit masks)";
}
char const *const pair_rule = "the enum does not fill its last storage word (padding bits exist), or both subsets are non-empty and different";

void all_pairs(std::size_t ei)
{
  unsigned const n = enum_sizes[ei];
  for (std::size_t w = 0; w < 4; ++w)
    for (mask_t a = 0; a < (mask_t{1} << n); ++a)
      for (mask_t b = 0; b < (mask_t{1} << n); ++b)
      {
        cur3(static_cast<i64>(ei * 4 + w), a, b);
        pair_table[ei * 4 + w](a, b);
      }
}

Reg const r_small{"pairs_e1_e3_e8", Kind::exhaustive, pair_rule, [] { all_pairs(0); all_pairs(1); all_pairs(2); }, pair_case, pair_describe};
Reg const r_e9a{"pairs_e9_u8_u16", Kind::exhaustive, pair_rule,
                [] {
                  for (std::size_t w = 0; w < 2; ++w)
                    for (mask_t a = 0; a < 512; ++a)
                      for (mask_t b = 0; b < 512; ++b) { cur3(static_cast<i64>(12 + w), a, b); pair_table[12 + w](a, b); }
                },
                pair_case, pair_describe};
Reg const r_e9b{"pairs_e9_u32_u64", Kind::exhaustive, pair_rule,
                [] {
                  for (std::size_t w = 2; w < 4; ++w)
                    for (mask_t a = 0; a < 512; ++a)
                      for (mask_t b = 0; b < 512; ++b) { cur3(static_cast<i64>(12 + w), a, b); pair_table[12 + w](a, b); }
                },
                pair_case, pair_describe};
Reg const r_big{"pairs_e17_e32_sampled", Kind::random, pair_rule,
                [] {
                  SplitMix r(opts().seed * 911 + static_cast<u64>(opts().shard));
                  u64 const n = opts().thorough() ? 1000000 : 60000;
                  for (u64 k = 0; k < n; ++k)
                  {
                    i64 const inst_i = 16 + static_cast<i64>(r.next() % 8);
                    mask_t a = static_cast<mask_t>(r.next()), b = static_cast<mask_t>(r.next());
                    switch (r.next() % 6)
                    {
                    case 0: a &= static_cast<mask_t>(r.next()); break;
                    case 1: b = a; break;
                    case 2: b = ~a; break;
                    case 3: a = 0; break;
                    case 4: a = ~mask_t{0}; break;
                    default: break;
                    }
                    cur3(inst_i, a, b);
                    pair_table[static_cast<std::size_t>(inst_i)](a, b);
                  }
                },
                pair_case, pair_describe};

void prog_case(Ints const &c)
{
  Choices ch(c);
  std::size_t const i = ch.index(n_inst);
  ch.skip_to_frame();
  std::size_t const nops = c.size() / 4 > 0 ? c.size() / 4 - 1 : 0;
  prog_table[i](ch, nops);
}
std::string prog_describe(Ints const &c)
{
  Choices ch(c);
  std::size_t const i = ch.index(n_inst);
  ch.skip_to_frame();
  static char const *const ops[] = {"push", "push", "|", "&", "^", "~", "|=", "&=", "^=", "set", "[]=", "cmp"};
  std::string r = std::string("bitfield<") + enum_names[i / 4] + "," + word_names[i % 4] + "> program:";
  std::size_t const nops = c.size() / 4 > 0 ? c.size() / 4 - 1 : 0;
  for (std::size_t k = 0; k < nops && k < 40; ++k)
  {
    unsigned const op = static_cast<unsigned>(ch.range(0, 11));
    u64 const x = ch.raw(), y = ch.raw();
    ch.skip_to_frame();
    r += std::string(" ") + ops[op] + "(" + std::to_string(x % 100000) + "," + std::to_string(y % 100000) + ")";
  }
  return r;
}
Reg const r_prog{"operator_programs", Kind::random,
                 "program uses ~ or an assigning operator on an instantiation whose enum does not fill its last word",
                 [] { run_random(*g_cur.sec, {6000, 40}, {60000, 60}); }, prog_case, prog_describe};
}
