// VERIF: quick_shards=4
// C17 (part 3) - ==, !=, <, <=, >, >= and hash laws for math::vector, dim, matrix, box, sphere.
// Components in {0,1,2}; equal values are also reached through arithmetic, null/fill/init,
// conversions, component assignment and matrix row views.
#include "c17_laws.hpp"

#include <fcppt/hash.hpp>
#include <fcppt/math/size_type.hpp>
#include <fcppt/math/box/comparison.hpp>
#include <fcppt/math/box/object.hpp>
#include <fcppt/math/dim/arithmetic.hpp>
#include <fcppt/math/dim/comparison.hpp>
#include <fcppt/math/dim/fill.hpp>
#include <fcppt/math/dim/init.hpp>
#include <fcppt/math/dim/null.hpp>
#include <fcppt/math/dim/object.hpp>
#include <fcppt/math/dim/static.hpp>
#include <fcppt/math/dim/std_hash.hpp>
#include <fcppt/math/dim/to_vector.hpp>
#include <fcppt/math/matrix/arithmetic.hpp>
#include <fcppt/math/matrix/at_r.hpp>
#include <fcppt/math/matrix/at_r_c.hpp>
#include <fcppt/math/matrix/comparison.hpp>
#include <fcppt/math/matrix/identity.hpp>
#include <fcppt/math/matrix/object.hpp>
#include <fcppt/math/matrix/row.hpp>
#include <fcppt/math/matrix/static.hpp>
#include <fcppt/math/matrix/std_hash.hpp>
#include <fcppt/math/matrix/transpose.hpp>
#include <fcppt/math/sphere/comparison.hpp>
#include <fcppt/math/sphere/object.hpp>
#include <fcppt/math/vector/arithmetic.hpp>
#include <fcppt/math/vector/comparison.hpp>
#include <fcppt/math/vector/fill.hpp>
#include <fcppt/math/vector/init.hpp>
#include <fcppt/math/vector/null.hpp>
#include <fcppt/math/vector/object.hpp>
#include <fcppt/math/vector/static.hpp>
#include <fcppt/math/vector/std_hash.hpp>
#include <fcppt/math/vector/to_dim.hpp>

#include <functional>
#include <string>

using namespace verif;
using namespace c17;

namespace
{
std::string s(i64 v) { return std::to_string(v); }
namespace fm = fcppt::math;

using vec2 = fm::vector::static_<int, 2>;
using vec3 = fm::vector::static_<int, 3>;
using dim2 = fm::dim::static_<unsigned, 2>;
using idim2 = fm::dim::static_<int, 2>;
using mat22 = fm::matrix::static_<int, 2, 2>;
using box2 = fm::box::object<int, 2>;
using sph2 = fm::sphere::object<int, 2>;

// ---------------------------------------------------------------- vector<int,2>
RegLaws<vec2, Order::documented, true> const r_vec2{{
    .name = "math::vector<int,2>",
    .build =
        [](Entries<vec2> &e) {
          for (int a = 0; a < 3; ++a)
            for (int b = 0; b < 3; ++b)
              put(e, vec2{a, b}, 0, "vector(" + s(a) + "," + s(b) + ")");
          put(e, fm::vector::null<vec2>(), 1, "null()");
          put(e, fm::vector::fill<vec2>(1), 2, "fill(1)");
          put(e, fm::vector::fill<vec2>(2), 2, "fill(2)");
          put(e, vec2{1, 0} + vec2{0, 1}, 3, "vector(1,0)+vector(0,1)");
          put(e, vec2{2, 2} - vec2{1, 0}, 3, "vector(2,2)-vector(1,0)");
          put(e, vec2{1, 0} * 2, 3, "vector(1,0)*2");
          put(e, fm::vector::init<vec2>([](fm::size_type const i) { return static_cast<int>(i); }), 4, "init(index)");
          vec2 v{0, 0};
          v.x() = 2;
          v.y() = 1;
          put(e, v, 5, "vector(0,0) with x=2, y=1");
          vec2 w{2, 2};
          w.get_unsafe(1) = 0;
          put(e, w, 5, "vector(2,2) with element 1 set to 0");
          vec2 u{1, 1};
          u = vec2{0, 2};
          put(e, u, 6, "vector(1,1) assigned vector(0,2)");
          put(e, fm::dim::to_vector(idim2{1, 2}), 7, "to_vector(dim(1,2))");
          mat22 const m{fm::matrix::row(2, 1), fm::matrix::row(0, 0)};
          put(e, vec2{fm::matrix::at_r<0>(m)}, 8, "copy of row 0 of matrix((2,1),(0,0))");
          vec2 z{1, 1};
          z = fm::matrix::at_r<1>(m);
          put(e, z, 8, "vector(1,1) assigned row 1 of matrix((2,1),(0,0))");
        },
    .obs = [](vec2 const &v) { return Ints{v.x(), v.y()}; },
    .key = {},
    .hashes = {{"std::hash", [](vec2 const &v) { return std::hash<vec2>{}(v); }}, {"fcppt::hash", [](vec2 const &v) { return fcppt::hash(v); }}},
    // a vector compared with a row view of a matrix (different storage types) is the same relation
    .equalities = {
        {"operator==(vector, matrix row view)", [](vec2 const &a, vec2 const &b) {
           mat22 const m{fm::matrix::row(9, 9), fm::matrix::row(b.x(), b.y())};
           return a == fm::matrix::at_r<1>(m);
         }},
        {"!operator!=(matrix row view, vector)", [](vec2 const &a, vec2 const &b) {
           mat22 const m{fm::matrix::row(a.x(), a.y()), fm::matrix::row(9, 9)};
           return !(fm::matrix::at_r<0>(m) != b);
         }}
        // (operator< between different storage types is declared but does not compile: array_less
        // takes two arguments of one type)
    }}};

// ---------------------------------------------------------------- vector<int,3>
RegLaws<vec3, Order::documented, true> const r_vec3{{
    .name = "math::vector<int,3>",
    .build =
        [](Entries<vec3> &e) {
          for (int a = 0; a < 3; ++a)
            for (int b = 0; b < 3; ++b)
              for (int c = 0; c < 3; ++c)
                put(e, vec3{a, b, c}, 0, "vector(" + s(a) + "," + s(b) + "," + s(c) + ")");
          put(e, fm::vector::null<vec3>(), 1, "null()");
          put(e, fm::vector::fill<vec3>(2), 2, "fill(2)");
          put(e, vec3{1, 0, 2} + vec3{0, 1, 0}, 3, "vector(1,0,2)+vector(0,1,0)");
          put(e, fm::vector::init<vec3>([](fm::size_type const i) { return static_cast<int>(i); }), 4, "init(index)");
          vec3 v{0, 0, 0};
          v.z() = 2;
          put(e, v, 5, "vector(0,0,0) with z=2");
          vec3 u{2, 2, 1};
          u = vec3{2, 2, 0};
          put(e, u, 6, "vector(2,2,1) assigned vector(2,2,0)");
        },
    .obs = [](vec3 const &v) { return Ints{v.x(), v.y(), v.z()}; },
    .key = {},
    .hashes = {{"std::hash", [](vec3 const &v) { return std::hash<vec3>{}(v); }}},
    .equalities = {}}};

// ---------------------------------------------------------------- dim<unsigned,2>
RegLaws<dim2, Order::documented, true> const r_dim2{{
    .name = "math::dim<unsigned,2>",
    .build =
        [](Entries<dim2> &e) {
          for (unsigned a = 0; a < 3; ++a)
            for (unsigned b = 0; b < 3; ++b)
              put(e, dim2{a, b}, 0, "dim(" + s(a) + "," + s(b) + ")");
          put(e, fm::dim::null<dim2>(), 1, "null()");
          put(e, fm::dim::fill<dim2>(1U), 2, "fill(1)");
          put(e, dim2{1U, 0U} + dim2{0U, 2U}, 3, "dim(1,0)+dim(0,2)");
          put(e, dim2{1U, 1U} * 2U, 3, "dim(1,1)*2");
          put(e, fm::dim::init<dim2>([](fm::size_type const i) { return static_cast<unsigned>(2 - i); }), 4, "init(2-index)");
          dim2 d{0U, 0U};
          d.w() = 2U;
          d.h() = 1U;
          put(e, d, 5, "dim(0,0) with w=2, h=1");
          dim2 u{1U, 1U};
          u = dim2{0U, 2U};
          put(e, u, 6, "dim(1,1) assigned dim(0,2)");
          put(e, fm::vector::to_dim(fm::vector::static_<unsigned, 2>{2U, 2U}), 7, "to_dim(vector(2,2))");
        },
    .obs = [](dim2 const &v) { return Ints{v.w(), v.h()}; },
    .key = {},
    .hashes = {{"std::hash", [](dim2 const &v) { return std::hash<dim2>{}(v); }}, {"fcppt::hash", [](dim2 const &v) { return fcppt::hash(v); }}},
    .equalities = {}}};

// ---------------------------------------------------------------- floating-point element types
// Components {-0.0, +0.0, 1.0, 2.0}: the two zeros are equal values of the element type (observable
// component 0), so the composite values must be equal and hash alike - std::hash<double> itself
// guarantees this for its argument.
double fcomp(int i) { return i == 3 ? -0.0 : static_cast<double>(i); }
i64 fobs(double d) { return static_cast<i64>(d); }
using ddim2 = fm::dim::static_<double, 2>;
using dvec2 = fm::vector::static_<double, 2>;
using dmat22 = fm::matrix::static_<double, 2, 2>;

RegLaws<ddim2, Order::documented, true> const r_ddim2{{
    .name = "math::dim<double,2>",
    .build =
        [](Entries<ddim2> &e) {
          for (int a = 0; a < 4; ++a)
            for (int b = 0; b < 4; ++b)
              put(e, ddim2{fcomp(a), fcomp(b)}, (a == 3 || b == 3) ? 9 : 0,
                  std::string("dim(") + (a == 3 ? "-0.0" : s(a)) + "," + (b == 3 ? "-0.0" : s(b)) + ")");
          put(e, fm::dim::null<ddim2>(), 1, "null()");
          put(e, ddim2{1.0, 0.0} * -0.0, 3, "dim(1,0)*-0.0");
        },
    .obs = [](ddim2 const &v) { return Ints{fobs(v.w()), fobs(v.h())}; },
    .key = {},
    .hashes = {{"std::hash", [](ddim2 const &v) { return std::hash<ddim2>{}(v); }}, {"fcppt::hash", [](ddim2 const &v) { return fcppt::hash(v); }}},
    .equalities = {}}};

RegLaws<dvec2, Order::documented, true> const r_dvec2{{
    .name = "math::vector<double,2>",
    .build =
        [](Entries<dvec2> &e) {
          for (int a = 0; a < 4; ++a)
            for (int b = 0; b < 4; ++b)
              put(e, dvec2{fcomp(a), fcomp(b)}, (a == 3 || b == 3) ? 9 : 0,
                  std::string("vector(") + (a == 3 ? "-0.0" : s(a)) + "," + (b == 3 ? "-0.0" : s(b)) + ")");
          put(e, fm::vector::null<dvec2>(), 1, "null()");
          put(e, -dvec2{0.0, 2.0}, 3, "-vector(0,2) negated back");
        },
    .obs = [](dvec2 const &v) { return Ints{fobs(v.x()), fobs(v.y())}; },
    .key = {},
    .hashes = {{"std::hash", [](dvec2 const &v) { return std::hash<dvec2>{}(v); }}, {"fcppt::hash", [](dvec2 const &v) { return fcppt::hash(v); }}},
    .equalities = {}}};

RegLaws<dmat22, Order::none, false> const r_dmat22{{
    .name = "math::matrix<double,2,2>",
    .build =
        [](Entries<dmat22> &e) {
          for (int a = 0; a < 4; ++a)
            for (int b = 0; b < 4; ++b)
              for (int c = 0; c < 4; c += 3)
                put(e, dmat22{fm::matrix::row(fcomp(a), fcomp(c)), fm::matrix::row(fcomp(c), fcomp(b))}, (a == 3 || b == 3 || c == 3) ? 9 : 0,
                    "matrix((" + s(a) + "," + s(c) + "),(" + s(c) + "," + s(b) + ")) with 3 standing for -0.0");
        },
    .obs = [](dmat22 const &m) { return Ints{fobs(m.m00()), fobs(m.m01()), fobs(m.m10()), fobs(m.m11())}; },
    .key = {},
    .hashes = {{"std::hash", [](dmat22 const &v) { return std::hash<dmat22>{}(v); }}, {"fcppt::hash", [](dmat22 const &v) { return fcppt::hash(v); }}},
    .equalities = {}}};

// ---------------------------------------------------------------- matrix<int,2,2>
RegLaws<mat22, Order::none, false> const r_mat22{{
    .name = "math::matrix<int,2,2>",
    .build =
        [](Entries<mat22> &e) {
          for (int a = 0; a < 2; ++a)
            for (int b = 0; b < 2; ++b)
              for (int c = 0; c < 2; ++c)
                for (int d = 0; d < 2; ++d)
                  put(e, mat22{fm::matrix::row(a, b), fm::matrix::row(c, d)}, 0, "matrix((" + s(a) + "," + s(b) + "),(" + s(c) + "," + s(d) + "))");
          put(e, mat22{fm::matrix::row(2, 0), fm::matrix::row(0, 2)}, 0, "matrix((2,0),(0,2))");
          put(e, mat22{fm::matrix::row(0, 2), fm::matrix::row(1, 0)}, 0, "matrix((0,2),(1,0))");
          put(e, mat22{fm::matrix::row(0, 1), fm::matrix::row(2, 0)}, 0, "matrix((0,1),(2,0))");
          put(e, mat22{fm::matrix::row(1, 1), fm::matrix::row(1, 2)}, 0, "matrix((1,1),(1,2))");
          put(e, fm::matrix::identity<mat22>(), 1, "identity()");
          put(e, fm::matrix::identity<mat22>() * 2, 2, "identity()*2");
          put(e, fm::matrix::identity<mat22>() + fm::matrix::identity<mat22>(), 2, "identity()+identity()");
          put(e, fm::matrix::transpose(mat22{fm::matrix::row(0, 2), fm::matrix::row(1, 0)}), 3, "transpose(matrix((0,2),(1,0)))");
          put(e, fm::matrix::identity<mat22>() * mat22{fm::matrix::row(1, 1), fm::matrix::row(1, 2)}, 4, "identity()*matrix((1,1),(1,2))");
          mat22 m{fm::matrix::row(0, 0), fm::matrix::row(0, 0)};
          m.m00() = 1;
          m.m11() = 1;
          put(e, m, 5, "zero matrix with m00=1, m11=1");
          mat22 n{fm::matrix::row(1, 1), fm::matrix::row(1, 1)};
          fm::matrix::at_r_c<1, 1>(n) = 2;
          put(e, n, 5, "matrix((1,1),(1,1)) with element (1,1) set to 2");
          mat22 q{fm::matrix::row(1, 1), fm::matrix::row(1, 1)};
          q = mat22{fm::matrix::row(0, 1), fm::matrix::row(1, 0)};
          put(e, q, 6, "matrix((1,1),(1,1)) assigned matrix((0,1),(1,0))");
        },
    .obs = [](mat22 const &m) { return Ints{m.m00(), m.m01(), m.m10(), m.m11()}; },
    .key = {},
    .hashes = {{"std::hash", [](mat22 const &v) { return std::hash<mat22>{}(v); }}, {"fcppt::hash", [](mat22 const &v) { return fcppt::hash(v); }}},
    .equalities = {}}};

// ---------------------------------------------------------------- box<int,2>
RegLaws<box2, Order::documented, false> const r_box2{{
    .name = "math::box<int,2>",
    .build =
        [](Entries<box2> &e) {
          for (int x = 0; x < 2; ++x)
            for (int y = 0; y < 2; ++y)
              for (int w = 0; w < 3; ++w)
                for (int h = 1; h < 3; ++h)
                  put(e, box2{box2::vector{x, y}, box2::dim{w, h}}, 0, "box(pos(" + s(x) + "," + s(y) + "),size(" + s(w) + "," + s(h) + "))");
          // the same boxes through the (min,max) constructor and through component assignment
          put(e, box2{box2::vector{0, 1}, box2::vector{2, 2}}, 1, "box(min(0,1),max(2,2))");
          put(e, box2{box2::vector{1, 1}, box2::vector{1, 2}}, 1, "box(min(1,1),max(1,2))");
          put(e, box2{box2::vector{1, 0}, box2::vector{2, 2}}, 1, "box(min(1,0),max(2,2))");
          box2 b{box2::vector{0, 0}, box2::dim{1, 1}};
          b.max() = box2::vector{2, 2};
          put(e, b, 2, "box(pos(0,0),size(1,1)) with max=(2,2)");
          box2 c{box2::vector{0, 0}, box2::dim{2, 2}};
          c.pos() = box2::vector{1, 1};
          put(e, c, 2, "box(pos(0,0),size(2,2)) with pos=(1,1)");
          box2 d{box2::vector{1, 1}, box2::dim{2, 2}};
          d = box2{box2::vector{0, 0}, box2::dim{0, 1}};
          put(e, d, 3, "box(pos(1,1),size(2,2)) assigned box(pos(0,0),size(0,1))");
        },
    .obs = [](box2 const &b) { return Ints{b.pos().x(), b.pos().y(), b.size().w(), b.size().h()}; },
    .key = {},
    .hashes = {},
    .equalities = {
        // the edges are the same observable information: left/top = pos, right/bottom = pos + size
        {"edges-equal", [](box2 const &a, box2 const &b) { return a.left() == b.left() && a.top() == b.top() && a.right() == b.right() && a.bottom() == b.bottom(); }}}}};

// ---------------------------------------------------------------- sphere<int,2>
RegLaws<sph2, Order::none, false> const r_sph2{{
    .name = "math::sphere<int,2>",
    .build =
        [](Entries<sph2> &e) {
          for (int x = 0; x < 3; ++x)
            for (int y = 0; y < 3; ++y)
              for (int r = 0; r < 3; ++r)
                put(e, sph2{sph2::point_type{x, y}, r}, 0, "sphere((" + s(x) + "," + s(y) + ")," + s(r) + ")");
          sph2 a{sph2::point_type{0, 0}, 0};
          a.radius() = 2;
          put(e, a, 1, "sphere((0,0),0) with radius=2");
          sph2 b{sph2::point_type{0, 0}, 1};
          b.origin() = sph2::point_type{2, 1};
          put(e, b, 1, "sphere((0,0),1) with origin=(2,1)");
          sph2 c{sph2::point_type{2, 2}, 2};
          c = sph2{sph2::point_type{2, 2}, 1};
          put(e, c, 2, "sphere((2,2),2) assigned sphere((2,2),1)");
          put(e, sph2{fm::vector::null<sph2::point_type>(), 1}, 3, "sphere(null(),1)");
        },
    .obs = [](sph2 const &v) { return Ints{v.origin().x(), v.origin().y(), v.radius()}; },
    .key = {},
    .hashes = {},
    .equalities = {}}};
}
