// C14 - matrix checks shared by the exhaustive 2x2 harness and the random 3x3 / 4x4 harness.
#ifndef VERIF_C14_MATRIX_HPP
#define VERIF_C14_MATRIX_HPP

#include "c14_common.hpp"

#include <fcppt/math/matrix/adjugate.hpp>
#include <fcppt/math/matrix/arithmetic.hpp>
#include <fcppt/math/matrix/at_r.hpp>
#include <fcppt/math/matrix/at_r_c.hpp>
#include <fcppt/math/matrix/binary_map.hpp>
#include <fcppt/math/matrix/comparison.hpp>
#include <fcppt/math/matrix/delete_row_and_column.hpp>
#include <fcppt/math/matrix/determinant.hpp>
#include <fcppt/math/matrix/identity.hpp>
#include <fcppt/math/matrix/index.hpp>
#include <fcppt/math/matrix/infinity_norm.hpp>
#include <fcppt/math/matrix/init.hpp>
#include <fcppt/math/matrix/inverse.hpp>
#include <fcppt/math/matrix/map.hpp>
#include <fcppt/math/matrix/structure_cast.hpp>
#include <fcppt/math/matrix/transpose.hpp>
#include <fcppt/math/matrix/vector.hpp>
#include <fcppt/math/vector/at.hpp>
#include <fcppt/math/vector/comparison.hpp>

#include <cstdlib>

namespace c14
{
// ---------------------------------------------------------------- fcppt operations as array functions
// mode bit 0: storage of the first operand, bit 1: of the second
template <typename T, std::size_t R, std::size_t C>
Mat<T, R, C> f_add(int const mode, Mat<T, R, C> const &a, Mat<T, R, C> const &b)
{
  return with_mat<T, R, C>(mode & 1, a, [&](auto const &x) { return with_mat<T, R, C>((mode >> 1) & 1, b, [&](auto const &y) { return to_arr(x + y); }); });
}
template <typename T, std::size_t R, std::size_t C>
Mat<T, R, C> f_sub(int const mode, Mat<T, R, C> const &a, Mat<T, R, C> const &b)
{
  return with_mat<T, R, C>(mode & 1, a, [&](auto const &x) { return with_mat<T, R, C>((mode >> 1) & 1, b, [&](auto const &y) { return to_arr(x - y); }); });
}
template <typename T, std::size_t R, std::size_t N, std::size_t C>
Mat<T, R, C> f_mul(int const mode, Mat<T, R, N> const &a, Mat<T, N, C> const &b)
{
  return with_mat<T, R, N>(mode & 1, a, [&](auto const &x) {
    return with_mat<T, N, C>((mode >> 1) & 1, b, [&](auto const &y) {
      auto const p = x * y;
      VERIF_TYPE_FACT((std::is_same_v<std::remove_cv_t<decltype(p)>, smat<T, R, C>>), "std::is_same_v<std::remove_cv_t<decltype(p)>, smat<T, R, C>>");
      return to_arr(p);
    });
  });
}
template <typename T, std::size_t R, std::size_t C>
Mat<T, C, R> f_transpose(int const mode, Mat<T, R, C> const &a)
{
  return with_mat<T, R, C>(mode & 1, a, [&](auto const &x) { return to_arr(fcppt::math::matrix::transpose(x)); });
}
template <typename T, std::size_t N>
T f_det(int const mode, Mat<T, N, N> const &a)
{
  return with_mat<T, N, N>(mode & 1, a, [&](auto const &x) { return fcppt::math::matrix::determinant(x); });
}
template <typename T, std::size_t N>
Mat<T, N, N> f_adj(int const mode, Mat<T, N, N> const &a)
{
  return with_mat<T, N, N>(mode & 1, a, [&](auto const &x) { return to_arr(fcppt::math::matrix::adjugate(x)); });
}
template <typename T, std::size_t R, std::size_t C>
Vec<T, R> f_matvec(int const mode, Mat<T, R, C> const &a, Vec<T, C> const &v)
{
  // bits 1.. of mode: vector storage (0 static, 1 view, 2 row view)
  return with_mat<T, R, C>(mode & 1, a, [&](auto const &x) {
    return with_vec<T, C>((mode >> 1) % 3, v, [&](auto const &y) {
      auto const p = x * y;
      VERIF_TYPE_FACT((std::is_same_v<std::remove_cv_t<decltype(p)>, svec<T, R>>), "std::is_same_v<std::remove_cv_t<decltype(p)>, svec<T, R>>");
      return to_arr(p);
    });
  });
}
template <typename T, std::size_t R, std::size_t C>
Mat<T, R, C> f_scale(int const mode, Mat<T, R, C> const &a, T const k)
{
  // bit 1: scalar on the left
  return with_mat<T, R, C>(mode & 1, a, [&](auto const &x) { return (mode & 2) ? to_arr(k * x) : to_arr(x * k); });
}

template <std::size_t R, std::size_t C>
std::string const &lbl()
{
  static std::string const s = dims<R, C>();
  return s;
}

// ---------------------------------------------------------------- delete_row_and_column for every (dr, dc)
template <typename T, std::size_t R, std::size_t C, std::size_t I>
void check_minor_one(int const mode, Mat<T, R, C> const &a)
{
  constexpr std::size_t dr = I / C, dc = I % C;
  auto const got = with_mat<T, R, C>(mode & 1, a, [&](auto const &x) {
    auto const m = fcppt::math::matrix::delete_row_and_column<dr, dc>(x);
    VERIF_TYPE_FACT((std::is_same_v<std::remove_cv_t<decltype(m)>, smat<T, R - 1, C - 1>>), "std::is_same_v<std::remove_cv_t<decltype(m)>, smat<T, R - 1, C - 1>>");
    return to_arr(m);
  });
  auto const want = r_minor<T, R, C>(a, dr, dc);
  if (got != want)
    verif::fail("matrix::delete_row_and_column|vs-reference|" + lbl<R, C>(),
                "delete_row_and_column<" + std::to_string(dr) + "," + std::to_string(dc) + ">(" + show_arr(a, C) + ") = " + show_arr(got, C - 1) + ", expected " + show_arr(want, C - 1));
}
template <typename T, std::size_t R, std::size_t C, std::size_t... I>
void check_minors(int const mode, Mat<T, R, C> const &a, std::index_sequence<I...>)
{
  (check_minor_one<T, R, C, I>(mode, a), ...);
}

// ---------------------------------------------------------------- addressing: at_r_c, at_r, get_unsafe, mXY, rows/columns
template <std::size_t Rr, std::size_t Cc, typename M>
decltype(auto) named_element(M &m)
{
  // the mRC() member for (Rr, Cc)
  if constexpr (Rr == 0 && Cc == 0) return m.m00();
  else if constexpr (Rr == 0 && Cc == 1) return m.m01();
  else if constexpr (Rr == 0 && Cc == 2) return m.m02();
  else if constexpr (Rr == 0 && Cc == 3) return m.m03();
  else if constexpr (Rr == 1 && Cc == 0) return m.m10();
  else if constexpr (Rr == 1 && Cc == 1) return m.m11();
  else if constexpr (Rr == 1 && Cc == 2) return m.m12();
  else if constexpr (Rr == 1 && Cc == 3) return m.m13();
  else if constexpr (Rr == 2 && Cc == 0) return m.m20();
  else if constexpr (Rr == 2 && Cc == 1) return m.m21();
  else if constexpr (Rr == 2 && Cc == 2) return m.m22();
  else if constexpr (Rr == 2 && Cc == 3) return m.m23();
  else if constexpr (Rr == 3 && Cc == 0) return m.m30();
  else if constexpr (Rr == 3 && Cc == 1) return m.m31();
  else if constexpr (Rr == 3 && Cc == 2) return m.m32();
  else return m.m33();
}
template <typename T, std::size_t R, std::size_t C, std::size_t I, typename M>
bool address_one(M const &m, Mat<T, R, C> const &a)
{
  constexpr std::size_t r = I / C, c = I % C;
  T const want = a[I];
  bool ok = fcppt::math::matrix::at_r_c<r, c>(m) == want;
  auto const row = fcppt::math::matrix::at_r<r>(m);
  ok = ok && fcppt::math::vector::at<c>(row) == want && row.get_unsafe(c) == want;
  ok = ok && m.get_unsafe(r).get_unsafe(c) == want;
  if constexpr (r < 4 && c < 4) ok = ok && named_element<r, c>(m) == want;
  if constexpr (c == 0)
  {
    ok = ok && row.x() == want;
    // a row view copied into a static vector equals the row of the array
    svec<T, C> const copy(row);
    for (std::size_t j = 0; j < C; ++j) ok = ok && copy.storage()[j] == a[r * C + j];
    svec<T, C> assigned{fcppt::no_init{}};
    assigned = row;
    ok = ok && assigned == copy && assigned == row && !(assigned != row);
  }
  if constexpr (c == 1) ok = ok && row.y() == want;
  if constexpr (c == 2) ok = ok && row.z() == want;
  if constexpr (c == 3) ok = ok && row.w() == want;
  return ok;
}
template <typename T, std::size_t R, std::size_t C, std::size_t... I>
void check_addressing(int const mode, Mat<T, R, C> const &a, std::index_sequence<I...>)
{
  bool const ok = with_mat<T, R, C>(mode & 1, a, [&](auto const &m) {
    using M = std::remove_cvref_t<decltype(m)>;
    VERIF_TYPE_FACT((M::rows() == R && M::columns() == C), "M::rows() == R && M::columns() == C");
    return (address_one<T, R, C, I>(m, a) && ...);
  });
  if (!ok) verif::fail("matrix::at_r_c/at_r/get_unsafe/mRC|vs-array|" + lbl<R, C>(), std::string(storage_name(mode & 1)) + " matrix " + show_arr(a, C) + ": an element accessor disagrees with the row-major array");
}
// writing through the non-const accessors
template <typename T, std::size_t R, std::size_t C, std::size_t I, typename M>
void write_one(M &m, Mat<T, R, C> const &a, int const route)
{
  constexpr std::size_t r = I / C, c = I % C;
  if (route == 0) fcppt::math::matrix::at_r_c<r, c>(m) = a[I];
  else if (route == 1)
  {
    auto row = fcppt::math::matrix::at_r<r>(m);
    fcppt::math::vector::at<c>(row) = a[I];
  }
  else if (route == 2) m.get_unsafe(r).get_unsafe(c) = a[I];
  else
  {
    if constexpr (r < 4 && c < 4) named_element<r, c>(m) = a[I];
    else fcppt::math::matrix::at_r_c<r, c>(m) = a[I];
  }
}

// ---------------------------------------------------------------- construction routes
template <typename T, std::size_t R, std::size_t C, std::size_t... I>
void check_construction(Mat<T, R, C> const &a, std::index_sequence<I...>)
{
  using S = smat<T, R, C>;
  namespace fm = fcppt::math::matrix;
  auto bad = [&](char const *route, Mat<T, R, C> const &got) {
    verif::fail(std::string("matrix::object|construction|") + route, dims<R, C>() + " from " + show_arr(a, C) + " via " + route + " holds " + show_arr(got, C));
  };
  // rows constructor
  S const rows(make_smat<T, R, C>(a));
  if (to_arr(rows) != a) bad("rows-constructor", to_arr(rows));
  // init with a static index
  S const inited(fm::init<S>([&a]<size_type Row, size_type Col>(fm::index<Row, Col>) { return a[Row * C + Col]; }));
  if (to_arr(inited) != a) bad("init", to_arr(inited));
  // from a storage object
  S const from_storage{typename S::storage_type(a[I]...)};
  if (to_arr(from_storage) != a) bad("storage-constructor", to_arr(from_storage));
  // converting constructor and assignment from view storage
  Mat<T, R, C> buf = a;
  vmat<T, R, C> const view{view_storage<T, R * C>(buf.data())};
  S const converted(view);
  if (to_arr(converted) != a) bad("converting-constructor", to_arr(converted));
  S assigned{fcppt::no_init{}};
  assigned = view;
  if (to_arr(assigned) != a) bad("converting-assignment", to_arr(assigned));
  // static -> view assignment writes the buffer
  Mat<T, R, C> buf2{};
  vmat<T, R, C> target{view_storage<T, R * C>(buf2.data())};
  target = rows;
  if (buf2 != a) bad("assignment-into-view", buf2);
  // element-wise writes through each kind of accessor
  for (int route = 0; route < 4; ++route)
  {
    S w(make_smat<T, R, C>(Mat<T, R, C>{})); // zero-filled, so that a misdirected write is seen deterministically
    (write_one<T, R, C, I>(w, a, route), ...);
    if (to_arr(w) != a) bad("element-writes", to_arr(w));
    Mat<T, R, C> buf3{};
    vmat<T, R, C> wv{view_storage<T, R * C>(buf3.data())};
    (write_one<T, R, C, I>(wv, a, route), ...);
    if (buf3 != a) bad("element-writes-view", buf3);
  }
  // comparison across storages
  if (!(rows == view) || rows != view || !(view == rows)) verif::fail("matrix::operator==|same-data-different-storage|" + lbl<R, C>(), show_arr(a, C));
}

// ---------------------------------------------------------------- one square matrix
template <typename T, std::size_t N>
void check_single(Mat<T, N, N> const &a, int const mode, Vec<T, N> const &v, T const k)
{
  namespace fm = fcppt::math::matrix;
  std::string const &L = lbl<N, N>();
  auto const seqNN = std::make_index_sequence<N * N>{};
  check_construction<T, N, N>(a, seqNN);
  check_addressing<T, N, N>(mode, a, seqNN);
  if constexpr (N > 1) check_minors<T, N, N>(mode, a, seqNN);
  // transpose
  auto const at = f_transpose<T, N, N>(mode, a);
  if (at != r_transpose<T, N, N>(a)) verif::fail("matrix::transpose|vs-reference|" + L, "transpose(" + show_arr(a, N) + ") = " + show_arr(at, N));
  if (f_transpose<T, N, N>(mode >> 1, at) != a) verif::fail("matrix::transpose|involution|" + L, show_arr(a, N));
  // determinant
  long long const det = r_det<T, N>(a);
  T const fdet = f_det<T, N>(mode, a);
  if (static_cast<long long>(fdet) != det) verif::fail("matrix::determinant|vs-reference|" + L, "determinant(" + show_arr(a, N) + ") = " + std::to_string(static_cast<long long>(fdet)) + ", expected " + std::to_string(det));
  if (f_det<T, N>(mode >> 1, at) != fdet) verif::fail("matrix::determinant|transpose-invariance|" + L, show_arr(a, N));
  // adjugate
  auto const adj = f_adj<T, N>(mode, a);
  auto const radj = r_adj<T, N>(a);
  if (adj != radj) verif::fail("matrix::adjugate|vs-reference|" + L, "adjugate(" + show_arr(a, N) + ") = " + show_arr(adj, N) + ", expected " + show_arr(radj, N));
  auto const det_i = r_scale(r_identity<T, N>(), static_cast<T>(det));
  if (f_mul<T, N, N, N>(mode, a, adj) != det_i || f_mul<T, N, N, N>(mode >> 1, adj, a) != det_i)
    verif::fail("matrix::adjugate|A*adj(A)=det(A)*I|" + L, "A = " + show_arr(a, N) + ", adjugate = " + show_arr(adj, N) + ", det = " + std::to_string(det));
  // identity
  auto const id = to_arr(fm::identity<smat<T, N, N>>());
  auto const id_from_view_type = to_arr(fm::identity<vmat<T, N, N>>());
  if (id != r_identity<T, N>() || id_from_view_type != id) verif::fail("matrix::identity|vs-reference|" + L, show_arr(id, N));
  if (f_mul<T, N, N, N>(mode, a, id) != a || f_mul<T, N, N, N>(mode << 1, id, a) != a) verif::fail("matrix::operator*|identity-is-neutral|" + L, show_arr(a, N));
  if (f_det<T, N>(mode, id) != 1) verif::fail("matrix::determinant|det(I)=1|" + L, "");
  // inverse: only meaningful over the integers for det = +-1 (1/det is exact); then inverse = det * adjugate
  if (det == 1 || det == -1)
  {
    auto const inv = with_mat<T, N, N>(mode & 1, a, [&](auto const &x) { return to_arr(fm::inverse(x)); });
    if (inv != r_scale(radj, static_cast<T>(det)) || r_mul<T, N, N, N>(a, inv) != r_identity<T, N>())
      verif::fail("matrix::inverse|A*inverse(A)=I|" + L, "inverse(" + show_arr(a, N) + ") = " + show_arr(inv, N));
  }
  // scalar multiplication, both sides, and the member operator
  if (f_scale<T, N, N>(mode & 1, a, k) != r_scale(a, k) || f_scale<T, N, N>((mode & 1) | 2, a, k) != r_scale(a, k))
    verif::fail("matrix::operator*(scalar)|vs-reference|" + L, show_arr(a, N) + " * " + std::to_string(static_cast<long long>(k)));
  {
    smat<T, N, N> s(make_smat<T, N, N>(a));
    s *= k;
    Mat<T, N, N> buf = a;
    vmat<T, N, N> w{view_storage<T, N * N>(buf.data())};
    w *= k;
    if (to_arr(s) != r_scale(a, k) || buf != r_scale(a, k)) verif::fail("matrix::operator*=|vs-reference|" + L, show_arr(a, N) + " *= " + std::to_string(static_cast<long long>(k)));
    // the scalar refers to an element of the matrix itself (m *= m.m00())
    smat<T, N, N> s2(make_smat<T, N, N>(a));
    s2 *= s2.storage()[0];
    Mat<T, N, N> buf2 = a;
    vmat<T, N, N> w2{view_storage<T, N * N>(buf2.data())};
    w2 *= w2.storage()[0];
    if (to_arr(s2) != r_scale(a, a[0]) || buf2 != r_scale(a, a[0])) verif::fail("matrix::operator*=|scalar-aliases-an-element|" + L, show_arr(a, N) + " *= its own first element");
    // the right operand is the matrix itself
    smat<T, N, N> s3(make_smat<T, N, N>(a));
    s3 += s3;
    smat<T, N, N> s4(make_smat<T, N, N>(a));
    s4 -= s4;
    Mat<T, N, N> zero{};
    if (to_arr(s3) != r_add<T, N, N>(a, a) || to_arr(s4) != zero) verif::fail("matrix::operator+=,-=|operand-is-the-matrix-itself|" + L, show_arr(a, N) + " += / -= itself");
  }
  // map, structure_cast
  {
    auto const mapped = with_mat<T, N, N>(mode & 1, a, [&](auto const &x) { return to_arr(fm::map(x, [](T const e) { return static_cast<long long>(e) * e - 1; })); });
    std::array<long long, N * N> want{};
    for (std::size_t i = 0; i < N * N; ++i) want[i] = static_cast<long long>(a[i]) * a[i] - 1;
    if (mapped != want) verif::fail("matrix::map|vs-reference|" + L, show_arr(a, N));
    auto const cast3 = with_mat<T, N, N>(mode & 1, a, [&](auto const &x) { return to_arr(fm::structure_cast<smat<long long, N, N>, times3_conv>(x)); });
    for (std::size_t i = 0; i < N * N; ++i) want[i] = static_cast<long long>(a[i]) * 3;
    if (cast3 != want) verif::fail("matrix::structure_cast|vs-reference|" + L, show_arr(a, N));
    if constexpr (sizeof(T) < sizeof(long long))
    {
      auto const widened = with_mat<T, N, N>(mode & 1, a, [&](auto const &x) { return to_arr(fm::structure_cast<smat<long long, N, N>, fcppt::cast::size_fun>(x)); });
      for (std::size_t i = 0; i < N * N; ++i) want[i] = a[i];
      if (widened != want) verif::fail("matrix::structure_cast|size_fun|" + L, show_arr(a, N));
    }
  }
  // infinity norm = largest absolute row sum
  {
    T want = 0;
    for (std::size_t i = 0; i < N; ++i)
    {
      T s = 0;
      for (std::size_t j = 0; j < N; ++j) s += a[i * N + j] < 0 ? -a[i * N + j] : a[i * N + j];
      if (i == 0 || s > want) want = s;
    }
    T const got = with_mat<T, N, N>(mode & 1, a, [&](auto const &x) { return fm::infinity_norm(x); });
    if (got != want) verif::fail("matrix::infinity_norm|vs-reference|" + L, show_arr(a, N) + ": " + std::to_string(static_cast<long long>(got)) + ", expected " + std::to_string(static_cast<long long>(want)));
  }
  // matrix * vector
  for (int vm = 0; vm < 3; ++vm)
    if (f_matvec<T, N, N>((mode & 1) | (vm << 1), a, v) != r_matvec<T, N, N>(a, v))
      verif::fail("matrix::operator*(vector)|vs-reference|" + L, show_arr(a, N) + " * " + show_arr(v) + " (" + storage_name(vm) + " vector) = " + show_arr(f_matvec<T, N, N>((mode & 1) | (vm << 1), a, v)));
}

// ---------------------------------------------------------------- two square matrices
// det_ok: det(AB) is computed only if the caller guarantees it does not overflow T
template <typename T, std::size_t N>
void check_pair(Mat<T, N, N> const &a, Mat<T, N, N> const &b, int const mode, Vec<T, N> const &v, bool const det_ok)
{
  namespace fm = fcppt::math::matrix;
  std::string const &L = lbl<N, N>();
  auto both = [&] { return "A = " + show_arr(a, N) + ", B = " + show_arr(b, N) + " (" + storage_name(mode & 1) + "," + storage_name((mode >> 1) & 1) + ")"; };
  int const rmode = ((mode & 1) << 1) | ((mode >> 1) & 1); // storages swapped together with the operands
  auto const sum = f_add<T, N, N>(mode, a, b);
  if (sum != r_add<T, N, N>(a, b)) verif::fail("matrix::operator+|vs-reference|" + L, both() + ": " + show_arr(sum, N));
  if (f_add<T, N, N>(rmode, b, a) != sum) verif::fail("matrix::operator+|commutative|" + L, both());
  auto const diff = f_sub<T, N, N>(mode, a, b);
  if (diff != r_sub<T, N, N>(a, b)) verif::fail("matrix::operator-|vs-reference|" + L, both() + ": " + show_arr(diff, N));
  if (f_add<T, N, N>(mode, diff, b) != a) verif::fail("matrix::operator-|(A-B)+B=A|" + L, both());
  auto const prod = f_mul<T, N, N, N>(mode, a, b);
  auto const rprod = r_mul<T, N, N, N>(a, b);
  if (prod != rprod) verif::fail("matrix::operator*|vs-reference|" + L, both() + ": " + show_arr(prod, N) + ", expected " + show_arr(rprod, N));
  // (AB)^T = B^T A^T, (A+B)^T = A^T + B^T
  auto const at = f_transpose<T, N, N>(mode, a), bt = f_transpose<T, N, N>(mode >> 1, b);
  if (f_transpose<T, N, N>(mode, prod) != f_mul<T, N, N, N>(rmode, bt, at)) verif::fail("matrix::transpose|(AB)^T=B^T*A^T|" + L, both());
  if (f_transpose<T, N, N>(mode, sum) != f_add<T, N, N>(mode, at, bt)) verif::fail("matrix::transpose|(A+B)^T=A^T+B^T|" + L, both());
  // det(AB) = det(A) det(B)
  if (det_ok)
  {
    long long const da = f_det<T, N>(mode, a), db = f_det<T, N>(mode >> 1, b), dab = f_det<T, N>(mode, prod);
    if (dab != da * db) verif::fail("matrix::determinant|det(AB)=det(A)*det(B)|" + L, both() + ": " + std::to_string(dab) + " vs " + std::to_string(da) + "*" + std::to_string(db));
  }
  // adj(AB) = adj(B) adj(A)
  if (det_ok && f_adj<T, N>(mode, prod) != f_mul<T, N, N, N>(rmode, f_adj<T, N>(mode >> 1, b), f_adj<T, N>(mode, a)))
    verif::fail("matrix::adjugate|adj(AB)=adj(B)*adj(A)|" + L, both());
  // (AB)v = A(Bv), (A+B)v = Av + Bv
  {
    auto const bv = f_matvec<T, N, N>((mode >> 1) & 1, b, v);
    auto const abv = f_matvec<T, N, N>(mode & 1, a, bv);
    if (f_matvec<T, N, N>(0, prod, v) != abv) verif::fail("matrix::operator*(vector)|(AB)v=A(Bv)|" + L, both() + ", v = " + show_arr(v));
    auto const av = f_matvec<T, N, N>(mode & 1, a, v);
    Vec<T, N> s{};
    for (std::size_t i = 0; i < N; ++i) s[i] = av[i] + bv[i];
    if (f_matvec<T, N, N>(2, sum, v) != s) verif::fail("matrix::operator*(vector)|(A+B)v=Av+Bv|" + L, both() + ", v = " + show_arr(v));
  }
  // member operators and comparison, binary_map
  with_mat<T, N, N>((mode >> 1) & 1, b, [&](auto const &y) {
    smat<T, N, N> s(make_smat<T, N, N>(a));
    s += y;
    if (to_arr(s) != r_add<T, N, N>(a, b)) verif::fail("matrix::operator+=|vs-reference|" + L, both());
    s -= y;
    s -= y;
    if (to_arr(s) != r_sub<T, N, N>(a, b)) verif::fail("matrix::operator-=|vs-reference|" + L, both());
    Mat<T, N, N> buf = a;
    vmat<T, N, N> w{view_storage<T, N * N>(buf.data())};
    w += y;
    if (buf != r_add<T, N, N>(a, b)) verif::fail("matrix::operator+=|view|" + L, both());
    w -= y;
    w -= y;
    if (buf != r_sub<T, N, N>(a, b)) verif::fail("matrix::operator-=|view|" + L, both());
    return 0;
  });
  bool const eq = with_mat<T, N, N>(mode & 1, a, [&](auto const &x) {
    return with_mat<T, N, N>((mode >> 1) & 1, b, [&](auto const &y) {
      bool const e = x == y;
      if ((x != y) == e) verif::fail("matrix::operator!=|negation-of-==|" + L, both());
      auto const bm = to_arr(fm::binary_map(x, y, [](T const p, T const q) { return static_cast<long long>(p) * 3 + q; }));
      for (std::size_t i = 0; i < N * N; ++i)
        if (bm[i] != static_cast<long long>(a[i]) * 3 + b[i])
        {
          verif::fail("matrix::binary_map|vs-reference|" + L, both());
          break;
        }
      return e;
    });
  });
  if (eq != (a == b)) verif::fail("matrix::operator==|vs-array|" + L, both());
}

// ---------------------------------------------------------------- three square matrices
template <typename T, std::size_t N>
void check_triple(Mat<T, N, N> const &a, Mat<T, N, N> const &b, Mat<T, N, N> const &c, int const mode)
{
  std::string const &L = lbl<N, N>();
  auto all = [&] { return "A = " + show_arr(a, N) + ", B = " + show_arr(b, N) + ", C = " + show_arr(c, N); };
  int const ma = mode & 1, mb = (mode >> 1) & 1, mc = (mode >> 2) & 1;
  auto const ab = f_mul<T, N, N, N>(ma | (mb << 1), a, b);
  auto const bc = f_mul<T, N, N, N>(mb | (mc << 1), b, c);
  auto const ab_c = f_mul<T, N, N, N>(mc << 1, ab, c);
  auto const a_bc = f_mul<T, N, N, N>(ma, a, bc);
  if (ab_c != a_bc) verif::fail("matrix::operator*|associativity|" + L, all() + ": (AB)C = " + show_arr(ab_c, N) + ", A(BC) = " + show_arr(a_bc, N));
  if (ab_c != r_mul<T, N, N, N>(r_mul<T, N, N, N>(a, b), c)) verif::fail("matrix::operator*|vs-reference|" + L, all() + ": (AB)C = " + show_arr(ab_c, N));
  auto const ac = f_mul<T, N, N, N>(ma | (mc << 1), a, c);
  // A(B+C) = AB + AC
  auto const b_plus_c = f_add<T, N, N>(mb | (mc << 1), b, c);
  if (f_mul<T, N, N, N>(ma | 2, a, b_plus_c) != f_add<T, N, N>(0, ab, ac)) verif::fail("matrix::operator*|left-distributivity|" + L, all());
  // (A+B)C = AC + BC
  auto const a_plus_b = f_add<T, N, N>(ma | (mb << 1), a, b);
  if (f_mul<T, N, N, N>(1 | (mc << 1), a_plus_b, c) != f_add<T, N, N>(3, ac, bc)) verif::fail("matrix::operator*|right-distributivity|" + L, all());
  // (A+B)+C = A+(B+C)
  if (f_add<T, N, N>(mc << 1, a_plus_b, c) != f_add<T, N, N>(ma, a, b_plus_c)) verif::fail("matrix::operator+|associativity|" + L, all());
}
}

#endif
