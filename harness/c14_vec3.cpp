// VERIF: rc quick_shards=2
// C14 - vector and dim arithmetic, dimension 3: exhaustive over all pairs of vectors with components
// in {-1,0,1,2} (dimensions up to 3), random vectors with components in [-9,9]; static, view and
// matrix-row-view storage. Reference: plain loops over std::array. Sections in c14_vec_sections.hpp.
#define C14_NMIN 3
#define C14_NMAX 3
#define C14_TAG "3"
#include "c14_vec_sections.hpp"
