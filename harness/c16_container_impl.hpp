// Section code of c16_container.cpp and c16_heap_container.cpp.
// C16 (part 3) - container::join / at_optional / find_opt(_mapped/_iterator) / get_or_insert(_with_result) /
// key_set / map_values_copy / map_values_ref / set_union / set_intersection / set_difference / contains /
// insert / maybe_front / maybe_back / pop_front / pop_back / index_map, array::init / map / append / join /
// push_back / from_range, tuple::map / concat / push_back against plain loops.
// Reading (DESIGN.md): get_or_insert_with_result: `inserted()` is true iff the key was absent before
// the call (the field's documentation; the function's prose has it the wrong way round).
#include "c16_common.hpp"

#include <fcppt/function_impl.hpp>
#include <fcppt/make_cref.hpp>
#include <fcppt/make_ref.hpp>
#include <fcppt/reference_comparison.hpp>
#include <fcppt/reference_impl.hpp>
#include <fcppt/array/append.hpp>
#include <fcppt/array/from_range.hpp>
#include <fcppt/array/get.hpp>
#include <fcppt/array/init.hpp>
#include <fcppt/array/join.hpp>
#include <fcppt/array/make.hpp>
#include <fcppt/array/map.hpp>
#include <fcppt/array/object.hpp>
#include <fcppt/array/push_back.hpp>
#include <fcppt/container/at_optional.hpp>
#include <fcppt/container/contains.hpp>
#include <fcppt/container/find_opt.hpp>
#include <fcppt/container/find_opt_iterator.hpp>
#include <fcppt/container/find_opt_mapped.hpp>
#include <fcppt/container/get_or_insert.hpp>
#include <fcppt/container/get_or_insert_result.hpp>
#include <fcppt/container/get_or_insert_with_result.hpp>
#include <fcppt/container/index_map.hpp>
#include <fcppt/container/insert.hpp>
#include <fcppt/container/join.hpp>
#include <fcppt/container/key_set.hpp>
#include <fcppt/container/map_values_copy.hpp>
#include <fcppt/container/map_values_ref.hpp>
#include <fcppt/container/maybe_back.hpp>
#include <fcppt/container/maybe_front.hpp>
#include <fcppt/container/pop_back.hpp>
#include <fcppt/container/pop_front.hpp>
#include <fcppt/container/set_difference.hpp>
#include <fcppt/container/set_intersection.hpp>
#include <fcppt/container/set_union.hpp>
#include <fcppt/optional/object.hpp>
#include <fcppt/optional/reference.hpp>
#include <fcppt/tuple/concat.hpp>
#include <fcppt/tuple/get.hpp>
#include <fcppt/tuple/make.hpp>
#include <fcppt/tuple/map.hpp>
#include <fcppt/tuple/object.hpp>
#include <fcppt/tuple/push_back.hpp>

#include <algorithm>
#include <deque>
#include <list>
#include <map>
#include <set>
#include <vector>

using namespace c16;

namespace
{
using IV = std::vector<int>;

// ------------------------------------------------------------------------------------------------
// container::join
template <typename C>
C make_off(Seq const &s, int off)
{
  C c;
  for (int i = 0; i < s.len; ++i) c.insert(c.end(), El(s.at(i), off + i));
  return c;
}
template <typename C>
void join_seq_checks(Seq const &a, Seq const &b, Seq const &c, IV const &want2, IV const &want3, char const *name)
{
  auto key = [name](char const *fn) { return [fn, name] { return std::string(fn) + "|" + name; }; };
  C const ca = make_off<C>(a, 0), cb = make_off<C>(b, 4), cc = make_off<C>(c, 8);
  IV const ia = ids(ca), ib = ids(cb), ic = ids(cc);
  {
    C const r2 = fcppt::container::join(ca, cb);
    C const r3 = fcppt::container::join(ca, cb, cc);
    C const r1 = fcppt::container::join(ca);
    chkk(ids(r2) == want2 && ids(r3) == want3 && ids(r1) == ia, key("container::join|result-lvalues"), [&] { return "join(" + show(a) + "," + show(b) + "[," + show(c) + "]) gave ids " + show(ids(r2)) + " / " + show(ids(r3)); });
    chkk(ids(ca) == ia && ids(cb) == ib && ids(cc) == ic, key("container::join|lvalue-arguments-unchanged"), [&] { return std::string("join changed an lvalue argument"); });
  }
  {
    C ma(ca), mb(cb);
    C const r3 = fcppt::container::join(std::move(ma), std::move(mb), cc);
    chkk(ids(r3) == want3 && ids(cc) == ic, key("container::join|result-rvalues"), [&] { return "join(move(" + show(a) + "),move(" + show(b) + ")," + show(c) + ") gave ids " + show(ids(r3)) + ", expected " + show(want3); });
  }
}
void join_case(i64 l1, i64 c1, i64 l2, i64 c2, i64 l3, i64 c3)
{
  Seq const a = seq_of(mod(l1, 4), c1), b = seq_of(mod(l2, 4), c2), c = seq_of(mod(l3, 3), c3);
  count((a.len == 0) + (b.len == 0) + (c.len == 0) >= 1 || (a.len + b.len + c.len >= 4));
  IV want2, want3;
  for (int i = 0; i < a.len; ++i) want2.push_back(a.at(i) * 16 + i);
  for (int i = 0; i < b.len; ++i) want2.push_back(b.at(i) * 16 + 4 + i);
  want3 = want2;
  for (int i = 0; i < c.len; ++i) want3.push_back(c.at(i) * 16 + 8 + i);
  join_seq_checks<std::vector<El>>(a, b, c, want2, want3, "vector");
  join_seq_checks<std::deque<El>>(a, b, c, want2, want3, "deque");
  join_seq_checks<std::list<El>>(a, b, c, want2, want3, "list");
  // associative containers: set = union of the values; map: insert semantics, the first entry of a key wins
  {
    std::set<int> sa, sb, sc, want;
    std::map<int, int> ma, mb, mc, wm;
    auto fill = [&](Seq const &s, int off, std::set<int> &st, std::map<int, int> &mp) {
      for (int i = 0; i < s.len; ++i)
      {
        st.insert(s.at(i));
        mp.insert(std::make_pair(s.at(i), off + i));
        want.insert(s.at(i));
        if (wm.find(s.at(i)) == wm.end()) wm[s.at(i)] = mp.find(s.at(i))->second;
      }
    };
    fill(a, 0, sa, ma);
    fill(b, 4, sb, mb);
    fill(c, 8, sc, mc);
    std::set<int> const rs = fcppt::container::join(sa, sb, sc);
    std::map<int, int> const rm = fcppt::container::join(ma, std::map<int, int>(mb), mc);
    chk(rs == want, "container::join|result|set", [&] { return "join of the value sets of " + show(a) + "," + show(b) + "," + show(c) + " gave " + show(ints(rs)); });
    chk(rm == wm, "container::join|result|map", [&] { return "join of the maps value->position of " + show(a) + "," + show(b) + "," + show(c) + " has " + std::to_string(rm.size()) + " entries or a wrong winner (the first entry of a key must win)"; });
  }
}
Reg const r_join{
    C16_SEC("cont_join"), Kind::exhaustive, "container::join of three containers: one of them empty, or at least 4 elements in total",
    [] {
      for_seqs(3, [](Seq const &a) {
        for_seqs(3, [&a](Seq const &b) {
          for_seqs(2, [&a, &b](Seq const &c) {
            cur({a.len, a.code, b.len, b.code, c.len, c.code});
            join_case(a.len, a.code, b.len, b.code, c.len, c.code);
          });
        });
      });
    },
    [](Ints const &c) { join_case(c.at(0), c.at(1), c.at(2), c.at(3), c.at(4), c.at(5)); },
    [](Ints const &c) { return "join(" + show(seq_of(mod(c.at(0), 4), c.at(1))) + ", " + show(seq_of(mod(c.at(2), 4), c.at(3))) + ", " + show(seq_of(mod(c.at(4), 3), c.at(5))) + ")"; }};

// ------------------------------------------------------------------------------------------------
// lookups: at_optional, find_opt*, contains, get_or_insert*, key_set, map_values_*, maybe_*/pop_*, insert
template <typename C>
void at_checks(Seq const &s, int index, char const *name)
{
  C src = make<C>(s);
  auto const r = fcppt::container::at_optional(src, static_cast<typename C::size_type>(index));
  auto const cr = fcppt::container::at_optional(std::as_const(src), static_cast<typename C::size_type>(index));
  bool const in = index < s.len;
  bool ok = r.has_value() == in && cr.has_value() == in;
  if (ok && in) ok = &r.get_unsafe().get() == &src[static_cast<std::size_t>(index)] && &cr.get_unsafe().get() == &src[static_cast<std::size_t>(index)] && r.get_unsafe().get().id() == s.at(index) * 16 + index;
  chkk(ok, [name, in] { return std::string(in ? "container::at_optional|result|index-in-range|" : "container::at_optional|result|index-out-of-range|") + name; }, [&] { return "at_optional(" + show(s) + ", " + std::to_string(index) + ") wrong"; });
  // indices beyond the signed range of the size type are out of range, too
  using size_type = typename C::size_type;
  for (size_type const huge : {static_cast<size_type>(-1), static_cast<size_type>(static_cast<size_type>(-1) / 2 + 1 + static_cast<size_type>(index)), static_cast<size_type>(static_cast<size_type>(-1) - static_cast<size_type>(index))})
  {
    bool const none = !fcppt::container::at_optional(src, huge).has_value() && !fcppt::container::at_optional(std::as_const(src), huge).has_value();
    chkk(none, [name] { return std::string("container::at_optional|result|huge-index|") + name; }, [&] { return "at_optional(" + show(s) + ", " + std::to_string(huge) + ") has a value"; });
  }
}
template <typename C, bool Front>
void ends_checks(Seq const &s, char const *name)
{
  auto key = [name](char const *fn) { return [fn, name] { return std::string(fn) + "|" + name; }; };
  C src = make<C>(s);
  {
    auto const b = fcppt::container::maybe_back(src);
    auto const cb = fcppt::container::maybe_back(std::as_const(src));
    bool ok = b.has_value() == (s.len > 0) && cb.has_value() == (s.len > 0);
    if (ok && s.len > 0) ok = &b.get_unsafe().get() == &src.back() && &cb.get_unsafe().get() == &src.back();
    chkk(ok, key("container::maybe_back|result"), [&] { return "maybe_back(" + show(s) + ") wrong"; });
    auto const f = fcppt::container::maybe_front(src);
    bool okf = f.has_value() == (s.len > 0);
    if (okf && s.len > 0) okf = &f.get_unsafe().get() == &src.front();
    chkk(okf, key("container::maybe_front|result"), [&] { return "maybe_front(" + show(s) + ") wrong"; });
  }
  {
    fcppt::optional::object<El> const p = fcppt::container::pop_back(src);
    IV want;
    for (int i = 0; i + 1 < s.len; ++i) want.push_back(s.at(i) * 16 + i);
    bool const ok = s.len == 0 ? !p.has_value() : (p.has_value() && p.get_unsafe().id() == s.at(s.len - 1) * 16 + s.len - 1);
    chkk(ok && ids(src) == want, key("container::pop_back|result"), [&] { return "pop_back(" + show(s) + ") left ids " + show(ids(src)); });
  }
  if constexpr (Front)
  {
    C src2 = make<C>(s);
    fcppt::optional::object<El> const p = fcppt::container::pop_front(src2);
    IV want;
    for (int i = 1; i < s.len; ++i) want.push_back(s.at(i) * 16 + i);
    bool const ok = s.len == 0 ? !p.has_value() : (p.has_value() && p.get_unsafe().id() == s.at(0) * 16);
    chkk(ok && ids(src2) == want, key("container::pop_front|result"), [&] { return "pop_front(" + show(s) + ") left ids " + show(ids(src2)); });
  }
}
void lookup_case(i64 len_, i64 code_, i64 key_)
{
  Seq const s = seq_of(len_, code_);
  int const key = static_cast<int>(mod(key_, 4));
  // the map value -> first element with that value (std::map::insert semantics, built by a loop)
  std::map<int, El> m;
  int first[4] = {-1, -1, -1, -1};
  for (int i = 0; i < s.len; ++i)
    if (first[s.at(i)] < 0)
    {
      first[s.at(i)] = i;
      m.insert(std::make_pair(s.at(i), El(s.at(i), i)));
    }
  bool const present = first[key] >= 0;
  count(s.len == 0 || (s.len >= 2 && s.has_duplicate()));
  char const *const pc = present ? "key-present" : "key-absent";
  auto key_of = [pc](char const *fn) { return [fn, pc] { return std::string(fn) + "|" + pc; }; };
  // at_optional for index key, key+len-1.. : indices 0..len+1 are covered through key and len
  for (int index : {key, s.len - 1 + key})
    if (index >= 0)
    {
      at_checks<std::vector<El>>(s, index, "vector");
      at_checks<std::deque<El>>(s, index, "deque");
    }
  if (key == 0)
  {
    ends_checks<std::vector<El>, false>(s, "vector");
    ends_checks<std::deque<El>, true>(s, "deque");
    ends_checks<std::list<El>, true>(s, "list");
    // key_set, map_values_copy, map_values_ref
    std::set<int> const ks = fcppt::container::key_set<std::set<int>>(m);
    IV wk, wv;
    for (int v = 0; v < 3; ++v)
      if (first[v] >= 0)
      {
        wk.push_back(v);
        wv.push_back(v * 16 + first[v]);
      }
    chk(ints(ks) == wk, "container::key_set|result", [&] { return "key_set of the map of " + show(s) + " = " + show(ints(ks)); });
    std::vector<El> const mv = fcppt::container::map_values_copy<std::vector<El>>(m);
    chk(ids(mv) == wv, "container::map_values_copy|result", [&] { return "map_values_copy of the map of " + show(s) + " gave ids " + show(ids(mv)) + ", expected " + show(wv); });
    auto const refs = fcppt::container::map_values_ref<std::vector<fcppt::reference<El>>>(m);
    auto const crefs = fcppt::container::map_values_ref<std::vector<fcppt::reference<El const>>>(std::as_const(m));
    bool ok = refs.size() == m.size() && crefs.size() == m.size();
    std::size_t i = 0;
    for (auto &e : m)
    {
      if (ok) ok = &refs[i].get() == &e.second && &crefs[i].get() == &e.second;
      ++i;
    }
    chk(ok, "container::map_values_ref|result", [&] { return "map_values_ref of the map of " + show(s) + " does not refer to the mapped objects in order"; });
  }
  // find_opt_iterator / find_opt / find_opt_mapped / contains
  {
    auto const it = fcppt::container::find_opt_iterator(m, key);
    auto const cit = fcppt::container::find_opt_iterator(std::as_const(m), key);
    chkk(it.has_value() == present && cit.has_value() == present && (!present || (it.get_unsafe() == m.find(key) && cit.get_unsafe() == std::as_const(m).find(key))), key_of("container::find_opt_iterator|result"), [&] { return "find_opt_iterator(map of " + show(s) + ", " + std::to_string(key) + ") wrong"; });
    auto const fo = fcppt::container::find_opt(m, key);
    chkk(fo.has_value() == present && (!present || &fo.get_unsafe().get() == &*m.find(key)), key_of("container::find_opt|result"), [&] { return "find_opt(map of " + show(s) + ", " + std::to_string(key) + ") wrong"; });
    auto const fm = fcppt::container::find_opt_mapped(m, key);
    auto const cfm = fcppt::container::find_opt_mapped(std::as_const(m), key);
    chkk(fm.has_value() == present && cfm.has_value() == present && (!present || (&fm.get_unsafe().get() == &m.find(key)->second && &cfm.get_unsafe().get() == &m.find(key)->second && fm.get_unsafe().get().id() == key * 16 + first[key])), key_of("container::find_opt_mapped|result"), [&] { return "find_opt_mapped(map of " + show(s) + ", " + std::to_string(key) + ") wrong"; });
    std::set<int> st;
    for (int i = 0; i < s.len; ++i) st.insert(s.at(i));
    chkk(fcppt::container::contains(m, key) == present && fcppt::container::contains(st, key) == present, key_of("container::contains|result"), [&] { return "contains(map/set of " + show(s) + ", " + std::to_string(key) + ") wrong"; });
    std::size_t const before = st.size();
    bool const ins = fcppt::container::insert(st, key);
    chkk(ins == !present && st.size() == before + (present ? 0U : 1U) && st.count(key) == 1, key_of("container::insert|result"), [&] { return "insert(set of " + show(s) + ", " + std::to_string(key) + ") returned " + std::to_string(ins); });
  }
  // get_or_insert_with_result / get_or_insert
  {
    std::map<int, El> m1(m), m2(m);
    int calls = 0, bad = 0;
    auto create = [&](int const &k) {
      ++calls;
      if (k != key) ++bad;
      return El(k % 3, 9);
    };
    auto const r = fcppt::container::get_or_insert_with_result(m1, key, create);
    bool ok = r.inserted() == !present && calls == (present ? 0 : 1) && bad == 0 && m1.size() == m.size() + (present ? 0U : 1U) && m1.count(key) == 1 && &r.element() == &m1.find(key)->second;
    if (ok) ok = r.element().id() == (present ? key * 16 + first[key] : (key % 3) * 16 + 9);
    chkk(ok, key_of("container::get_or_insert_with_result|result"), [&] { return "get_or_insert_with_result(map of " + show(s) + ", " + std::to_string(key) + "): inserted() = " + std::to_string(r.inserted()) + ", create called " + std::to_string(calls) + " times, map size " + std::to_string(m1.size()); });
    // the other entries are untouched
    bool others = true;
    for (auto const &e : m)
      if (e.first != key) others = others && m1.count(e.first) == 1 && m1.find(e.first)->second.id() == e.second.id();
    chkk(others, key_of("container::get_or_insert_with_result|other-entries"), [&] { return std::string("another entry of the map changed"); });
    calls = 0;
    El &e2 = fcppt::container::get_or_insert(m2, key, create);
    chkk(&e2 == &m2.find(key)->second && calls == (present ? 0 : 1) && bad == 0 && e2.id() == (present ? key * 16 + first[key] : (key % 3) * 16 + 9) && m2.size() == m.size() + (present ? 0U : 1U), key_of("container::get_or_insert|result"), [&] { return "get_or_insert(map of " + show(s) + ", " + std::to_string(key) + ") wrong, create called " + std::to_string(calls) + " times"; });
  }
}
Reg const r_lookup{
    C16_SEC("cont_lookup_insert"), Kind::exhaustive, "at_optional / find_opt* / contains / insert / get_or_insert* / key_set / map_values_* / maybe_* / pop_*: empty container, or length >= 2 with a duplicate value (so the map has fewer entries than the sequence)",
    [] {
      for_seqs(max_len(), [](Seq const &s) {
        for (i64 k = 0; k < 4; ++k)
        {
          cur3(s.len, s.code, k);
          lookup_case(s.len, s.code, k);
        }
      });
    },
    [](Ints const &c) { return lookup_case(c.at(0), c.at(1), c.at(2)); },
    [](Ints const &c) { return "lookups with key/index " + std::to_string(mod(c.at(2), 4)) + " in containers built from " + show(seq_of(c.at(0), c.at(1))); }};

// ------------------------------------------------------------------------------------------------
// set_union / set_intersection / set_difference over all pairs of subsets of {0,..,4}
void sets_case(i64 a_, i64 b_)
{
  int const a = static_cast<int>(mod(a_, 32)), b = static_cast<int>(mod(b_, 32));
  count((a & b) != 0 && (a & ~b) != 0 && (b & ~a) != 0);
  auto mk = [](int mask) {
    std::set<int> s;
    for (int i = 0; i < 5; ++i)
      if (mask & (1 << i)) s.insert(i);
    return s;
  };
  std::set<int> const sa = mk(a), sb = mk(b);
  auto const u = fcppt::container::set_union(sa, sb), n = fcppt::container::set_intersection(sa, sb), d = fcppt::container::set_difference(sa, sb);
  chk(u == mk(a | b), "container::set_union|result", [&] { return "set_union of masks " + std::to_string(a) + "," + std::to_string(b) + " = " + show(ints(u)); });
  chk(n == mk(a & b), "container::set_intersection|result", [&] { return "set_intersection of masks " + std::to_string(a) + "," + std::to_string(b) + " = " + show(ints(n)); });
  chk(d == mk(a & ~b), "container::set_difference|result", [&] { return "set_difference of masks " + std::to_string(a) + "," + std::to_string(b) + " = " + show(ints(d)); });
  // (std::map operands: c16_container_maps.cpp, a translation unit of its own)
}
Reg const r_sets{
    C16_SEC("cont_set_operations"), Kind::exhaustive, "set_union / set_intersection / set_difference: the sets overlap and each has an element the other lacks",
    [] {
      for (i64 a = 0; a < 32; ++a)
        for (i64 b = 0; b < 32; ++b)
        {
          cur2(a, b);
          sets_case(a, b);
        }
    },
    [](Ints const &c) { sets_case(c.at(0), c.at(1)); },
    [](Ints const &c) { return "set operations on the subsets of {0..4} with bit masks " + std::to_string(mod(c.at(0), 32)) + " and " + std::to_string(mod(c.at(1), 32)); }};

// ------------------------------------------------------------------------------------------------
// index_map: all histories of up to 4 accesses with indices 0..3 (get with an insert function, then [])
// Reading: "If there is no such element, the result of insert() is inserted. Note that insert might be
// called multiple times": demanded are no call when the index exists, at least one call otherwise,
// size = index + 1 afterwards, old elements untouched and every new element a value that insert()
// returned during this call; not the exact number of calls.
void index_map_case(i64 len_, i64 code_)
{
  int const len = static_cast<int>(mod(len_, 5));
  i64 const code = mod(code_, ipow(8, len));
  fcppt::container::index_map<int> im{};
  IV model;
  int next = 100;
  count(len >= 2);
  for (int i = 0; i < len; ++i)
  {
    int const op = dig(code, i, 8), index = op % 4;
    bool const use_get = op >= 4;
    std::size_t const before = model.size();
    bool const present = before > static_cast<std::size_t>(index);
    std::size_t const want_size = present ? before : static_cast<std::size_t>(index) + 1U;
    if (use_get)
    {
      int calls = 0;
      int const base = next;
      int &r = im.get(static_cast<std::size_t>(index), fcppt::container::index_map<int>::insert_function{[&calls, base] { return base + calls++; }});
      next += calls + 1;
      chk(present ? calls == 0 : calls >= 1, present ? "container::index_map|get-insert-calls|index-present" : "container::index_map|get-insert-calls|index-beyond-size", [&] { return "index_map::get(" + std::to_string(index) + ") with size " + std::to_string(before) + " called insert " + std::to_string(calls) + " times"; });
      IV const &now = im.impl();
      bool ok = now.size() == want_size && &r == &now[static_cast<std::size_t>(index)];
      for (std::size_t k = 0; ok && k < now.size(); ++k) ok = k < before ? now[k] == model[k] : (now[k] >= base && now[k] < base + calls);
      chk(ok, "container::index_map|get-result", [&] { return "index_map after get(" + std::to_string(index) + ") = " + show(now) + ", before " + show(model) + ", insert returned " + std::to_string(base) + ".." + std::to_string(base + calls - 1); });
      model = now; // the new elements were validated above
      model.resize(want_size, -1);
      r = 50 + i; // write through the reference
      model[static_cast<std::size_t>(index)] = 50 + i;
    }
    else
    {
      int &r = im[static_cast<std::size_t>(index)];
      model.resize(want_size, 0); // operator[] inserts T()
      chk(im.impl() == model && &r == &im.impl()[static_cast<std::size_t>(index)], "container::index_map|subscript-result", [&] { return "index_map after [" + std::to_string(index) + "] = " + show(im.impl()) + ", expected " + show(model); });
      r = 70 + i;
      model[static_cast<std::size_t>(index)] = 70 + i;
    }
    chk(im.impl() == model, "container::index_map|write-through-reference", [&] { return "index_map after a write = " + show(im.impl()) + ", expected " + show(model); });
  }
}
Reg const r_index_map{
    C16_SEC("cont_index_map"), Kind::exhaustive, "index_map: histories of at least two accesses",
    [] {
      for (i64 len = 0; len <= 4; ++len)
        for (i64 code = 0, n = ipow(8, static_cast<int>(len)); code < n; ++code)
        {
          cur2(len, code);
          index_map_case(len, code);
        }
    },
    [](Ints const &c) { index_map_case(c.at(0), c.at(1)); },
    [](Ints const &c) { return "index_map history of " + std::to_string(mod(c.at(0), 5)) + " accesses, code " + std::to_string(c.at(1)) + " (base-8 digits: index = d%4, d>=4: get with insert function, else operator[])"; }};

// ------------------------------------------------------------------------------------------------
// arrays: init / map / append / join / push_back / from_range for all size pairs 0..3 x 0..3
template <std::size_t N>
fcppt::array::object<El, N> make_array(i64 code, int off)
{
  return fcppt::array::init<fcppt::array::object<El, N>>([code, off]<std::size_t I>(std::integral_constant<std::size_t, I>) { return El(dig(code, static_cast<int>(I), 3), off + static_cast<int>(I)); });
}
template <std::size_t N1, std::size_t N2>
void array_pair(i64 code)
{
  i64 const c1 = code % 27, c2 = (code / 27) % 27;
  IV w1, w2, w12;
  for (std::size_t i = 0; i < N1; ++i) w1.push_back(dig(c1, static_cast<int>(i), 3) * 16 + static_cast<int>(i));
  for (std::size_t i = 0; i < N2; ++i) w2.push_back(dig(c2, static_cast<int>(i), 3) * 16 + 4 + static_cast<int>(i));
  w12 = w1;
  w12.insert(w12.end(), w2.begin(), w2.end());
  // init: one call per index, element i = f(i). Reading: the property statement lists array::init and
  // array::map among the helpers that "visit elements in order"; the implementation guarantees it
  // (braced initialisation evaluates left to right), so the calls must come in index order.
  IV log;
  auto const ini = fcppt::array::init<fcppt::array::object<int, N1>>([&log]<std::size_t I>(std::integral_constant<std::size_t, I>) { log.push_back(static_cast<int>(I)); return static_cast<int>(I) * 7; });
  IV wi, sorted = log;
  for (std::size_t i = 0; i < N1; ++i) wi.push_back(static_cast<int>(i) * 7);
  std::sort(sorted.begin(), sorted.end());
  IV wl;
  for (std::size_t i = 0; i < N1; ++i) wl.push_back(static_cast<int>(i));
  chk(ints(ini) == wi && sorted == wl, "array::init|result", [&] { return "array::init<" + std::to_string(N1) + "> gave " + show(ints(ini)) + " with calls " + show(log); });
  chk(log == wl, "array::init|call-order", [&] { return "array::init<" + std::to_string(N1) + "> called its function in the order " + show(log) + ", expected index order"; });
  auto const a1 = make_array<N1>(c1, 0);
  auto const a2 = make_array<N2>(c2, 4);
  chk(ids(a1) == w1 && ids(a2) == w2, "array::init|result-elements", [&] { return "array::init of elements gave ids " + show(ids(a1)) + " " + show(ids(a2)); });
  // map (direct call)
  {
    IV mlog;
    auto const m = fcppt::array::map(a1, [&mlog](El const &e) { mlog.push_back(e.pos()); return e.id() + 1000; });
    IV wm, s2 = mlog;
    for (int x : w1) wm.push_back(x + 1000);
    std::sort(s2.begin(), s2.end());
    chk(ints(m) == wm && s2 == wl, "array::map|result", [&] { return "array::map over " + show(w1) + " gave " + show(ints(m)) + " with calls " + show(mlog); });
    chk(mlog == wl, "array::map|call-order", [&] { return "array::map visited the positions " + show(mlog) + ", expected index order"; });
    auto const mm = fcppt::array::map(make_array<N1>(c1, 0), [](El &&e) { return El(std::move(e)); });
    chk(ids(mm) == w1, "array::map|result-rvalue", [&] { return "array::map over an rvalue gave ids " + show(ids(mm)); });
  }
  // append / join / push_back: the first array (every array but the last for join) has to be an rvalue:
  // with an lvalue append.hpp does not compile (array::size<Array1> is applied to a reference type)
  using arr1 = fcppt::array::object<El, N1>;
  using arr2 = fcppt::array::object<El, N2>;
  {
    fcppt::array::object<El, N1 + N2> const ap = fcppt::array::append(arr1(a1), a2);
    fcppt::array::object<El, N1 + N2> const apr = fcppt::array::append(make_array<N1>(c1, 0), make_array<N2>(c2, 4));
    chk(ids(ap) == w12 && ids(apr) == w12 && ids(a1) == w1 && ids(a2) == w2, "array::append|result", [&] { return "append(" + show(w1) + "," + show(w2) + ") gave ids " + show(ids(ap)) + " / " + show(ids(apr)); });
  }
  // join of three (the third has N1 elements again, offset 8), join of one
  {
    auto const a3 = make_array<N1>(c1, 8);
    IV w123 = w12;
    for (std::size_t i = 0; i < N1; ++i) w123.push_back(dig(c1, static_cast<int>(i), 3) * 16 + 8 + static_cast<int>(i));
    fcppt::array::object<El, N1 + N2 + N1> const j = fcppt::array::join(arr1(a1), arr2(a2), a3);
    fcppt::array::object<El, N1 + N2 + N1> const jr = fcppt::array::join(make_array<N1>(c1, 0), arr2(a2), make_array<N1>(c1, 8));
    fcppt::array::object<El, N1> const j1 = fcppt::array::join(a1);
    fcppt::array::object<El, N1 + N2> const j2 = fcppt::array::join(arr1(a1), a2);
    chk(ids(j) == w123 && ids(jr) == w123 && ids(j1) == w1 && ids(j2) == w12, "array::join|result", [&] { return "join of arrays gave ids " + show(ids(j)) + " / " + show(ids(jr)) + ", expected " + show(w123); });
  }
  // push_back
  {
    El const extra(2, 12);
    fcppt::array::object<El, N1 + 1> const p = fcppt::array::push_back(arr1(a1), extra);
    fcppt::array::object<El, N1 + 1> const pr = fcppt::array::push_back(make_array<N1>(c1, 0), El(2, 12));
    IV wp = w1;
    wp.push_back(2 * 16 + 12);
    chk(ids(p) == wp && ids(pr) == wp && extra.id() == 2 * 16 + 12, "array::push_back|result", [&] { return "push_back gave ids " + show(ids(p)) + " / " + show(ids(pr)); });
  }
  // from_range<N1> of a vector / deque with N2 elements
  {
    std::vector<El> v;
    for (std::size_t i = 0; i < N2; ++i) v.push_back(El(dig(c2, static_cast<int>(i), 3), 4 + static_cast<int>(i)));
    std::deque<El> d(v.begin(), v.end());
    auto const f = fcppt::array::from_range<N1>(std::as_const(v));
    auto const fd = fcppt::array::from_range<N1>(std::as_const(d));
    auto const fr = fcppt::array::from_range<N1>(std::vector<El>(v));
    bool const fits = N1 == N2;
    bool ok = f.has_value() == fits && fr.has_value() == fits && fd.has_value() == fits && ids(v) == w2;
    if (ok && fits) ok = ids(f.get_unsafe()) == w2 && ids(fr.get_unsafe()) == w2 && ids(fd.get_unsafe()) == w2;
    chk(ok, fits ? "array::from_range|result|size-matches" : "array::from_range|result|size-differs", [&] { return "from_range<" + std::to_string(N1) + "> of " + std::to_string(N2) + " elements wrong"; });
  }
}
using array_fn = void (*)(i64);
template <std::size_t... I>
std::array<array_fn, 16> make_array_table(std::index_sequence<I...>)
{
  return {{&array_pair<I / 4, I % 4>...}};
}
std::array<array_fn, 16> const array_table = make_array_table(std::make_index_sequence<16>{});
void array_case(i64 n1_, i64 n2_, i64 code_)
{
  int const n1 = static_cast<int>(mod(n1_, 4)), n2 = static_cast<int>(mod(n2_, 4));
  count(n1 == 0 || n2 == 0 || n1 + n2 >= 4);
  array_table[static_cast<std::size_t>(n1 * 4 + n2)](mod(code_, 729));
}
Reg const r_array{
    C16_SEC("array_helpers"), Kind::exhaustive, "array::init / map / append / join / push_back / from_range: one array empty or at least 4 elements in total",
    [] {
      for (i64 n1 = 0; n1 < 4; ++n1)
        for (i64 n2 = 0; n2 < 4; ++n2)
          for (i64 c1 = 0; c1 < ipow(3, static_cast<int>(n1)); ++c1)
            for (i64 c2 = 0; c2 < ipow(3, static_cast<int>(n2)); ++c2)
            {
              cur3(n1, n2, c1 + 27 * c2);
              array_case(n1, n2, c1 + 27 * c2);
            }
    },
    [](Ints const &c) { array_case(c.at(0), c.at(1), c.at(2)); },
    [](Ints const &c) { return "array helpers with sizes " + std::to_string(mod(c.at(0), 4)) + " and " + std::to_string(mod(c.at(1), 4)) + ", element codes " + std::to_string(mod(c.at(2), 729) % 27) + " / " + std::to_string(mod(c.at(2), 729) / 27) + " (base-3 digits)"; }};

// ------------------------------------------------------------------------------------------------
// tuples: map / concat / push_back for the shapes (), (El), (El,int) x (), (long), (long,El)
struct TupleLog
{
  IV *log;
  int operator()(El const &e) const { log->push_back(1000 + e.id()); return 1000 + e.id(); }
  int operator()(int x) const { log->push_back(2000 + x); return 2000 + x; }
  int operator()(long x) const { log->push_back(3000 + static_cast<int>(x)); return 3000 + static_cast<int>(x); }
};
template <typename T>
IV flatten(T const &t)
{
  // the elements of a tuple as ints, through the TupleLog encoding, using get<I>
  IV r;
  [&]<std::size_t... I>(std::index_sequence<I...>) { (TupleLog{&r}(fcppt::tuple::get<I>(t)), ...); }(std::make_index_sequence<std::tuple_size_v<typename T::impl_type>>{});
  return r;
}
template <int S1>
auto make_t1(int x)
{
  if constexpr (S1 == 0) return fcppt::tuple::object<>{};
  else if constexpr (S1 == 1) return fcppt::tuple::make(El(x % 3, 1));
  else return fcppt::tuple::make(El(x % 3, 1), x + 5);
}
template <int S2>
auto make_t2(int x)
{
  if constexpr (S2 == 0) return fcppt::tuple::object<>{};
  else if constexpr (S2 == 1) return fcppt::tuple::make(static_cast<long>(x + 7));
  else return fcppt::tuple::make(static_cast<long>(x + 7), El((x + 1) % 3, 2));
}
template <int S1, int S2>
void tuple_pair(int x)
{
  IV w1, w2;
  if (S1 >= 1) w1.push_back(1000 + (x % 3) * 16 + 1);
  if (S1 >= 2) w1.push_back(2000 + x + 5);
  if (S2 >= 1) w2.push_back(3000 + x + 7);
  if (S2 >= 2) w2.push_back(1000 + ((x + 1) % 3) * 16 + 2);
  IV w12 = w1;
  w12.insert(w12.end(), w2.begin(), w2.end());
  auto const t1 = make_t1<S1>(x);
  auto const t2 = make_t2<S2>(x);
  // concat: two, three, one tuple. Only rvalue tuples are accepted: the enable_if applies
  // tuple::is_object to the deduced (reference) types, so a call with an lvalue finds no overload.
  using T1 = std::remove_cvref_t<decltype(t1)>;
  using T2 = std::remove_cvref_t<decltype(t2)>;
  {
    auto const c = fcppt::tuple::concat(T1(t1), T2(t2));
    auto const cr = fcppt::tuple::concat(make_t1<S1>(x), make_t2<S2>(x));
    auto const c3 = fcppt::tuple::concat(T1(t1), T2(t2), T1(t1));
    auto const c1 = fcppt::tuple::concat(T1(t1));
    IV w121 = w12;
    w121.insert(w121.end(), w1.begin(), w1.end());
    chk(flatten(c) == w12 && flatten(cr) == w12 && flatten(c3) == w121 && flatten(c1) == w1 && flatten(t1) == w1 && flatten(t2) == w2, "tuple::concat|result", [&] { return "tuple::concat of shapes " + std::to_string(S1) + "," + std::to_string(S2) + " gave " + show(flatten(c)) + " / " + show(flatten(cr)) + ", expected " + show(w12); });
  }
  // push_back
  {
    El const extra(2, 3);
    auto const p = fcppt::tuple::push_back(t1, extra);
    auto const pr = fcppt::tuple::push_back(make_t2<S2>(x), El(2, 3));
    auto const pi = fcppt::tuple::push_back(t1, 4);
    IV wp = w1, wpr = w2, wpi = w1;
    wp.push_back(1000 + 2 * 16 + 3);
    wpr.push_back(1000 + 2 * 16 + 3);
    wpi.push_back(2004);
    chk(flatten(p) == wp && flatten(pr) == wpr && flatten(pi) == wpi && extra.id() == 2 * 16 + 3, "tuple::push_back|result", [&] { return "tuple::push_back gave " + show(flatten(p)) + " / " + show(flatten(pr)); });
  }
  // map: Reading: tuple::init does not document the order of the calls; one call per element demanded
  {
    IV log;
    auto const m = fcppt::tuple::map(fcppt::tuple::concat(T1(t1), T2(t2)), TupleLog{&log});
    IV got;
    [&]<std::size_t... I>(std::index_sequence<I...>) { (got.push_back(fcppt::tuple::get<I>(m)), ...); }(std::make_index_sequence<static_cast<std::size_t>(S1 + S2)>{});
    IV sl = log, sw = w12;
    std::sort(sl.begin(), sl.end());
    std::sort(sw.begin(), sw.end());
    chk(got == w12 && sl == sw, "tuple::map|result", [&] { return "tuple::map gave " + show(got) + " with calls " + show(log) + ", expected " + show(w12); });
    // the statement lists tuple::map among the helpers that visit elements in order; the
    // implementation guarantees it (braced initialisation in tuple::init)
    chk(log == w12, "tuple::map|call-order", [&] { return "tuple::map called its function in the order " + show(log) + ", expected " + show(w12); });
    auto const mr = fcppt::tuple::map(make_t1<S1>(x), [](auto &&v) { return std::remove_cvref_t<decltype(v)>(std::forward<decltype(v)>(v)); });
    chk(flatten(mr) == w1, "tuple::map|result-rvalue", [&] { return "tuple::map(rvalue, move) gave " + show(flatten(mr)); });
  }
}
using tuple_fn = void (*)(int);
tuple_fn const tuple_table[9] = {&tuple_pair<0, 0>, &tuple_pair<0, 1>, &tuple_pair<0, 2>, &tuple_pair<1, 0>, &tuple_pair<1, 1>, &tuple_pair<1, 2>, &tuple_pair<2, 0>, &tuple_pair<2, 1>, &tuple_pair<2, 2>};
void tuple_case(i64 s1_, i64 s2_, i64 x_)
{
  int const s1 = static_cast<int>(mod(s1_, 3)), s2 = static_cast<int>(mod(s2_, 3));
  count(s1 == 0 || s2 == 0 || s1 + s2 >= 3);
  tuple_table[s1 * 3 + s2](static_cast<int>(mod(x_, 6)));
}
Reg const r_tuple{
    C16_SEC("tuple_helpers"), Kind::exhaustive, "tuple::map / concat / push_back: an empty tuple or at least 3 elements in total",
    [] {
      for (i64 s1 = 0; s1 < 3; ++s1)
        for (i64 s2 = 0; s2 < 3; ++s2)
          for (i64 x = 0; x < 6; ++x)
          {
            cur3(s1, s2, x);
            tuple_case(s1, s2, x);
          }
    },
    [](Ints const &c) { tuple_case(c.at(0), c.at(1), c.at(2)); },
    [](Ints const &c) { return "tuple helpers with shapes " + std::to_string(mod(c.at(0), 3)) + " x " + std::to_string(mod(c.at(1), 3)) + " (0 = (), 1 = one element, 2 = two elements), base value " + std::to_string(mod(c.at(2), 6)); }};
}
