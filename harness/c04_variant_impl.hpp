// Section code of c04_variant.cpp (plain values) and c04_heap_variant.cpp (thorough tier, heap-owning values).
// C04 (part 3) - fcppt::variant operations against the tagged-union model.
// Domain: variant<A,B,C> with A = {a0,a1}, B = {b0,b1,b2}, C = {c0,c1,c2}: all 8 values, all pairs
// (64) and triples (512); ALL continuation tables A->R (9), B->R (27), C->R (27) for match / apply;
// all comparison tables for compare (2^(n*n) per alternative type).
// Oracle: integer model (type index, value index).
#include "c04_common.hpp"

#include <fcppt/make_cref.hpp>
#include <fcppt/make_ref.hpp>
#include <fcppt/reference_impl.hpp>
#include <fcppt/optional/object.hpp>
#include <fcppt/optional/reference.hpp>
#include <fcppt/variant/apply.hpp>
#include <fcppt/variant/compare.hpp>
#include <fcppt/variant/comparison.hpp>
#include <fcppt/variant/get_unsafe.hpp>
#include <fcppt/variant/holds_type.hpp>
#include <fcppt/variant/match.hpp>
#include <fcppt/variant/object.hpp>
#include <fcppt/variant/to_optional.hpp>
#include <fcppt/variant/to_optional_ref.hpp>

#include <type_traits>

using namespace c04;

namespace
{
using A = Val<'a', 2>;
using B = Val<'b', 3>;
using C = Val<'c', 3>;
using V = fcppt::variant::object<A, B, C>;

constexpr int first_code[] = {0, 2, 5, 8};
int type_of(int v) { return v < 2 ? 0 : v < 5 ? 1 : 2; }
int value_of(int v) { return v - first_code[type_of(v)]; }
V mk(int v)
{
  switch (type_of(v))
  {
  case 0: return V{A(value_of(v))};
  case 1: return V{B(value_of(v))};
  default: return V{C(value_of(v))};
  }
}
template <typename T>
constexpr int tix = std::is_same_v<T, A> ? 0 : std::is_same_v<T, B> ? 1 : std::is_same_v<T, C> ? 2 : -1;
// code of a variant, read through the public observers; -1 if inconsistent / bad value
int code(V const &v)
{
  int const ti = static_cast<int>(v.type_index());
  int const held = (fcppt::variant::holds_type<A>(v) ? 1 : 0) + (fcppt::variant::holds_type<B>(v) ? 2 : 0) + (fcppt::variant::holds_type<C>(v) ? 4 : 0);
  if (held != (1 << ti) || v.is_invalid()) return -2;
  int const vi = ti == 0 ? v.get_unsafe<A>().idx() : ti == 1 ? v.get_unsafe<B>().idx() : v.get_unsafe<C>().idx();
  return vi < 0 ? -1 : first_code[ti] + vi;
}
std::string vn(int v)
{
  if (v < 0 || v > 7) return "<bad variant>";
  return std::string(1, "abc"[type_of(v)]) + std::to_string(value_of(v));
}

template <typename From>
auto table(i64 f, Calls &c)
{
  return [f, &c](From x) -> R {
    int const i = x.idx();
    c.hit(i);
    return R(i < 0 ? 0 : dig(f, i, 3));
  };
}
// overloaded visitor built from three tables
struct Visitor
{
  i64 fa, fb, fc;
  Calls *ca, *cb, *cc;
  R operator()(A x) const { ca->hit(x.idx()); return R(x.idx() < 0 ? 0 : dig(fa, x.idx(), 3)); }
  R operator()(B x) const { cb->hit(x.idx()); return R(x.idx() < 0 ? 0 : dig(fb, x.idx(), 3)); }
  R operator()(C x) const { cc->hit(x.idx()); return R(x.idx() < 0 ? 0 : dig(fc, x.idx(), 3)); }
};

// ------------------------------------------------------------------------------------------------
void match_case(i64 v_, i64 fa_, i64 fb_, i64 fc_)
{
  int const v = static_cast<int>(mod(v_, 8));
  i64 const fa = mod(fa_, 9), fb = mod(fb_, 27), fc = mod(fc_, 27);
  int const ti = type_of(v), vi = value_of(v);
  int const want = dig(ti == 0 ? fa : ti == 1 ? fb : fc, vi, 3);
  count(!constant_table(ti == 0 ? fa : ti == 1 ? fb : fc, ti == 0 ? 2 : 3, 3));
  static char const *const kres[] = {"variant::match|result|first-alternative", "variant::match|result|middle-alternative", "variant::match|result|last-alternative"};
  static char const *const kcalls[] = {"variant::match|calls|first-alternative", "variant::match|calls|middle-alternative", "variant::match|calls|last-alternative"};
  static char const *const ares[] = {"variant::apply|result|first-alternative", "variant::apply|result|middle-alternative", "variant::apply|result|last-alternative"};
  static char const *const acalls[] = {"variant::apply|calls|first-alternative", "variant::apply|calls|middle-alternative", "variant::apply|calls|last-alternative"};
  both_categories([&](auto rv) {
    constexpr bool RV = decltype(rv)::value;
    {
      Calls ca, cb, cc;
      V src = mk(v);
      R const r = fcppt::variant::match(pass<RV>(src), table<A>(fa, ca), table<B>(fb, cb), table<C>(fc, cc));
      chk(r.idx() == want, kres[ti], [&] { return std::string(cat_name(RV)) + " match(" + vn(v) + ") = " + vname<R>(r.idx()) + ", expected r" + std::to_string(want); });
      chk(ca.exactly(ti == 0 ? vi : -1) && cb.exactly(ti == 1 ? vi : -1) && cc.exactly(ti == 2 ? vi : -1), kcalls[ti], [&] { return std::string(cat_name(RV)) + " match(" + vn(v) + "): A-function " + ca.str() + " B-function " + cb.str() + " C-function " + cc.str(); });
    }
    {
      Calls ca, cb, cc;
      V src = mk(v);
      R const r = fcppt::variant::apply(Visitor{fa, fb, fc, &ca, &cb, &cc}, pass<RV>(src));
      chk(r.idx() == want, ares[ti], [&] { return std::string(cat_name(RV)) + " apply(visitor," + vn(v) + ") = " + vname<R>(r.idx()) + ", expected r" + std::to_string(want); });
      chk(ca.exactly(ti == 0 ? vi : -1) && cb.exactly(ti == 1 ? vi : -1) && cc.exactly(ti == 2 ? vi : -1), acalls[ti], [&] { return std::string(cat_name(RV)) + " apply(visitor," + vn(v) + "): A " + ca.str() + " B " + cb.str() + " C " + cc.str(); });
    }
  });
}
// match over alternatives that CONVERT into each other (int, long, double, bool): the function of the
// held alternative is the one at the same position, not the first one that could be called with the
// value
void match_convertible_case(i64 which_, i64 val_)
{
  int const which = static_cast<int>(mod(which_, 4)), val = static_cast<int>(mod(val_, 3));
  count(which >= 1);
  using CV = fcppt::variant::object<int, long, double, bool>;
  CV const src = which == 0 ? CV{val} : which == 1 ? CV{static_cast<long>(val)} : which == 2 ? CV{static_cast<double>(val)} : CV{val != 0};
  int called[4] = {0, 0, 0, 0};
  int const r = fcppt::variant::match(
      src, [&called](int) { ++called[0]; return 0; }, [&called](long) { ++called[1]; return 1; }, [&called](double) { ++called[2]; return 2; }, [&called](bool) { ++called[3]; return 3; });
  bool ok = r == which;
  for (int i = 0; i < 4; ++i) ok = ok && called[i] == (i == which ? 1 : 0);
  chk(ok, "variant::match|convertible-alternatives|wrong-function", [&] {
    return std::string("match on variant<int,long,double,bool> holding alternative #") + std::to_string(which) + " called the functions " + std::to_string(called[0]) + "," + std::to_string(called[1]) + "," + std::to_string(called[2]) + "," + std::to_string(called[3]) + " times and returned " + std::to_string(r);
  });
}
Reg const r_match_conv{
    C04_SEC("variant_match_convertible_alternatives"), Kind::exhaustive, "the held alternative is not the first one",
    [] { for (i64 w = 0; w < 4; ++w) for (i64 v = 0; v < 3; ++v) { cur2(w, v); match_convertible_case(w, v); } },
    [](Ints const &c) { match_convertible_case(c.at(0), c.at(1)); },
    [](Ints const &c) { return "match on variant<int,long,double,bool> holding alternative #" + std::to_string(mod(c.at(0), 4)) + " with value " + std::to_string(mod(c.at(1), 3)); }};

Reg const r_match{
    C04_SEC("variant_match_apply"), Kind::exhaustive, "variant::match / unary variant::apply: the continuation table of the held alternative is not constant",
    [] {
      for (i64 v = 0; v < 8; ++v)
        for (i64 fa = 0; fa < 9; ++fa)
          for (i64 fb = 0; fb < 27; ++fb)
            for (i64 fc = 0; fc < 27; ++fc)
            {
              cur4(v, fa, fb, fc);
              match_case(v, fa, fb, fc);
            }
    },
    [](Ints const &c) { match_case(c.at(0), c.at(1), c.at(2), c.at(3)); },
    [](Ints const &c) { return "match/apply on " + vn(static_cast<int>(mod(c.at(0), 8))) + " with tables A->R #" + std::to_string(mod(c.at(1), 9)) + ", B->R #" + std::to_string(mod(c.at(2), 27)) + ", C->R #" + std::to_string(mod(c.at(3), 27)); }};

// ------------------------------------------------------------------------------------------------
// binary / ternary apply with an injective generic visitor
struct Seen
{
  int n = 0;
  int t[3] = {-1, -1, -1}, v[3] = {-1, -1, -1};
};
void apply_n_case(i64 a_, i64 b_, i64 c_)
{
  int const a = static_cast<int>(mod(a_, 8)), b = static_cast<int>(mod(b_, 8)), c = static_cast<int>(mod(c_, 9));
  // c == 8: binary apply of (a,b); otherwise ternary
  count(true);
  Seen s;
  auto const vis2 = [&s](auto x, auto y) -> int {
    ++s.n;
    s.t[0] = tix<decltype(x)>; s.v[0] = x.idx();
    s.t[1] = tix<decltype(y)>; s.v[1] = y.idx();
    return 1000 + s.t[0] * 100 + s.v[0] * 30 + s.t[1] * 3 + s.v[1];
  };
  auto const vis3 = [&s](auto x, auto y, auto z) -> int {
    ++s.n;
    s.t[0] = tix<decltype(x)>; s.v[0] = x.idx();
    s.t[1] = tix<decltype(y)>; s.v[1] = y.idx();
    s.t[2] = tix<decltype(z)>; s.v[2] = z.idx();
    return 7;
  };
  auto ok2 = [&](int r) {
    return s.n == 1 && s.t[0] == type_of(a) && s.v[0] == value_of(a) && s.t[1] == type_of(b) && s.v[1] == value_of(b) && r == 1000 + type_of(a) * 100 + value_of(a) * 30 + type_of(b) * 3 + value_of(b);
  };
  auto ok3 = [&](int r) {
    return r == 7 && s.n == 1 && s.t[0] == type_of(a) && s.v[0] == value_of(a) && s.t[1] == type_of(b) && s.v[1] == value_of(b) && s.t[2] == type_of(c) && s.v[2] == value_of(c);
  };
  auto msg = [&] { return "visitor called " + std::to_string(s.n) + " times, last with (" + std::to_string(s.t[0]) + ":" + std::to_string(s.v[0]) + ", " + std::to_string(s.t[1]) + ":" + std::to_string(s.v[1]) + ", " + std::to_string(s.t[2]) + ":" + std::to_string(s.v[2]) + ") as type:value"; };
  if (c == 8)
  {
    {
      V const x = mk(a), y = mk(b);
      int const r = fcppt::variant::apply(vis2, x, y);
      chk(ok2(r), "variant::apply|binary|const-lvalues", msg);
    }
    s = Seen{};
    {
      int const r = fcppt::variant::apply(vis2, mk(a), mk(b));
      chk(ok2(r), "variant::apply|binary|rvalues", msg);
    }
    s = Seen{};
    {
      V const y = mk(b);
      int const r = fcppt::variant::apply(vis2, mk(a), y);
      chk(ok2(r), "variant::apply|binary|mixed", msg);
    }
  }
  else
  {
    {
      V const x = mk(a), y = mk(b), z = mk(c);
      int const r = fcppt::variant::apply(vis3, x, y, z);
      chk(ok3(r), "variant::apply|ternary|const-lvalues", msg);
    }
    s = Seen{};
    {
      int const r = fcppt::variant::apply(vis3, mk(a), mk(b), mk(c));
      chk(ok3(r), "variant::apply|ternary|rvalues", msg);
    }
  }
}
Reg const r_apply_n{
    C04_SEC("variant_apply_nary"), Kind::exhaustive, "binary / ternary variant::apply with an injective visitor: every case (all alternatives are always present)",
    [] {
      for (i64 a = 0; a < 8; ++a)
        for (i64 b = 0; b < 8; ++b)
          for (i64 c = 0; c < 9; ++c)
          {
            cur3(a, b, c);
            apply_n_case(a, b, c);
          }
    },
    [](Ints const &c) { apply_n_case(c.at(0), c.at(1), c.at(2)); },
    [](Ints const &c) { return "apply(visitor, " + vn(static_cast<int>(mod(c.at(0), 8))) + ", " + vn(static_cast<int>(mod(c.at(1), 8))) + (mod(c.at(2), 9) == 8 ? std::string(")") : ", " + vn(static_cast<int>(mod(c.at(2), 9))) + ")"); }};

// ------------------------------------------------------------------------------------------------
// compare with all comparison tables, ==, !=, <
struct Cmp
{
  i64 t;
  int ti; // the alternative the table applies to
  int *calls;
  int *bad;
  template <typename T>
  bool operator()(T const &x, T const &y) const
  {
    ++*calls;
    if (tix<T> != ti || x.idx() < 0 || y.idx() < 0)
    {
      ++*bad;
      return false;
    }
    return dig(t, x.idx() * T::size + y.idx(), 2) != 0;
  }
};
void compare_case(i64 a_, i64 b_, i64 t_)
{
  int const a = static_cast<int>(mod(a_, 8)), b = static_cast<int>(mod(b_, 8));
  bool const same = type_of(a) == type_of(b);
  int const n = type_of(a) == 0 ? 2 : 3;
  i64 const t = same ? mod(t_, ipow(2, n * n)) : 0;
  count(same);
  V const x = mk(a), y = mk(b);
  int calls = 0, bad = 0;
  bool const r = fcppt::variant::compare(x, y, Cmp{t, type_of(a), &calls, &bad});
  bool const want = same && dig(t, value_of(a) * n + value_of(b), 2) != 0;
  chk(r == want, same ? "variant::compare|result|same-type" : "variant::compare|result|different-types", [&] { return "compare(" + vn(a) + "," + vn(b) + ", table#" + std::to_string(t) + ") = " + std::to_string(r) + ", expected " + std::to_string(want); });
  chk(calls == (same ? 1 : 0) && bad == 0, same ? "variant::compare|calls|same-type" : "variant::compare|calls|different-types", [&] { return "comparison function called " + std::to_string(calls) + " times (" + std::to_string(bad) + " with wrong arguments)"; });
  if (t_ == 0)
  {
    // documented: equal iff same type and equal values; less iff (type_index, value) lexicographically before
    chk((x == y) == (a == b), "variant::operator==|value", [&] { return vn(a) + " == " + vn(b) + " gave " + std::to_string(x == y); });
    chk((x != y) == (a != b), "variant::operator!=|value", [&] { return vn(a) + " != " + vn(b) + " gave " + std::to_string(x != y); });
    chk((x < y) == (a < b), "variant::operator<|value", [&] { return vn(a) + " < " + vn(b) + " gave " + std::to_string(x < y); });
  }
}
Reg const r_compare{
    C04_SEC("variant_compare"), Kind::exhaustive, "variant::compare / ==, !=, <: both variants hold the same alternative (so the comparison function decides)",
    [] {
      for (i64 a = 0; a < 8; ++a)
        for (i64 b = 0; b < 8; ++b)
        {
          bool const same = type_of(static_cast<int>(a)) == type_of(static_cast<int>(b));
          int const n = type_of(static_cast<int>(a)) == 0 ? 2 : 3;
          i64 const nt = same ? ipow(2, n * n) : 1;
          for (i64 t = 0; t < nt; ++t)
          {
            cur3(a, b, t);
            compare_case(a, b, t);
          }
        }
    },
    [](Ints const &c) { compare_case(c.at(0), c.at(1), c.at(2)); },
    [](Ints const &c) { return "compare(" + vn(static_cast<int>(mod(c.at(0), 8))) + ", " + vn(static_cast<int>(mod(c.at(1), 8))) + ", comparison table#" + std::to_string(c.at(2)) + ")"; }};

// ------------------------------------------------------------------------------------------------
// to_optional / to_optional_ref / holds_type / get_unsafe / type_index / object life cycle
template <typename T, bool RV>
void to_optional_check(int v)
{
  V src = mk(v);
  fcppt::optional::object<T> const r = fcppt::variant::to_optional<T>(pass<RV>(src));
  bool const held = type_of(v) == tix<T>;
  bool const ok = held ? (r.has_value() && r.get_unsafe().idx() == value_of(v)) : !r.has_value();
  chk(ok, held ? "variant::to_optional|result|type-held" : "variant::to_optional|result|type-not-held", [&] { return std::string(cat_name(RV)) + " to_optional<" + "ABC"[tix<T>] + ">(" + vn(v) + ") " + (r.has_value() ? "has a value" : "is nothing"); });
}
template <typename T>
void observers_check(int v)
{
  V x = mk(v);
  V const &cx = x;
  bool const held = type_of(v) == tix<T>;
  chk(fcppt::variant::holds_type<T>(cx) == held, held ? "variant::holds_type|type-held" : "variant::holds_type|type-not-held", [&] { return std::string("holds_type<") + "ABC"[tix<T>] + ">(" + vn(v) + ") wrong"; });
  fcppt::optional::reference<T> const r = fcppt::variant::to_optional_ref<T>(x);
  fcppt::optional::reference<T const> const cr = fcppt::variant::to_optional_ref<T const>(cx);
  bool ok = r.has_value() == held && cr.has_value() == held;
  if (ok && held)
    ok = &r.get_unsafe().get() == &x.template get_unsafe<T>() && &cr.get_unsafe().get() == &cx.template get_unsafe<T>() && &fcppt::variant::get_unsafe<T>(x) == &x.template get_unsafe<T>() && &fcppt::variant::get_unsafe<T>(cx) == &cx.template get_unsafe<T>() && r.get_unsafe().get().idx() == value_of(v);
  chk(ok, held ? "variant::to_optional_ref|type-held" : "variant::to_optional_ref|type-not-held", [&] { return std::string("to_optional_ref<") + "ABC"[tix<T>] + ">(" + vn(v) + ") wrong"; });
}
void misc_case(i64 a_, i64 b_)
{
  int const a = static_cast<int>(mod(a_, 8)), b = static_cast<int>(mod(b_, 8));
  count(type_of(a) != type_of(b));
  if (b == 0)
  {
    to_optional_check<A, false>(a); to_optional_check<A, true>(a);
    to_optional_check<B, false>(a); to_optional_check<B, true>(a);
    to_optional_check<C, false>(a); to_optional_check<C, true>(a);
    observers_check<A>(a); observers_check<B>(a); observers_check<C>(a);
    V const x = mk(a);
    chk(static_cast<int>(x.type_index()) == type_of(a) && !x.is_invalid(), "variant::object|type_index", [&] { return "type_index of " + vn(a) + " = " + std::to_string(x.type_index()); });
  }
  // construction from lvalue / rvalue, copy, move, assignment (same and different alternative)
  V x = mk(a);
  chk(code(x) == a, "variant::object|construct", [&] { return "variant constructed from " + vn(a) + " reads " + vn(code(x)); });
  {
    B const lv(b % 3);
    V const fl{lv};
    chk(code(fl) == 2 + b % 3 && lv.idx() == b % 3, "variant::object|construct-from-lvalue", [&] { return "variant{lvalue b} reads " + vn(code(fl)); });
  }
  V const cp(x);
  chk(code(cp) == a && code(x) == a, "variant::object|copy-construct", [&] { return "copy of " + vn(a) + " = " + vn(code(cp)); });
  V mv(std::move(x));
  chk(code(mv) == a, "variant::object|move-construct", [&] { return "move of " + vn(a) + " = " + vn(code(mv)); });
  V y = mk(b);
  mv = y;
  chk(code(mv) == b && code(y) == b, type_of(a) == type_of(b) ? "variant::object|copy-assign|same-type" : "variant::object|copy-assign|different-type", [&] { return vn(a) + " = " + vn(b) + " gave " + vn(code(mv)); });
  V z = mk(a);
  z = std::move(y);
  chk(code(z) == b, type_of(a) == type_of(b) ? "variant::object|move-assign|same-type" : "variant::object|move-assign|different-type", [&] { return vn(a) + " = move(" + vn(b) + ") gave " + vn(code(z)); });
  // mutation through apply on a non-const lvalue
  fcppt::variant::apply([](auto &val) { val = std::remove_cvref_t<decltype(val)>(0); }, z);
  chk(code(z) == first_code[type_of(b)], "variant::apply|nonconst-lvalue-mutation", [&] { return "after resetting the held value through apply: " + vn(code(z)); });
}
Reg const r_misc{
    C04_SEC("variant_observe_object"), Kind::exhaustive, "to_optional / to_optional_ref / holds_type / get_unsafe / type_index / copy, move, assignment: assignment across different alternatives",
    [] {
      for (i64 a = 0; a < 8; ++a)
        for (i64 b = 0; b < 8; ++b)
        {
          cur2(a, b);
          misc_case(a, b);
        }
    },
    [](Ints const &c) { misc_case(c.at(0), c.at(1)); },
    [](Ints const &c) { return "observers of " + vn(static_cast<int>(mod(c.at(0), 8))) + ", then assignment of " + vn(static_cast<int>(mod(c.at(1), 8))); }};
}
