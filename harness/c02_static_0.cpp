// VERIF: lib O0 quick_shards=1
// C02 - static grammar family, part 0 of 8 (see c02_static.hpp, tools/gen_c02_static.py).
#define C02_STATIC_ONLY 0
#include "c02_static.hpp"
namespace
{
namespace fp = fcppt::parse;
#include "c02_static_gen.hpp"
}
C02_STATIC_TU(0)
