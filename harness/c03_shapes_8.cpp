// VERIF: lib rc quick_shards=1 fuzz=options_random_part8
// C03 - parser shapes, part 8: sub-commands that mix positional arguments with options (the
// sub-command's own option names decide which tokens are option values), nested wrappers.
#include "c03_options.hpp"
namespace
{
using namespace c03;
using S = std::string;
c03::shape_list make_shapes()
{
  c03::shape_list s;
  s.push_back(c03::mk_shape(40, "cmds(sw; c1: prod(arg<int>, opt<int>), c2: prod(opt<str>, many(arg<str>)))",
                            cmds<t1, t2>(sw<la>("f", "ff"), "c1", prod(arg<lb, int>("b"), opt<lc, int>("o", "oo", std::nullopt)), "c2", prod(opt<ld, S>("o", "oo", std::nullopt), many(arg<le, S>("e"))))));
  s.push_back(c03::mk_shape(41, "cmds(optional(opt<int>); c1: prod(arg<str>, opt<str> default), x: optional(prod(opt<int>, arg<int>)))",
                            cmds<t1, t2>(optional(opt<la, int>("", "zz", std::nullopt)), "c1", prod(arg<lb, S>("b"), opt<lc, S>("o", "oo", S("d"))), "x", optional(prod(opt<ld, int>("o", "oo", std::nullopt), arg<le, int>("e"))))));
  s.push_back(c03::mk_shape(42, "sum(prod(opt<int>, arg<int>), prod(arg<str>, sw))",
                            sum<le>(prod(opt<la, int>("o", "oo", std::nullopt), arg<lb, int>("b")), prod(arg<lc, S>("c"), sw<ld>("f", "ff")))));
  s.push_back(c03::mk_shape(43, "prod(many(opt<int>), optional(arg<int>), many(arg<str>))",
                            prod(many(opt<la, int>("o", "oo", std::nullopt)), optional(arg<lb, int>("b")), many(arg<lc, S>("c")))));
  return s;
}
}
C03_TU(8, make_shapes)
