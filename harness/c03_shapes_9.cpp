// VERIF: lib rc quick_shards=1
// C03 - parser shapes, part 9: sums whose left alternative contains an option.
#include "c03_options.hpp"
namespace
{
using namespace c03;
using S = std::string;
c03::shape_list make_shapes()
{
  c03::shape_list s;
  // sums whose LEFT alternative contains an option, with a positional evaluated under the sum's context
  s.push_back(c03::mk_shape(44, "sum(prod(arg<str>, opt<int>), usw)",
                            sum<ld>(prod(arg<la, S>("a"), opt<lb, int>("o", "oo", std::nullopt)), usw<lc>("f", "ff"))));
  s.push_back(c03::mk_shape(45, "prod(arg<str>, sum(opt<int>, usw))",
                            prod(arg<la, S>("a"), sum<ld>(opt<lb, int>("o", "oo", std::nullopt), usw<lc>("f", "ff")))));
  s.push_back(c03::mk_shape(46, "prod(many(arg<int>), sum(prod(opt<str>, sw), arg<int>))",
                            prod(many(arg<la, int>("a")), sum<le>(prod(opt<lb, S>("o", "oo", std::nullopt), sw<lc>("f", "ff")), arg<ld, int>("d")))));
  return s;
}
}
C03_TU(9, make_shapes)
