// VERIF: lib rc quick_shards=1
// C03 - parser shapes, part 9: sums whose left alternative contains an option.
#include "c03_options.hpp"
namespace
{
using namespace c03;
using S = std::string;
c03::shape_list make_shapes()
{
  c03::shape_list s;
  // sums whose LEFT alternative contains an option, with a positional evaluated under the sum's context
  s.push_back(c03::mk_shape(44, "sum(prod(arg<str>, opt<int>), usw)",
                            sum<ld>(prod(arg<la, S>("a"), opt<lb, int>("o", "oo", std::nullopt)), usw<lc>("f", "ff"))));
  s.push_back(c03::mk_shape(45, "prod(arg<str>, sum(opt<int>, usw))",
                            prod(arg<la, S>("a"), sum<ld>(opt<lb, int>("o", "oo", std::nullopt), usw<lc>("f", "ff")))));
  s.push_back(c03::mk_shape(46, "prod(many(arg<int>), sum(prod(opt<str>, sw), arg<int>))",
                            prod(many(arg<la, int>("a")), sum<le>(prod(opt<lb, S>("o", "oo", std::nullopt), sw<lc>("f", "ff")), arg<ld, int>("d")))));
  // unit (succeeds exactly on an empty state) as an alternative of a sum and next to optionals:
  // with arguments left over it must fail so that the other alternative is tried
  s.push_back(c03::mk_shape(47, "sum(unit, arg<str>)", sum<lc>(unit<la>(), arg<lb, S>("b"))));
  s.push_back(c03::mk_shape(48, "sum(unit, prod(sw, many(arg<int>)))", sum<ld>(unit<la>(), prod(sw<lb>("f", "ff"), many(arg<lc, int>("c"))))));
  s.push_back(c03::mk_shape(49, "sum(arg<int>, unit)", sum<lc>(arg<la, int>("a"), unit<lb>())));
  return s;
}
}
C03_TU(9, make_shapes)
