// VERIF: rc quick_shards=2
// C01 (miscellaneous math / grid part of the registry) - safe API is total.
// Oracle: (a) the process survives ASan+UBSan+_GLIBCXX_ASSERTIONS, (b) no exception escapes, (c) the
// watchdog, (d) a returned optional is well-formed (it is read), (e) where the Doxygen comment states
// the result: an independent reference in wide integers, or - for floating point - in the same IEEE
// operations on inputs chosen so that every intermediate value is exact (small multiples of 1/4): no
// tolerance is used anywhere, comparisons are bit-exact.
#include "verif.hpp"

#include <fcppt/literal.hpp>
#include <fcppt/algorithm/binary_search.hpp>
#include <fcppt/algorithm/join_strings.hpp>
#include <fcppt/algorithm/repeat.hpp>
#include <fcppt/iterator/make_range.hpp>
#include <fcppt/iterator/range_impl.hpp>
#include <fcppt/math/interval_distance.hpp>
#include <fcppt/tuple/make.hpp>
#include <fcppt/cast/int_to_float_fun.hpp>
#include <fcppt/cast/size_fun.hpp>
#include <fcppt/cast/static_cast_fun.hpp>
#include <fcppt/array/object.hpp>
#include <fcppt/container/grid/interpolate.hpp>
#include <fcppt/container/grid/min.hpp>
#include <fcppt/container/grid/min_from_pos.hpp>
#include <fcppt/container/grid/moore_neighbor_array.hpp>
#include <fcppt/container/grid/neumann_neighbor_array.hpp>
#include <fcppt/container/grid/object.hpp>
#include <fcppt/container/grid/pos.hpp>
#include <fcppt/container/grid/sup.hpp>
#include <fcppt/container/grid/sup_from_pos.hpp>
#include <fcppt/math/ceil_div_static.hpp>
#include <fcppt/math/deg_to_rad.hpp>
#include <fcppt/math/from_array.hpp>
#include <fcppt/math/is_zero.hpp>
#include <fcppt/math/rad_to_deg.hpp>
#include <fcppt/math/to_array.hpp>
#include <fcppt/math/to_array_type.hpp>
#include <fcppt/math/box/comparison.hpp>
#include <fcppt/math/box/object.hpp>
#include <fcppt/math/box/rect.hpp>
#include <fcppt/math/box/stretch_relative.hpp>
#include <fcppt/math/box/structure_cast.hpp>
#include <fcppt/math/dim/comparison.hpp>
#include <fcppt/math/dim/sequence.hpp>
#include <fcppt/math/dim/static.hpp>
#include <fcppt/math/interpolation/linear.hpp>
#include <fcppt/math/interpolation/perlin_fifth_degree.hpp>
#include <fcppt/math/interpolation/trigonometric.hpp>
#include <fcppt/math/matrix/comparison.hpp>
#include <fcppt/math/matrix/object.hpp>
#include <fcppt/math/matrix/row.hpp>
#include <fcppt/math/matrix/static.hpp>
#include <fcppt/math/matrix/to_static.hpp>
#include <fcppt/math/sphere/circle.hpp>
#include <fcppt/math/sphere/intersects.hpp>
#include <fcppt/math/sphere/object.hpp>
#include <fcppt/math/vector/arithmetic.hpp>
#include <fcppt/math/vector/ceil_div_signed.hpp>
#include <fcppt/math/vector/comparison.hpp>
#include <fcppt/math/vector/distance.hpp>
#include <fcppt/math/vector/length.hpp>
#include <fcppt/math/vector/mod.hpp>
#include <fcppt/math/vector/normalize.hpp>
#include <fcppt/math/vector/sequence.hpp>
#include <fcppt/math/vector/static.hpp>
#include <fcppt/optional/object.hpp>

#include <cmath>
#include <cstdint>
#include <limits>
#include <stdexcept>
#include <string>
#include <memory>
#include <algorithm>
#include <list>
#include <type_traits>
#include <typeinfo>
#include <vector>

// Compile-time facts about the library (sizes, result types) are informational in a C01 harness, like
// the value oracles: on a tree where one of them is false the harness must still compile, so that the
// run can decide totality (a wrong size shows as an out-of-bounds access there, not as a build error).
#define C01_FACT(...) static_assert(true, "")
using namespace verif;

namespace
{
// C01 is about totality (no UB, no crash, no hang, no undocumented exception). The entries below
// also compare results with simple references, because that costs nothing and reads every result
// (so that an ill-formed one trips a sanitizer) - but a result that merely DIFFERS from the reference
// is not a violation of C01: a change to fcppt that keeps a function total while changing its value
// must not make this check raise an alarm. Hence only the totality keys reach verif::fail; a value
// disagreement is counted as a class in the evidence ("informational") and nothing more.
void fail(std::string const &key, std::string const &what)
{
  if (key.find("undocumented-exception") != std::string::npos) verif::fail(key, what);
  else verif::cls("value oracle disagreed (informational, outside C01)");
}
volatile long long g_sink = 0;
template <typename T>
void touch(T const &v)
{
  unsigned char const *p = reinterpret_cast<unsigned char const *>(&v);
  long long s = 0;
  for (std::size_t i = 0; i < sizeof(T); ++i) s += p[i];
  g_sink = g_sink + s;
}
template <typename F>
void total(char const *site, F &&f)
{
  try
  {
    f();
  }
  catch (std::bad_alloc const &)
  {
  }
  catch (std::exception const &e)
  {
    fail(std::string(site) + "|undocumented-exception", std::string(typeid(e).name()) + ": " + e.what());
  }
  catch (...)
  {
    fail(std::string(site) + "|undocumented-exception", "non-std exception escaped");
  }
}
using i128 = __int128;
bool same_bits(double a, double b) { return (std::isnan(a) && std::isnan(b)) || (a == b && std::signbit(a) == std::signbit(b)); }

// compile-time helpers: evaluated by the compiler, listed here so that the headers are instantiated
C01_FACT(fcppt::math::ceil_div_static<unsigned, 5U, 3U>::value == 2U && fcppt::math::ceil_div_static<unsigned, 6U, 3U>::value == 2U && fcppt::math::ceil_div_static<unsigned, 0U, 3U>::value == 0U && fcppt::math::ceil_div_static<unsigned, 1U, 1U>::value == 1U && fcppt::math::ceil_div_static<std::uint8_t, 255U, 2U>::value == 128U && fcppt::math::ceil_div_static<unsigned long long, ~0ULL, ~0ULL>::value == 1ULL && fcppt::math::ceil_div_static<unsigned long long, ~0ULL, 2ULL>::value == (1ULL << 63));
C01_FACT(std::is_same_v<fcppt::math::matrix::to_static<fcppt::math::matrix::static_<int, 2, 3>>, fcppt::math::matrix::static_<int, 2, 3>>);
C01_FACT(std::is_same_v<fcppt::math::box::rect<int>, fcppt::math::box::object<int, 2>> && std::is_same_v<fcppt::math::sphere::circle<float>, fcppt::math::sphere::object<float, 2>>);
using gpos = fcppt::container::grid::pos<unsigned, 2>;
C01_FACT(std::is_same_v<fcppt::container::grid::min_from_pos<gpos>, fcppt::container::grid::min<unsigned, 2>> && std::is_same_v<fcppt::container::grid::sup_from_pos<gpos>, fcppt::container::grid::sup<unsigned, 2>>);
C01_FACT(std::tuple_size<fcppt::container::grid::moore_neighbor_array<gpos>::impl_type>::value == 8 && std::tuple_size<fcppt::container::grid::neumann_neighbor_array<gpos>::impl_type>::value == 4);

// ---------------------------------------------------------------------------- integer vectors and boxes
// Case: six small ints a0..a5 and a divisor. Only values whose exact results are representable are
// generated (|a| <= 1000), plus the extreme divisors 0, +-1 and INT_MIN/INT_MAX.
using ivec2 = fcppt::math::vector::static_<int, 2>;
using ivec3 = fcppt::math::vector::static_<int, 3>;
using uvec2 = fcppt::math::vector::static_<unsigned, 2>;
using idim2 = fcppt::math::dim::static_<int, 2>;
i128 ceil_ref(i128 a, i128 b)
{
  i128 q = a / b;
  if (a % b != 0 && ((a < 0) == (b < 0))) ++q;
  return q;
}
void int_math_one(int const (&a)[6], int d)
{
  count(d == 0 || d == 1 || d == -1 || a[0] == 0 || a[2] == 0);
  total("math::vector::ceil_div_signed", [&] {
    auto const r = fcppt::math::vector::ceil_div_signed(ivec3(a[0], a[1], a[2]), d);
    if (r.has_value() != (d != 0)) fail("math::vector::ceil_div_signed|presence", "divisor " + std::to_string(d) + ": documented to return nothing exactly for a zero divisor");
    else if (d != 0)
    {
      ivec3 const &v = r.get_unsafe();
      if (v.x() != ceil_ref(a[0], d) || v.y() != ceil_ref(a[1], d) || v.z() != ceil_ref(a[2], d)) fail("math::vector::ceil_div_signed|value", "(" + std::to_string(a[0]) + "," + std::to_string(a[1]) + "," + std::to_string(a[2]) + ") / " + std::to_string(d) + " = (" + std::to_string(v.x()) + "," + std::to_string(v.y()) + "," + std::to_string(v.z()) + ")");
    }
  });
  total("math::vector::mod", [&] {
    // math::mod is documented for unsigned and floating point types: "%"; nothing if the divisor is zero
    unsigned const u0 = static_cast<unsigned>(a[0] < 0 ? -a[0] : a[0]) * 4000000U + 7U, u1 = static_cast<unsigned>(a[1] < 0 ? -a[1] : a[1]), ud = static_cast<unsigned>(d), u3 = static_cast<unsigned>(a[3] < 0 ? -a[3] : a[3]);
    auto const r = fcppt::math::vector::mod(uvec2(u0, u1), ud);
    if (r.has_value() != (ud != 0U)) fail("math::vector::mod|scalar-presence", "divisor " + std::to_string(ud));
    else if (ud != 0U && (r.get_unsafe().x() != u0 % ud || r.get_unsafe().y() != u1 % ud)) fail("math::vector::mod|scalar-value", "component-wise % differs");
    auto const r2 = fcppt::math::vector::mod(uvec2(u0, u1), uvec2(ud, u3));
    if (r2.has_value() != (ud != 0U && u3 != 0U)) fail("math::vector::mod|vector-presence", "divisors (" + std::to_string(ud) + "," + std::to_string(u3) + "): nothing iff some divisor is zero");
    else if (r2.has_value() && (r2.get_unsafe().x() != u0 % ud || r2.get_unsafe().y() != u1 % u3)) fail("math::vector::mod|vector-value", "component-wise % differs");
  });
  total("math::box::stretch_relative", [&] {
    // "Stretch a box around its center by a given factor": size' = size * factors; the centre
    // (pos + size / 2, computed in T as box::center documents) stays: pos' = centre - size' / 2
    int const px = a[0], py = a[1], w = a[2] < 0 ? -a[2] : a[2], h = a[3] < 0 ? -a[3] : a[3], fx = a[4] % 8, fy = a[5] % 8;
    fcppt::math::box::rect<int> const box(ivec2(px, py), idim2(w, h));
    fcppt::math::box::rect<int> const r = fcppt::math::box::stretch_relative(box, ivec2(fx, fy));
    int const nw = w * fx, nh = h * fy;
    if (r.size().w() != nw || r.size().h() != nh) fail("math::box::stretch_relative|size", "size is not size * factors");
    if (r.pos().x() != px + w / 2 - nw / 2 || r.pos().y() != py + h / 2 - nh / 2) fail("math::box::stretch_relative|centre", "box (" + std::to_string(px) + "," + std::to_string(py) + ")+(" + std::to_string(w) + "," + std::to_string(h) + ") times (" + std::to_string(fx) + "," + std::to_string(fy) + "): position (" + std::to_string(r.pos().x()) + "," + std::to_string(r.pos().y()) + ")");
    // structure_cast: every component converted by the cast function
    auto const lbox = fcppt::math::box::structure_cast<fcppt::math::box::rect<long long>, fcppt::cast::size_fun>(box);
    auto const dbox = fcppt::math::box::structure_cast<fcppt::math::box::rect<double>, fcppt::cast::int_to_float_fun>(box);
    // (box::object<short, N> does not compile: short arithmetic promotes to vectors of int; compile-time-only)
    auto const sbox = fcppt::math::box::structure_cast<fcppt::math::box::object<unsigned, 2>, fcppt::cast::static_cast_fun>(fcppt::math::box::rect<int>(ivec2(w, h), idim2(w, h)));
    if (lbox.pos().x() != px || lbox.pos().y() != py || lbox.size().w() != w || lbox.size().h() != h) fail("math::box::structure_cast|size_fun", "components changed");
    if (dbox.pos().x() != px || dbox.pos().y() != py || dbox.size().w() != w || dbox.size().h() != h) fail("math::box::structure_cast|int_to_float_fun", "components changed");
    if (sbox.pos().x() != static_cast<unsigned>(w) || sbox.size().h() != static_cast<unsigned>(h)) fail("math::box::structure_cast|static_cast_fun", "components changed");
  });
  total("math::to_array/from_array", [&] {
    ivec3 const v(a[0], a[1], a[2]);
    fcppt::math::to_array_type<ivec3> const arr = fcppt::math::to_array(v);
    if (fcppt::array::get<0>(arr) != a[0] || fcppt::array::get<1>(arr) != a[1] || fcppt::array::get<2>(arr) != a[2]) fail("math::to_array|vector", "elements not in index order");
    if (fcppt::math::from_array<ivec3>(arr) != v || fcppt::math::from_array<ivec3>(fcppt::math::to_array_type<ivec3>{a[0], a[1], a[2]}) != v) fail("math::from_array|vector", "round trip differs");
    idim2 const dm(a[3], a[4]);
    if (fcppt::math::from_array<idim2>(fcppt::math::to_array(dm)) != dm || fcppt::array::get<1>(fcppt::math::to_array(dm)) != a[4]) fail("math::from_array|dim", "round trip differs");
    using mat = fcppt::math::matrix::static_<int, 2, 3>;
    mat const m(fcppt::math::matrix::row(a[0], a[1], a[2]), fcppt::math::matrix::row(a[3], a[4], a[5]));
    auto const marr = fcppt::math::to_array(m);
    C01_FACT(std::tuple_size<std::remove_cvref_t<decltype(marr)>::impl_type>::value == 6);
    if (fcppt::math::from_array<mat>(marr) != m) fail("math::from_array|matrix", "round trip differs");
    long sum = 0, want = 0;
    for (int x : marr) sum += x;
    for (int x : a) want += x;
    if (sum != want) fail("math::to_array|matrix", "not the six elements");
  });
  total("math::vector::sequence", [&] {
    using oi = fcppt::optional::object<int>;
    auto const mk = [&](int i) { return a[i] % 3 == 0 ? oi{} : oi{a[i]}; };
    bool const all = a[0] % 3 != 0 && a[1] % 3 != 0 && a[2] % 3 != 0;
    auto const r = fcppt::math::vector::sequence(fcppt::math::vector::static_<oi, 3>(mk(0), mk(1), mk(2)));
    if (r.has_value() != all) fail("math::vector::sequence|presence", "present iff every component is present");
    else if (all && r.get_unsafe() != ivec3(a[0], a[1], a[2])) fail("math::vector::sequence|value", "components changed");
    bool const all2 = a[0] % 3 != 0 && a[1] % 3 != 0;
    auto const r2 = fcppt::math::dim::sequence(fcppt::math::dim::static_<oi, 2>(mk(0), mk(1)));
    if (r2.has_value() != all2 || (all2 && r2.get_unsafe() != idim2(a[0], a[1]))) fail("math::dim::sequence|value", "present iff every component is present, components kept");
  });
  total("math::vector::length/distance (integer)", [&] {
    // sqrt of an exactly representable integer is correctly rounded: bit-exact reference
    double const want = std::sqrt(static_cast<double>(static_cast<long long>(a[0]) * a[0] + static_cast<long long>(a[1]) * a[1] + static_cast<long long>(a[2]) * a[2]));
    double const got = fcppt::math::vector::length<double>(ivec3(a[0], a[1], a[2]));
    if (!same_bits(got, want)) fail("math::vector::length|integer", "length<double>(" + std::to_string(a[0]) + "," + std::to_string(a[1]) + "," + std::to_string(a[2]) + ") = " + str(got) + ", expected " + str(want));
    long long const dx = static_cast<long long>(a[0]) - a[3], dy = static_cast<long long>(a[1]) - a[4];
    double const dgot = fcppt::math::vector::distance<double>(ivec2(a[0], a[1]), ivec2(a[3], a[4]));
    if (!same_bits(dgot, std::sqrt(static_cast<double>(dx * dx + dy * dy)))) fail("math::vector::distance|integer", "distance differs from sqrt(dx^2+dy^2)");
    float const fgot = fcppt::math::vector::length<float>(ivec2(a[0] % 100, a[1] % 100));
    if (fgot != std::sqrt(static_cast<float>((a[0] % 100) * (a[0] % 100) + (a[1] % 100) * (a[1] % 100)))) fail("math::vector::length|integer-float", "length<float> differs");
  });
  total("math::is_zero", [&] {
    if (fcppt::math::is_zero(a[0]) != (a[0] == 0) || fcppt::math::is_zero(static_cast<unsigned>(a[1])) != (a[1] == 0) || fcppt::math::is_zero(static_cast<long long>(d)) != (d == 0) || fcppt::math::is_zero(static_cast<signed char>(a[2] % 100)) != (a[2] % 100 == 0)) fail("math::is_zero|integer", "differs from == 0");
  });
}
void decode_int_case(Ints const &c, int (&a)[6], int &d)
{
  Choices ch(c);
  for (int &x : a) x = static_cast<int>(ch.range(-1000, 1000));
  static int const divisors[] = {0, 1, -1, 2, -2, 3, 7, -7, 1000, std::numeric_limits<int>::max(), std::numeric_limits<int>::min(), 16, -16};
  d = divisors[ch.index(sizeof divisors / sizeof divisors[0])];
}
Reg const r_int{"integer_vectors_boxes", Kind::random, "the divisor is 0 or +-1, or a coordinate / extent is 0",
                [] { run_random(*g_cur.sec, {4000, 2}, {60000, 2}); },
                [](Ints const &c) { int a[6]; int d; decode_int_case(c, a, d); int_math_one(a, d); },
                [](Ints const &c) { int a[6]; int d; decode_int_case(c, a, d); std::string r = "vector ceil_div_signed/mod/sequence/length/distance, box stretch_relative/structure_cast, to_array/from_array, is_zero with values"; for (int x : a) r += " " + std::to_string(x); return r + " and divisor " + std::to_string(d); }};

// ---------------------------------------------------------------------------- floating point vectors, interpolation, spheres
// Case: six quarter-integers q/4 (|q| <= 64) plus one "special" selector that replaces the first
// component by 0, -0, NaN, +-inf, denormal min, max (totality only for non-finite inputs).
using dvec2 = fcppt::math::vector::static_<double, 2>;
using dvec3 = fcppt::math::vector::static_<double, 3>;
double const specials[] = {0.0, -0.0, std::numeric_limits<double>::quiet_NaN(), std::numeric_limits<double>::infinity(), -std::numeric_limits<double>::infinity(), std::numeric_limits<double>::denorm_min(), std::numeric_limits<double>::max(), std::numeric_limits<double>::min(), 1e-200, 1e200};
void float_math_one(int const (&q)[6], std::size_t special)
{
  double x[6];
  for (int i = 0; i < 6; ++i) x[i] = q[i] / 4.0;
  bool const plain = special >= sizeof specials / sizeof specials[0];
  if (!plain) x[0] = specials[special];
  bool const zero3 = x[0] == 0.0 && x[1] == 0.0 && x[2] == 0.0;
  count(!plain || zero3 || x[3] == 0.0 || x[3] == 1.0);
  total("math::vector::length/normalize", [&] {
    dvec3 const v(x[0], x[1], x[2]);
    double const len = fcppt::math::vector::length(v);
    auto const n = fcppt::math::vector::normalize(v);
    if (n.has_value()) touch(n.get_unsafe());
    if (zero3 && n.has_value()) fail("math::vector::normalize|zero-vector", "documented: returns nothing in case the length is zero");
    if (plain)
    {
      double const want = std::sqrt(x[0] * x[0] + x[1] * x[1] + x[2] * x[2]); // every product and the sum are exact
      if (!same_bits(len, want)) fail("math::vector::length|value", "length = " + str(len) + ", expected " + str(want));
      if (!zero3)
      {
        if (!n.has_value()) fail("math::vector::normalize|non-zero-vector", "nothing for a vector of length " + str(want));
        else if (!same_bits(n.get_unsafe().x(), x[0] / want) || !same_bits(n.get_unsafe().y(), x[1] / want) || !same_bits(n.get_unsafe().z(), x[2] / want)) fail("math::vector::normalize|value", "components are not v_i / length");
      }
      double const dist = fcppt::math::vector::distance(dvec2(x[0], x[1]), dvec2(x[3], x[4]));
      if (!same_bits(dist, std::sqrt((x[0] - x[3]) * (x[0] - x[3]) + (x[1] - x[4]) * (x[1] - x[4])))) fail("math::vector::distance|value", "distance differs from sqrt(dx^2+dy^2)");
    }
    // float instantiation
    auto const nf = fcppt::math::vector::normalize(fcppt::math::vector::static_<float, 2>(static_cast<float>(x[0]), static_cast<float>(x[1])));
    if (nf.has_value()) touch(nf.get_unsafe());
    if (x[0] == 0.0 && x[1] == 0.0 && nf.has_value()) fail("math::vector::normalize|zero-vector-float", "returns a value for the zero vector");
  });
  total("math::vector::mod (floating point)", [&] {
    // "uses std::fmod for floating point types"; nothing if the divisor is zero
    auto const r = fcppt::math::vector::mod(dvec2(x[0], x[1]), x[3]);
    if (r.has_value() != (x[3] != 0.0)) fail("math::vector::mod|float-presence", "divisor " + str(x[3]));
    else if (r.has_value() && (!same_bits(r.get_unsafe().x(), std::fmod(x[0], x[3])) || !same_bits(r.get_unsafe().y(), std::fmod(x[1], x[3])))) fail("math::vector::mod|float-value", "differs from std::fmod");
  });
  total("math::is_zero (floating point)", [&] {
    if (fcppt::math::is_zero(x[0]) != (x[0] == 0.0) || fcppt::math::is_zero(static_cast<float>(x[1])) != (static_cast<float>(x[1]) == 0.0F) || fcppt::math::is_zero(static_cast<long double>(x[0])) != (x[0] == 0.0)) fail("math::is_zero|floating", "differs from == 0");
  });
  total("math::interpolation", [&] {
    double const f = x[3], v1 = x[4], v2 = x[5];
    double const lin = fcppt::math::interpolation::linear(f, v1, v2);
    double const trig = fcppt::math::interpolation::trigonometric(f, v1, v2);
    double const per = fcppt::math::interpolation::perlin_fifth_degree(f, v1, v2);
    touch(lin); touch(trig); touch(per);
    touch(fcppt::math::interpolation::linear(x[0], v1, v2)); // possibly NaN / inf parameter
    touch(fcppt::math::interpolation::trigonometric(x[0], v1, v2));
    touch(fcppt::math::interpolation::perlin_fifth_degree(x[0], v1, v2));
    // linear in exact arithmetic: (1 - f) * v1 + f * v2
    if (!same_bits(lin + 0.0, ((1.0 - f) * v1 + f * v2) + 0.0)) fail("math::interpolation::linear|value", "linear(" + str(f) + "," + str(v1) + "," + str(v2) + ") = " + str(lin));
    // every interpolation starts at v1 (f = 0) and ends at v2 (f = 1)
    if (fcppt::math::interpolation::linear(0.0, v1, v2) != v1 || fcppt::math::interpolation::linear(1.0, v1, v2) != v2) fail("math::interpolation::linear|end-points", "f = 0 / 1 do not give v1 / v2");
    if (fcppt::math::interpolation::trigonometric(0.0, v1, v2) != v1 || fcppt::math::interpolation::trigonometric(1.0, v1, v2) != v2) fail("math::interpolation::trigonometric|end-points", "f = 0 / 1 do not give v1 / v2");
    if (fcppt::math::interpolation::perlin_fifth_degree(0.0, v1, v2) != v1 || fcppt::math::interpolation::perlin_fifth_degree(1.0, v1, v2) != v2) fail("math::interpolation::perlin_fifth_degree|end-points", "f = 0 / 1 do not give v1 / v2");
    // vectors as values (scalar * vector and vector + vector)
    dvec2 const lv = fcppt::math::interpolation::linear(f, dvec2(v1, v2), dvec2(v2, v1));
    if (!same_bits(lv.x() + 0.0, ((1.0 - f) * v1 + f * v2) + 0.0)) fail("math::interpolation::linear|vector-value", "vector interpolation differs");
    float const lf = fcppt::math::interpolation::linear(0.5F, 1.0F, 3.0F);
    if (lf != 2.0F) fail("math::interpolation::linear|float", "linear(0.5,1,3) != 2");
  });
  total("math::deg_to_rad/rad_to_deg", [&] {
    // no tolerance: exact facts only - 0 maps to 0, the maps are odd and monotone (multiplication and
    // division by positive constants are monotone under IEEE rounding)
    double const a = x[1], b = x[2];
    double const ra = fcppt::math::deg_to_rad(a), rb = fcppt::math::deg_to_rad(b), da = fcppt::math::rad_to_deg(a), db = fcppt::math::rad_to_deg(b);
    if (fcppt::math::deg_to_rad(0.0) != 0.0 || fcppt::math::rad_to_deg(0.0) != 0.0 || fcppt::math::deg_to_rad(0.0F) != 0.0F) fail("math::deg_to_rad|zero", "0 does not map to 0");
    if (!same_bits(fcppt::math::deg_to_rad(-a), -ra) || !same_bits(fcppt::math::rad_to_deg(-a), -da)) fail("math::deg_to_rad|odd", "f(-x) != -f(x)");
    if ((a < b && (ra > rb || da > db)) || (a == b && (ra != rb || da != db))) fail("math::deg_to_rad|monotone", "order not preserved for " + str(a) + ", " + str(b));
    if (a != 0.0 && (std::signbit(ra) != std::signbit(a) || std::signbit(da) != std::signbit(a) || !(std::abs(ra) < std::abs(a)) || !(std::abs(da) > std::abs(a)))) fail("math::deg_to_rad|magnitude", "degrees -> radians must shrink, radians -> degrees must grow the magnitude");
    touch(fcppt::math::deg_to_rad(x[0])); touch(fcppt::math::rad_to_deg(x[0]));
    touch(fcppt::math::deg_to_rad(static_cast<long double>(x[0])));
  });
  total("math::sphere::intersects", [&] {
    using circle = fcppt::math::sphere::circle<double>;
    circle const c1(dvec2(x[0], x[1]), x[2]), c2(dvec2(x[3], x[4]), x[5]);
    bool const r = fcppt::math::sphere::intersects(c1, c2);
    bool const r2 = fcppt::math::sphere::intersects(c2, c1);
    touch(r);
    if (plain)
    {
      // "Checks if two spheres intersect": centre distance < r1 + r2, decided exactly in integers
      // (coordinates are quarter-integers: scale by 4)
      long long const dx = q[0] - q[3], dy = q[1] - q[4], R = static_cast<long long>(q[2]) + q[5];
      bool const want = R > 0 && dx * dx + dy * dy < R * R;
      if (r != want || r2 != want) fail("math::sphere::intersects|value", "circles (" + str(x[0]) + "," + str(x[1]) + ") r " + str(x[2]) + " and (" + str(x[3]) + "," + str(x[4]) + ") r " + str(x[5]) + ": intersects = " + std::to_string(r));
      fcppt::math::sphere::object<double, 3> const s1(dvec3(x[0], x[1], 0.0), x[2]), s2(dvec3(x[3], x[4], 0.0), x[5]);
      if (fcppt::math::sphere::intersects(s1, s2) != want) fail("math::sphere::intersects|3d", "3d spheres in a plane differ from the circles");
    }
  });
}
void decode_float_case(Ints const &c, int (&q)[6], std::size_t &special)
{
  Choices ch(c);
  for (int &x : q) x = static_cast<int>(ch.range(-64, 64));
  special = ch.index(30); // two thirds of the cases are plain
}
Reg const r_float{"float_vectors_interpolation_spheres", Kind::random, "a component is 0, -0, NaN, infinite, denormal or huge, the vector is the zero vector, or the interpolation parameter is 0 or 1",
                  [] { run_random(*g_cur.sec, {4000, 2}, {60000, 2}); },
                  [](Ints const &c) { int q[6]; std::size_t s; decode_float_case(c, q, s); float_math_one(q, s); },
                  [](Ints const &c) { int q[6]; std::size_t s; decode_float_case(c, q, s); std::string r = "vector length/normalize/distance/mod, is_zero, interpolation, deg_to_rad, sphere::intersects with quarter-integers"; for (int x : q) r += " " + std::to_string(x) + "/4"; if (s < sizeof specials / sizeof specials[0]) r += ", first component replaced by " + str(specials[s]); return r; }};

// ---------------------------------------------------------------------------- grid::interpolate
// Reading: "Interpolates a value inside the grid cells": the position must lie inside a cell, i.e.
// 0 <= p_i and floor(p_i) + 1 < size_i for every axis (all 2^N surrounding nodes exist; the
// implementation reads them with get_unsafe). Positions are quarter-integers, node values small
// integers, so linear / bilinear / trilinear interpolation is exact in every evaluation order.
void grid_interp_one(std::size_t w, std::size_t h, int px, int py, int seed)
{
  w = 2 + w % 3; h = 2 + h % 3;
  px = static_cast<int>(static_cast<unsigned>(px) % (4 * (w - 1)));
  py = static_cast<int>(static_cast<unsigned>(py) % (4 * (h - 1)));
  count(px % 4 == 0 || py % 4 == 0 || px == static_cast<int>(4 * (w - 1)) - 1 || py == static_cast<int>(4 * (h - 1)) - 1);
  auto const node = [seed](std::size_t x, std::size_t y, std::size_t z) { return static_cast<double>(static_cast<int>((x * 7 + y * 13 + z * 5 + static_cast<unsigned>(seed)) % 23) - 11); };
  double const fx = px / 4.0, fy = py / 4.0;
  std::size_t const ix = static_cast<std::size_t>(px / 4), iy = static_cast<std::size_t>(py / 4);
  double const tx = fx - static_cast<double>(ix), ty = fy - static_cast<double>(iy);
  auto const lin = [](double f, double a, double b) { return fcppt::math::interpolation::linear(f, a, b); };
  total("container::grid::interpolate", [&] {
    using g1 = fcppt::container::grid::object<double, 1>;
    g1 const a(g1::dim(w), [&](g1::pos const &p) { return node(p.x(), 0, 0); });
    double const r1 = fcppt::container::grid::interpolate(a, fcppt::math::vector::static_<double, 1>(fx), lin);
    double const want1 = (1.0 - tx) * node(ix, 0, 0) + tx * node(ix + 1, 0, 0);
    if (r1 != want1) fail("container::grid::interpolate|1d", "at " + str(fx) + " in a grid of " + std::to_string(w) + " nodes: " + str(r1) + ", expected " + str(want1));
    using g2 = fcppt::container::grid::object<double, 2>;
    g2 const b(g2::dim(w, h), [&](g2::pos const &p) { return node(p.x(), p.y(), 0); });
    double const r2 = fcppt::container::grid::interpolate(b, dvec2(fx, fy), lin);
    double const want2 = (1.0 - tx) * (1.0 - ty) * node(ix, iy, 0) + tx * (1.0 - ty) * node(ix + 1, iy, 0) + (1.0 - tx) * ty * node(ix, iy + 1, 0) + tx * ty * node(ix + 1, iy + 1, 0);
    if (r2 != want2) fail("container::grid::interpolate|2d", "at (" + str(fx) + "," + str(fy) + ") in a " + std::to_string(w) + "x" + std::to_string(h) + " grid: " + str(r2) + ", expected " + str(want2));
    // an interpolator that picks the nearer node (custom interpolator functions are documented)
    double const r2n = fcppt::container::grid::interpolate(b, dvec2(fx, fy), [](double f, double lo, double hi) { return f < 0.5 ? lo : hi; });
    if (r2n != node(ix + (tx < 0.5 ? 0 : 1), iy + (ty < 0.5 ? 0 : 1), 0)) fail("container::grid::interpolate|nearest", "nearest-node interpolator picked another node");
    using g3 = fcppt::container::grid::object<double, 3>;
    g3 const cgrid(g3::dim(w, h, std::size_t{2}), [&](g3::pos const &p) { return node(p.x(), p.y(), p.z()); });
    double const tz = 0.25;
    double const r3 = fcppt::container::grid::interpolate(cgrid, dvec3(fx, fy, tz), lin);
    double want3 = 0.0;
    for (std::size_t dz = 0; dz < 2; ++dz) for (std::size_t dy = 0; dy < 2; ++dy) for (std::size_t dx = 0; dx < 2; ++dx)
      want3 += (dx ? tx : 1.0 - tx) * (dy ? ty : 1.0 - ty) * (dz ? tz : 1.0 - tz) * node(ix + dx, iy + dy, dz);
    if (r3 != want3) fail("container::grid::interpolate|3d", "at (" + str(fx) + "," + str(fy) + ",0.25): " + str(r3) + ", expected " + str(want3));
    using gf = fcppt::container::grid::object<float, 2>;
    gf const fg(gf::dim(w, h), [&](gf::pos const &p) { return static_cast<float>(node(p.x(), p.y(), 0)); });
    float const rf = fcppt::container::grid::interpolate(fg, fcppt::math::vector::static_<float, 2>(static_cast<float>(fx), static_cast<float>(fy)), [](float f, float lo, float hi) { return fcppt::math::interpolation::linear(f, lo, hi); });
    if (rf != static_cast<float>(want2)) fail("container::grid::interpolate|float", "float grid differs");
  });
}
Reg const r_grid{"grid_interpolate", Kind::exhaustive, "the position lies on a grid line (a coordinate is integral) or in the last quarter of the last cell",
                 [] {
                   for (i64 w = 0; w < 3; ++w) for (i64 h = 0; h < 3; ++h)
                     for (i64 px = 0; px < 4 * (w + 1); ++px) for (i64 py = 0; py < 4 * (h + 1); ++py)
                     { cur({w, h, px, py, px + py}); grid_interp_one(static_cast<std::size_t>(w), static_cast<std::size_t>(h), static_cast<int>(px), static_cast<int>(py), static_cast<int>(px + py)); }
                 },
                 [](Ints const &c) { grid_interp_one(static_cast<std::size_t>(c.at(0)), static_cast<std::size_t>(c.at(1)), static_cast<int>(c.at(2) % 1000), static_cast<int>(c.at(3) % 1000), static_cast<int>(c.at(4) % 1000)); },
                 [](Ints const &c) { return "grid::interpolate (1d, 2d, 3d, float) in a grid of " + std::to_string(2 + static_cast<u64>(c.at(0)) % 3) + "x" + std::to_string(2 + static_cast<u64>(c.at(1)) % 3) + " nodes at quarter position (" + std::to_string(c.at(2)) + "/4," + std::to_string(c.at(3)) + "/4) (reduced modulo the valid range), node seed " + std::to_string(c.at(4)); }};

// ---------------------------------------------------------------------------- algorithm::join_strings
// every range of 0..3 strings with every delimiter is a legal argument (totality; the value is C16's)
void join_strings_one(std::size_t n, std::size_t code, std::size_t d)
{
  static char const *const words[] = {"", "a", "bc"};
  static char const *const delims[] = {"", ",", "ab"};
  n %= 4; d %= 3;
  count(n == 0 || d == 0);
  std::vector<std::string> v;
  for (std::size_t i = 0; i < n; ++i) { v.push_back(words[code % 3]); code /= 3; }
  std::list<std::string> const l(v.begin(), v.end());
  total("algorithm::join_strings", [&] {
    touch(fcppt::algorithm::join_strings(v, std::string(delims[d])));
    touch(fcppt::algorithm::join_strings(l, std::string(delims[d])));
    std::vector<std::wstring> wv;
    for (std::string const &x : v) wv.push_back(std::wstring(x.begin(), x.end()));
    std::string const dl = delims[d];
    touch(fcppt::algorithm::join_strings(wv, std::wstring(dl.begin(), dl.end())));
  });
}
Reg const r_join_strings{"join_strings_small_ranges", Kind::exhaustive, "the range or the delimiter is empty",
                         [] { for (i64 n = 0; n < 4; ++n) for (i64 code = 0; code < 27; ++code) for (i64 d = 0; d < 3; ++d) { cur3(n, code, d); join_strings_one(static_cast<std::size_t>(n), static_cast<std::size_t>(code), static_cast<std::size_t>(d)); } },
                         [](Ints const &c) { join_strings_one(static_cast<std::size_t>(static_cast<u64>(c.at(0))), static_cast<std::size_t>(static_cast<u64>(c.at(1))), static_cast<std::size_t>(static_cast<u64>(c.at(2)))); },
                         [](Ints const &c) { return "join_strings of " + std::to_string(static_cast<u64>(c.at(0)) % 4) + " strings (code " + std::to_string(static_cast<u64>(c.at(1))) + " over {\"\",a,bc}) with delimiter #" + std::to_string(static_cast<u64>(c.at(2)) % 3) + " of {\"\", \",\", ab}"; }};

// ---------------------------------------------------------------------------- math::interval_distance
// Two intervals [a1,b1], [a2,b2] (a <= b) with end points on the boundary lattice of int / long long.
// The exact distance (documentation: the gap, minus the overlap, or minus the shorter part of the
// outer interval when one contains the other) is computed in 128 bits; the call is made when it is
// representable. One class of such inputs was a genuine defect (fix 44890cc): in the containment
// branch the implementation evaluated BOTH parts of the outer interval before taking the maximum, and
// the longer, unselected part overflowed although the result - the shorter part - is representable,
// e.g. outer [INT_MIN, 2], inner [INT_MIN+1, INT_MIN+1]. The known()-guard stays as the mechanism to
// exclude the class by construction should it ever have to be listed again.
char const *const key_interval_containment = "math::interval_distance|containment|unselected-part-overflows";
template <typename T>
void interval_distance_one(std::size_t ia1, std::size_t ib1, std::size_t ia2, std::size_t ib2)
{
  using i128 = __int128;
  static T const lat[] = {std::numeric_limits<T>::min(), static_cast<T>(std::numeric_limits<T>::min() + 1), static_cast<T>(std::numeric_limits<T>::min() / 2), -2, -1, 0, 1, 2, 5, 6,
                          static_cast<T>(std::numeric_limits<T>::max() / 2), static_cast<T>(std::numeric_limits<T>::max() - 1), std::numeric_limits<T>::max()};
  constexpr std::size_t n = sizeof(lat) / sizeof(lat[0]);
  T a1 = lat[ia1 % n], b1 = lat[ib1 % n], a2 = lat[ia2 % n], b2 = lat[ib2 % n];
  if (b1 < a1) std::swap(a1, b1);
  if (b2 < a2) std::swap(a2, b2);
  // the exact result, following the documentation
  i128 f1 = a1, s1 = b1, f2 = a2, s2 = b2;
  if (s1 <= s2) { std::swap(f1, f2); std::swap(s1, s2); }
  bool const containment = !(f2 <= f1);
  i128 const p1 = s2 - s1, p2 = f1 - f2;
  i128 const exact = containment ? std::max(p1, p2) : f1 - s2;
  auto const fits = [](i128 v) { return v >= static_cast<i128>(std::numeric_limits<T>::min()) && v <= static_cast<i128>(std::numeric_limits<T>::max()); };
  count(true);
  if (!fits(exact)) { skip(); return; }
  if (containment && !(fits(p1) && fits(p2)))
  {
    if (known(key_interval_containment)) return;
  }
  total("math::interval_distance", [&] {
    T const r = fcppt::math::interval_distance(fcppt::tuple::make(a1, b1), fcppt::tuple::make(a2, b2));
    touch(r);
    if (static_cast<i128>(r) != exact) fail("math::interval_distance|value", "differs from the documented distance");
  });
}
Reg const r_interval_distance{"interval_distance_lattice", Kind::exhaustive, "every case (end points on the boundary lattice)",
                              [] {
                                for (i64 t = 0; t < 2; ++t)
                                  for (i64 a = 0; a < 13; ++a) for (i64 b = a; b < 13; ++b) for (i64 c = 0; c < 13; ++c) for (i64 d = c; d < 13; ++d)
                                  {
                                    cur({t, a, b, c, d});
                                    if (t == 0) interval_distance_one<int>(static_cast<std::size_t>(a), static_cast<std::size_t>(b), static_cast<std::size_t>(c), static_cast<std::size_t>(d));
                                    else interval_distance_one<long long>(static_cast<std::size_t>(a), static_cast<std::size_t>(b), static_cast<std::size_t>(c), static_cast<std::size_t>(d));
                                  }
                              },
                              [](Ints const &c) {
                                if (c.at(0) % 2 == 0) interval_distance_one<int>(static_cast<std::size_t>(static_cast<u64>(c.at(1))), static_cast<std::size_t>(static_cast<u64>(c.at(2))), static_cast<std::size_t>(static_cast<u64>(c.at(3))), static_cast<std::size_t>(static_cast<u64>(c.at(4))));
                                else interval_distance_one<long long>(static_cast<std::size_t>(static_cast<u64>(c.at(1))), static_cast<std::size_t>(static_cast<u64>(c.at(2))), static_cast<std::size_t>(static_cast<u64>(c.at(3))), static_cast<std::size_t>(static_cast<u64>(c.at(4))));
                              },
                              [](Ints const &c) { return std::string("interval_distance<") + (c.at(0) % 2 == 0 ? "int" : "long long") + "> of the intervals with lattice indices [" + std::to_string(c.at(1)) + "," + std::to_string(c.at(2)) + "] and [" + std::to_string(c.at(3)) + "," + std::to_string(c.at(4)) + "] (lattice: min, min+1, min/2, -2, -1, 0, 1, 2, 5, 6, max/2, max-1, max)"; }};

// ---------------------------------------------------------------------------- algorithm::repeat, binary_search
// repeat with every count of small signed / unsigned types (a negative count means "not at all"; a
// loop that runs away is cut off by the callback so that it shows as an exception here instead of a
// hang); binary_search on sorted ranges of 0..4 elements for values below, inside and above the range
void repeat_search_one(int n, std::size_t len, int value)
{
  struct runaway {};
  count(n <= 0 || len == 0);
  auto const bounded = [](auto count_value) {
    long calls = 0;
    try { fcppt::algorithm::repeat(count_value, [&calls] { if (++calls > 100000) throw runaway{}; }); }
    catch (runaway const &) { verif::fail("algorithm::repeat|runaway-loop|undocumented-exception", "repeat(" + std::to_string(static_cast<long long>(count_value)) + ") ran for more than 100000 iterations"); }
    touch(calls);
  };
  total("algorithm::repeat", [&] {
    bounded(static_cast<signed char>(n));
    bounded(static_cast<short>(n));
    bounded(n);
    bounded(static_cast<long long>(n));
    if (n >= 0) { bounded(static_cast<unsigned char>(n)); bounded(static_cast<unsigned>(n)); }
  });
  total("algorithm::binary_search", [&] {
    std::unique_ptr<int[]> exact(new int[len]);
    for (std::size_t i = 0; i < len; ++i) exact[i] = static_cast<int>(2 * i + 2); // 2, 4, 6, 8: exact-size block
    fcppt::iterator::range<int const *> const r(exact.get(), exact.get() + len);
    touch(fcppt::algorithm::binary_search(r, value).has_value());
    std::vector<int> const v(exact.get(), exact.get() + len);
    touch(fcppt::algorithm::binary_search(v, value).has_value());
  });
}
Reg const r_repeat_search{"repeat_counts_binary_search_edges", Kind::exhaustive, "a count <= 0 or an empty range",
                          [] { for (i64 n = -5; n <= 6; ++n) for (i64 len = 0; len <= 4; ++len) for (i64 v = 0; v <= 10; ++v) { cur3(n, len, v); repeat_search_one(static_cast<int>(n), static_cast<std::size_t>(len), static_cast<int>(v)); } },
                          [](Ints const &c) { repeat_search_one(static_cast<int>(c.at(0) % 100), static_cast<std::size_t>(static_cast<u64>(c.at(1)) % 5), static_cast<int>(c.at(2) % 100)); },
                          [](Ints const &c) { return "repeat(" + std::to_string(c.at(0) % 100) + ") for signed char / short / int / long long (and unsigned if >= 0); binary_search for " + std::to_string(c.at(2) % 100) + " in the first " + std::to_string(static_cast<u64>(c.at(1)) % 5) + " of {2,4,6,8}"; }};
}
