// VERIF: quick_shards=2
// C05 - generic operations conserve values: fcppt::record, fcppt::tuple and fcppt::array.
// Products hold (tracked, wrapped<2>, int); arrays hold tracked, sizes 1 and 3 (and 0 where it
// compiles). Shapes are the static sizes; every argument is passed in every value category the
// function accepts.
// Not instantiated (rejected at compile time, so there is no failing input): tuple::concat with an
// lvalue tuple, array::append / array::push_back / array::join with an lvalue *first* argument.
#include "c05_common.hpp"

#include <fcppt/array/append.hpp>
#include <fcppt/array/apply.hpp>
#include <fcppt/array/from_range.hpp>
#include <fcppt/array/init.hpp>
#include <fcppt/array/join.hpp>
#include <fcppt/array/make.hpp>
#include <fcppt/array/map.hpp>
#include <fcppt/array/object.hpp>
#include <fcppt/array/push_back.hpp>
#include <fcppt/optional/object.hpp>
#include <fcppt/record/element.hpp>
#include <fcppt/record/get.hpp>
#include <fcppt/record/init.hpp>
#include <fcppt/record/make_label.hpp>
#include <fcppt/record/map.hpp>
#include <fcppt/record/multiply_disjoint.hpp>
#include <fcppt/record/object.hpp>
#include <fcppt/record/permute.hpp>
#include <fcppt/record/set.hpp>
#include <fcppt/tuple/concat.hpp>
#include <fcppt/tuple/from_array.hpp>
#include <fcppt/tuple/init.hpp>
#include <fcppt/tuple/make.hpp>
#include <fcppt/tuple/map.hpp>
#include <fcppt/tuple/object.hpp>
#include <fcppt/tuple/push_back.hpp>

#include <cstddef>
#include <type_traits>
#include <utility>
#include <vector>

using namespace c05;

namespace
{
using other_t = wrapped<2>;
using vec = std::vector<tracked>;

// polymorphic unary continuation over the element types of the products
struct poly_conv
{
  tracked operator()(tracked &&x) const { return conv{}(std::move(x)); }
  tracked operator()(tracked const &x) const { return conv{}(x); }
  other_t operator()(other_t &&x) const { return conv_w<2>{}(std::move(x)); }
  other_t operator()(other_t const &x) const { return conv_w<2>{}(x); }
  int operator()(int x) const { return x; }
};

// ------------------------------------------------------------------------------------- record
FCPPT_RECORD_MAKE_LABEL(la);
FCPPT_RECORD_MAKE_LABEL(lb);
FCPPT_RECORD_MAKE_LABEL(lc);
FCPPT_RECORD_MAKE_LABEL(ld);
using el_a = fcppt::record::element<la, tracked>;
using el_b = fcppt::record::element<lb, other_t>;
using el_c = fcppt::record::element<lc, int>;
using el_d = fcppt::record::element<ld, tracked>;
using rec_abc = fcppt::record::object<el_a, el_b, el_c>;
using rec_cba = fcppt::record::object<el_c, el_b, el_a>;
using rec_a = fcppt::record::object<el_a>;
using rec_bd = fcppt::record::object<el_b, el_d>;
using rec_none = fcppt::record::object<>;

rec_abc make_abc() { return rec_abc{la{} = tracked(0), lb{} = other_t(1), lc{} = 5}; }

struct rec_init_fn
{
  tracked operator()(el_a) const { return gen{}(); }
  other_t operator()(el_b) const { return other_t(gen{}()); }
  int operator()(el_c) const { return 3; }
  tracked operator()(el_d) const { return gen{}(); }
};

Family const &record_family()
{
  static Family const f = [] {
    Family r;
    // ---- map: "_function(get<L>(_record)) is stored in the result"
    r.push_back(entry1("record::map", 1, only_rv{}, [](Ctx &cx, int, auto c) {
      using C = decltype(c);
      rec_abc v = make_abc();
      cx.arg<C>(v);
      cx.begin();
      auto res = fcppt::record::map(pass<C>(v), poly_conv{});
      cx.end();
      cx.result(fcppt::record::get<la>(res), {fwd<C>(0)});
      cx.result(fcppt::record::get<lb>(res), {fwd<C>(1)});
    }));
    // ---- permute
    r.push_back(entry1("record::permute", 1, any_cat{}, [](Ctx &cx, int, auto c) {
      using C = decltype(c);
      rec_abc v = make_abc();
      cx.arg<C>(v);
      cx.begin();
      rec_cba res = fcppt::record::permute<rec_cba>(pass<C>(v));
      cx.end();
      cx.result(fcppt::record::get<la>(res), {0});
      cx.result(fcppt::record::get<lb>(res), {1});
      cx.result(res, {0, 1}, false);
    }));
    // ---- multiply_disjoint: shapes: (a) x (b,d) / () x (b,d) / (a) x ()
    r.push_back(entry2("record::multiply_disjoint", 3, any_cat{}, any_cat{}, [](Ctx &cx, int shape, auto c1, auto c2) {
      using C1 = decltype(c1);
      using C2 = decltype(c2);
      rec_a a{la{} = tracked(0)};
      rec_bd b{lb{} = other_t(1), ld{} = tracked(2)};
      rec_none n{};
      if (shape == 0)
      {
        cx.arg<C1>(a, "first");
        cx.arg<C2>(b, "second");
        cx.begin();
        auto res = fcppt::record::multiply_disjoint(pass<C1>(a), pass<C2>(b));
        cx.end();
        cx.result(fcppt::record::get<la>(res), {0});
        cx.result(fcppt::record::get<lb>(res), {1});
        cx.result(fcppt::record::get<ld>(res), {2});
        cx.result(res, {0, 1, 2}, false);
      }
      else if (shape == 1)
      {
        cx.arg<C1>(n, "first");
        cx.arg<C2>(b, "second");
        cx.begin();
        auto res = fcppt::record::multiply_disjoint(pass<C1>(n), pass<C2>(b));
        cx.end();
        cx.result(res, {1, 2}, false);
      }
      else
      {
        cx.arg<C1>(a, "first");
        cx.arg<C2>(n, "second");
        cx.begin();
        auto res = fcppt::record::multiply_disjoint(pass<C1>(a), pass<C2>(n));
        cx.end();
        cx.result(res, {0});
      }
    }));
    // ---- init
    r.push_back(entry0("record::init", 1, [](Ctx &cx, int) {
      cx.begin();
      rec_abc res = fcppt::record::init<rec_abc>(rec_init_fn{});
      cx.end();
      cx.result(res, {gen_base, gen_base + 1}, false);
    }));
    // ---- construction from label = value, and set
    r.push_back(entry2("record::object(label = value)", 1, any_cat{}, any_cat{}, [](Ctx &cx, int, auto c1, auto c2) {
      using C1 = decltype(c1);
      using C2 = decltype(c2);
      tracked t(0);
      other_t w(1);
      cx.arg<C1>(t, "value");
      cx.arg<C2>(w, "value");
      cx.begin();
      rec_abc res{la{} = pass<C1>(t), lc{} = 1, lb{} = pass<C2>(w)};
      cx.end();
      cx.result(fcppt::record::get<la>(res), {0});
      cx.result(fcppt::record::get<lb>(res), {1});
    }));
    r.push_back(entry1("record::set", 1, any_cat{}, [](Ctx &cx, int, auto c) {
      using C = decltype(c);
      rec_abc v = make_abc();
      tracked t(9);
      cx.arg_mutated(v, "record");
      cx.arg<C>(t, "value");
      cx.begin();
      fcppt::record::set<la>(v, pass<C>(t));
      cx.end();
      cx.expect_state(fcppt::record::get<la>(v), {9}, "record");
      cx.expect_state(fcppt::record::get<lb>(v), {1}, "record");
    }));
    return r;
  }();
  return f;
}

// -------------------------------------------------------------------------------------- tuple
using tup3 = fcppt::tuple::object<tracked, other_t, int>;
using tup1 = fcppt::tuple::object<tracked>;
using tup0 = fcppt::tuple::object<>;
tup3 make_tup3(int first = 0) { return tup3{tracked(first), other_t(first + 1), 4}; }

struct tup_init_fn
{
  tracked operator()(std::integral_constant<std::size_t, 0U>) const { return gen{}(); }
  other_t operator()(std::integral_constant<std::size_t, 1U>) const { return other_t(gen{}()); }
  int operator()(std::integral_constant<std::size_t, 2U>) const { return 2; }
};

template <std::size_t N>
fcppt::array::object<tracked, N> make_arr(int first = 0)
{
  return fcppt::array::init<fcppt::array::object<tracked, N>>([first](auto i) { return tracked(first + static_cast<int>(decltype(i)::value)); });
}

Family const &tuple_family()
{
  static Family const f = [] {
    Family r;
    // ---- map: shapes (tracked, wrapped, int) / (tracked) / ()
    r.push_back(entry1("tuple::map", 3, any_cat{}, [](Ctx &cx, int shape, auto c) {
      using C = decltype(c);
      if (shape == 0)
      {
        tup3 v = make_tup3();
        cx.arg<C>(v);
        cx.begin();
        tup3 res = fcppt::tuple::map(pass<C>(v), poly_conv{});
        cx.end();
        cx.result(res, {fwd<C>(0), fwd<C>(1)});
      }
      else if (shape == 1)
      {
        tup1 v{tracked(0)};
        cx.arg<C>(v);
        cx.begin();
        tup1 res = fcppt::tuple::map(pass<C>(v), poly_conv{});
        cx.end();
        cx.result(res, {fwd<C>(0)});
      }
      else
      {
        tup0 v{};
        cx.arg<C>(v);
        cx.begin();
        tup0 res = fcppt::tuple::map(pass<C>(v), poly_conv{});
        cx.end();
        cx.result(res, {});
      }
    }));
    // ---- push_back: "(v_1,...,v_n,_new_element)"
    r.push_back(entry2("tuple::push_back", 3, any_cat{}, any_cat{}, [](Ctx &cx, int shape, auto c1, auto c2) {
      using C1 = decltype(c1);
      using C2 = decltype(c2);
      tracked t(9);
      if (shape == 0)
      {
        tup3 v = make_tup3();
        cx.arg<C1>(v, "tuple");
        cx.arg<C2>(t, "element");
        cx.begin();
        fcppt::tuple::object<tracked, other_t, int, tracked> res = fcppt::tuple::push_back(pass<C1>(v), pass<C2>(t));
        cx.end();
        cx.result(res, {0, 1, 9});
      }
      else if (shape == 1)
      {
        tup1 v{tracked(0)};
        cx.arg<C1>(v, "tuple");
        cx.arg<C2>(t, "element");
        cx.begin();
        fcppt::tuple::object<tracked, tracked> res = fcppt::tuple::push_back(pass<C1>(v), pass<C2>(t));
        cx.end();
        cx.result(res, {0, 9});
      }
      else
      {
        tup0 v{};
        cx.arg<C1>(v, "tuple");
        cx.arg<C2>(t, "element");
        cx.begin();
        tup1 res = fcppt::tuple::push_back(pass<C1>(v), pass<C2>(t));
        cx.end();
        cx.result(res, {9});
      }
    }));
    // ---- concat (rvalue tuples only)
    r.push_back(entry0("tuple::concat", 3, [](Ctx &cx, int shape) {
      tup3 a = make_tup3(0), b = make_tup3(10);
      tup1 d{tracked(20)};
      tup0 n{};
      cx.arg<rv>(a, "tuples");
      cx.arg<rv>(b, "tuples");
      cx.arg<rv>(d, "tuples");
      cx.klass_override("rvalue-tuples");
      cx.begin();
      if (shape == 0)
      {
        auto res = fcppt::tuple::concat(std::move(a), std::move(b));
        cx.end();
        cx.result(res, {0, 1, 10, 11});
      }
      else if (shape == 1)
      {
        auto res = fcppt::tuple::concat(std::move(a), std::move(n), std::move(d), std::move(b));
        cx.end();
        cx.result(res, {0, 1, 20, 10, 11});
      }
      else
      {
        auto res = fcppt::tuple::concat(std::move(d));
        cx.end();
        cx.result(res, {20});
      }
    }));
    // ---- from_array
    r.push_back(entry1("tuple::from_array", 2, any_cat{}, [](Ctx &cx, int shape, auto c) {
      using C = decltype(c);
      if (shape == 0)
      {
        auto v = make_arr<3>();
        cx.arg<C>(v);
        cx.begin();
        fcppt::tuple::object<tracked, tracked, tracked> res = fcppt::tuple::from_array(pass<C>(v));
        cx.end();
        cx.result(res, {0, 1, 2});
      }
      else
      {
        auto v = make_arr<1>();
        cx.arg<C>(v);
        cx.begin();
        tup1 res = fcppt::tuple::from_array(pass<C>(v));
        cx.end();
        cx.result(res, {0});
      }
    }));
    // ---- make / init
    r.push_back(entry2("tuple::make", 1, any_cat{}, any_cat{}, [](Ctx &cx, int, auto c1, auto c2) {
      using C1 = decltype(c1);
      using C2 = decltype(c2);
      tracked t(0);
      other_t w(1);
      cx.arg<C1>(t, "value");
      cx.arg<C2>(w, "value");
      cx.begin();
      tup3 res = fcppt::tuple::make(pass<C1>(t), pass<C2>(w), 3);
      cx.end();
      cx.result(res, {0, 1});
    }));
    r.push_back(entry0("tuple::init", 1, [](Ctx &cx, int) {
      cx.begin();
      tup3 res = fcppt::tuple::init<tup3>(tup_init_fn{});
      cx.end();
      cx.result(res, {gen_base, gen_base + 1});
    }));
    return r;
  }();
  return f;
}

// -------------------------------------------------------------------------------------- array
template <std::size_t N>
using arr = fcppt::array::object<tracked, N>;

template <typename C, std::size_t N>
void array_map_case(Ctx &cx)
{
  arr<N> v = make_arr<N>();
  cx.arg<C>(v);
  cx.begin();
  arr<N> res = fcppt::array::map(pass<C>(v), conv{});
  cx.end();
  cx.result(res, mapped(iota(static_cast<int>(N)), fwd<C>));
}
template <typename C1, typename C2, std::size_t N>
void array_apply_case(Ctx &cx)
{
  arr<N> a = make_arr<N>(), b = make_arr<N>(10);
  cx.arg<C1>(a, "first");
  cx.arg<C2>(b, "second");
  cx.begin();
  arr<N> res = fcppt::array::apply(conv2{}, pass<C1>(a), pass<C2>(b));
  cx.end();
  cx.result(res, mapped(iota(static_cast<int>(N)), fwd<C1>));
  cx.sink_only(mapped(iota(static_cast<int>(N), 10), fwd<C2>));
}
template <typename C2, std::size_t N, std::size_t M>
void array_append_case(Ctx &cx)
{
  arr<N> a = make_arr<N>();
  arr<M> b = make_arr<M>(10);
  cx.arg<rv>(a, "first");
  cx.arg<C2>(b, "second");
  cx.begin();
  arr<N + M> res = fcppt::array::append(std::move(a), pass<C2>(b));
  cx.end();
  cx.result(res, cat_vec(iota(static_cast<int>(N)), iota(static_cast<int>(M), 10)));
}
template <typename C2, typename C3, std::size_t N>
void array_join_case(Ctx &cx)
{
  arr<N> a = make_arr<N>();
  arr<1> b = make_arr<1>(10);
  arr<2> d = make_arr<2>(20);
  cx.arg<rv>(a, "first");
  cx.arg<C2>(b, "second");
  cx.arg<C3>(d, "third");
  cx.begin();
  arr<N + 3> res = fcppt::array::join(std::move(a), pass<C2>(b), pass<C3>(d));
  cx.end();
  cx.result(res, cat_vec(cat_vec(iota(static_cast<int>(N)), iota(1, 10)), iota(2, 20)));
}
template <typename C2, std::size_t N>
void array_push_back_case(Ctx &cx)
{
  arr<N> a = make_arr<N>();
  tracked t(9);
  cx.arg<rv>(a, "array");
  cx.arg<C2>(t, "element");
  cx.begin();
  arr<N + 1> res = fcppt::array::push_back(std::move(a), pass<C2>(t));
  cx.end();
  cx.result(res, cat_vec(iota(static_cast<int>(N)), {9}));
}
template <typename C, std::size_t N>
void array_from_range_case(Ctx &cx, int n)
{
  vec v = make_vec(n);
  cx.arg<C>(v, "range");
  cx.begin();
  fcppt::optional::object<arr<N>> res = fcppt::array::from_range<N>(pass<C>(v));
  cx.end();
  bool const fits = static_cast<std::size_t>(n) == N;
  if (res.has_value() != fits) fail(cx.key("has-value"), cx.where() + "result " + (res.has_value() ? "has a value" : "is nothing"));
  cx.result(res, fits ? iota(n) : std::vector<int>{});
}

Family const &array_family()
{
  static Family const f = [] {
    Family r;
    r.push_back(entry1("array::map", 2, any_cat{}, [](Ctx &cx, int shape, auto c) {
      using C = decltype(c);
      if (shape == 0) array_map_case<C, 1>(cx);
      else array_map_case<C, 3>(cx);
    }));
    r.push_back(entry2("array::apply", 2, any_cat{}, any_cat{}, [](Ctx &cx, int shape, auto c1, auto c2) {
      using C1 = decltype(c1);
      using C2 = decltype(c2);
      if (shape == 0) array_apply_case<C1, C2, 1>(cx);
      else array_apply_case<C1, C2, 3>(cx);
    }));
    r.push_back(entry1("array::append", 3, any_cat{}, [](Ctx &cx, int shape, auto c2) {
      using C2 = decltype(c2);
      if (shape == 0) array_append_case<C2, 1, 1>(cx);
      else if (shape == 1) array_append_case<C2, 3, 2>(cx);
      else array_append_case<C2, 1, 3>(cx);
    }));
    r.push_back(entry2("array::join", 2, any_cat{}, rv_clv{}, [](Ctx &cx, int shape, auto c2, auto c3) {
      using C2 = decltype(c2);
      using C3 = decltype(c3);
      if (shape == 0) array_join_case<C2, C3, 1>(cx);
      else array_join_case<C2, C3, 3>(cx);
    }));
    r.push_back(entry0("array::join(1)", 1, [](Ctx &cx, int) {
      arr<3> a = make_arr<3>();
      cx.arg<rv>(a, "first");
      cx.key_fn = "array::join";
      cx.begin();
      arr<3> res = fcppt::array::join(std::move(a));
      cx.end();
      cx.result(res, {0, 1, 2});
    }));
    r.push_back(entry1("array::push_back", 2, any_cat{}, [](Ctx &cx, int shape, auto c2) {
      using C2 = decltype(c2);
      if (shape == 0) array_push_back_case<C2, 1>(cx);
      else array_push_back_case<C2, 3>(cx);
    }));
    // from_range: shapes = (static size, dynamic size): (1,1) (1,0) (3,3) (3,2) (3,4)
    r.push_back(entry1("array::from_range", 5, any_cat{}, [](Ctx &cx, int shape, auto c) {
      using C = decltype(c);
      if (shape == 0) array_from_range_case<C, 1>(cx, 1);
      else if (shape == 1) array_from_range_case<C, 1>(cx, 0);
      else if (shape == 2) array_from_range_case<C, 3>(cx, 3);
      else if (shape == 3) array_from_range_case<C, 3>(cx, 2);
      else array_from_range_case<C, 3>(cx, 4);
    }));
    r.push_back(entry0("array::init", 2, [](Ctx &cx, int shape) {
      cx.begin();
      if (shape == 0)
      {
        arr<1> res = fcppt::array::init<arr<1>>([](auto) { return gen{}(); });
        cx.end();
        cx.result(res, iota(1, gen_base));
      }
      else
      {
        arr<3> res = fcppt::array::init<arr<3>>([](auto) { return gen{}(); });
        cx.end();
        cx.result(res, iota(3, gen_base));
      }
    }));
    r.push_back(entry2("array::make", 1, any_cat{}, any_cat{}, [](Ctx &cx, int, auto c1, auto c2) {
      using C1 = decltype(c1);
      using C2 = decltype(c2);
      tracked t(0), u(1);
      cx.arg<C1>(t, "value");
      cx.arg<C2>(u, "value");
      cx.begin();
      arr<2> res = fcppt::array::make(pass<C1>(t), pass<C2>(u));
      cx.end();
      cx.result(res, {0, 1});
    }));
    return r;
  }();
  return f;
}

C05_SECTION(r_record, "record", record_family);
C05_SECTION(r_tuple, "tuple", tuple_family);
C05_SECTION(r_array, "array", array_family);
}
