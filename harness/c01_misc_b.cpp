// VERIF: lib rc quick_shards=4
// C01 (miscellaneous io / filesystem / log / string-conversion / output-operator part of the registry)
// - safe API is total.
// Oracle: (a) the process survives ASan+UBSan+_GLIBCXX_ASSERTIONS, (b) only the documented exception
// types escape, (c) the watchdog, (d) a returned optional is well-formed (it is read), (e) where the
// Doxygen comment states the result: a simple independent value oracle (plain iostreams, std::filesystem).
// Output operators: must not throw, must leave the stream good and - where documented - have the
// documented form.
#include "verif.hpp"

#include <fcppt/make_ref.hpp>
#include <fcppt/make_strong_typedef.hpp>
#include <fcppt/reference.hpp>
#include <fcppt/string.hpp>
#include <fcppt/string_view.hpp>
#include <fcppt/strong_typedef.hpp>
#include <fcppt/strong_typedef_input.hpp>
#include <fcppt/strong_typedef_output.hpp>
#include <fcppt/text.hpp>
#include <fcppt/io/buffer.hpp>
#include <fcppt/io/expect.hpp>
#include <fcppt/io/extract.hpp>
#include <fcppt/io/get.hpp>
#include <fcppt/io/istringstream.hpp>
#include <fcppt/io/narrow_string.hpp>
#include <fcppt/io/optional_buffer.hpp>
#include <fcppt/io/ostringstream.hpp>
#include <fcppt/io/peek.hpp>
#include <fcppt/io/scoped_rdbuf.hpp>
#include <fcppt/io/basic_scoped_rdbuf_impl.hpp>
#include <fcppt/io/widen_string.hpp>
#include <fcppt/io/write_chars.hpp>
#include <fcppt/log/level.hpp>
#include <fcppt/log/level_from_string.hpp>
#include <fcppt/log/level_input.hpp>
#include <fcppt/log/level_output.hpp>
#include <fcppt/log/level_to_string.hpp>
#include <fcppt/log/optional_level.hpp>
#include <fcppt/log/format/function.hpp>
#include <fcppt/log/format/time_stamp.hpp>
#include <fcppt/optional/object.hpp>
#include <fcppt/exception.hpp>
#include <fcppt/from_std_string_locale.hpp>
#include <fcppt/from_std_wstring_locale.hpp>
#include <fcppt/insert_extract_locale.hpp>
#include <fcppt/optional_std_string.hpp>
#include <fcppt/optional_string.hpp>
#include <fcppt/output_to_fcppt_string.hpp>
#include <fcppt/output_to_fcppt_string_locale.hpp>
#include <fcppt/output_to_std_string.hpp>
#include <fcppt/output_to_std_string_locale.hpp>
#include <fcppt/output_to_std_wstring.hpp>
#include <fcppt/output_to_std_wstring_locale.hpp>
#include <fcppt/output_to_string.hpp>
#include <fcppt/output_to_string_locale.hpp>
#include <fcppt/string_conv_locale.hpp>
#include <fcppt/to_std_string_locale.hpp>
#include <fcppt/to_std_wstring_locale.hpp>
#include <fcppt/filesystem/directory_range.hpp>
#include <fcppt/filesystem/fstream.hpp>
#include <fcppt/filesystem/ifstream.hpp>
#include <fcppt/filesystem/ofstream.hpp>
#include <fcppt/filesystem/open.hpp>
#include <fcppt/filesystem/open_exn.hpp>
#include <fcppt/filesystem/optional_size.hpp>
#include <fcppt/filesystem/recursive_directory_range.hpp>
#include <fcppt/make_recursive.hpp>
#include <fcppt/make_shared_ptr.hpp>
#include <fcppt/recursive.hpp>
#include <fcppt/recursive_output.hpp>
#include <fcppt/reference_output.hpp>
#include <fcppt/shared_ptr.hpp>
#include <fcppt/shared_ptr_output.hpp>
#include <fcppt/unit.hpp>
#include <fcppt/unit_output.hpp>
#include <fcppt/array/object.hpp>
#include <fcppt/array/output.hpp>
#include <fcppt/assert/unreachable.hpp>
#include <fcppt/container/output.hpp>
#include <fcppt/container/bitfield/object.hpp>
#include <fcppt/container/bitfield/output.hpp>
#include <fcppt/container/grid/object.hpp>
#include <fcppt/container/grid/output.hpp>
#include <fcppt/container/tree/object.hpp>
#include <fcppt/container/tree/output.hpp>
#include <fcppt/either/object.hpp>
#include <fcppt/either/output.hpp>
#include <fcppt/enum/to_string_case.hpp>
#include <fcppt/enum/to_string_impl_fwd.hpp>
#include <fcppt/math/box/object.hpp>
#include <fcppt/math/box/output.hpp>
#include <fcppt/math/box/rect.hpp>
#include <fcppt/math/dim/output.hpp>
#include <fcppt/math/dim/static.hpp>
#include <fcppt/math/matrix/object.hpp>
#include <fcppt/math/matrix/output.hpp>
#include <fcppt/math/matrix/row.hpp>
#include <fcppt/math/matrix/static.hpp>
#include <fcppt/math/sphere/circle.hpp>
#include <fcppt/math/sphere/object.hpp>
#include <fcppt/math/sphere/output.hpp>
#include <fcppt/math/vector/output.hpp>
#include <fcppt/math/vector/static.hpp>
#include <fcppt/optional/output.hpp>
#include <fcppt/options/flag_name.hpp>
#include <fcppt/options/flag_name_set.hpp>
#include <fcppt/options/help_switch.hpp>
#include <fcppt/options/indent.hpp>
#include <fcppt/options/option_name.hpp>
#include <fcppt/options/option_name_comparison.hpp>
#include <fcppt/options/pretty_type.hpp>
#include <fcppt/options/pretty_type_enum.hpp>
#include <fcppt/parse/column.hpp>
#include <fcppt/parse/error.hpp>
#include <fcppt/parse/error_equal.hpp>
#include <fcppt/parse/error_output.hpp>
#include <fcppt/parse/fatal_tag.hpp>
#include <fcppt/parse/line.hpp>
#include <fcppt/parse/location.hpp>
#include <fcppt/parse/location_equal.hpp>
#include <fcppt/parse/location_output.hpp>
#include <fcppt/parse/position.hpp>
#include <fcppt/parse/position_equal.hpp>
#include <fcppt/parse/position_output.hpp>
#include <fcppt/tuple/make.hpp>
#include <fcppt/tuple/object.hpp>
#include <fcppt/tuple/output.hpp>
#include <fcppt/variant/object.hpp>
#include <fcppt/variant/output.hpp>
#include <fcppt/parse/blank.hpp>
#include <fcppt/parse/blank_set.hpp>
#include <fcppt/parse/digits.hpp>
#include <fcppt/parse/parse_string.hpp>
#include <fcppt/parse/phrase_parse_string.hpp>
#include <fcppt/parse/result.hpp>
#include <fcppt/parse/space.hpp>
#include <fcppt/parse/operators/repetition.hpp>
#include <fcppt/parse/skipper/char_set.hpp>
#include <fcppt/parse/skipper/operators/repetition.hpp>

#include <array>
#include <deque>
#include <cstring>
#include <filesystem>
#include <fstream>
#include <iostream>
#include <list>
#include <locale>
#include <memory>
#include <set>
#include <sstream>
#include <stdexcept>
#include <string>
#include <string_view>
#include <typeinfo>
#include <unistd.h>
#include <vector>

using namespace verif;

namespace
{
// C01 is about totality (no UB, no crash, no hang, no undocumented exception). The entries below
// also compare results with simple references, because that costs nothing and reads every result
// (so that an ill-formed one trips a sanitizer) - but a result that merely DIFFERS from the reference
// is not a violation of C01: a change to fcppt that keeps a function total while changing its value
// must not make this check raise an alarm. Hence only the totality keys reach verif::fail; a value
// disagreement is counted as a class in the evidence ("informational") and nothing more.
void fail(std::string const &key, std::string const &what)
{
  if (key.find("undocumented-exception") != std::string::npos) verif::fail(key, what);
  else verif::cls("value oracle disagreed (informational, outside C01)");
}
enum class colour { red, green, blue, fcppt_maximum = blue };
}
namespace fcppt::enum_
{
template <>
struct to_string_impl<colour>
{
  static std::string_view get(colour const v)
  {
    switch (v) { FCPPT_ENUM_TO_STRING_CASE(colour, red); FCPPT_ENUM_TO_STRING_CASE(colour, green); FCPPT_ENUM_TO_STRING_CASE(colour, blue); }
    FCPPT_ASSERT_UNREACHABLE;
  }
};
}

namespace
{
volatile long long g_sink = 0;
template <typename T>
void touch(T const &v)
{
  unsigned char const *p = reinterpret_cast<unsigned char const *>(&v);
  long long s = 0;
  for (std::size_t i = 0; i < sizeof(T); ++i) s += p[i];
  g_sink = g_sink + s;
}
void touch(std::string const &s) { long long t = 0; for (char c : s) t += c; g_sink = g_sink + t + static_cast<long long>(s.size()); }
void touch(std::wstring const &s) { long long t = 0; for (wchar_t c : s) t += c; g_sink = g_sink + t; }

template <typename... Allowed, typename F>
void total(char const *site, F &&f)
{
  try
  {
    f();
  }
  catch (std::bad_alloc const &)
  {
  }
  catch (std::exception const &e)
  {
    bool ok = false;
    ((ok = ok || dynamic_cast<Allowed const *>(&e) != nullptr), ...);
    if (!ok) fail(std::string(site) + "|undocumented-exception", std::string(typeid(e).name()) + ": " + e.what());
  }
  catch (...)
  {
    fail(std::string(site) + "|undocumented-exception", "non-std exception escaped");
  }
}
std::string show_string(std::string const &s)
{
  std::string r = "\"";
  for (unsigned char ch : s)
  {
    if (ch >= 0x20 && ch < 0x7f && ch != '"') r.push_back(static_cast<char>(ch));
    else { char b[8]; std::snprintf(b, sizeof b, "\\x%02x", ch); r += b; }
  }
  return r + "\"";
}
std::string narrow_show(std::wstring const &w)
{
  std::string r;
  for (wchar_t c : w) r.push_back(c >= 0x20 && c < 0x7f ? static_cast<char>(c) : '?');
  return r;
}
std::wstring widen_ascii(std::string const &s) { return std::wstring(s.begin(), s.end()); }

// ---------------------------------------------------------------------------- io helpers, strong_typedef i/o, log levels
char const io_alphabet[] = {'0', '1', '7', '9', '-', '+', '.', ' ', '\n', '\t', 'a', 'e', 'i', 'n', 'f', 'o', 'x', '\0', '\xff', '\xc3', 'I', 'w'};
char const *const io_words[] = {"verbose", "debug", "info", "warning", "error", "fatal", "Info", "inf", "infos", "fcppt_maximum", "12", "-12", "0x1f", "2147483648", "1e3", " "};
std::string decode_io(Ints const &c)
{
  std::string s;
  std::size_t const elems = c.size() < 2 ? 0 : static_cast<std::size_t>(static_cast<u64>(c[1]) % 13); // frames are 4 words: the length is a word of its own
  for (std::size_t i = 2; i < c.size() && i < 2 + elems && s.size() < 24; ++i)
  {
    u64 const x = static_cast<u64>(c[i]);
    if (x % 5 == 4) s += io_words[(x / 5) % (sizeof io_words / sizeof io_words[0])];
    else s.push_back(io_alphabet[(x / 5) % sizeof io_alphabet]);
  }
  return s;
}
FCPPT_MAKE_STRONG_TYPEDEF(int, st_int);
FCPPT_MAKE_STRONG_TYPEDEF(std::string, st_string);
char const *const level_names[] = {"verbose", "debug", "info", "warning", "error", "fatal"};

// the reference: plain operator>> on an identical stream
template <typename T, typename Ch>
void extract_check(std::basic_string<Ch> const &content, char const *tn)
{
  std::basic_istringstream<Ch> in(content), ref(content);
  in.imbue(std::locale::classic());
  ref.imbue(std::locale::classic());
  fcppt::optional::object<T> const r = fcppt::io::extract<T>(in);
  T want{};
  bool const ok = static_cast<bool>(ref >> want);
  if (r.has_value() != ok) fail(std::string("io::extract|presence|") + tn, std::string("extract<") + tn + "> is " + (r.has_value() ? "present" : "absent") + " but operator>> " + (ok ? "succeeds" : "fails"));
  else if (ok && !(r.get_unsafe() == want)) fail(std::string("io::extract|value|") + tn, "value differs from operator>>");
  if (in.rdstate() != ref.rdstate() || (ok && in.tellg() != ref.tellg())) fail(std::string("io::extract|stream-state|") + tn, "stream state or position differs from plain operator>>");
}
template <typename T>
void expect_check(std::string const &content, T const &value, char const *tn)
{
  std::istringstream in(content), ref(content);
  std::istream &ret = fcppt::io::expect(in, value);
  if (&ret != &in) fail("io::expect|returns-stream", "expect does not return its stream");
  T got{};
  bool const ok = static_cast<bool>(ref >> got);
  // "If the value read is unequal to _value, the failbit is set"; a failed read fails the stream by itself
  bool const want_fail = !ok || !(got == value);
  if (in.fail() != want_fail) fail(std::string("io::expect|failbit|") + tn, std::string("after expect the stream is ") + (in.fail() ? "failed" : "not failed") + ", the stream " + (ok ? "holds " + str(got) : std::string("holds no value")) + " and " + str(value) + " was expected");
}
void io_one(Ints const &c)
{
  std::string const s = decode_io(c);
  i64 const k = c.empty() ? 0 : c[0];
  int const ival = static_cast<int>(k % 25) - 12;
  std::wstring w;
  for (unsigned char ch : s) w.push_back(ch < 0x80 ? static_cast<wchar_t>(ch) : static_cast<wchar_t>(0x100 + ch));
  count(s.empty() || s.find('\0') != std::string::npos || s.find('\xff') != std::string::npos || s.find_first_not_of(" \n\t") == std::string::npos);
  total("io::extract", [&] {
    extract_check<int>(s, "int"); extract_check<unsigned>(s, "unsigned"); extract_check<double>(s, "double"); extract_check<std::string>(s, "string");
    extract_check<char>(s, "char"); extract_check<short>(s, "short"); extract_check<long long>(s, "long long"); extract_check<bool>(s, "bool");
    extract_check<int>(w, "int-wide"); extract_check<std::wstring>(w, "wstring"); extract_check<wchar_t>(w, "wchar_t");
    std::istringstream failed(s);
    failed.setstate(std::ios_base::failbit);
    if (fcppt::io::extract<int>(failed).has_value()) fail("io::extract|failed-stream", "extracted from a failed stream");
  });
  total("io::expect", [&] {
    expect_check<int>(s, ival, "int");
    expect_check<char>(s, s.empty() ? 'a' : s[s.size() / 2], "char");
    expect_check<unsigned>(s, 12U, "unsigned");
    expect_check<bool>(s, (k & 1) != 0, "bool");
  });
  total("io::peek/get", [&] {
    std::istringstream in(s);
    std::size_t const steps = s.size() + 2;
    for (std::size_t i = 0; i < steps; ++i)
    {
      fcppt::optional::object<char> const p = fcppt::io::peek(in);
      if (p.has_value() != (i < s.size())) { fail("io::peek|presence", "peek at offset " + std::to_string(i) + " of " + std::to_string(s.size()) + " characters"); break; }
      if (p.has_value() && p.get_unsafe() != s[i]) { fail("io::peek|value", "peek returned another character at offset " + std::to_string(i)); break; }
      fcppt::optional::object<char> const g = fcppt::io::get(in);
      if (g.has_value() != p.has_value() || (g.has_value() && g.get_unsafe() != s[i])) { fail("io::peek|consumes", "get after peek does not return the peeked character at offset " + std::to_string(i)); break; }
    }
    std::wistringstream win(w);
    fcppt::optional::object<wchar_t> const wp = fcppt::io::peek(win);
    if (wp.has_value() != !w.empty() || (wp.has_value() && wp.get_unsafe() != w[0])) fail("io::peek|wide", "wide peek wrong");
  });
  total("io::write_chars", [&] {
    std::unique_ptr<char[]> exact(new char[s.empty() ? 1 : s.size()]);
    std::copy(s.begin(), s.end(), exact.get());
    for (std::size_t cnt : {std::size_t{0}, s.size() / 2, s.size()})
    {
      std::ostringstream out;
      bool const ok = fcppt::io::write_chars(out, exact.get(), cnt);
      if (!ok || out.str() != s.substr(0, cnt)) fail("io::write_chars|value", "write_chars of " + std::to_string(cnt) + " characters returned " + std::to_string(ok) + " and wrote " + show_string(out.str()));
    }
    std::ostringstream bad;
    bad.setstate(std::ios_base::badbit);
    if (fcppt::io::write_chars(bad, exact.get(), s.size())) fail("io::write_chars|bad-stream", "reported success on a bad stream");
    std::ofstream closed;
    if (fcppt::io::write_chars(closed, exact.get(), s.size()) && !s.empty()) fail("io::write_chars|closed-file", "reported success on a closed file stream");
  });
  total("io::narrow_string", [&] {
    // Documented (narrow_string_locale): d_i = ctype<Ch>.narrow(c_i, 0); the string d_1..d_n iff no d_i is 0.
    // In the classic locale ctype<wchar_t>::narrow maps 0..127 to themselves and everything else to the default.
    std::wistringstream ios;
    ios.imbue(std::locale::classic());
    std::unique_ptr<wchar_t[]> exact(new wchar_t[w.empty() ? 1 : w.size()]);
    std::copy(w.begin(), w.end(), exact.get());
    auto const r = fcppt::io::narrow_string(ios, std::wstring_view(exact.get(), w.size()));
    bool want = true;
    for (wchar_t ch : w) want = want && ch > 0 && ch < 128;
    if (r.has_value() != want) fail("io::narrow_string|presence", std::string("result is ") + (r.has_value() ? "present" : "absent") + " for " + show_string(s));
    else if (want && r.get_unsafe() != s) fail("io::narrow_string|value", "characters changed");
    std::istringstream nios;
    nios.imbue(std::locale::classic());
    auto const r2 = fcppt::io::narrow_string(nios, std::string_view(s));
    bool const want2 = s.find('\0') == std::string::npos;
    if (r2.has_value() != want2 || (want2 && r2.get_unsafe() != s)) fail("io::narrow_string|char", "char version wrong for " + show_string(s));
  });
  total("io::widen_string", [&] {
    std::ostringstream out;
    out << fcppt::io::widen_string(std::string(s));
    if (!out.good() || out.str() != s) fail("io::widen_string|narrow", "narrow output differs");
    std::wostringstream wout;
    wout.imbue(std::locale::classic());
    wout << fcppt::io::widen_string(std::string(s));
    std::wstring const got = wout.str();
    // Reading: what ctype<wchar_t>::widen makes of a byte >= 0x80 is locale business (in the classic
    // locale libstdc++ yields WEOF, which a wide stream buffer may refuse): value oracle for ASCII only
    bool ascii = true;
    for (unsigned char ch : s) ascii = ascii && ch < 0x80;
    if (ascii && (!wout.good() || got != std::wstring(s.begin(), s.end()))) fail("io::widen_string|wide", "wide output of an ASCII string differs");
  });
  total("io::scoped_rdbuf", [&] {
    fcppt::io::ostringstream outer, inner;
    outer << FCPPT_TEXT("a");
    {
      fcppt::io::scoped_rdbuf const guard(fcppt::make_ref(static_cast<std::basic_ios<fcppt::char_type> &>(outer)), fcppt::make_ref(static_cast<std::basic_streambuf<fcppt::char_type> &>(*inner.rdbuf())));
      outer << s;
      {
        fcppt::io::ostringstream innermost;
        fcppt::io::scoped_rdbuf const guard2(fcppt::make_ref(static_cast<std::basic_ios<fcppt::char_type> &>(outer)), fcppt::make_ref(static_cast<std::basic_streambuf<fcppt::char_type> &>(*innermost.rdbuf())));
        outer << FCPPT_TEXT("deep");
        if (innermost.str() != "deep") fail("io::scoped_rdbuf|nested", "nested redirection did not receive the output");
      }
      outer << FCPPT_TEXT("!");
    }
    outer << FCPPT_TEXT("b");
    if (inner.str() != s + "!" || outer.str() != "ab") fail("io::scoped_rdbuf|restore", "outer holds " + show_string(outer.str()) + ", inner " + show_string(inner.str()));
    fcppt::io::optional_buffer const none{};
    fcppt::io::buffer buf;
    buf.push_back('x');
    touch(none.has_value());
    touch(buf.size());
  });
  total("strong_typedef_input/output", [&] {
    std::istringstream in(s), ref(s);
    st_int v{ival};
    in >> v;
    int want = 0;
    bool const ok = static_cast<bool>(ref >> want);
    if (in.fail() == ok) fail("strong_typedef_input|stream-state", "stream state differs from extracting the underlying type");
    else if (ok && v.get() != want) fail("strong_typedef_input|value", "read " + std::to_string(v.get()) + ", the underlying type reads " + std::to_string(want));
    else if (!ok && v.get() != ival) fail("strong_typedef_input|failure-keeps-value", "a failed read changed the value");
    std::istringstream in2(s), ref2(s);
    st_string sv{std::string("keep")};
    in2 >> sv;
    std::string wants;
    bool const ok2 = static_cast<bool>(ref2 >> wants);
    if (in2.fail() == ok2 || (ok2 && sv.get() != wants) || (!ok2 && sv.get() != "keep")) fail("strong_typedef_input|string", "string typedef read differs from the underlying type");
    std::ostringstream out;
    out << st_int{ival} << '|' << st_string{std::string(s)};
    if (!out.good() || out.str() != std::to_string(ival) + "|" + s) fail("strong_typedef_output|value", "printed " + show_string(out.str()));
    std::wostringstream wout;
    wout << st_int{ival};
    if (!wout.good() || wout.str() != widen_ascii(std::to_string(ival))) fail("strong_typedef_output|wide", "wide output differs");
  });
  total("log::level_from_string", [&] {
    std::unique_ptr<char[]> exact(new char[s.empty() ? 1 : s.size()]);
    std::copy(s.begin(), s.end(), exact.get());
    fcppt::log::optional_level const r = fcppt::log::level_from_string(fcppt::string_view(exact.get(), s.size()));
    int want = -1;
    for (int i = 0; i < 6; ++i) if (s == level_names[i]) want = i;
    if (r.has_value() != (want >= 0)) fail("log::level_from_string|presence", std::string("level_from_string(") + show_string(s) + ") is " + (r.has_value() ? "present" : "absent"));
    else if (want >= 0 && static_cast<int>(r.get_unsafe()) != want) fail("log::level_from_string|value", "wrong level for " + s);
  });
  total("log::level_input", [&] {
    // Reads one whitespace-delimited token; the level is set iff the token is an enumerator name,
    // otherwise the failbit is set (documented for enum_::input) and the level is left alone.
    fcppt::io::istringstream in(s);
    std::istringstream ref(s);
    fcppt::log::level lv = fcppt::log::level::warning;
    in >> lv;
    std::string token;
    int want = -1;
    if (ref >> token) for (int i = 0; i < 6; ++i) if (token == level_names[i]) want = i;
    if (in.fail() != (want < 0)) fail("log::level_input|failbit", std::string("the stream is ") + (in.fail() ? "failed" : "good") + " after reading the token " + show_string(token));
    else if (static_cast<int>(lv) != (want < 0 ? 3 : want)) fail("log::level_input|value", "level is " + std::to_string(static_cast<int>(lv)) + " after reading " + show_string(token));
  });
  total("log::level_output", [&] {
    fcppt::log::level const lv = static_cast<fcppt::log::level>(static_cast<u64>(k) % 6);
    fcppt::io::ostringstream out;
    out << lv;
    if (!out.good() || out.str() != level_names[static_cast<u64>(k) % 6] || fcppt::log::level_to_string(lv) != level_names[static_cast<u64>(k) % 6]) fail("log::level_output|value", "printed " + show_string(out.str()));
    // round trip through input
    fcppt::io::istringstream back(out.str());
    fcppt::log::level lv2 = lv == fcppt::log::level::fatal ? fcppt::log::level::verbose : fcppt::log::level::fatal;
    back >> lv2;
    if (back.fail() || lv2 != lv) fail("log::level_output|round-trip", "the printed name is not read back");
  });
  total<std::runtime_error>("log::format::time_stamp", [&] {
    // "prints a time stamp in front": the formatted text ends with the original text
    fcppt::log::format::function const f = fcppt::log::format::time_stamp();
    fcppt::string const r = f(fcppt::string(s));
    if (r.size() <= s.size() || r.compare(r.size() - s.size(), s.size(), s) != 0) fail("log::format::time_stamp|suffix", "the formatted text does not end with the message: " + show_string(r));
  });
}
Reg const r_io{"io_strongtypedef_loglevel", Kind::random, "the stream content is empty, all white space, or contains NUL / 0xff",
               [] { run_random(*g_cur.sec, {2500, 6}, {30000, 6}); },
               io_one,
               [](Ints const &c) { return "io::extract/expect/peek/get/write_chars/narrow_string/widen_string/scoped_rdbuf, strong_typedef >> <<, log level from_string/>>/<< on stream content " + show_string(decode_io(c)) + " with number " + std::to_string(c.empty() ? 0 : c[0]); }};

// ---------------------------------------------------------------------------- filesystem: ranges, open_exn, stream typedefs
// Everything happens below $VERIF_SCRATCH/c01-misc-<pid>. Oracles: directory_range /
// recursive_directory_range enumerate what std::filesystem enumerates (as a set of paths) and report
// failure through the error_code; open_exn returns an open stream or throws the documented exception
// type (fcppt::exception or the given Exception) whose text names the path.
std::filesystem::path scratch_dir()
{
  static std::filesystem::path const p = [] {
    char const *base = std::getenv("VERIF_SCRATCH");
    std::filesystem::path d = (base != nullptr ? std::filesystem::path(base) : std::filesystem::temp_directory_path()) / ("c01-misc-" + std::to_string(::getpid()));
    std::filesystem::remove_all(d);
    std::filesystem::create_directories(d / "dir" / "sub" / "deep");
    std::filesystem::create_directories(d / "emptydir");
    { std::ofstream f(d / "file.txt"); f << "hello world"; }
    { std::ofstream f(d / "empty"); }
    { std::ofstream f(d / "dir" / "a"); f << "a"; }
    { std::ofstream f(d / "dir" / "sub" / "b"); f << "bb"; }
    { std::ofstream f(d / "dir" / "sub" / "deep" / "c"); f << "ccc"; }
    { std::ofstream f(d / "with space"); f << "s"; }
    std::error_code ec;
    std::filesystem::create_symlink("missing-target", d / "dangling", ec);
    std::filesystem::create_directory_symlink("dir", d / "dirlink", ec);
    return d;
  }();
  return p;
}
std::vector<std::string> const &fs_suffixes()
{
  static std::vector<std::string> const v{"", ".", "dir", "dir/", "dir/sub", "dir/sub/deep", "emptydir", "file.txt", "empty", "missing", "missing/below", "file.txt/below", "dangling", "dirlink", "with space", "dir/..", "dir/./sub", std::string(300, 'n'), "\xff\xfe"};
  return v;
}
struct my_error
{
  explicit my_error(fcppt::string &&s) : text(std::move(s)) {}
  fcppt::string text;
};
void fs_one(std::size_t pi, std::size_t mode)
{
  pi %= fs_suffixes().size();
  mode %= 3;
  std::string const &suffix = fs_suffixes()[pi];
  std::filesystem::path const p = mode == 0 ? std::filesystem::path(suffix) : scratch_dir() / suffix; // mode 0: relative to the cwd (mostly missing)
  std::error_code sec;
  bool const is_dir = std::filesystem::is_directory(p, sec);
  bool const exists = std::filesystem::exists(p, sec);
  count(!exists || suffix.empty() || suffix == "emptydir" || suffix == "dangling");
  auto const options = mode == 2 ? std::filesystem::directory_options::follow_directory_symlink | std::filesystem::directory_options::skip_permission_denied : std::filesystem::directory_options::none;
  total("filesystem::directory_range", [&] {
    std::error_code ec = std::make_error_code(std::errc::interrupted); // must be overwritten / cleared
    fcppt::filesystem::directory_range const range(p, options, fcppt::make_ref(ec));
    std::set<std::string> got, want;
    if (!ec) for (auto const &e : range) { got.insert(e.path().string()); if (got.size() > 100) break; }
    else if (range.begin() != range.end()) fail("filesystem::directory_range|error-but-entries", "an error was reported but the range is not empty");
    std::error_code rec;
    for (std::filesystem::directory_iterator it(p, options, rec), end; !rec && it != end && want.size() <= 100; it.increment(rec)) want.insert(it->path().string());
    bool const big = want.size() > 100 || got.size() > 100; // (a relative path names the driver's working directory: too large to compare, counted as skipped)
    if (big) skip();
    if (static_cast<bool>(ec) != !is_dir) fail("filesystem::directory_range|error-code", std::string("the error code is ") + (ec ? "set: " + ec.message() : std::string("clear")) + " for " + show_string(p.string()) + (is_dir ? " (a directory)" : " (not a directory)"));
    else if (!ec && !big && got != want) fail("filesystem::directory_range|entries", std::to_string(got.size()) + " entries, std::filesystem lists " + std::to_string(want.size()));
    // a second traversal of the same range object sees the same first entry (begin() is const)
    if (!ec && !want.empty() && (range.begin() == range.end())) fail("filesystem::directory_range|begin-repeatable", "begin() == end() on a non-empty directory");
  });
  total("filesystem::recursive_directory_range", [&] {
    std::error_code ec = std::make_error_code(std::errc::interrupted);
    fcppt::filesystem::recursive_directory_range const range(p, options, fcppt::make_ref(ec));
    std::set<std::string> got, want;
    if (!ec) for (auto const &e : range) { got.insert(e.path().string()); if (got.size() > 200) break; }
    else if (range.begin() != range.end()) fail("filesystem::recursive_directory_range|error-but-entries", "an error was reported but the range is not empty");
    std::error_code rec;
    for (std::filesystem::recursive_directory_iterator it(p, options, rec), end; !rec && it != end && want.size() <= 200; it.increment(rec)) want.insert(it->path().string());
    bool const big = want.size() > 200 || got.size() > 200;
    if (big) skip();
    if (static_cast<bool>(ec) != !is_dir) fail("filesystem::recursive_directory_range|error-code", std::string("the error code is ") + (ec ? "set" : "clear") + " for " + show_string(p.string()));
    else if (!ec && !big && got != want) fail("filesystem::recursive_directory_range|entries", std::to_string(got.size()) + " entries, std::filesystem lists " + std::to_string(want.size()));
  });
  total<fcppt::exception>("filesystem::open_exn", [&] {
    std::error_code e2;
    bool const regular = std::filesystem::is_regular_file(p, e2);
    bool threw = false;
    try
    {
      fcppt::filesystem::ifstream in = fcppt::filesystem::open_exn<fcppt::filesystem::ifstream>(p, std::ios_base::in);
      if (!in.is_open()) fail("filesystem::open_exn|returned-closed", "returned a stream that is not open");
      fcppt::char_type ch{};
      in.get(ch);
      touch(ch);
    }
    catch (fcppt::exception const &e)
    {
      threw = true;
      if (e.string().find(p.string()) == fcppt::string::npos) fail("filesystem::open_exn|message", "the exception text does not name the path: " + show_string(e.string()));
    }
    if (regular && threw) fail("filesystem::open_exn|regular-file", "could not open the readable regular file " + show_string(p.string()));
    if (!exists && !threw) fail("filesystem::open_exn|missing-file", "opened the missing file " + show_string(p.string()) + " for reading");
    // custom exception type
    try
    {
      auto in2 = fcppt::filesystem::open_exn<std::ifstream, my_error>(p, std::ios_base::in | std::ios_base::binary);
      if (!in2.is_open() || threw) fail("filesystem::open_exn|custom-consistent", "second open disagrees with the first");
    }
    catch (my_error const &e)
    {
      if (!threw || e.text.find(p.string()) == fcppt::string::npos) fail("filesystem::open_exn|custom-message", "custom exception inconsistent");
    }
  });
  if (mode != 0 && !suffix.empty() && suffix.find("..") == std::string::npos && suffix != "." && suffix.size() < 100)
  {
    total<fcppt::exception>("filesystem::ofstream/fstream", [&] {
      // write through the fcppt typedefs into a fresh sub-directory, read back
      std::filesystem::path const out_dir = scratch_dir() / "written";
      std::error_code mk;
      std::filesystem::create_directories(out_dir, mk);
      std::filesystem::path const target = out_dir / ("f" + std::to_string(pi));
      fcppt::string const payload = FCPPT_TEXT("payload ") + fcppt::string(suffix.begin(), suffix.end());
      {
        auto o = fcppt::filesystem::open<fcppt::filesystem::ofstream>(target, std::ios_base::out | std::ios_base::trunc | std::ios_base::binary);
        if (!o.has_value()) { fail("filesystem::ofstream|open", "could not create " + target.string()); return; }
        o.get_unsafe() << payload;
      }
      {
        fcppt::filesystem::fstream io = fcppt::filesystem::open_exn<fcppt::filesystem::fstream>(target, std::ios_base::in | std::ios_base::out | std::ios_base::binary);
        fcppt::string back((std::istreambuf_iterator<fcppt::char_type>(io)), std::istreambuf_iterator<fcppt::char_type>());
        if (back != payload) fail("filesystem::fstream|round-trip", "read back " + show_string(back));
      }
      fcppt::filesystem::optional_size const none{};
      fcppt::filesystem::optional_size const some{std::filesystem::file_size(target)};
      if (none.has_value() || !some.has_value() || some.get_unsafe() != payload.size()) fail("filesystem::optional_size|value", "size differs");
      // opening a directory for writing must fail through the documented channel
      bool threw = false;
      try { auto o2 = fcppt::filesystem::open_exn<fcppt::filesystem::ofstream>(out_dir, std::ios_base::out); touch(o2.is_open()); }
      catch (fcppt::exception const &) { threw = true; }
      if (!threw) fail("filesystem::open_exn|directory-for-writing", "opened a directory for writing");
    });
  }
}
Reg const r_fs{"filesystem_ranges_open", Kind::exhaustive, "the path is missing, empty, an empty directory or a dangling symlink",
               [] {
                 for (i64 pi = 0; pi < static_cast<i64>(fs_suffixes().size()); ++pi) for (i64 m = 0; m < 3; ++m) { cur2(pi, m); fs_one(static_cast<std::size_t>(pi), static_cast<std::size_t>(m)); }
                 std::error_code ec;
                 std::filesystem::remove_all(scratch_dir(), ec);
               },
               [](Ints const &c) { fs_one(static_cast<std::size_t>(c.at(0)), static_cast<std::size_t>(c.at(1))); std::error_code ec; std::filesystem::remove_all(scratch_dir(), ec); },
               [](Ints const &c) { return "directory_range / recursive_directory_range / open_exn / fstream typedefs on " + show_string(fs_suffixes()[static_cast<std::size_t>(c.at(0)) % fs_suffixes().size()]) + (static_cast<u64>(c.at(1)) % 3 == 0 ? " (relative)" : (static_cast<u64>(c.at(1)) % 3 == 1 ? " (in the scratch tree)" : " (in the scratch tree, following directory symlinks)")); }};

// ---------------------------------------------------------------------------- string conversions with locales
// Oracles: output_to_*string*(x) is what operator<< writes into a string stream imbued with the given
// locale (classic for the variants without a locale argument. Reading: insert_extract_locale is
// documented as "the C locale"; the check is made while the global C++ locale is untouched).
// In this (narrow fcppt::string) build to_std_string_locale / from_std_string_locale are the
// identity; to_std_wstring_locale may throw std::runtime_error (documented for widen_locale);
// from_std_wstring_locale returns an optional.
std::locale const &utf8()
{
  static std::locale const l("C.utf8");
  return l;
}
struct punct : std::numpunct<char>
{
  char do_thousands_sep() const override { return '\''; }
  std::string do_grouping() const override { return "\3"; }
  char do_decimal_point() const override { return ','; }
};
void locale_one(Ints const &c)
{
  Choices ch(c);
  long long const k = static_cast<long long>(ch.raw()) >> ch.range(0, 63);
  int const fi = static_cast<int>(ch.range(-50000, 50000));
  std::string s;
  std::size_t const len = static_cast<std::size_t>(ch.range(0, 10));
  for (std::size_t i = 0; i < len; ++i) s.push_back(io_alphabet[ch.index(sizeof io_alphabet)]);
  double const d = fi / 8.0;
  count(s.empty() || s.find('\0') != std::string::npos || on_lattice<long long>(k));
  std::locale const grouped(std::locale::classic(), new punct);
  total("output_to_string*", [&] {
    if (fcppt::insert_extract_locale() != std::locale::classic()) fail("insert_extract_locale|classic", "not the C locale although the global locale is untouched");
    std::string const kd = std::to_string(k);
    if (fcppt::output_to_std_string(k) != kd || fcppt::output_to_string<std::string>(k) != kd || fcppt::output_to_fcppt_string(k) != kd || fcppt::output_to_std_wstring(k) != widen_ascii(kd) || fcppt::output_to_string<std::wstring>(k) != widen_ascii(kd))
      fail("output_to_string|integer", "an integer is not printed as its decimal digits: " + fcppt::output_to_std_string(k));
    if (fcppt::output_to_std_string(s) != s || fcppt::output_to_std_string(std::string_view(s)) != s) fail("output_to_std_string|string", "a string is changed: " + show_string(fcppt::output_to_std_string(s)));
    std::ostringstream ref;
    ref.imbue(std::locale::classic());
    ref << d << ' ' << true << ' ' << 'c';
    if (fcppt::output_to_std_string(d) + " " + fcppt::output_to_std_string(true) + " " + fcppt::output_to_std_string('c') != ref.str()) fail("output_to_std_string|double-bool-char", "differs from a classic string stream");
    // explicit locale: grouping and decimal comma
    std::ostringstream gref;
    gref.imbue(grouped);
    gref << k << '|' << d;
    std::string const g = fcppt::output_to_std_string_locale(k, grouped) + "|" + fcppt::output_to_string_locale<std::string>(d, grouped);
    if (g != gref.str()) fail("output_to_std_string_locale|grouping", "printed " + g + ", a stream imbued with the locale prints " + gref.str());
    if (fcppt::output_to_fcppt_string_locale(k, grouped) != fcppt::output_to_std_string_locale(k, grouped)) fail("output_to_fcppt_string_locale|value", "differs from the std::string variant");
    std::wostringstream wref;
    wref.imbue(utf8());
    wref << k;
    if (fcppt::output_to_std_wstring_locale(k, utf8()) != wref.str() || fcppt::output_to_string_locale<std::wstring>(k, utf8()) != wref.str()) fail("output_to_std_wstring_locale|value", "differs from a wide stream with that locale");
  });
  std::unique_ptr<char[]> exact(new char[s.empty() ? 1 : s.size()]);
  std::copy(s.begin(), s.end(), exact.get());
  std::string_view const view(exact.get(), s.size());
  total("to/from_std_string_locale", [&] {
    fcppt::optional_std_string const r = fcppt::to_std_string_locale(fcppt::string_view(exact.get(), s.size()), utf8());
    if (!r.has_value() || r.get_unsafe() != s) fail("to_std_string_locale|identity", "narrow build: must be the identity");
    if (fcppt::from_std_string_locale(view, utf8()) != s || fcppt::from_std_string_locale(view, std::locale::classic()) != s) fail("from_std_string_locale|identity", "narrow build: must be the identity");
  });
  total<std::runtime_error>("to_std_wstring_locale", [&] {
    std::wstring const w = fcppt::to_std_wstring_locale(fcppt::string_view(exact.get(), s.size()), utf8());
    bool ascii = true;
    for (unsigned char b : s) ascii = ascii && b < 0x80;
    if (ascii && w != widen_ascii(s)) fail("to_std_wstring_locale|ascii", "an ASCII string is changed");
    // and back
    fcppt::optional_string const back = fcppt::from_std_wstring_locale(std::wstring_view(w), utf8());
    if (!back.has_value() || back.get_unsafe() != s) fail("from_std_wstring_locale|round-trip", "widening then narrowing " + show_string(s) + " gives " + (back.has_value() ? show_string(back.get_unsafe()) : std::string("nothing")));
  });
  total("from_std_wstring_locale", [&] {
    std::wstring w;
    for (unsigned char b : s) w.push_back(b < 0x80 ? static_cast<wchar_t>(b) : static_cast<wchar_t>(0xD700 + b * 0x100)); // includes surrogates and values beyond U+10FFFF
    fcppt::optional_string const r = fcppt::from_std_wstring_locale(std::wstring_view(w), utf8());
    if (r.has_value()) touch(r.get_unsafe());
    fcppt::optional_string const r2 = fcppt::from_std_wstring_locale(std::wstring_view(w), std::locale::classic());
    if (r2.has_value()) touch(r2.get_unsafe());
  });
  total<std::runtime_error>("string_conv_locale", [&] {
    // std::locale("") may throw runtime_error if the environment names an unknown locale; the driver sets LC_ALL=C.utf8
    std::locale const l = fcppt::string_conv_locale();
    touch(l.name());
  });
}
Reg const r_locale{"string_conversion_locales", Kind::random, "the string is empty or contains NUL, or the integer lies on the 64-bit boundary lattice",
                   [] { run_random(*g_cur.sec, {2000, 5}, {30000, 5}); },
                   locale_one,
                   [](Ints const &c) { Choices ch(c); long long const k = static_cast<long long>(ch.raw()) >> ch.range(0, 63); int const fi = static_cast<int>(ch.range(-50000, 50000)); std::string s; std::size_t const len = static_cast<std::size_t>(ch.range(0, 10)); for (std::size_t i = 0; i < len; ++i) s.push_back(io_alphabet[ch.index(sizeof io_alphabet)]); return "output_to_*string*(_locale) / to,from_std_(w)string_locale with integer " + std::to_string(k) + ", double " + std::to_string(fi / 8.0) + ", string " + show_string(s); }};

// insert_extract_locale after the program changed the global C++ locale (a section of its own: it
// temporarily replaces the global locale, and a failure here must not end the random section above).
// Documented: "Returns the default locale to use when converting from or to strings. This locale is
// the C locale. This was chosen to avoid confusion when converting, for example, "300,100" to int."
// Totality only, see the comment in the function.
void global_locale_one(int k)
{
  count(k == 0 || k >= 1000 || k <= -1000);
  std::locale const before = std::locale::global(std::locale(std::locale::classic(), new punct));
  total("insert_extract_locale", [&] {
    // Only totality is demanded here (C01): the documentation says "This locale is the C locale",
    // the implementation returns a copy of the global locale, so the text is "300,100" now. That is a
    // documentation mismatch, not UB / an exception / a hang (DESIGN.md 9.4). What must hold is that
    // the written text is read back (same locale state): checked under C15.
    std::string const printed = fcppt::output_to_std_string(k);
    touch(printed.size());
    touch(fcppt::insert_extract_locale().name());
  });
  std::locale::global(before);
}
Reg const r_global_locale{"insert_extract_locale_global", Kind::exhaustive, "the number is 0 or has at least four digits (grouping would show)",
                          [] { for (int k : {300100, 1000, -1000, 2147483647, 0, 7, -7, 999}) { cur1(k); global_locale_one(k); } },
                          [](Ints const &c) { global_locale_one(static_cast<int>(c.at(0))); },
                          [](Ints const &c) { return "insert_extract_locale / output_to_std_string(" + std::to_string(static_cast<int>(c.at(0))) + ") while the global C++ locale groups digits"; }};

// ---------------------------------------------------------------------------- output operators
// Every operator<< is run on a narrow and a wide stream (must not throw, stream stays good, wide text
// == widened narrow text) and on a stream that is already failed (must not throw, must not write).
// Forms: box "(position,size)", matrix "((a,b,..),(d,e,..))" and grid "every level wrapped in
// parentheses" are documented; the other forms are the ones pinned by the upstream tests
// (test/*/output.cpp): array and container::output "[a,b]", tuple "(a,b)", bitfield "{n1,n2}", unit "()",
// tree one value per line indented by tabs, optional "N" / "J v"; either, variant, recursive,
// strong_typedef print the held value; reference and shared_ptr print the address. The sphere form is
// neither documented nor tested upstream: totality only.
template <bool Wide = true, typename T>
void print_check(char const *key, T const &value, std::string const *want)
{
  std::string const k = key;
  total(key, [&] {
    std::ostringstream os;
    os.imbue(std::locale::classic());
    os << value;
    if (!os.good()) fail(k + "|stream-state", "the narrow stream is not good after output");
    if (want != nullptr && os.str() != *want) fail(k + "|form", "printed " + show_string(os.str()) + ", expected " + show_string(*want));
    if constexpr (Wide) // (values holding a std::string can only go to narrow streams)
    {
      std::wostringstream wos;
      wos.imbue(std::locale::classic());
      wos << value;
      if (!wos.good()) fail(k + "|stream-state-wide", "the wide stream is not good after output");
      if (wos.str() != widen_ascii(os.str())) fail(k + "|wide-form", "wide output " + narrow_show(wos.str()) + " differs from narrow output " + show_string(os.str()));
    }
    std::ostringstream failed;
    failed.setstate(std::ios_base::failbit);
    failed << value;
    if (!failed.str().empty()) fail(k + "|failed-stream", "wrote to a failed stream");
  });
}
template <bool Wide = true, typename T>
void print_check(char const *key, T const &value, std::string const &want) { print_check<Wide>(key, value, &want); }
template <typename C>
std::string bracket_list(C const &c)
{
  std::string r = "[";
  bool first = true;
  for (auto const &e : c) { if (!first) r += ","; r += str(e); first = false; }
  return r + "]";
}
void tree_reference(fcppt::container::tree::object<int> const &t, unsigned depth, std::string &out)
{
  out += std::string(depth, '\t') + std::to_string(t.value()) + "\n";
  for (auto const &ch : t) tree_reference(ch, depth + 1, out);
}
void outputs_one(Ints const &c)
{
  Choices ch(c);
  std::size_t const w = static_cast<std::size_t>(ch.range(0, 3)), h = static_cast<std::size_t>(ch.range(0, 3)), n = static_cast<std::size_t>(ch.range(0, 4));
  u64 const mask = static_cast<u64>(ch.range(0, 7));
  int v[6];
  for (int &x : v) x = static_cast<int>(ch.range(-9, 99));
  count(w == 0 || h == 0 || n == 0 || mask == 0);
  auto const S = [](int x) { return std::to_string(x); };
  // array
  print_check("array::output", fcppt::array::object<int, 3>{v[0], v[1], v[2]}, "[" + S(v[0]) + "," + S(v[1]) + "," + S(v[2]) + "]");
  print_check("array::output", fcppt::array::object<int, 1>{v[0]}, "[" + S(v[0]) + "]");
  print_check("array::output", fcppt::array::object<int, 0>{}, std::string("[]"));
  print_check<false>("array::output", fcppt::array::object<std::string, 2>{std::string(n, 'a'), std::string("b")}, "[" + std::string(n, 'a') + ",b]");
  // tuple
  print_check<false>("tuple::output", fcppt::tuple::make(v[0], std::string(n, 't'), true), "(" + S(v[0]) + "," + std::string(n, 't') + ",1)");
  print_check("tuple::output", fcppt::tuple::make(v[1]), "(" + S(v[1]) + ")");
  print_check("tuple::output", fcppt::tuple::object<>{}, std::string("()"));
  // either / variant / optional / recursive / unit / strong typedef
  using either_t = fcppt::either::object<std::string, int>;
  print_check<false>("either::output", mask % 2 == 0 ? either_t{v[0]} : either_t{std::string(n, 'f')}, mask % 2 == 0 ? S(v[0]) : std::string(n, 'f'));
  using variant_t = fcppt::variant::object<int, std::string, fcppt::unit>;
  print_check<false>("variant::output", mask % 3 == 0 ? variant_t{v[0]} : (mask % 3 == 1 ? variant_t{std::string(n, 'v')} : variant_t{fcppt::unit{}}), mask % 3 == 0 ? S(v[0]) : (mask % 3 == 1 ? std::string(n, 'v') : std::string("()")));
  print_check("optional::output", fcppt::optional::object<int>{v[2]}, "J " + S(v[2]));
  print_check("optional::output", fcppt::optional::object<int>{}, std::string("N"));
  print_check("recursive_output", fcppt::make_recursive(v[3]), S(v[3]));
  print_check("unit_output", fcppt::unit{}, std::string("()"));
  print_check<false>("strong_typedef_output", st_string{std::string(n, 's')}, std::string(n, 's'));
  // reference / shared_ptr: the address as operator<<(void const *) prints it
  {
    int target = v[4];
    std::ostringstream ref;
    ref << static_cast<void const *>(&target);
    print_check("reference_output", fcppt::reference<int>{target}, ref.str());
    fcppt::shared_ptr<int> const sp = fcppt::shared_ptr<int>(fcppt::make_shared_ptr<int>(v[4]));
    std::ostringstream ref2;
    ref2 << static_cast<void const *>(sp.get_pointer());
    print_check("shared_ptr_output", sp, ref2.str());
  }
  // container::output
  {
    std::vector<int> vec;
    std::list<std::string> lst;
    std::set<int> set;
    std::deque<int> deq;
    for (std::size_t i = 0; i < n; ++i) { vec.push_back(v[i]); lst.push_back(std::string(i, 'l')); set.insert(v[i]); deq.push_front(v[i]); }
    print_check("container::output", fcppt::container::output(vec), bracket_list(vec));
    print_check<false>("container::output", fcppt::container::output(lst), bracket_list(lst));
    print_check("container::output", fcppt::container::output(set), bracket_list(set));
    print_check("container::output", fcppt::container::output(deq), bracket_list(deq));
  }
  // bitfield
  {
    using bf = fcppt::container::bitfield::object<colour>;
    bf b = bf::null();
    std::string want = "{";
    char const *const cn[] = {"red", "green", "blue"};
    bool first = true;
    for (int i = 0; i < 3; ++i) if ((mask >> i) & 1U) { b.set(static_cast<colour>(i), true); want += std::string(first ? "" : ",") + cn[i]; first = false; }
    print_check("container::bitfield::output", b, want + "}");
  }
  // grid: 1, 2 and 3 dimensions, also with an extent of 0
  {
    using g1 = fcppt::container::grid::object<int, 1>;
    using g2 = fcppt::container::grid::object<int, 2>;
    using g3 = fcppt::container::grid::object<int, 3>;
    g1 const a(g1::dim(w), [&](g1::pos const &p) { return v[p.x() % 6]; });
    std::string want1 = "(";
    for (std::size_t x = 0; x < w; ++x) want1 += S(v[x % 6]) + (x + 1 < w ? "," : "");
    print_check("container::grid::output", a, want1 + ")");
    g2 const b(g2::dim(w, h), [&](g2::pos const &p) { return v[(p.x() + 2 * p.y()) % 6]; });
    std::string want2 = "(";
    for (std::size_t y = 0; y < h; ++y)
    {
      want2 += "(";
      for (std::size_t x = 0; x < w; ++x) want2 += S(v[(x + 2 * y) % 6]) + (x + 1 < w ? "," : "");
      want2 += std::string(")") + (y + 1 < h ? "," : "");
    }
    print_check("container::grid::output", b, want2 + ")");
    g3 const cgrid(g3::dim(w, h, std::size_t{2}), [&](g3::pos const &p) { return v[(p.x() + p.y() + p.z()) % 6]; });
    std::string want3 = "(";
    for (std::size_t z = 0; z < 2; ++z)
    {
      want3 += "(";
      for (std::size_t y = 0; y < h; ++y)
      {
        want3 += "(";
        for (std::size_t x = 0; x < w; ++x) want3 += S(v[(x + y + z) % 6]) + (x + 1 < w ? "," : "");
        want3 += std::string(")") + (y + 1 < h ? "," : "");
      }
      want3 += std::string(")") + (z + 1 < 2 ? "," : "");
    }
    print_check("container::grid::output", cgrid, want3 + ")");
  }
  // tree: n children, child i has (mask >> i) & 1 grandchildren
  {
    fcppt::container::tree::object<int> t(v[0]);
    for (std::size_t i = 0; i < n; ++i)
    {
      auto const child = t.push_back(v[(i + 1) % 6]);
      if ((mask >> i) & 1U) { auto const gc = child.get().push_back(v[(i + 2) % 6]); gc.get().push_back(static_cast<int>(i)); }
    }
    std::string want;
    tree_reference(t, 0, want);
    print_check("container::tree::output", t, want);
  }
  // math: vector/dim (used by box), box, matrix, sphere
  {
    using vec2 = fcppt::math::vector::static_<int, 2>;
    using dim2 = fcppt::math::dim::static_<int, 2>;
    fcppt::math::box::rect<int> const box(vec2(v[0], v[1]), dim2(v[2], v[3]));
    print_check("math::box::output", box, "((" + S(v[0]) + "," + S(v[1]) + "),(" + S(v[2]) + "," + S(v[3]) + "))");
    fcppt::math::box::object<int, 3> const box3(fcppt::math::vector::static_<int, 3>(v[0], v[1], v[2]), fcppt::math::dim::static_<int, 3>(v[3], v[4], v[5]));
    print_check("math::box::output", box3, "((" + S(v[0]) + "," + S(v[1]) + "," + S(v[2]) + "),(" + S(v[3]) + "," + S(v[4]) + "," + S(v[5]) + "))");
    fcppt::math::matrix::static_<int, 2, 3> const m(fcppt::math::matrix::row(v[0], v[1], v[2]), fcppt::math::matrix::row(v[3], v[4], v[5]));
    // Reading: "((a,b,c,...),(d,e,f,...),...)": the inner groups are the rows as written in the constructor
    print_check("math::matrix::output", m, "((" + S(v[0]) + "," + S(v[1]) + "," + S(v[2]) + "),(" + S(v[3]) + "," + S(v[4]) + "," + S(v[5]) + "))");
    fcppt::math::matrix::static_<int, 1, 1> const m1(fcppt::math::matrix::row(v[0]));
    print_check("math::matrix::output", m1, "((" + S(v[0]) + "))");
    fcppt::math::sphere::circle<int> const circle(vec2(v[0], v[1]), v[2]);
    print_check("math::sphere::output", circle, static_cast<std::string const *>(nullptr));
    fcppt::math::sphere::object<double, 3> const ball(fcppt::math::vector::static_<double, 3>(v[0] / 4.0, v[1] / 4.0, 0.0), v[2] / 2.0);
    print_check("math::sphere::output", ball, static_cast<std::string const *>(nullptr));
  }
  // parse: error, location, position (+ equality)
  {
    fcppt::parse::error<char> const e1{std::string(n, 'e')};
    fcppt::parse::error<char> const e2{std::string(n, 'e'), fcppt::parse::fatal_tag{}};
    fcppt::parse::error<char> const e3{std::string(n + 1, 'e')};
    total("parse::error_equal", [&] {
      std::ostringstream eos;
      eos << e1 << e2;
      if (!eos.good() || eos.str() != std::string(2 * n, 'e')) fail("parse::error_output|form", "printed " + show_string(eos.str()));
      // Reading: equality compares the message (the header has no comment; the fatal bit is not part of it)
      if (!(e1 == e1) || !(e1 == e2) || (e1 == e3)) fail("parse::error_equal|value", "== is not message equality");
      std::wostringstream wos;
      wos << fcppt::parse::error<wchar_t>{std::wstring(n, L'w')};
      if (!wos.good() || wos.str() != std::wstring(n, L'w')) fail("parse::error_output|wide", "wide error text differs");
    });
    fcppt::parse::location const l1{fcppt::parse::line{static_cast<std::uint64_t>(v[0] + 9)}, fcppt::parse::column{static_cast<std::uint64_t>(v[1] + 9)}};
    fcppt::parse::location const l2{fcppt::parse::line{static_cast<std::uint64_t>(v[0] + 9)}, fcppt::parse::column{static_cast<std::uint64_t>(v[1] + 10)}};
    fcppt::parse::location const lmax{fcppt::parse::line{~std::uint64_t{0}}, fcppt::parse::column{std::uint64_t{0}}};
    total("parse::location_output", [&] {
      std::ostringstream os;
      os << l1;
      std::wostringstream wos;
      wos << lmax;
      if (!os.good() || os.str() != S(v[0] + 9) + ":" + S(v[1] + 9)) fail("parse::location_output|form", "printed " + os.str());
      if (!wos.good() || wos.str() != L"18446744073709551615:0") fail("parse::location_output|wide-max", "printed " + narrow_show(wos.str()));
      if (!(l1 == l1) || (l1 == l2) || (l1 == lmax)) fail("parse::location_equal|value", "== is not component-wise");
    });
    using position = fcppt::parse::position<char>;
    position const p1{position::pos_type{static_cast<std::streamoff>(v[2] + 9)}, position::optional_location{l1}};
    position const p2{position::pos_type{static_cast<std::streamoff>(v[2] + 9)}, position::optional_location{}};
    position const p3{position::pos_type{static_cast<std::streamoff>(v[2] + 10)}, position::optional_location{l1}};
    total("parse::position_output", [&] {
      std::ostringstream os;
      os << p1 << '|' << p2;
      if (!os.good() || os.str() != S(v[2] + 9) + ", J " + S(v[0] + 9) + ":" + S(v[1] + 9) + "|" + S(v[2] + 9) + ", N") fail("parse::position_output|form", "printed " + show_string(os.str()));
      if (!(p1 == p1) || (p1 == p2) || (p1 == p3) || !(p2 == p2)) fail("parse::position_equal|value", "== is not component-wise");
      std::wostringstream wos;
      wos << fcppt::parse::position<wchar_t>{fcppt::parse::position<wchar_t>::pos_type{static_cast<std::streamoff>(3)}, fcppt::parse::position<wchar_t>::optional_location{l1}};
      if (!wos.good()) fail("parse::position_output|wide", "wide stream not good");
    });
  }
}
Reg const r_outputs{"output_operators", Kind::random, "a grid extent, the container size or the bit mask is zero (empty lists, no separators)",
                    [] { run_random(*g_cur.sec, {1500, 3}, {20000, 3}); },
                    outputs_one,
                    [](Ints const &c) { Choices ch(c); std::string r = "operator<< of array/tuple/either/variant/optional/recursive/unit/strong_typedef/reference/shared_ptr/container::output/bitfield/grid/tree/box/matrix/sphere/parse error,location,position with grid " + std::to_string(ch.range(0, 3)); r += "x" + std::to_string(ch.range(0, 3)) + ", size " + std::to_string(ch.range(0, 4)) + ", mask " + std::to_string(ch.range(0, 7)) + ", values"; for (int i = 0; i < 6; ++i) r += " " + std::to_string(ch.range(-9, 99)); return r; }};

// ---------------------------------------------------------------------------- options: indent, pretty_type, option_name comparison, flag names
// indent: "Indents every line of a string once": every line (split at '\n') gets the same non-empty
// white-space prefix, nothing else changes (the width of one indentation is not documented).
char const indent_alphabet[] = {'a', '\n', ' ', '\t', 'b', '\n'};
void options_one(Ints const &c)
{
  Choices ch(c);
  std::size_t const len = static_cast<std::size_t>(ch.range(0, 8));
  std::string text;
  for (std::size_t i = 0; i < len; ++i) text.push_back(indent_alphabet[ch.index(sizeof indent_alphabet)]);
  std::string n1(static_cast<std::size_t>(ch.range(0, 2)), 'x'), n2(static_cast<std::size_t>(ch.range(0, 2)), ch.flag() ? 'x' : 'y');
  bool const s1 = ch.flag(), s2 = ch.flag();
  count(text.empty() || text.find('\n') == std::string::npos || text.back() == '\n' || text.front() == '\n');
  total("options::indent", [&] {
    fcppt::string const r = fcppt::options::indent(fcppt::string(text));
    auto split = [](std::string const &s) { std::vector<std::string> v(1); for (char ch2 : s) { if (ch2 == '\n') v.emplace_back(); else v.back().push_back(ch2); } return v; };
    std::vector<std::string> const in = split(text), out = split(r);
    bool ok = in.size() == out.size();
    std::string prefix;
    if (ok)
    {
      if (out[0].size() <= in[0].size()) ok = false;
      else prefix = out[0].substr(0, out[0].size() - in[0].size());
      for (char p : prefix) ok = ok && (p == ' ' || p == '\t');
      for (std::size_t i = 0; ok && i < in.size(); ++i) ok = out[i] == prefix + in[i];
    }
    if (!ok) fail("options::indent|every-line", "indent(" + show_string(text) + ") = " + show_string(r));
  });
  total("options::option_name_comparison", [&] {
    using fcppt::options::option_name;
    option_name const a{fcppt::string(n1), option_name::is_short{s1}}, b{fcppt::string(n2), option_name::is_short{s2}};
    bool const eq = n1 == n2 && s1 == s2;
    bool const lt = n1 < n2 || (n1 == n2 && !s1 && s2);
    if ((a == b) != eq || (b == a) != eq || !(a == a)) fail("options::option_name_comparison|equal", "== differs from equality of (name, is_short)");
    if ((a < b) != lt || (a < a) || ((a < b) && (b < a)) || (!(a < b) && !(b < a)) != eq) fail("options::option_name_comparison|less", "< is not the lexicographic order of (name, is_short) for (" + n1 + "," + std::to_string(s1) + ") and (" + n2 + "," + std::to_string(s2) + ")");
    if (a.name() != n1 || a.get_is_short().get() != s1) fail("options::option_name|accessors", "accessors differ from the constructor arguments");
    fcppt::options::flag_name_set flags;
    flags.insert(fcppt::options::flag_name{fcppt::string(n1)});
    flags.insert(fcppt::options::flag_name{fcppt::string(n2)});
    if (flags.size() != (n1 == n2 ? 1U : 2U) || flags.count(fcppt::options::flag_name{fcppt::string(n1)}) != 1U) fail("options::flag_name_set|set", "flag names do not behave as a set of strings");
  });
  total("options::pretty_type", [&] {
    if (fcppt::options::pretty_type<std::string>() != "string" || fcppt::options::pretty_type<std::wstring>() != "string") fail("options::pretty_type|string", "documented: the pretty name of std::string is simply string");
    if (fcppt::options::pretty_type<int>() != "int" || fcppt::options::pretty_type<st_int>() != "int" || fcppt::options::pretty_type<st_string>() != "string") fail("options::pretty_type|fundamental", "pretty_type<int>() = " + fcppt::options::pretty_type<int>());
    // "Specialization for enums that uses fcppt::enum_::names"
    fcppt::string const e = fcppt::options::pretty_type<colour>();
    if (e.find("red") == fcppt::string::npos || e.find("green") == fcppt::string::npos || e.find("blue") == fcppt::string::npos || e.find("red") > e.find("blue")) fail("options::pretty_type|enum", "pretty_type<colour>() = " + e);
    touch(fcppt::options::pretty_type<std::vector<int>>());
  });
}
Reg const r_options{"options_indent_names", Kind::random, "the text is empty, has a single line, or starts / ends with a line break",
                    [] { run_random(*g_cur.sec, {2000, 4}, {30000, 4}); },
                    options_one,
                    [](Ints const &c) { Choices ch(c); std::size_t const len = static_cast<std::size_t>(ch.range(0, 8)); std::string text; for (std::size_t i = 0; i < len; ++i) text.push_back(indent_alphabet[ch.index(sizeof indent_alphabet)]); return "options::indent / option_name comparison / flag_name_set / pretty_type with text " + show_string(text); }};

// ---------------------------------------------------------------------------- parse: blank, space, digits, skipper::char_set
// blank_set: "Space and tab characters"; space (space_set): "whitespace, newline and tab"; digits: "the char
// set of {0,...,9}". A char-set parser consumes one character of its set and yields it; parse_string /
// phrase_parse_string fail unless the whole string is consumed ("Failed to consume remaining input").
char const cls_alphabet[] = {' ', '\t', '\n', '0', '5', '9', 'a', '/', ':', '\r', '\xff', '\0', '\v'};
std::string decode_classes(Ints const &c)
{
  std::string s;
  std::size_t const len = c.empty() ? 0 : static_cast<std::size_t>(static_cast<u64>(c[0]) % 8);
  for (std::size_t i = 1; i < c.size() && s.size() < len; ++i) s.push_back(cls_alphabet[static_cast<u64>(c[i]) % sizeof cls_alphabet]);
  return s;
}
void parse_classes_one(Ints const &c)
{
  std::string const s = decode_classes(c);
  count(s.size() <= 1);
  auto const in = [](char ch, char const *set) { return std::strchr(set, ch) != nullptr && ch != '\0'; };
  total("parse::blank/space/digits", [&] {
    struct entry { char const *name; char const *set; };
    auto const check = [&](char const *name, char const *set, auto const &parser) {
      auto const r = fcppt::parse::parse_string(parser, std::string(s));
      bool const want = s.size() == 1 && in(s[0], set);
      if (r.has_success() != want) fail(std::string("parse::") + name + "|presence", std::string(name) + " on " + show_string(s) + (r.has_success() ? " succeeds" : " fails"));
      else if (want && r.get_success_unsafe() != s[0]) fail(std::string("parse::") + name + "|value", "yields another character");
      else if (!want) touch(r.get_failure_unsafe().get());
    };
    check("blank", " \t", fcppt::parse::blank());
    check("space", " \t\n", fcppt::parse::space());
    check("digits", "0123456789", fcppt::parse::digits<char>());
    // *digits: the longest prefix of digits
    auto const rep = fcppt::parse::parse_string(*fcppt::parse::digits<char>(), std::string(s));
    std::size_t k = 0;
    while (k < s.size() && in(s[k], "0123456789")) ++k;
    if (rep.has_success() != (k == s.size())) fail("parse::digits|repetition-presence", "*digits on " + show_string(s) + (rep.has_success() ? " succeeds" : " fails") + " (succeeds iff every character is a digit)");
    else if (rep.has_success() && std::string(rep.get_success_unsafe().begin(), rep.get_success_unsafe().end()) != s) fail("parse::digits|repetition-value", "*digits on " + show_string(s) + " did not yield the digits");
    std::wstring const w(k, L'7');
    auto const wrep = fcppt::parse::parse_string(*fcppt::parse::digits<wchar_t>(), std::wstring(w));
    if (!wrep.has_success() || wrep.get_success_unsafe().size() != k) fail("parse::digits|wide", "wide digits differ");
    if (fcppt::parse::parse_string(*fcppt::parse::digits<wchar_t>(), std::wstring(w + L"x")).has_success()) fail("parse::digits|wide-trailing", "a trailing letter was accepted");
    // the blank set itself
    auto const bs = fcppt::parse::blank_set<char>();
    if (bs.size() != 2 || bs.count(' ') != 1 || bs.count('\t') != 1) fail("parse::blank_set|value", "not {space, tab}");
    // skipper::char_set skips ONE character of its set (and fails otherwise); repeated with operator* - the way
    // skipper::space is built - it skips every leading character of the set before the parser runs
    auto const skipped = fcppt::parse::phrase_parse_string(fcppt::parse::digits<char>(), std::string(s), *fcppt::parse::skipper::char_set{' ', '\t', '\n'});
    std::size_t j = 0;
    while (j < s.size() && in(s[j], " \t\n")) ++j;
    // definite outcomes only (whether white space after the digit is skipped as well is not documented)
    bool const one_digit = j + 1 == s.size() && in(s[j], "0123456789");
    bool const no_digit = j == s.size() || !in(s[j], "0123456789");
    bool trailing_junk = false;
    for (std::size_t t = j + 1; t < s.size(); ++t) trailing_junk = trailing_junk || !in(s[t], " \t\n");
    if (one_digit && !skipped.has_success()) fail("parse::skipper::char_set|presence", "white space then one digit, " + show_string(s) + ", fails");
    else if ((no_digit || trailing_junk) && skipped.has_success()) fail("parse::skipper::char_set|presence-negative", show_string(s) + " succeeds");
    else if (skipped.has_success() && skipped.get_success_unsafe() != s[j]) fail("parse::skipper::char_set|value", "yields another character");
  });
}
Reg const r_parse_classes{"parse_char_classes", Kind::random, "the input is empty or a single character",
                          [] { run_random(*g_cur.sec, {2000, 3}, {30000, 3}); },
                          parse_classes_one,
                          [](Ints const &c) { return "parse blank / space / digits / *digits / skipper::char_set on " + show_string(decode_classes(c)); }};
}
