// VERIF: lib rc quick_shards=6
// C15 (second harness) - textual encodings round-trip losslessly: the write/read-back pairs of the
// library that c15_encoding.cpp does not touch.
//  log::level text, strong_typedef << / >>, io::extract / expect / peek / get, io::write_chars /
//  read_chars / stream_to_string, the *_locale variants of output_to_*string / extract_from_string with
//  a digit-grouping locale, (to|from)_std_(w)string_locale, io::narrow_string(_locale) / widen_string,
//  enum::names / index_of_array / to_static / array output, bitfield output, the output operators of
//  array, tuple, optional, variant, either, matrix, box, sphere, grid and tree, parse::int_ / uint /
//  float_ on text written by output_to_std_string, and time::gmtime + time::output_tm.
// Oracles: round trip = identity; the expected text is built in the harness from the documented
// format (std::to_string digits, own digit grouping, own UTF-8 encoder, own civil-calendar
// arithmetic); where no format is documented only "equal values print equally, different values of a
// small exhaustive domain print differently, the stream stays good" is demanded.
#include "verif.hpp"

#include <fcppt/extract_from_string.hpp>
#include <fcppt/extract_from_string_locale.hpp>
#include <fcppt/from_std_string_locale.hpp>
#include <fcppt/from_std_wstring_locale.hpp>
#include <fcppt/insert_extract_locale.hpp>
#include <fcppt/make_strong_typedef.hpp>
#include <fcppt/no_init.hpp>
#include <fcppt/output_to_fcppt_string.hpp>
#include <fcppt/output_to_fcppt_string_locale.hpp>
#include <fcppt/output_to_std_string.hpp>
#include <fcppt/output_to_std_string_locale.hpp>
#include <fcppt/output_to_std_wstring.hpp>
#include <fcppt/output_to_std_wstring_locale.hpp>
#include <fcppt/output_to_string.hpp>
#include <fcppt/output_to_string_locale.hpp>
#include <fcppt/string.hpp>
#include <fcppt/string_conv_locale.hpp>
#include <fcppt/string_view.hpp>
#include <fcppt/strong_typedef_impl.hpp>
#include <fcppt/strong_typedef_input.hpp>
#include <fcppt/strong_typedef_output.hpp>
#include <fcppt/to_std_string_locale.hpp>
#include <fcppt/to_std_wstring_locale.hpp>
#include <fcppt/io/expect.hpp>
#include <fcppt/io/extract.hpp>
#include <fcppt/io/get.hpp>
#include <fcppt/io/istringstream.hpp>
#include <fcppt/io/ostringstream.hpp>
#include <fcppt/io/narrow_string.hpp>
#include <fcppt/io/narrow_string_locale.hpp>
#include <fcppt/io/peek.hpp>
#include <fcppt/io/read_chars.hpp>
#include <fcppt/io/stream_to_string.hpp>
#include <fcppt/io/widen_string.hpp>
#include <fcppt/io/write_chars.hpp>
#include <fcppt/log/level.hpp>
#include <fcppt/log/level_from_string.hpp>
#include <fcppt/log/level_input.hpp>
#include <fcppt/log/level_output.hpp>
#include <fcppt/log/level_to_string.hpp>
#include <fcppt/log/optional_level.hpp>
#include <fcppt/optional/object.hpp>

#include <array>
#include <climits>
#include <cstdint>
#include <cstring>
#include <limits>
#include <locale>
#include <map>
#include <sstream>
#include <stdexcept>
#include <string>
#include <cstdlib>
#include <string_view>
#include <tuple>
#include <vector>

using namespace verif;

namespace
{
std::string hex(std::string const &s)
{
  static char const *d = "0123456789abcdef";
  std::string r;
  for (unsigned char c : s) { r.push_back(d[c >> 4]); r.push_back(d[c & 15]); r.push_back(' '); }
  return r;
}
std::string whex(std::wstring const &s)
{
  std::string r;
  for (wchar_t c : s)
  {
    char b[16];
    std::snprintf(b, sizeof b, "U+%04X ", static_cast<unsigned>(static_cast<std::uint32_t>(c)));
    r += b;
  }
  return r;
}
// printable rendering of a byte string for messages
std::string vis(std::string const &s)
{
  std::string r = "\"";
  for (unsigned char c : s)
  {
    if (c >= 0x20 && c < 0x7f && c != '"' && c != '\\') r.push_back(static_cast<char>(c));
    else { char b[8]; std::snprintf(b, sizeof b, "\\x%02x", c); r += b; }
  }
  return r + "\"";
}
std::wstring wide_ascii(std::string const &s) { return std::wstring(s.begin(), s.end()); }
bool is_cspace(char c) { return c == ' ' || c == '\t' || c == '\n' || c == '\v' || c == '\f' || c == '\r'; }
// first whitespace-delimited word of a text (what formatted extraction of a string reads)
std::string first_word(std::string const &t, std::size_t *end = nullptr)
{
  std::size_t i = 0;
  while (i < t.size() && is_cspace(t[i])) ++i;
  std::size_t j = i;
  while (j < t.size() && !is_cspace(t[j])) ++j;
  if (end) *end = j;
  return t.substr(i, j - i);
}

// ==================================================================== log::level
char const *const level_names[] = {"verbose", "debug", "info", "warning", "error", "fatal"};
fcppt::log::level const level_values[] = {fcppt::log::level::verbose, fcppt::log::level::debug, fcppt::log::level::info, fcppt::log::level::warning, fcppt::log::level::error, fcppt::log::level::fatal};
constexpr std::size_t n_levels = 6;
// enumerator index of a name, or -1
int level_index(std::string const &s)
{
  for (std::size_t i = 0; i < n_levels; ++i)
    if (s == level_names[i]) return static_cast<int>(i);
  return -1;
}
std::string const level_alpha = std::string("abdefgilnorstuvwABDEFGILNORSTUVW_ 0-\t") + std::string(1, '\0') + "\xc3";
// the text of case (level, kind, a, b)
std::string level_text(Ints const &c)
{
  std::string const n = level_names[static_cast<std::size_t>(c.at(0)) % n_levels];
  std::size_t const a = static_cast<std::size_t>(c.at(2));
  char const ch = level_alpha[static_cast<std::size_t>(c.at(3)) % level_alpha.size()];
  switch (c.at(1) % 8)
  {
  case 0: return n;
  case 1: return n.substr(0, a % n.size());
  case 2: return n + ch;
  case 3: { std::string r = n; r[a % n.size()] = ch; return r; }
  case 4: { std::string r = n; r.insert(r.begin() + static_cast<std::ptrdiff_t>(a % (n.size() + 1)), ch); return r; }
  case 5: { std::string r = n; r.erase(a % n.size(), 1); return r; }
  case 6:
  {
    std::string r = n;
    for (std::size_t i = 0; i < (a % 2 ? r.size() : 1); ++i) r[i] = static_cast<char>(r[i] - 'a' + 'A');
    return r;
  }
  default: return ch + n;
  }
}
void level_case(Ints const &c)
{
  std::string const t = level_text(c);
  std::size_t const li = static_cast<std::size_t>(c.at(0)) % n_levels;
  int const want = level_index(t);
  count(!t.empty());
  // level_from_string: "Accepts all strings ... that are listed in fcppt::log::level": exactly the names
  {
    fcppt::log::optional_level const r = fcppt::log::level_from_string(fcppt::string_view{t});
    if (want >= 0)
    {
      if (!r.has_value() || r.get_unsafe() != level_values[want]) fail("log::level_from_string|name-not-recognised", "level_from_string(" + vis(t) + ") did not give the level of that name");
    }
    else if (r.has_value())
      fail("log::level_from_string|non-name-accepted", "level_from_string(" + vis(t) + ") returned level #" + std::to_string(static_cast<int>(r.get_unsafe())) + " for a string that is no level name");
  }
  // operator>>: reads the first whitespace-delimited word; failbit unless that word is a name
  {
    std::size_t end = 0;
    std::string const word = first_word(t, &end);
    int const wwant = level_index(word);
    fcppt::io::istringstream is(t);
    fcppt::log::level got = level_values[(li + 1) % n_levels];
    is >> got;
    if (wwant >= 0)
    {
      if (is.fail() || got != level_values[wwant]) fail("log::level|operator>>|name-not-read", "reading " + vis(t) + " did not give level '" + word + "'");
    }
    else if (!is.fail())
      fail("log::level|operator>>|non-name-accepted", "reading " + vis(t) + " succeeded (level #" + std::to_string(static_cast<int>(got)) + ") although '" + vis(word) + "' is no level name");
  }
  if (c.at(1) % 8 != 0) return;
  // the name itself: to_string, output, and the round trips
  fcppt::log::level const lv = level_values[li];
  std::string const name{fcppt::log::level_to_string(lv)};
  if (name != level_names[li]) fail("log::level_to_string|name", "level_to_string(#" + std::to_string(li) + ") = '" + name + "', the enumerator is called '" + level_names[li] + "'");
  fcppt::io::ostringstream os;
  os << lv;
  if (!os.good() || os.str() != level_names[li]) fail("log::level|operator<<|text", "operator<< wrote '" + os.str() + "' for level '" + level_names[li] + "'");
  for (std::string const &pre : {std::string(), std::string(" "), std::string("\n\t ")})
    for (std::string const &suf : {std::string(), std::string(" rest"), std::string("\n")})
    {
      fcppt::io::istringstream is(pre + os.str() + suf);
      fcppt::log::level got = level_values[(li + 1) % n_levels];
      is >> got;
      if (is.fail() || got != lv) fail("log::level|operator>>|round-trip", "reading back " + vis(pre + os.str() + suf) + " did not give level '" + level_names[li] + "'");
      else if (!suf.empty() && is.peek() != static_cast<unsigned char>(suf[0])) fail("log::level|operator>>|consumed-too-much", "after reading " + vis(pre + os.str() + suf) + " the stream is not positioned at the rest");
    }
}
std::string level_describe(Ints const &c) { return "log::level_from_string / operator>> on " + vis(level_text(c)) + " (derived from '" + level_names[static_cast<std::size_t>(c.at(0)) % n_levels] + "')"; }
Reg const r_level{"log_level_text", Kind::exhaustive, "the text is not empty (names, every proper prefix, every one-character insertion / substitution / deletion / extension over a 38-character alphabet, upper-case forms)",
                  [] {
                    for (i64 l = 0; l < static_cast<i64>(n_levels); ++l)
                    {
                      i64 const len = static_cast<i64>(std::strlen(level_names[l]));
                      i64 const na = static_cast<i64>(level_alpha.size());
                      auto go = [&](i64 k, i64 a, i64 b) { Ints c{l, k, a, b}; cur_vec(c); level_case(c); };
                      go(0, 0, 0);
                      for (i64 a = 0; a < len; ++a) go(1, a, 0);
                      for (i64 b = 0; b < na; ++b) go(2, 0, b);
                      for (i64 a = 0; a < len; ++a)
                        for (i64 b = 0; b < na; ++b)
                          if (level_alpha[static_cast<std::size_t>(b)] != level_names[l][a]) go(3, a, b);
                      for (i64 a = 0; a <= len; ++a)
                        for (i64 b = 0; b < na; ++b) go(4, a, b);
                      for (i64 a = 0; a < len; ++a) go(5, a, 0);
                      go(6, 0, 0);
                      go(6, 1, 0);
                      for (i64 b = 0; b < na; ++b) go(7, 0, b);
                    }
                  },
                  level_case, level_describe};

// ==================================================================== strong_typedef << / >>
FCPPT_MAKE_STRONG_TYPEDEF(std::int16_t, st_i16);
FCPPT_MAKE_STRONG_TYPEDEF(std::uint16_t, st_u16);
FCPPT_MAKE_STRONG_TYPEDEF(std::int32_t, st_i32);
FCPPT_MAKE_STRONG_TYPEDEF(std::uint32_t, st_u32);
FCPPT_MAKE_STRONG_TYPEDEF(std::int64_t, st_i64);
FCPPT_MAKE_STRONG_TYPEDEF(std::uint64_t, st_u64);
FCPPT_MAKE_STRONG_TYPEDEF(std::string, st_str);
using int_types = std::tuple<std::int16_t, std::uint16_t, std::int32_t, std::uint32_t, std::int64_t, std::uint64_t>;
using st_types = std::tuple<st_i16, st_u16, st_i32, st_u32, st_i64, st_u64>;
char const *const int_names[] = {"i16", "u16", "i32", "u32", "i64", "u64"};
char const *const pre_set[] = {"", " ", "\n\t ", "    "};
char const *const suf_set[] = {"", " ", "x", " 12", ",", ".5", "-", ")"};
template <typename T>
T from_bits(i64 raw) { return static_cast<T>(static_cast<std::make_unsigned_t<T>>(static_cast<u64>(raw))); }
template <typename T>
bool wide_value(T v) { return v < 0 || static_cast<u64>(v) >= 256U; }

template <std::size_t I>
void st_one(i64 raw, i64 variant)
{
  using T = std::tuple_element_t<I, int_types>;
  using ST = std::tuple_element_t<I, st_types>;
  T const v = from_bits<T>(raw);
  T const other = static_cast<T>(v == 1 ? 2 : 1);
  count(wide_value(v));
  std::string const digits = std::to_string(v);
  std::string const pre = pre_set[static_cast<std::size_t>(variant) % 4], suf = suf_set[static_cast<std::size_t>(variant / 4) % 8];
  ST const sv{v};
  {
    std::ostringstream os;
    os << sv;
    if (!os.good() || os.str() != digits) { fail("strong_typedef|operator<<|text", "strong_typedef<" + std::string(int_names[I]) + ">(" + digits + ") printed as '" + os.str() + "'"); return; }
    std::wostringstream wos;
    wos << sv;
    if (!wos.good() || wos.str() != wide_ascii(digits)) { fail("strong_typedef|operator<<|wide-text", "strong_typedef(" + digits + ") printed wrongly on a wide stream"); return; }
  }
  std::string const text = pre + digits + suf;
  {
    std::istringstream is(text);
    ST got{other};
    is >> got;
    if (is.fail() || got.get() != v) fail("strong_typedef|operator>>|round-trip", "reading " + vis(text) + " into strong_typedef<" + int_names[I] + "> gave " + std::to_string(got.get()) + (is.fail() ? " and failbit" : ""));
    else if (!suf.empty() && is.peek() != static_cast<unsigned char>(suf[0])) fail("strong_typedef|operator>>|position", "after reading " + vis(text) + " the stream is not positioned at the suffix");
  }
  {
    std::wistringstream is(wide_ascii(text));
    ST got{other};
    is >> got;
    if (is.fail() || got.get() != v) fail("strong_typedef|operator>>|wide-round-trip", "reading L" + vis(text) + " gave " + std::to_string(got.get()));
  }
  {
    std::istringstream is(text);
    fcppt::optional::object<ST> const r = fcppt::io::extract<ST>(is);
    if (!r.has_value() || r.get_unsafe().get() != v) fail("io::extract|strong_typedef|round-trip", "extract<strong_typedef<" + std::string(int_names[I]) + ">> from " + vis(text) + " did not give " + digits);
  }
  {
    // through the string conversions (the whole string must be consumed: only without suffix)
    std::string const s = fcppt::output_to_std_string(sv);
    if (s != digits) fail("output_to_std_string|strong_typedef|text", "output_to_std_string(strong_typedef(" + digits + ")) = '" + s + "'");
    fcppt::optional::object<ST> const r = fcppt::extract_from_string<ST>(pre + s);
    if (!r.has_value() || r.get_unsafe().get() != v) fail("extract_from_string|strong_typedef|round-trip", "extract_from_string<strong_typedef>(" + vis(pre + s) + ") did not give " + digits);
    if (!suf.empty() && suf != " " && fcppt::extract_from_string<ST>(text).has_value()) fail("extract_from_string|strong_typedef|trailing-garbage", vis(text) + " was accepted");
  }
  {
    // text that is no number: failbit
    std::istringstream is("x" + digits);
    ST got{other};
    is >> got;
    if (!is.fail()) fail("strong_typedef|operator>>|garbage-accepted", "reading " + vis("x" + digits) + " succeeded");
  }
}
using st_fn = void (*)(i64, i64);
template <std::size_t... I>
std::array<st_fn, 6> make_st(std::index_sequence<I...>) { return {{&st_one<I>...}}; }
auto const st_table = make_st(std::make_index_sequence<6>{});
std::string st_string_of(Ints const &c)
{
  static std::string const alpha = std::string("ab z9_-,(\"\t\n ") + std::string(1, '\0') + "\xc3\xa4\xff";
  std::string s;
  for (std::size_t i = 1; i < c.size() && i <= 12; ++i) s.push_back(alpha[static_cast<std::size_t>(static_cast<u64>(c[i]) % alpha.size())]);
  return s;
}
void st_string_one(Ints const &c)
{
  std::string const s = st_string_of(c);
  std::size_t end = 0;
  std::string const word = first_word(s, &end);
  count(word.size() >= 2);
  st_str const sv{s};
  std::ostringstream os;
  os << sv;
  if (!os.good() || os.str() != s) { fail("strong_typedef|operator<<|string-text", "strong_typedef<std::string>(" + vis(s) + ") printed as " + vis(os.str())); return; }
  // Reading: like the underlying type's own operator>>, reading a string takes one
  // whitespace-delimited word; the round trip is exact for strings that are one such word.
  std::istringstream is(os.str());
  st_str got{std::string("?")};
  is >> got;
  if (word.empty())
  {
    if (!is.fail()) fail("strong_typedef|operator>>|string-empty-accepted", "reading " + vis(s) + " (no word) succeeded");
  }
  else if (is.fail() || got.get() != word)
    fail("strong_typedef|operator>>|string-round-trip", "reading " + vis(s) + " gave " + vis(got.get()) + ", expected the word " + vis(word));
  else if (end < s.size() && is.peek() != static_cast<unsigned char>(s[end]))
    fail("strong_typedef|operator>>|string-position", "after reading " + vis(s) + " the stream is not positioned after the word");
}
void st_case(Ints const &c)
{
  if (c.at(0) % 7 == 6) st_string_one(c);
  else st_table[static_cast<std::size_t>(c.at(0) % 7)](c.at(1), c.size() > 2 ? c[2] : 0);
}
std::string st_describe(Ints const &c)
{
  if (c.at(0) % 7 == 6) return "strong_typedef<std::string>(" + vis(st_string_of(c)) + ") << then >>";
  i64 const var = c.size() > 2 ? c[2] : 0;
  return std::string("strong_typedef<") + int_names[c.at(0) % 7] + "> bits " + std::to_string(c.at(1)) + " written with <<, read with >> / io::extract / extract_from_string from " + vis(std::string(pre_set[var % 4]) + "<digits>" + suf_set[(var / 4) % 8]);
}
Reg const r_st{"strong_typedef_text", Kind::random, "integer value negative or >= 256, or a string whose first word has >= 2 characters",
               [] {
                 auto go = [](i64 t, i64 v, i64 var) { cur3(t, v, var); st_table[static_cast<std::size_t>(t)](v, var); };
                 for (i64 v = 0; v < 65536; v += 1) { go(0, v, v % 32); go(1, v, (v / 7) % 32); }
                 i64 k = 0;
                 for (auto v : lattice<std::int32_t>()) go(2, v, k++ % 32);
                 for (auto v : lattice<std::uint32_t>()) go(3, v, k++ % 32);
                 for (auto v : lattice<std::int64_t>()) go(4, v, k++ % 32);
                 for (auto v : lattice<std::uint64_t>()) go(5, static_cast<i64>(v), k++ % 32);
                 SplitMix r(opts().seed * 31 + static_cast<u64>(opts().shard));
                 u64 const n = opts().thorough() ? 200000 : 12000;
                 for (u64 i = 0; i < n; ++i)
                 {
                   i64 const t = 2 + static_cast<i64>(r.next() % 4);
                   u64 v = r.next();
                   if ((r.next() & 1U) == 0) v >>= (r.next() % 64);
                   if ((r.next() & 7U) == 0) v = ~v;
                   go(t, static_cast<i64>(v), static_cast<i64>(r.next() % 32));
                 }
                 // strings: every string up to length 3 over the alphabet, then random longer ones
                 for (i64 len = 0; len <= 3; ++len)
                 {
                   i64 total = 1;
                   for (i64 i = 0; i < len; ++i) total *= 18;
                   for (i64 x = 0; x < total; ++x)
                   {
                     Ints c{6};
                     i64 xx = x;
                     for (i64 i = 0; i < len; ++i) { c.push_back(xx % 18); xx /= 18; }
                     cur_vec(c);
                     st_string_one(c);
                   }
                 }
                 for (u64 i = 0; i < n / 4; ++i)
                 {
                   Ints c{6};
                   u64 const len = 4 + r.next() % 9;
                   for (u64 j = 0; j < len; ++j) c.push_back(static_cast<i64>(r.next() % 18));
                   cur_vec(c);
                   st_string_one(c);
                 }
               },
               st_case, st_describe};

// ==================================================================== io::extract on integers
// kinds: 0 value with prefix/suffix, 1 one beyond the type's range, 2 empty / whitespace only,
// 3 garbage first, 4 stream already failed, 5 stream already at its end
template <typename T, typename Ch>
void extract_one(i64 raw, i64 kind, i64 variant, char const *tname)
{
  using L = std::numeric_limits<T>;
  T const v = from_bits<T>(raw);
  std::string const pre = pre_set[static_cast<std::size_t>(variant) % 4], suf = suf_set[static_cast<std::size_t>(variant / 4) % 8];
  std::string const wtag = sizeof(Ch) == 1 ? "|char" : "|wchar_t";
  auto mk = [](std::string const &t) { return std::basic_string<Ch>(t.begin(), t.end()); };
  std::string const digits = fcppt::output_to_std_string(v);
  if (digits != std::to_string(v)) { count(true); fail("output_to_std_string|digits", "output_to_std_string(" + std::to_string(v) + ") = '" + digits + "'"); return; }
  switch (kind % 6)
  {
  case 0:
  {
    count(wide_value(v));
    std::string const text = pre + digits + suf;
    std::basic_istringstream<Ch> is(mk(text));
    fcppt::optional::object<T> const r = fcppt::io::extract<T>(is);
    if (!r.has_value()) fail("io::extract|value-lost" + wtag, std::string("extract<") + tname + "> from " + vis(text) + " returned nothing");
    else if (r.get_unsafe() != v) fail("io::extract|round-trip" + wtag, std::string("extract<") + tname + "> from " + vis(text) + " returned " + std::to_string(r.get_unsafe()));
    else if (is.fail()) fail("io::extract|failbit-after-success" + wtag, "the stream failed although a value was returned for " + vis(text));
    else if (!suf.empty() && is.peek() != std::char_traits<Ch>::to_int_type(static_cast<Ch>(static_cast<unsigned char>(suf[0])))) fail("io::extract|position" + wtag, "after extract from " + vis(text) + " the stream is not positioned at the suffix");
    break;
  }
  case 1:
  {
    // "If extracting the value fails, an empty optional is returned": a number one beyond the range
    // of the type cannot be extracted - it must never come back as some other value
    bool const below = (variant & 1) != 0 && std::is_signed_v<T>;
    count(true);
    std::string const text = pre + str(below ? static_cast<__int128>(L::min()) - 1 - static_cast<__int128>(static_cast<u64>(raw) % 1000U) : static_cast<__int128>(L::max()) + 1 + static_cast<__int128>(static_cast<u64>(raw) % 1000U)) + suf;
    std::basic_istringstream<Ch> is(mk(text));
    fcppt::optional::object<T> const r = fcppt::io::extract<T>(is);
    if (r.has_value()) fail("io::extract|out-of-range-accepted" + wtag, std::string("extract<") + tname + "> from " + vis(text) + " returned " + std::to_string(r.get_unsafe()));
    break;
  }
  case 2:
  {
    count(pre.size() > 0);
    std::basic_istringstream<Ch> is(mk(pre));
    if (fcppt::io::extract<T>(is).has_value()) fail("io::extract|empty-accepted" + wtag, std::string("extract<") + tname + "> from " + vis(pre) + " returned a value");
    if (!is.fail()) fail("io::extract|empty-no-failbit" + wtag, "stream not failed after extract from " + vis(pre));
    break;
  }
  case 3:
  {
    count(true);
    static char const *const junk[] = {"x", "--", ",", "(", "+-", "."};
    std::string const text = pre + junk[static_cast<std::size_t>(variant / 4) % 6] + digits;
    std::basic_istringstream<Ch> is(mk(text));
    fcppt::optional::object<T> const r = fcppt::io::extract<T>(is);
    if (r.has_value()) fail("io::extract|garbage-accepted" + wtag, std::string("extract<") + tname + "> from " + vis(text) + " returned " + std::to_string(r.get_unsafe()));
    break;
  }
  case 4:
  {
    count(true);
    std::basic_istringstream<Ch> is(mk(pre + digits + suf));
    is.setstate((variant & 64) ? std::ios_base::badbit : std::ios_base::failbit);
    fcppt::optional::object<T> const r = fcppt::io::extract<T>(is);
    if (r.has_value()) fail("io::extract|failed-stream-yields-value" + wtag, std::string("extract<") + tname + "> from a stream that had already failed returned " + std::to_string(r.get_unsafe()));
    break;
  }
  default:
  {
    count(true);
    // two values in the stream: the second extraction gives the second, the third nothing
    std::string const second = std::to_string(static_cast<T>(v / 3));
    std::string const text = pre + digits + " " + second;
    std::basic_istringstream<Ch> is(mk(text));
    fcppt::optional::object<T> const a = fcppt::io::extract<T>(is), b = fcppt::io::extract<T>(is), c = fcppt::io::extract<T>(is);
    if (!a.has_value() || a.get_unsafe() != v || !b.has_value() || b.get_unsafe() != static_cast<T>(v / 3)) fail("io::extract|sequence" + wtag, "two extractions from " + vis(text) + " did not give both values");
    if (c.has_value()) fail("io::extract|past-the-end" + wtag, "a third extraction from " + vis(text) + " returned " + std::to_string(c.get_unsafe()));
    break;
  }
  }
}
template <std::size_t I>
void extract_dispatch(i64 raw, i64 kind, i64 variant)
{
  using T = std::tuple_element_t<I, int_types>;
  // wide streams for i32 and u64 only (compile time)
  if constexpr (I == 2 || I == 5)
  {
    if (variant & 32) { extract_one<T, wchar_t>(raw, kind, variant, int_names[I]); return; }
  }
  extract_one<T, char>(raw, kind, variant, int_names[I]);
}
using ex_fn = void (*)(i64, i64, i64);
template <std::size_t... I>
std::array<ex_fn, 6> make_ex(std::index_sequence<I...>) { return {{&extract_dispatch<I>...}}; }
auto const ex_table = make_ex(std::make_index_sequence<6>{});
void extract_case(Ints const &c) { ex_table[static_cast<std::size_t>(c.at(0)) % 6](c.at(1), c.at(2), c.at(3)); }
std::string extract_describe(Ints const &c)
{
  static char const *const kinds[] = {"value with prefix/suffix", "number one or more beyond the type's range", "empty or blank stream", "garbage before the number", "stream already in a failed state", "two numbers, three extractions"};
  return std::string("io::extract<") + int_names[c.at(0) % 6] + "> (" + ((c.at(3) & 32) && (c.at(0) % 6 == 2 || c.at(0) % 6 == 5) ? "wchar_t" : "char") + " stream), bits " + std::to_string(c.at(1)) + ", " + kinds[c.at(2) % 6] + ", prefix " + vis(pre_set[c.at(3) % 4]) + " suffix " + vis(suf_set[(c.at(3) / 4) % 8]);
}
Reg const r_extract{"io_extract_integers", Kind::random, "the value is negative or >= 256, or the case is one of the failure kinds (out of range, blank, garbage, failed stream, past the end)",
                    [] {
                      auto go = [](i64 t, i64 v, i64 k, i64 var) { cur4(t, v, k, var); ex_table[static_cast<std::size_t>(t)](v, k, var); };
                      i64 n = 0;
                      for (i64 v = 0; v < 65536; ++v) { go(0, v, 0, n % 64); go(1, v, 0, (n / 3) % 64); ++n; }
                      for (i64 t = 0; t < 6; ++t)
                        for (i64 k = 1; k < 6; ++k)
                          for (i64 var = 0; var < 128; ++var) go(t, 12345 + var * 77, k, var);
                      auto lat = [&](i64 t, auto const &vals) {
                        for (auto v : vals)
                          for (i64 k : {0, 0, 3, 5}) go(t, static_cast<i64>(v), k, n++ % 64);
                      };
                      lat(2, lattice<std::int32_t>());
                      lat(3, lattice<std::uint32_t>());
                      lat(4, lattice<std::int64_t>());
                      lat(5, lattice<std::uint64_t>());
                      SplitMix r(opts().seed * 37 + static_cast<u64>(opts().shard));
                      u64 const cnt = opts().thorough() ? 400000 : 25000;
                      for (u64 i = 0; i < cnt; ++i)
                      {
                        i64 const t = static_cast<i64>(r.next() % 6);
                        u64 v = r.next();
                        if ((r.next() & 1U) == 0) v >>= (r.next() % 64);
                        if ((r.next() & 7U) == 0) v = ~v;
                        go(t, static_cast<i64>(v), (r.next() & 3U) ? 0 : static_cast<i64>(r.next() % 6), static_cast<i64>(r.next() % 128));
                      }
                    },
                    extract_case, extract_describe};

// ==================================================================== io::expect / peek / get
std::string const pk_alpha = std::string("xy (,1") + std::string(1, '\0') + "\xff\n";
std::string pk_text(Ints const &c)
{
  std::string s;
  for (std::size_t i = 1; i < c.size() && i <= 4; ++i) s.push_back(pk_alpha[static_cast<std::size_t>(static_cast<u64>(c[i]) % pk_alpha.size())]);
  return s;
}
void pk_case(Ints const &c)
{
  std::string const t = pk_text(c);
  char const want = pk_alpha[static_cast<std::size_t>(static_cast<u64>(c.at(0)) % pk_alpha.size())];
  using oc = fcppt::optional::object<char>;
  count(t.size() >= 2);
  // peek: the next character without consuming it, nothing at the end; get: consumes
  {
    std::istringstream is(t);
    for (std::size_t i = 0; i <= t.size(); ++i)
    {
      oc const p1 = fcppt::io::peek(is), p2 = fcppt::io::peek(is);
      oc const g = fcppt::io::get(is);
      if (i < t.size())
      {
        if (!p1.has_value() || p1.get_unsafe() != t[i] || !p2.has_value() || p2.get_unsafe() != t[i]) { fail("io::peek|value", "peek at offset " + std::to_string(i) + " of " + vis(t) + " did not give that character (twice)"); break; }
        if (!g.has_value() || g.get_unsafe() != t[i]) { fail("io::get|value", "get at offset " + std::to_string(i) + " of " + vis(t) + " did not give that character"); break; }
      }
      else
      {
        if (p1.has_value() || p2.has_value()) fail("io::peek|end-of-file", "peek at the end of " + vis(t) + " returned a character");
        if (g.has_value()) fail("io::get|end-of-file", "get at the end of " + vis(t) + " returned a character");
      }
    }
  }
  {
    std::wstring w;
    for (std::size_t i = 0; i < t.size(); ++i) w.push_back(t[i] == '\xff' ? static_cast<wchar_t>(0x10FFFF) : t[i] == '\n' ? static_cast<wchar_t>(0xFFFF) : static_cast<wchar_t>(static_cast<unsigned char>(t[i])));
    std::wistringstream is(w);
    for (std::size_t i = 0; i <= w.size(); ++i)
    {
      auto const p = fcppt::io::peek(is);
      auto const g = fcppt::io::get(is);
      if (i < w.size() ? (!p.has_value() || p.get_unsafe() != w[i] || !g.has_value() || g.get_unsafe() != w[i]) : (p.has_value() || g.has_value())) { fail("io::peek|wide", "peek/get at offset " + std::to_string(i) + " of " + whex(w) + " wrong"); break; }
    }
  }
  // expect(stream, ch): Reading: the value is read with operator>> (documented for io::extract), which
  // skips leading whitespace; the stream stays good exactly if the character read equals `want`.
  {
    std::size_t i = 0;
    while (i < t.size() && is_cspace(t[i])) ++i;
    bool const ok = i < t.size() && t[i] == want;
    std::istringstream is(t);
    std::istream &ret = fcppt::io::expect(is, want);
    if (&ret != &is) fail("io::expect|return", "expect did not return its stream");
    if (ok && is.fail()) fail("io::expect|match-fails", "expect(" + vis(t) + ", " + vis(std::string(1, want)) + ") set failbit although the next character matches");
    if (!ok && !is.fail()) fail("io::expect|mismatch-accepted", "expect(" + vis(t) + ", " + vis(std::string(1, want)) + ") left the stream good");
    if (ok && !is.fail())
    {
      oc const nx = fcppt::io::peek(is);
      if (i + 1 < t.size() ? (!nx.has_value() || nx.get_unsafe() != t[i + 1]) : nx.has_value()) fail("io::expect|position", "after expect(" + vis(t) + ") the stream is not positioned after the matched character");
    }
  }
}
int const ev_vals[] = {-1, 0, 7, 42, 43, -2147483647 - 1};
void expect_int_case(Ints const &c)
{
  int const a = ev_vals[static_cast<std::size_t>(static_cast<u64>(c.at(1)) % 6)], n = ev_vals[static_cast<std::size_t>(static_cast<u64>(c.at(2)) % 6)];
  std::string const pre = pre_set[static_cast<std::size_t>(static_cast<u64>(c.at(3)) % 4)], suf = suf_set[static_cast<std::size_t>(static_cast<u64>(c.at(3)) / 4 % 8)];
  count(a != n || a < 0 || a > 9);
  std::string const text = pre + std::to_string(a) + suf;
  std::istringstream is(text);
  fcppt::io::expect(is, n);
  if (a == n && is.fail()) fail("io::expect|int-match-fails", "expect(" + vis(text) + ", " + std::to_string(n) + ") set failbit");
  if (a != n && !is.fail()) fail("io::expect|int-mismatch-accepted", "expect(" + vis(text) + ", " + std::to_string(n) + ") left the stream good");
  std::wistringstream wis(wide_ascii(text));
  fcppt::io::expect(wis, n);
  if ((a == n) == wis.fail()) fail("io::expect|int-wide", "expect(L" + vis(text) + ", " + std::to_string(n) + ") wrong on a wide stream");
}
Reg const r_peek{"io_expect_peek_get", Kind::exhaustive, "text of >= 2 characters (expect<char>/peek/get), or an expected integer that differs from the written one or has several characters",
                 [] {
                   i64 const na = static_cast<i64>(pk_alpha.size());
                   for (i64 len = 0; len <= 4; ++len)
                   {
                     i64 total = 1;
                     for (i64 i = 0; i < len; ++i) total *= na;
                     for (i64 x = 0; x < total; ++x)
                       for (i64 w = 0; w < na; ++w)
                       {
                         if (len == 4 && (x + w) % 5 != 0) continue; // length 4: every 5th
                         Ints c{w};
                         i64 xx = x;
                         for (i64 i = 0; i < len; ++i) { c.push_back(xx % na); xx /= na; }
                         cur_vec(c);
                         pk_case(c);
                       }
                   }
                   for (i64 a = 0; a < 6; ++a)
                     for (i64 n = 0; n < 6; ++n)
                       for (i64 var = 0; var < 32; ++var) { Ints c{100, a, n, var}; cur_vec(c); expect_int_case(c); }
                 },
                 [](Ints const &c) { if (c.at(0) == 100) expect_int_case(c); else pk_case(c); },
                 [](Ints const &c) {
                   if (c.at(0) == 100) return "io::expect<int>: text of value #" + std::to_string(c.at(1)) + ", expected value #" + std::to_string(c.at(2)) + " of {-1,0,7,42,43,INT_MIN}, prefix/suffix variant " + std::to_string(c.at(3));
                   return "io::peek/get over " + vis(pk_text(c)) + " and io::expect of " + vis(std::string(1, pk_alpha[static_cast<std::size_t>(static_cast<u64>(c.at(0)) % pk_alpha.size())]));
                 }};

// ==================================================================== io::write_chars / read_chars / stream_to_string
std::string bytes_of(Choices &ch)
{
  std::size_t const len = static_cast<std::size_t>(ch.range(0, 3) == 0 ? ch.range(0, 3) : ch.range(0, 90));
  std::string s;
  for (std::size_t i = 0; i < len; ++i)
  {
    u64 const x = ch.raw();
    s.push_back((x >> 8) % 4 == 0 ? static_cast<char>("\0\xff\n \x1a\x80"[x % 6]) : static_cast<char>(static_cast<unsigned char>(x)));
  }
  return s;
}
std::string buf_str(fcppt::io::buffer const &b) { return std::string(b.begin(), b.end()); }
void chars_case(Ints const &c)
{
  Choices ch(c);
  std::size_t const split_raw = static_cast<std::size_t>(ch.range(0, 1000));
  std::size_t const extra = static_cast<std::size_t>(ch.range(1, 3));
  ch.skip_to_frame();
  std::string const s = bytes_of(ch);
  std::size_t const n = s.size(), k = n == 0 ? 0 : split_raw % (n + 1);
  count(n >= 2);
  cls(n == 0 ? "len0" : n < 16 ? "len<16" : "len>=16");
  std::ostringstream os;
  bool const ok = fcppt::io::write_chars(os, s.data(), k) && fcppt::io::write_chars(os, s.data() + k, n - k);
  if (!ok) { fail("io::write_chars|reports-failure", "write_chars to a good string stream returned false for " + std::to_string(n) + " bytes"); return; }
  if (os.str() != s) { fail("io::write_chars|content", "write_chars wrote [" + hex(os.str()) + "] instead of [" + hex(s) + "]"); return; }
  {
    // the complete content, read at once
    std::istringstream is(os.str());
    fcppt::io::optional_buffer const r = fcppt::io::read_chars(is, n);
    if (!r.has_value()) fail("io::read_chars|complete-read-fails", "read_chars(stream of " + std::to_string(n) + " bytes, " + std::to_string(n) + ") returned nothing");
    else if (buf_str(r.get_unsafe()) != s) fail("io::read_chars|round-trip", "read_chars gave [" + hex(buf_str(r.get_unsafe())) + "] instead of [" + hex(s) + "]");
  }
  {
    // in two pieces: the second read continues where the first stopped
    std::istringstream is(os.str());
    fcppt::io::optional_buffer const a = fcppt::io::read_chars(is, k);
    fcppt::io::optional_buffer const b = fcppt::io::read_chars(is, n - k);
    if (!a.has_value() || !b.has_value()) fail("io::read_chars|split-read-fails", "read_chars(" + std::to_string(k) + ") then read_chars(" + std::to_string(n - k) + ") on " + std::to_string(n) + " bytes: one returned nothing");
    else if (buf_str(a.get_unsafe()) != s.substr(0, k) || buf_str(b.get_unsafe()) != s.substr(k)) fail("io::read_chars|split-round-trip", "two reads (" + std::to_string(k) + " + " + std::to_string(n - k) + ") of [" + hex(s) + "] gave [" + hex(buf_str(a.get_unsafe())) + "] and [" + hex(buf_str(b.get_unsafe())) + "]");
  }
  {
    // Reading: "Tries to read count chars": asking for more than the stream holds cannot give `count`
    // characters; the weaker reading is taken: nothing, or only characters that really are the
    // stream's content, never `count` or more of them.
    std::istringstream is(os.str());
    fcppt::io::optional_buffer const r = fcppt::io::read_chars(is, n + extra);
    if (r.has_value())
    {
      std::string const got = buf_str(r.get_unsafe());
      if (got.size() >= n + extra || got != s.substr(0, got.size())) fail("io::read_chars|short-stream|invented-bytes", "read_chars(" + std::to_string(n + extra) + ") on " + std::to_string(n) + " bytes returned " + std::to_string(got.size()) + " bytes [" + hex(got) + "]");
    }
  }
  {
    std::istringstream is(os.str());
    fcppt::optional::object<std::string> const r = fcppt::io::stream_to_string(is);
    if (!r.has_value()) fail("io::stream_to_string|nothing", "stream_to_string of a good stream with " + std::to_string(n) + " bytes returned nothing");
    else if (r.get_unsafe() != s) fail("io::stream_to_string|round-trip", "stream_to_string gave [" + hex(r.get_unsafe()) + "] instead of [" + hex(s) + "]");
    // after a part has been consumed: the rest
    std::istringstream is2(os.str());
    is2.ignore(static_cast<std::streamsize>(k));
    fcppt::optional::object<std::string> const r2 = fcppt::io::stream_to_string(is2);
    if (!r2.has_value() || r2.get_unsafe() != s.substr(k)) fail("io::stream_to_string|rest", "stream_to_string after consuming " + std::to_string(k) + " of " + std::to_string(n) + " bytes did not give the rest");
  }
  {
    // a stream that cannot take the bytes: write_chars must say so
    std::ostringstream bad;
    bad.setstate(std::ios_base::badbit);
    if (fcppt::io::write_chars(bad, s.data(), n)) fail("io::write_chars|bad-stream-success", "write_chars to a stream with badbit set returned true");
  }
}
Reg const r_chars{"io_chars_round_trip", Kind::random, "byte string of length >= 2 (arbitrary bytes incl. NUL, 0xFF, newline, Ctrl-Z; lengths 0..90)",
                  [] { run_random(*g_cur.sec, {4000, 26}, {40000, 26}); },
                  chars_case,
                  [](Ints const &c) {
                    Choices ch(c);
                    i64 const sp = ch.range(0, 1000);
                    ch.range(1, 3);
                    ch.skip_to_frame();
                    std::string const s = bytes_of(ch);
                    return "write_chars/read_chars/stream_to_string of [" + hex(s) + "] split at " + std::to_string(s.empty() ? 0 : static_cast<std::size_t>(sp) % (s.size() + 1));
                  }};

// ==================================================================== locale variants
template <typename Ch>
struct punct : std::numpunct<Ch>
{
  Ch sep;
  std::string grp;
  punct(Ch s, std::string g) : std::numpunct<Ch>(std::size_t{0}), sep(s), grp(std::move(g)) {}
  Ch do_thousands_sep() const override { return sep; }
  std::string do_grouping() const override { return grp; }
};
struct loc_def
{
  char const *name;
  char sep;
  std::string grouping;
};
loc_def const loc_defs[] = {{"classic", 0, ""}, {"sep ',' groups of 3", ',', "\3"}, {"sep '.' groups 3,2,2,...", '.', "\3\2"}, {"sep '_' groups of 1", '_', "\1"}, {"sep ' ' groups 2,3 then none", ' ', std::string("\2\3") + static_cast<char>(CHAR_MAX)}};
constexpr std::size_t n_locs = 5;
std::locale const &loc_of(std::size_t i)
{
  static std::vector<std::locale> const ls = [] {
    std::vector<std::locale> r;
    r.push_back(std::locale::classic());
    for (std::size_t k = 1; k < n_locs; ++k)
    {
      std::locale const a(std::locale::classic(), new punct<char>(loc_defs[k].sep, loc_defs[k].grouping));
      r.push_back(std::locale(a, new punct<wchar_t>(static_cast<wchar_t>(loc_defs[k].sep), loc_defs[k].grouping)));
    }
    return r;
  }();
  return ls[i % n_locs];
}
// reference digit grouping (C++ [locale.numpunct]: grouping[0] is the size of the rightmost group, the
// last element repeats, an element <= 0 or CHAR_MAX ends the grouping)
std::string group_ref(std::string const &plain, loc_def const &d)
{
  if (d.grouping.empty()) return plain;
  bool const neg = !plain.empty() && plain[0] == '-';
  std::string const dig = neg ? plain.substr(1) : plain;
  std::string out;
  std::size_t gi = 0, left = dig.size();
  bool unlimited = false;
  while (left > 0)
  {
    char const g = d.grouping[std::min(gi, d.grouping.size() - 1)];
    if (g <= 0 || g == CHAR_MAX) unlimited = true;
    std::size_t const take = unlimited ? left : std::min<std::size_t>(left, static_cast<std::size_t>(g));
    out.insert(0, dig.substr(left - take, take));
    left -= take;
    if (left > 0) out.insert(out.begin(), d.sep);
    ++gi;
  }
  return (neg ? "-" : "") + out;
}
template <std::size_t I>
void loc_one(i64 raw, i64 li)
{
  // part of every case (so that a failure replays): with the global locale untouched,
  // insert_extract_locale() is the classic locale, as documented
  if (!(fcppt::insert_extract_locale() == std::locale::classic())) fail("insert_extract_locale|not-the-C-locale", "insert_extract_locale() is not the classic locale although the global locale was never changed");
  using T = std::tuple_element_t<I, int_types>;
  T const v = from_bits<T>(raw);
  loc_def const &d = loc_defs[static_cast<std::size_t>(li) % n_locs];
  std::locale const &l = loc_of(static_cast<std::size_t>(li));
  std::string const plain = std::to_string(v);
  std::string const want = group_ref(plain, d);
  bool const grouped = want != plain;
  count(grouped);
  std::string const tag = std::string("|") + (grouped ? "grouped" : "plain");
  std::string const s = fcppt::output_to_std_string_locale(v, l);
  std::wstring const w = fcppt::output_to_std_wstring_locale(v, l);
  fcppt::string const f = fcppt::output_to_fcppt_string_locale(v, l);
  std::string const s2 = fcppt::output_to_string_locale<std::string>(v, l);
  std::wstring const w2 = fcppt::output_to_string_locale<std::wstring>(v, l);
  if (s != want) { fail("output_to_std_string_locale|text" + tag, "output_to_std_string_locale(" + plain + ", " + d.name + ") = '" + s + "', expected '" + want + "'"); return; }
  if (w != wide_ascii(want) || w2 != w) { fail("output_to_std_wstring_locale|text" + tag, "wide output of " + plain + " in locale " + d.name + " differs from '" + want + "'"); return; }
  if (f != fcppt::string(want.begin(), want.end()) || s2 != want) { fail("output_to_fcppt_string_locale|text" + tag, "output_to_fcppt_string_locale / output_to_string_locale<std::string> of " + plain + " in locale " + d.name + " differ from '" + want + "'"); return; }
  // same locale for writer and reader: the value comes back
  auto const r1 = fcppt::extract_from_string_locale<T>(s, l);
  auto const r2 = fcppt::extract_from_string_locale<T>(w, l);
  if (!r1.has_value() || r1.get_unsafe() != v) fail("extract_from_string_locale|round-trip" + tag, "extract_from_string_locale('" + s + "', " + d.name + ") did not give back " + plain);
  if (!r2.has_value() || r2.get_unsafe() != v) fail("extract_from_string_locale|wide-round-trip" + tag, "extract_from_string_locale(L'" + s + "', " + d.name + ") did not give back " + plain);
  if (fcppt::extract_from_string_locale<T>(s + "x", l).has_value()) fail("extract_from_string_locale|trailing-garbage" + tag, "'" + s + "x' was accepted");
  // the functions without a locale argument use insert_extract_locale, "the C locale": plain digits
  if (fcppt::output_to_string<std::string>(v) != plain || fcppt::output_to_string<std::wstring>(v) != wide_ascii(plain)) fail("output_to_string|text", "output_to_string(" + plain + ") is not the plain digit string");
  // a grouped text is not consumed completely by a reader in the C locale (the documented rationale of
  // insert_extract_locale: "300,100" must fail in the C locale)
  if (grouped)
  {
    if (fcppt::extract_from_string_locale<T>(s, std::locale::classic()).has_value()) fail("extract_from_string_locale|separator-accepted-in-C-locale", "'" + s + "' was accepted in the classic locale");
    if (fcppt::extract_from_string<T>(s).has_value()) fail("extract_from_string|separator-accepted", "extract_from_string('" + s + "') returned a value");
  }
}
using loc_fn = void (*)(i64, i64);
template <std::size_t... I>
std::array<loc_fn, 6> make_loc(std::index_sequence<I...>) { return {{&loc_one<I>...}}; }
auto const loc_table = make_loc(std::make_index_sequence<6>{});
Reg const r_loc{"locale_variants_text", Kind::random, "the locale groups digits and the value has enough digits for at least one separator",
                [] {
                  auto go = [](i64 t, i64 v, i64 l) { cur3(t, v, l); loc_table[static_cast<std::size_t>(t)](v, l); };
                  {
                    // the example of the documentation of insert_extract_locale
                    cur3(2, 300100, 1);
                    count(true);
                    auto const a = fcppt::extract_from_string_locale<int>(std::string("300,100"), loc_of(1));
                    if (!a.has_value() || a.get_unsafe() != 300100) fail("extract_from_string_locale|documented-example", "'300,100' in a locale with ',' as thousands separator did not give 300100");
                    if (fcppt::extract_from_string<int>(std::string("300,100")).has_value()) fail("extract_from_string|documented-example", "extract_from_string<int>('300,100') returned a value");
                  }
                  for (i64 v = 0; v < 65536; ++v) { go(0, v, v % 5); go(1, v, (v / 5) % 5); }
                  for (i64 l = 0; l < 5; ++l)
                  {
                    for (auto v : lattice<std::int32_t>()) go(2, v, l);
                    for (auto v : lattice<std::uint32_t>()) go(3, v, l);
                    for (auto v : lattice<std::int64_t>()) go(4, v, l);
                    for (auto v : lattice<std::uint64_t>()) go(5, static_cast<i64>(v), l);
                  }
                  SplitMix r(opts().seed * 41 + static_cast<u64>(opts().shard));
                  u64 const n = opts().thorough() ? 300000 : 15000;
                  for (u64 i = 0; i < n; ++i)
                  {
                    i64 const t = 2 + static_cast<i64>(r.next() % 4);
                    u64 v = r.next();
                    if ((r.next() & 1U) == 0) v >>= (r.next() % 64);
                    if ((r.next() & 7U) == 0) v = ~v;
                    go(t, static_cast<i64>(v), static_cast<i64>(r.next() % 5));
                  }
                },
                [](Ints const &c) { loc_table[static_cast<std::size_t>(c.at(0)) % 6](c.at(1), c.at(2)); },
                [](Ints const &c) { return std::string("output_to_*string_locale -> extract_from_string_locale<") + int_names[c.at(0) % 6] + ">(bits " + std::to_string(c.at(1)) + ") in the locale '" + loc_defs[static_cast<std::size_t>(c.at(2)) % n_locs].name + "'"; }};

// The program-wide (global) C++ locale set to a digit-grouping locale for the duration of the case:
// what output_to_std_string writes, extract_from_string reads back (same process, same locale state).
// NOT demanded: that insert_extract_locale() still is the C locale then. Its documentation says "This
// locale is the C locale" while the implementation returns a copy of the global locale, so after
// std::locale::global(grouping) output_to_std_string(1000) is "1,000" and "300,100" is accepted - a
// mismatch between documentation and implementation, but the round trip C15 states still holds, so
// it is recorded as an observation in DESIGN.md 9.4 and not as a violation.
void global_case(Ints const &c)
{
  std::size_t const li = 1 + static_cast<std::size_t>(static_cast<u64>(c.at(0)) % (n_locs - 1));
  int const v = static_cast<int>(c.at(1));
  count(true);
  std::locale const old = std::locale::global(loc_of(li));
  std::string const s = fcppt::output_to_std_string(v);
  auto const back = fcppt::extract_from_string<int>(s);
  std::wstring const ws = fcppt::output_to_std_wstring(v);
  auto const wback = fcppt::extract_from_string<int>(ws);
  std::locale::global(old);
  std::string const when = std::string("after std::locale::global(") + loc_defs[li].name + ") ";
  if (!back.has_value() || back.get_unsafe() != v) fail("extract_from_string|round-trip|global-locale-changed", when + "extract_from_string<int>(output_to_std_string(" + std::to_string(v) + ") = '" + s + "') did not give the value back");
  if (!wback.has_value() || wback.get_unsafe() != v) fail("extract_from_string|round-trip|global-locale-changed|wide", when + "extract_from_string<int>(output_to_std_wstring(" + std::to_string(v) + ")) did not give the value back");
}
Reg const r_global{"round_trip_under_global_locale", Kind::exhaustive, "every case (the global C++ locale is set to a digit-grouping locale for the duration of the case)",
                   [] {
                     for (i64 l = 0; l < 4; ++l)
                       for (i64 v : {0LL, 7LL, 999LL, 1000LL, 300100LL, -1234567LL, 2147483647LL, -2147483648LL}) { cur2(l, v); global_case({l, v}); }
                   },
                   global_case,
                   [](Ints const &c) { return "output_to_std_string / extract_from_string<int> of " + std::to_string(c.at(1)) + " while the global locale is '" + loc_defs[1 + static_cast<std::size_t>(static_cast<u64>(c.at(0)) % (n_locs - 1))].name + "'"; }};
}

// ==================================================================== part 2
#include <fcppt/array/object.hpp>
#include <fcppt/array/output.hpp>
#include <fcppt/assert/unreachable.hpp>
#include <fcppt/container/bitfield/object.hpp>
#include <fcppt/container/bitfield/output.hpp>
#include <fcppt/container/grid/object.hpp>
#include <fcppt/container/grid/output.hpp>
#include <fcppt/container/tree/object.hpp>
#include <fcppt/container/tree/output.hpp>
#include <fcppt/either/object.hpp>
#include <fcppt/either/output.hpp>
#include <fcppt/enum/array.hpp>
#include <fcppt/enum/array_output.hpp>
#include <fcppt/enum/index_of_array.hpp>
#include <fcppt/enum/make_range.hpp>
#include <fcppt/enum/names.hpp>
#include <fcppt/enum/names_array.hpp>
#include <fcppt/enum/to_static.hpp>
#include <fcppt/enum/to_string.hpp>
#include <fcppt/enum/to_string_case.hpp>
#include <fcppt/enum/to_string_impl_fwd.hpp>
#include <fcppt/math/box/object.hpp>
#include <fcppt/math/box/output.hpp>
#include <fcppt/math/dim/output.hpp>
#include <fcppt/math/matrix/output.hpp>
#include <fcppt/math/matrix/row.hpp>
#include <fcppt/math/matrix/static.hpp>
#include <fcppt/math/sphere/object.hpp>
#include <fcppt/math/sphere/output.hpp>
#include <fcppt/math/vector/output.hpp>
#include <fcppt/optional/output.hpp>
#include <fcppt/parse/float.hpp>
#include <fcppt/parse/int.hpp>
#include <fcppt/parse/parse_string.hpp>
#include <fcppt/parse/uint.hpp>
#include <fcppt/time/gmtime.hpp>
#include <fcppt/time/output_tm.hpp>
#include <fcppt/tuple/object.hpp>
#include <fcppt/tuple/output.hpp>
#include <fcppt/variant/object.hpp>
#include <fcppt/variant/output.hpp>

#include <ctime>

namespace
{
enum class color3 { red, green, blue, fcppt_maximum = blue };
enum class longer7 : std::uint8_t { a, ab, abc, b, ba, c, x_1, fcppt_maximum = x_1 };
}
namespace fcppt::enum_
{
template <>
struct to_string_impl<color3>
{
  static std::string_view get(color3 const v)
  {
    switch (v)
    {
      FCPPT_ENUM_TO_STRING_CASE(color3, red);
      FCPPT_ENUM_TO_STRING_CASE(color3, green);
      FCPPT_ENUM_TO_STRING_CASE(color3, blue);
    }
    FCPPT_ASSERT_UNREACHABLE;
  }
};
template <>
struct to_string_impl<longer7>
{
  static std::string_view get(longer7 const v)
  {
    switch (v)
    {
      FCPPT_ENUM_TO_STRING_CASE(longer7, a);
      FCPPT_ENUM_TO_STRING_CASE(longer7, ab);
      FCPPT_ENUM_TO_STRING_CASE(longer7, abc);
      FCPPT_ENUM_TO_STRING_CASE(longer7, b);
      FCPPT_ENUM_TO_STRING_CASE(longer7, ba);
      FCPPT_ENUM_TO_STRING_CASE(longer7, c);
      FCPPT_ENUM_TO_STRING_CASE(longer7, x_1);
    }
    FCPPT_ASSERT_UNREACHABLE;
  }
};
}

namespace
{
// ==================================================================== string conversions with a locale
std::string enc(char32_t c)
{
  std::string r;
  if (c < 0x80) r.push_back(static_cast<char>(c));
  else if (c < 0x800) { r.push_back(static_cast<char>(0xC0 | (c >> 6))); r.push_back(static_cast<char>(0x80 | (c & 0x3F))); }
  else if (c < 0x10000) { r.push_back(static_cast<char>(0xE0 | (c >> 12))); r.push_back(static_cast<char>(0x80 | ((c >> 6) & 0x3F))); r.push_back(static_cast<char>(0x80 | (c & 0x3F))); }
  else { r.push_back(static_cast<char>(0xF0 | (c >> 18))); r.push_back(static_cast<char>(0x80 | ((c >> 12) & 0x3F))); r.push_back(static_cast<char>(0x80 | ((c >> 6) & 0x3F))); r.push_back(static_cast<char>(0x80 | (c & 0x3F))); }
  return r;
}
std::locale const &utf8()
{
  static std::locale const l("C.utf8");
  return l;
}
char32_t const cp_set[] = {0x41, 0x7F, 0x80, 0xE4, 0x7FF, 0x800, 0x20AC, 0xD7FF, 0xE000, 0xFFFF, 0x10000, 0x1F600, 0x10FFFF, 0x1, 0x20, 0x30};
// mode 0: scalars (no NUL), mode 1: ASCII with an occasional NUL, mode 2: arbitrary bytes / ill-formed wide
struct conv_in
{
  int mode;
  std::wstring w; // the wide form
  std::string s; // the narrow form (UTF-8 of w in modes 0/1, raw bytes in mode 2)
};
conv_in conv_decode(Ints const &c)
{
  Choices ch(c);
  conv_in r;
  r.mode = static_cast<int>(ch.range(0, 5));
  r.mode = r.mode >= 3 ? 0 : r.mode;
  ch.skip_to_frame();
  std::size_t const n = c.size() / 4 > 0 ? c.size() / 4 - 1 : 0;
  for (std::size_t i = 0; i < n && i < 40; ++i)
  {
    u64 const k = ch.raw() % 6, x = ch.raw();
    ch.skip_to_frame();
    if (r.mode == 2)
    {
      // no NUL byte here: a NUL inside a multi-byte sequence has its own exhaustive section below
      static unsigned char const bad[] = {0x41, 0x80, 0xBF, 0xC0, 0xC3, 0xA4, 0xE2, 0x82, 0xAC, 0xED, 0xA0, 0xF0, 0x9F, 0xF4, 0x90, 0xFF};
      static std::uint32_t const badw[] = {0x41, 0xE4, 0xD800, 0xDFFF, 0x110000, 0x7FFFFFFF, 0x20AC, 0x1F600, 0x80000000U, 0xFFFE};
      r.s.push_back(static_cast<char>(k < 4 ? bad[x % sizeof bad] : static_cast<unsigned char>(1 + x % 255)));
      r.w.push_back(static_cast<wchar_t>(badw[(x >> 8) % 10]));
      continue;
    }
    char32_t cp;
    if (r.mode == 1) cp = static_cast<char32_t>(x % 16 == 0 ? 0 : 1 + x % 0x7F);
    else
      switch (k)
      {
      case 0: cp = static_cast<char32_t>(1 + x % 0x7F); break;
      case 1: cp = static_cast<char32_t>(0x80 + x % (0x800 - 0x80)); break;
      case 2: cp = static_cast<char32_t>(0x800 + x % (0x10000 - 0x800)); break;
      case 3: cp = static_cast<char32_t>(0x10000 + x % (0x110000 - 0x10000)); break;
      case 4: cp = cp_set[x % 16]; break;
      default: cp = static_cast<char32_t>('a' + x % 26); break;
      }
    if (cp >= 0xD800 && cp <= 0xDFFF) cp = 0xE000;
    r.w.push_back(static_cast<wchar_t>(cp));
    r.s += enc(cp);
  }
  return r;
}
void conv_case(Ints const &c)
{
  conv_in const in = conv_decode(c);
  std::string const &s = in.s;
  std::wstring const &w = in.w;
  bool const multi = in.mode == 0 && s.size() > w.size();
  count(multi || in.mode != 0);
  cls(in.mode == 0 ? (multi ? "scalars-multibyte" : "scalars-ascii") : in.mode == 1 ? "ascii-with-nul" : "ill-formed");
  // Reading: with fcppt::char_type == char (this build) fcppt::string and std::string are the same
  // type in the same encoding, the only lossless conversion is the identity - for every byte string
  // and every locale.
  for (std::locale const *l : {&std::locale::classic(), &utf8()})
  {
    fcppt::optional_std_string const a = fcppt::to_std_string_locale(fcppt::string_view{s}, *l);
    if (!a.has_value()) fail("to_std_string_locale|nothing", "to_std_string_locale([" + hex(s) + "]) returned nothing");
    else if (a.get_unsafe() != s) fail("to_std_string_locale|altered", "to_std_string_locale([" + hex(s) + "]) = [" + hex(a.get_unsafe()) + "]");
    fcppt::string const b = fcppt::from_std_string_locale(std::string_view{s}, *l);
    if (b != s) fail("from_std_string_locale|altered", "from_std_string_locale([" + hex(s) + "]) = [" + hex(b) + "]");
  }
  if (in.mode != 2)
  {
    // valid characters (mode 1: including U+0000, which is one byte in UTF-8)
    std::string const tag = multi ? "|multi-byte" : "|ascii";
    try
    {
      std::wstring const a = fcppt::to_std_wstring_locale(fcppt::string_view{s}, utf8());
      if (a != w) fail("to_std_wstring_locale|valid-input" + tag, "to_std_wstring_locale([" + hex(s) + "]) = " + whex(a) + ", expected " + whex(w));
    }
    catch (std::runtime_error const &e)
    {
      fail("to_std_wstring_locale|valid-input-rejected" + tag, "to_std_wstring_locale of valid UTF-8 [" + hex(s) + "] threw: " + e.what());
    }
    fcppt::optional_string const b = fcppt::from_std_wstring_locale(std::wstring_view{w}, utf8());
    if (!b.has_value()) fail("from_std_wstring_locale|valid-input" + tag, "from_std_wstring_locale(" + whex(w) + ") failed");
    else if (b.get_unsafe() != s) fail("from_std_wstring_locale|valid-input" + tag, "from_std_wstring_locale(" + whex(w) + ") = [" + hex(b.get_unsafe()) + "], expected [" + hex(s) + "]");
  }
  else
  {
    // ill-formed input: complete result or failure, decided by the inverse direction
    try
    {
      std::wstring const a = fcppt::to_std_wstring_locale(fcppt::string_view{s}, utf8());
      fcppt::optional_string const back = fcppt::from_std_wstring_locale(std::wstring_view{a}, utf8());
      if (!back.has_value() || back.get_unsafe() != s) fail("to_std_wstring_locale|ill-formed-input|incomplete-result", "to_std_wstring_locale([" + hex(s) + "]) returned " + whex(a) + ", which does not map back to the input");
    }
    catch (std::runtime_error const &)
    {
    }
    fcppt::optional_string const b = fcppt::from_std_wstring_locale(std::wstring_view{w}, utf8());
    if (b.has_value())
    {
      try
      {
        if (fcppt::to_std_wstring_locale(fcppt::string_view{b.get_unsafe()}, utf8()) != w) fail("from_std_wstring_locale|ill-formed-input|incomplete-result", "from_std_wstring_locale(" + whex(w) + ") returned [" + hex(b.get_unsafe()) + "], which does not map back to the input");
      }
      catch (std::runtime_error const &)
      {
        fail("from_std_wstring_locale|ill-formed-input|unreadable-result", "from_std_wstring_locale(" + whex(w) + ") returned bytes that to_std_wstring_locale rejects");
      }
    }
  }
  // io::narrow_string_locale: "returns d_1..d_n iff d_i = ctype<Ch>::narrow(c_i, 0) != 0 for all i"
  for (std::locale const *l : {&std::locale::classic(), &utf8()})
  {
    {
      auto const &facet = std::use_facet<std::ctype<wchar_t>>(*l);
      std::string want;
      bool ok = true;
      for (wchar_t const x : w)
      {
        char const d = facet.narrow(x, '\0');
        ok = ok && d != '\0';
        want.push_back(d);
      }
      fcppt::optional::object<std::string> const r = fcppt::io::narrow_string_locale(std::wstring_view{w}, *l);
      std::wistringstream ios;
      ios.imbue(*l);
      fcppt::optional::object<std::string> const r2 = fcppt::io::narrow_string(ios, std::wstring_view{w});
      if (ok ? (!r.has_value() || r.get_unsafe() != want) : r.has_value()) fail(std::string("io::narrow_string_locale|wchar_t|") + (ok ? "narrowable-string" : "unnarrowable-character"), "narrow_string_locale(" + whex(w) + ") " + (r.has_value() ? "= [" + hex(r.get_unsafe()) + "]" : "returned nothing") + (ok ? ", expected [" + hex(want) + "]" : ", expected nothing"));
      if (ok ? (!r2.has_value() || r2.get_unsafe() != want) : r2.has_value()) fail("io::narrow_string|wchar_t|stream-locale", "narrow_string(stream, " + whex(w) + ") does not follow the stream's locale");
    }
    {
      bool const ok = s.find('\0') == std::string::npos;
      fcppt::optional::object<std::string> const r = fcppt::io::narrow_string_locale(std::string_view{s}, *l);
      std::istringstream ios;
      ios.imbue(*l);
      fcppt::optional::object<std::string> const r2 = fcppt::io::narrow_string(ios, std::string_view{s});
      if (ok ? (!r.has_value() || r.get_unsafe() != s) : r.has_value()) fail(std::string("io::narrow_string_locale|char|") + (ok ? "no-NUL" : "NUL"), "narrow_string_locale([" + hex(s) + "]) " + (r.has_value() ? "= [" + hex(r.get_unsafe()) + "]" : "returned nothing"));
      if (ok ? (!r2.has_value() || r2.get_unsafe() != s) : r2.has_value()) fail("io::narrow_string|char|stream-locale", "narrow_string(stream, [" + hex(s) + "]) wrong");
    }
  }
  // io::widen_string: "outputs each character by widening"
  {
    std::ostringstream os;
    os << fcppt::io::widen_string(s);
    if (!os.good() || os.str() != s) fail("io::widen_string|char-stream", "widen_string([" + hex(s) + "]) on a char stream wrote [" + hex(os.str()) + "]");
    if (in.mode == 1)
    {
      // ASCII text on a wide stream, and back through narrow_string
      std::wostringstream wos;
      wos << fcppt::io::widen_string(s);
      if (!wos.good() || wos.str() != w) fail("io::widen_string|wide-stream", "widen_string([" + hex(s) + "]) on a wide stream wrote " + whex(wos.str()));
      fcppt::optional::object<std::string> const back = fcppt::io::narrow_string(wos, std::wstring_view{w});
      bool const ok = s.find('\0') == std::string::npos;
      if (ok ? (!back.has_value() || back.get_unsafe() != s) : back.has_value()) fail("io::narrow_string|widen_string-round-trip", "narrow_string(widen_string([" + hex(s) + "])) did not give the string back");
    }
  }
}
// "string_conv_locale ... returns std::locale("")": the locale the environment names NOW. Case 0:
// as the process was started. Case 1/2: the environment is changed between two calls (LC_ALL=C, a
// conversion, then LC_ALL=C.UTF-8 resp. the other way round): the second call reflects the second
// environment, and a non-ASCII string converts (or fails) accordingly. The environment is restored.
void conv_env_case(i64 which_)
{
  int const which = static_cast<int>(((which_ % 3) + 3) % 3);
  count(which != 0);
  char const *const old = std::getenv("LC_ALL");
  std::string const saved = old ? old : "";
  auto const check_now = [&](char const *when) {
    if (!(fcppt::string_conv_locale() == std::locale(""))) fail("string_conv_locale|not-the-environment-locale", std::string("string_conv_locale() != std::locale(\"\") ") + when);
  };
  if (which == 0) check_now("in the environment the process was started with");
  else
  {
    char const *const first = which == 1 ? "C" : "C.UTF-8", *const second = which == 1 ? "C.UTF-8" : "C";
    ::setenv("LC_ALL", first, 1);
    check_now("after LC_ALL was set the first time");
    (void)fcppt::to_std_wstring_locale(fcppt::string_view{"abc"}, fcppt::string_conv_locale());
    ::setenv("LC_ALL", second, 1);
    check_now("after LC_ALL was changed between two calls");
    // the conversion that goes through it: "\xc3\xa4" is one character in the UTF-8 locale only
    std::string const umlaut("\xc3\xa4");
    bool converted = false;
    try { converted = fcppt::to_std_wstring_locale(fcppt::string_view{umlaut}, fcppt::string_conv_locale()) == std::wstring(1, static_cast<wchar_t>(0xE4)); } catch (std::runtime_error const &) {}
    bool const utf8_now = which == 1;
    if (converted != utf8_now) fail("string_conv_locale|conversion-uses-a-stale-locale", std::string("after LC_ALL changed from ") + first + " to " + second + " a UTF-8 encoded umlaut " + (converted ? "converts" : "does not convert") + " through string_conv_locale()");
  }
  if (old) ::setenv("LC_ALL", saved.c_str(), 1);
  else ::unsetenv("LC_ALL");
}
Reg const r_conv_env{"string_conv_locale_follows_environment", Kind::exhaustive, "the environment is changed between two calls",
                     [] { for (i64 w = 0; w < 3; ++w) { cur1(w); conv_env_case(w); } },
                     [](Ints const &c) { conv_env_case(c.at(0)); },
                     [](Ints const &c) { static char const *const t[] = {"unchanged environment", "LC_ALL=C, then LC_ALL=C.UTF-8", "LC_ALL=C.UTF-8, then LC_ALL=C"}; return std::string("string_conv_locale with ") + t[((c.at(0) % 3) + 3) % 3]; }};

Reg const r_conv{"string_conv_locale_text", Kind::random, "a string with a multi-byte character, a NUL, or ill-formed input",
                 [] {
                   cur1(0);
                   count(false);
                   run_random(*g_cur.sec, {5000, 24}, {50000, 24});
                 },
                 conv_case,
                 [](Ints const &c) {
                   conv_in const in = conv_decode(c);
                   return std::string("string conversions with a locale, mode ") + (in.mode == 0 ? "valid scalars" : in.mode == 1 ? "ASCII incl. NUL" : "ill-formed") + ": wide " + whex(in.w) + " narrow [" + hex(in.s) + "]";
                 }};

// Not checked: a NUL byte between the bytes of one multi-byte character ("\xc3\x00\xa4"). U+0000 is
// outside C15's quantifier (U+0001..U+10FFFF); libstdc++'s codecvt<wchar_t,char>::do_in converts
// NUL-separated chunks and carries the pending shift state across the NUL, so such input comes back
// reordered (U+0000 U+00E4) - a property of the C library, not of fcppt (DESIGN.md 9.4).

// ==================================================================== enum names / arrays / bitfield text
char const *const color_names[] = {"red", "green", "blue"};
char const *const longer_names[] = {"a", "ab", "abc", "b", "ba", "c", "x_1"};
int const small_vals[] = {-1, 0, 7, 12345};
template <typename E, std::size_t N>
void names_check(char const *ename, char const *const (&names)[N])
{
  fcppt::enum_::names_array<E> const arr = fcppt::enum_::names<E>();
  std::size_t idx = 0;
  for (E const e : fcppt::enum_::make_range<E>())
  {
    if (idx >= N) break;
    if (std::string(arr[e]) != names[idx]) fail("enum::names|element", std::string(ename) + ": names()[#" + std::to_string(idx) + "] = '" + std::string(arr[e]) + "', expected '" + names[idx] + "'");
    fcppt::optional::object<E> const back = fcppt::enum_::index_of_array(arr, std::string_view{names[idx]});
    if (!back.has_value() || back.get_unsafe() != e) fail("enum::index_of_array|names-round-trip", std::string(ename) + ": index_of_array(names(), '" + names[idx] + "') is not enumerator #" + std::to_string(idx));
    int const st = fcppt::enum_::to_static(e, []<E V>(std::integral_constant<E, V>) { return static_cast<int>(V); });
    if (st != static_cast<int>(idx)) fail("enum::to_static|value", std::string(ename) + ": to_static(#" + std::to_string(idx) + ") passed constant #" + std::to_string(st));
    ++idx;
  }
  if (idx != N) fail("enum::make_range|count", std::string(ename) + " enumerates a wrong number of values");
  if (fcppt::enum_::index_of_array(arr, std::string_view{"nope"}).has_value() || fcppt::enum_::index_of_array(arr, std::string_view{}).has_value()) fail("enum::index_of_array|absent-found", std::string(ename) + ": a string that is no name was found");
}
void enum_case(Ints const &c)
{
  switch (c.at(0) % 4)
  {
  case 0:
    count(true);
    names_check<color3>("color3", color_names);
    names_check<longer7>("longer7", longer_names);
    break;
  case 1:
  {
    // index_of_array: "the index of the first occurrence as an enum if there is any"
    using arr_t = fcppt::enum_::array<color3, int>;
    int const a = static_cast<int>(c.at(1) % 3), b = static_cast<int>(c.at(2) % 3), d = static_cast<int>(c.at(3) % 3), x = static_cast<int>(c.at(4) % 4);
    count(a == b || b == d || a == d);
    arr_t const arr{a, b, d};
    int const want = a == x ? 0 : b == x ? 1 : d == x ? 2 : -1;
    fcppt::optional::object<color3> const r = fcppt::enum_::index_of_array(arr, x);
    if (want < 0 ? r.has_value() : (!r.has_value() || static_cast<int>(r.get_unsafe()) != want))
      fail("enum::index_of_array|first-occurrence", "index_of_array([" + std::to_string(a) + "," + std::to_string(b) + "," + std::to_string(d) + "], " + std::to_string(x) + ") = " + (r.has_value() ? "#" + std::to_string(static_cast<int>(r.get_unsafe())) : "nothing") + ", expected " + (want < 0 ? "nothing" : "#" + std::to_string(want)));
    break;
  }
  case 2:
  {
    // enum::array output: "[name=value,...]" (format of test/enum/array_output.cpp)
    using arr_t = fcppt::enum_::array<color3, int>;
    int const a = small_vals[c.at(1) % 4], b = small_vals[c.at(2) % 4], d = small_vals[c.at(3) % 4];
    count(true);
    arr_t const arr{a, b, d};
    std::string const want = "[red=" + std::to_string(a) + ",green=" + std::to_string(b) + ",blue=" + std::to_string(d) + "]";
    std::string const s = fcppt::output_to_std_string(arr);
    std::wstring const w = fcppt::output_to_std_wstring(arr);
    if (s != want) fail("enum::array|output|text", "enum array printed as '" + s + "', expected '" + want + "'");
    if (w != wide_ascii(want)) fail("enum::array|output|wide-text", "enum array printed wrongly on a wide stream, expected '" + want + "'");
    break;
  }
  default:
  {
    // bitfield output: "{name,name}" in enumerator order (format of test/container/bitfield/output.cpp)
    using bf = fcppt::container::bitfield::object<longer7>;
    unsigned const bits = static_cast<unsigned>(c.at(1)) % 128U;
    count(bits != 0);
    bf b = bf::null();
    std::string want = "{";
    bool first = true;
    for (unsigned i = 0; i < 7; ++i)
      if (bits & (1U << i))
      {
        b.set(static_cast<longer7>(i), true);
        want += (first ? "" : ",") + std::string(longer_names[i]);
        first = false;
      }
    want += "}";
    std::string const s = fcppt::output_to_std_string(b);
    std::wstring const w = fcppt::output_to_std_wstring(b);
    if (s != want) fail("bitfield|output|text", "bitfield with bits " + std::to_string(bits) + " printed as '" + s + "', expected '" + want + "'");
    if (w != wide_ascii(want)) fail("bitfield|output|wide-text", "bitfield with bits " + std::to_string(bits) + " printed wrongly on a wide stream");
    break;
  }
  }
}
Reg const r_enum2{"enum_names_arrays_text", Kind::exhaustive, "an array with a repeated value (first occurrence matters), any printed enum array, a non-empty bitfield, the names tables",
                  [] {
                    auto go = [](Ints c) { cur_vec(c); enum_case(c); };
                    go({0, 0, 0, 0, 0});
                    for (i64 a = 0; a < 3; ++a)
                      for (i64 b = 0; b < 3; ++b)
                        for (i64 d = 0; d < 3; ++d)
                          for (i64 x = 0; x < 4; ++x) go({1, a, b, d, x});
                    for (i64 a = 0; a < 4; ++a)
                      for (i64 b = 0; b < 4; ++b)
                        for (i64 d = 0; d < 4; ++d) go({2, a, b, d, 0});
                    for (i64 bits = 0; bits < 128; ++bits) go({3, bits, 0, 0, 0});
                  },
                  enum_case,
                  [](Ints const &c) {
                    static char const *const k[] = {"names / index_of_array / to_static of the test enums", "index_of_array on an int array over {0,1,2}", "enum::array<color,int> output", "bitfield output, bits"};
                    std::string r = k[c.at(0) % 4];
                    for (std::size_t i = 1; i < c.size(); ++i) r += " " + std::to_string(c[i]);
                    return r;
                  }};

// ==================================================================== output operators of containers
template <typename V>
std::string print(V const &v, bool &good)
{
  std::ostringstream os;
  os << v;
  good = os.good();
  return os.str();
}
template <typename V>
std::wstring wprint(V const &v)
{
  std::wostringstream os;
  os << v;
  return os.good() ? os.str() : std::wstring(L"<stream failed>");
}
std::string strip_spaces(std::string const &s)
{
  std::string r;
  for (char c : s)
    if (c != ' ') r.push_back(c);
  return r;
}
// per injectivity domain: text -> the case that produced it
std::map<std::string, Ints> g_seen[16];
bool g_track = false; // compare the text of the current case with the texts of the other cases
bool g_collect = false; // only record texts (used by the replay entry to rebuild the domain), no verdicts
void cnt(bool nontrivial) { if (!g_collect) count(nontrivial); }
// checks common to all kinds: printing twice gives the same text, the wide text is the widened narrow
// text, the stream stays good; `want` (if not null) is the documented format; within one injectivity
// domain (slot; < 0: none) two different values never share a text
template <bool Wide = true, typename V>
void out_check(char const *kind, int slot, Ints const &id, V const &v, std::string const *want, bool const ignore_spaces = false)
{
  bool g1 = false, g2 = false;
  std::string const a = print(v, g1);
  if (g_collect) { if (slot >= 0) g_seen[slot].emplace(a, id); return; }
  std::string const b = print(v, g2);
  std::string const k = kind;
  if (!g1 || !g2) { fail(k + "|output|stream-not-good", k + ": the stream is not good after output"); return; }
  if (a != b) { fail(k + "|output|not-a-function-of-the-value", k + ": printing the same value twice gave " + vis(a) + " and " + vis(b)); return; }
  if constexpr (Wide)
    if (wprint(v) != wide_ascii(a)) fail(k + "|output|wide-differs", k + ": the wide text differs from the narrow text " + vis(a));
  if (want && (ignore_spaces ? strip_spaces(a) : a) != *want) fail(k + "|output|format", k + " printed as " + vis(a) + ", expected " + vis(*want));
  if (g_track && slot >= 0)
  {
    auto const ins = g_seen[slot].emplace(a, id);
    if (!ins.second && ins.first->second != id)
    {
      std::string other;
      for (i64 x : ins.first->second) other += " " + std::to_string(x);
      fail(k + "|output|two-values-one-text", k + ": this value and the different value of case [" + other + " ] both print as " + vis(a));
    }
  }
}
std::string vec_text(std::initializer_list<int> l, char open = '(', char close = ')')
{
  std::string r(1, open);
  bool first = true;
  for (int x : l) { r += (first ? "" : ",") + std::to_string(x); first = false; }
  return r + close;
}
int sv(Ints const &c, std::size_t i) { return small_vals[static_cast<std::size_t>(static_cast<u64>(c.at(i)) % 4)]; }
void tree_build(Ints const &c, std::size_t n, fcppt::container::tree::object<int> &root, std::vector<std::vector<std::size_t>> &children, std::vector<int> &label)
{
  using tree = fcppt::container::tree::object<int>;
  std::vector<tree *> nodes{&root};
  children.assign(n, {});
  label.assign(n, 0);
  label[0] = root.value();
  for (std::size_t i = 1; i < n; ++i)
  {
    std::size_t const p = static_cast<std::size_t>(static_cast<u64>(c.at(1 + i)) % i);
    label[i] = static_cast<int>(i) * 7 - 3;
    fcppt::reference<tree> const r = nodes[p]->push_back(label[i]);
    nodes.push_back(&r.get());
    children[p].push_back(i);
  }
}
void tree_ref(std::size_t node, unsigned depth, std::vector<std::vector<std::size_t>> const &children, std::vector<int> const &label, std::string &out)
{
  out += std::string(depth, '\t') + std::to_string(label[node]) + "\n";
  for (std::size_t ch : children[node]) tree_ref(ch, depth + 1, children, label, out);
}
template <fcppt::container::grid::size_type N>
std::string grid_ref(std::array<unsigned, N> const &size, std::array<unsigned, N> pos, unsigned level)
{
  // level L: '(' elements of level L-1 for every coordinate of dimension L-1 ')', level 0: the element
  if (level == 0)
  {
    int v = 0, mul = 1;
    for (unsigned i = 0; i < N; ++i) { v += static_cast<int>(pos[i]) * mul; mul *= 10; }
    return std::to_string(v - 5);
  }
  std::string r = "(";
  for (unsigned i = 0; i < size[level - 1]; ++i)
  {
    pos[level - 1] = i;
    r += (i ? "," : "") + grid_ref<N>(size, pos, level - 1);
  }
  return r + ")";
}
enum out_kind : i64 { k_array, k_tuple, k_optional, k_variant, k_either, k_matrix23, k_matrix22, k_box, k_sphere, k_grid2, k_grid13, k_tree, k_count };
char const *const out_names[] = {"array::object<int,1..3>", "tuple::object", "optional::object<int>", "variant::object<int,std::string>", "either::object<std::string,int>", "math::matrix<int,2,3>", "math::matrix<int,2,2>", "math::box<int,2>", "math::sphere<int,2>", "grid<int,2>", "grid<int,1|3>", "tree<int>"};
int g_orientation[2] = {0, 0}; // matrices: 0 unknown, 1 rows, 2 columns
void out_case(Ints const &c)
{
  namespace fm = fcppt::math;
  switch (c.at(0) % k_count)
  {
  case k_array:
  {
    // "[a,b,c]" (format of test/array/output.cpp)
    cnt(c.at(1) % 3 >= 1);
    if (c.at(1) % 3 == 0) { std::string const w = vec_text({sv(c, 2)}, '[', ']'); out_check<false>("array", 0, c, fcppt::array::object<int, 1>{sv(c, 2)}, &w); }
    else if (c.at(1) % 3 == 1) { std::string const w = vec_text({sv(c, 2), sv(c, 3)}, '[', ']'); out_check("array", 0, c, fcppt::array::object<int, 2>{sv(c, 2), sv(c, 3)}, &w); }
    else { std::string const w = vec_text({sv(c, 2), sv(c, 3), sv(c, 4)}, '[', ']'); out_check<false>("array", 0, c, fcppt::array::object<int, 3>{sv(c, 2), sv(c, 3), sv(c, 4)}, &w); }
    break;
  }
  case k_tuple:
  {
    // "(a,b)" (format of test/tuple/output.cpp)
    cnt(c.at(1) % 3 >= 1);
    if (c.at(1) % 3 == 0) { std::string const w = vec_text({sv(c, 2)}); out_check<false>("tuple", 1, c, fcppt::tuple::object<int>{sv(c, 2)}, &w); }
    else if (c.at(1) % 3 == 1) { std::string const w = "(" + std::to_string(sv(c, 2)) + "," + std::to_string(static_cast<long>(sv(c, 3)) * 100000L) + ")"; out_check("tuple", 1, c, fcppt::tuple::object<int, long>{sv(c, 2), static_cast<long>(sv(c, 3)) * 100000L}, &w); }
    else { std::string const w = "(" + std::to_string(sv(c, 2)) + "," + std::string(sv(c, 3) < 0 ? "neg" : std::to_string(sv(c, 3)) + "s") + "," + std::to_string(static_cast<unsigned>(sv(c, 4))) + ")"; out_check<false>("tuple", 1, c, fcppt::tuple::object<int, std::string, unsigned>{sv(c, 2), std::string(sv(c, 3) < 0 ? "neg" : std::to_string(sv(c, 3)) + "s"), static_cast<unsigned>(sv(c, 4))}, &w); }
    break;
  }
  case k_optional:
  {
    // no format is documented: function of the value, injective, stream good
    cnt(c.at(1) % 2 == 1);
    if (c.at(1) % 2 == 0) out_check("optional", 2, c, fcppt::optional::object<int>{}, nullptr);
    else out_check("optional", 2, c, fcppt::optional::object<int>{sv(c, 2)}, nullptr);
    break;
  }
  case k_variant:
  {
    // "Outputs the value held by the variant": the text of the held value.
    // Reading: different alternatives may print alike (int 7, string "7"): injectivity per alternative.
    using var = fcppt::variant::object<int, std::string>;
    cnt(true);
    if (c.at(1) % 2 == 0) { std::string const w = std::to_string(sv(c, 2)); out_check<false>("variant", 3, c, var{sv(c, 2)}, &w); }
    else { std::string const w = "s" + std::to_string(sv(c, 2)) + " x"; out_check<false>("variant", 4, c, var{w}, &w); }
    break;
  }
  case k_either:
  {
    // no format documented; the implementation prints the held value only, so a failure and a success
    // may print alike. Reading: function of the value, injective within each side.
    using eit = fcppt::either::object<std::string, int>;
    cnt(true);
    if (c.at(1) % 2 == 0) out_check<false>("either", 5, c, eit{sv(c, 2)}, nullptr);
    else out_check<false>("either", 6, c, eit{"f" + std::to_string(sv(c, 2))}, nullptr);
    break;
  }
  case k_matrix23:
  case k_matrix22:
  {
    // "((a,b,c,...),(d,e,f,...),...)": Reading: the documentation shows the elements in reading order
    // but also says "the same as if you output the column vectors"; either orientation is accepted,
    // but it has to be the same one for every matrix of a type (checked while enumerating).
    bool const m23 = c.at(0) % k_count == k_matrix23;
    int e[6];
    for (std::size_t i = 0; i < 6; ++i) e[i] = small_vals[static_cast<std::size_t>(static_cast<u64>(c.at(1 + i)) % 3)];
    std::string rows, cols, got;
    bool good = false;
    if (m23)
    {
      fm::matrix::static_<int, 2, 3> const m(fm::matrix::row(e[0], e[1], e[2]), fm::matrix::row(e[3], e[4], e[5]));
      rows = "(" + vec_text({e[0], e[1], e[2]}) + "," + vec_text({e[3], e[4], e[5]}) + ")";
      cols = "(" + vec_text({e[0], e[3]}) + "," + vec_text({e[1], e[4]}) + "," + vec_text({e[2], e[5]}) + ")";
      out_check("matrix", 7, c, m, nullptr);
      got = print(m, good);
    }
    else
    {
      fm::matrix::static_<int, 2, 2> const m(fm::matrix::row(e[0], e[1]), fm::matrix::row(e[2], e[3]));
      rows = "(" + vec_text({e[0], e[1]}) + "," + vec_text({e[2], e[3]}) + ")";
      cols = "(" + vec_text({e[0], e[2]}) + "," + vec_text({e[1], e[3]}) + ")";
      out_check<false>("matrix", 8, c, m, nullptr);
      got = print(m, good);
    }
    cnt(rows != cols);
    if (g_collect) break;
    if (got != rows && got != cols) fail("matrix|output|format", std::string(out_names[c.at(0) % k_count]) + " printed as " + vis(got) + ", expected " + vis(rows) + " (or column-wise " + vis(cols) + ")");
    else if (g_track && rows != cols)
    {
      int &o = g_orientation[m23 ? 0 : 1];
      int const now = got == rows ? 1 : 2;
      if (o != 0 && o != now) fail("matrix|output|orientation-changes", std::string(out_names[c.at(0) % k_count]) + " printed " + (now == 1 ? "row-wise" : "column-wise") + " here but the other way round for an earlier matrix: " + vis(got));
      o = now;
    }
    break;
  }
  case k_box:
  {
    // "(position,size)" with the vector / dim format "(x,y)"
    cnt(true);
    using box = fm::box::object<int, 2>;
    box const b(box::vector(sv(c, 1), sv(c, 2)), box::dim(sv(c, 3), sv(c, 4)));
    std::string const w = "(" + vec_text({sv(c, 1), sv(c, 2)}) + "," + vec_text({sv(c, 3), sv(c, 4)}) + ")";
    out_check("box", 9, c, b, &w);
    break;
  }
  case k_sphere:
  {
    // no format documented
    cnt(true);
    using sph = fm::sphere::object<int, 2>;
    out_check<false>("sphere", 10, c, sph(sph::point_type(sv(c, 1), sv(c, 2)), sv(c, 3)), nullptr);
    break;
  }
  case k_grid2:
  {
    // "Every level of the grid will be wrapped in parenthesis": ((x0y0,x1y0,...),(x0y1,...),...);
    // blanks are not significant (the documentation writes "(x_0, y_0), (x_1, y_0)")
    using grid = fcppt::container::grid::object<int, 2>;
    unsigned const w = static_cast<unsigned>(c.at(1) % 4), h = static_cast<unsigned>(c.at(2) % 4);
    cnt(w >= 2 && h >= 2);
    grid const g(grid::dim(w, h), [](grid::pos const &p) { return static_cast<int>(p.x()) + 10 * static_cast<int>(p.y()) - 5; });
    std::string const want = grid_ref<2>({w, h}, {0, 0}, 2);
    out_check("grid", h == 0 ? -1 : 11, c, g, &want, true); // all grids without rows print as "()"
    break;
  }
  case k_grid13:
  {
    if (c.at(1) % 2 == 0)
    {
      using grid = fcppt::container::grid::object<int, 1>;
      unsigned const w = static_cast<unsigned>(c.at(2) % 5);
      cnt(w >= 2);
      grid const g(grid::dim(w), [](grid::pos const &p) { return static_cast<int>(p.x()) - 5; });
      std::string const want = grid_ref<1>({w}, {0}, 1);
      out_check<false>("grid", 12, c, g, &want, true);
    }
    else
    {
      using grid = fcppt::container::grid::object<int, 3>;
      unsigned const w = static_cast<unsigned>(c.at(2) % 3), h = static_cast<unsigned>(c.at(3) % 3), d = static_cast<unsigned>(c.at(4) % 3);
      cnt(w * h * d >= 4);
      grid const g(grid::dim(w, h, d), [](grid::pos const &p) { return static_cast<int>(p.x()) + 10 * static_cast<int>(p.y()) + 100 * static_cast<int>(p.z()) - 5; });
      std::string const want = grid_ref<3>({w, h, d}, {0, 0, 0}, 3);
      out_check<false>("grid", d == 0 || h == 0 ? -1 : 13, c, g, &want, true);
    }
    break;
  }
  default:
  {
    // one line per node: depth tab characters, the value, a newline; children after their parent in
    // order (format of test/container/tree/output.cpp)
    using tree = fcppt::container::tree::object<int>;
    std::size_t const n = 1 + static_cast<std::size_t>(static_cast<u64>(c.at(1)) % 5);
    cnt(n >= 3);
    tree root(-3);
    std::vector<std::vector<std::size_t>> children;
    std::vector<int> label;
    tree_build(c, n, root, children, label);
    std::string want;
    tree_ref(0, 0, children, label, want);
    out_check("tree", 14, c, root, &want);
    break;
  }
  }
}
void out_domain(void (*f)(Ints const &))
{
  auto go = [f](Ints c) { while (c.size() < 7) c.push_back(0); f(c); };
  for (i64 n = 0; n < 3; ++n)
    for (i64 a = 0; a < 4; ++a)
      for (i64 b = 0; b < (n >= 1 ? 4 : 1); ++b)
        for (i64 d = 0; d < (n >= 2 ? 4 : 1); ++d) { go({k_array, n, a, b, d}); go({k_tuple, n, a, b, d}); }
  go({k_optional, 0, 0});
  for (i64 a = 0; a < 4; ++a)
  {
    go({k_optional, 1, a});
    for (i64 side = 0; side < 2; ++side) { go({k_variant, side, a}); go({k_either, side, a}); }
  }
  for (i64 x = 0; x < 729; ++x) go({k_matrix23, x % 3, (x / 3) % 3, (x / 9) % 3, (x / 27) % 3, (x / 81) % 3, (x / 243) % 3});
  for (i64 x = 0; x < 81; ++x) go({k_matrix22, x % 3, (x / 3) % 3, (x / 9) % 3, (x / 27) % 3, 0, 0});
  for (i64 x = 0; x < 256; ++x) go({k_box, x % 4, (x / 4) % 4, (x / 16) % 4, (x / 64) % 4});
  for (i64 x = 0; x < 64; ++x) go({k_sphere, x % 4, (x / 4) % 4, (x / 16) % 4});
  for (i64 w = 0; w < 4; ++w)
    for (i64 h = 0; h < 4; ++h) go({k_grid2, w, h});
  for (i64 w = 0; w < 5; ++w) go({k_grid13, 0, w});
  for (i64 x = 0; x < 27; ++x) go({k_grid13, 1, x % 3, (x / 3) % 3, (x / 9) % 3});
  for (i64 n = 1; n <= 5; ++n)
  {
    i64 total = 1;
    for (i64 i = 1; i < n; ++i) total *= i;
    for (i64 x = 0; x < total; ++x)
    {
      Ints c{k_tree, n - 1}; // then the parent of node 1, 2, ...: parent(i) in [0, i)
      i64 xx = x;
      for (i64 i = 1; i < n; ++i) { c.push_back(xx % i); xx /= i; }
      go(c);
    }
  }
}
void out_reset()
{
  for (auto &m : g_seen) m.clear();
  g_orientation[0] = g_orientation[1] = 0;
}
Reg const r_out{"container_output_text", Kind::exhaustive, "a value with >= 2 elements / a held value / >= 3 tree nodes (exhaustive small domains per container kind)",
                [] {
                  out_reset();
                  g_track = true;
                  out_domain([](Ints const &c) { cur_vec(c); out_case(c); });
                  g_track = false;
                },
                [](Ints const &c0) {
                  // replay: rebuild the texts of the whole domain first, so that "two values, one text"
                  // reproduces from the one case
                  Ints c = c0;
                  while (c.size() < 7) c.push_back(0);
                  out_reset();
                  g_collect = true;
                  out_domain([](Ints const &d) { out_case(d); });
                  g_collect = false;
                  g_track = true;
                  out_case(c);
                  g_track = false;
                },
                [](Ints const &c) {
                  std::string r = std::string("operator<< of ") + out_names[c.at(0) % k_count] + ", parameters";
                  for (std::size_t i = 1; i < c.size(); ++i) r += " " + std::to_string(c[i]);
                  return r + " (element values index {-1,0,7,12345})";
                }};

// ==================================================================== parse::int_ / uint / float_ on written numbers
// Before the repair of parse::int_ (it negated the converted digits: "-_value" promotes to int) the
// instantiation int_<std::int16_t> did not compile; the first slot (the sweep over all 16-bit values)
// therefore uses int_<std::int32_t>, so that this harness builds against either version of the tree.
using parse_types = std::tuple<std::int32_t, std::uint16_t, std::int32_t, std::uint32_t, std::int64_t, std::uint64_t>;
char const *const parse_names[] = {"i32", "u16", "i32", "u32", "i64", "u64"};
template <std::size_t I, typename Ch>
void parse_one(i64 raw, i64 variant)
{
  using T = std::tuple_element_t<I, parse_types>;
  using L = std::numeric_limits<T>;
  using parser = std::conditional_t<std::is_signed_v<T>, fcppt::parse::int_<std::conditional_t<std::is_signed_v<T>, T, int>>, fcppt::parse::uint<std::conditional_t<std::is_signed_v<T>, unsigned, T>>>;
  T const v = from_bits<T>(raw);
  std::string const wtag = sizeof(Ch) == 1 ? "|char" : "|wchar_t";
  auto mk = [](std::string const &t) { return std::basic_string<Ch>(t.begin(), t.end()); };
  std::string const digits = fcppt::output_to_std_string(v);
  std::string const pname = std::string(std::is_signed_v<T> ? "parse::int_<" : "parse::uint<") + parse_names[I] + ">";
  count(wide_value(v));
  {
    auto const r = fcppt::parse::parse_string(parser{}, mk(digits));
    // the most negative value of a signed type gets its own key: the digits after the '-' do not fit
    // the type on their own
    bool const is_min = std::is_signed_v<T> && v == L::min();
    std::string const cl = is_min ? "|type-minimum" : "|value";
    if (!r.has_success()) fail("parse::int|written-number-rejected" + cl + (is_min ? "" : wtag), pname + " rejected '" + digits + "' (written by output_to_std_string)");
    else if (r.get_success_unsafe() != v) fail("parse::int|round-trip" + cl + wtag, pname + " parsed '" + digits + "' as " + std::to_string(r.get_success_unsafe()));
  }
  // never silently truncate: trailing garbage, and numbers beyond the range of the type, are failures
  static char const *const junk[] = {"x", " ", ".", "-", ",1"};
  {
    std::string const text = digits + junk[static_cast<std::size_t>(variant) % 5];
    auto const r = fcppt::parse::parse_string(parser{}, mk(text));
    if (r.has_success()) fail("parse::int|trailing-garbage-accepted" + wtag, pname + " accepted '" + text + "' as " + std::to_string(r.get_success_unsafe()));
  }
  {
    bool const below = (variant & 8) != 0 && std::is_signed_v<T>;
    std::string const text = str(below ? static_cast<__int128>(L::min()) - 1 - static_cast<__int128>(static_cast<u64>(raw) % 1000U) : static_cast<__int128>(L::max()) + 1 + static_cast<__int128>(static_cast<u64>(raw) % 1000U));
    auto const r = fcppt::parse::parse_string(parser{}, mk(text));
    if (r.has_success()) fail("parse::int|out-of-range-accepted" + wtag, pname + " accepted '" + text + "' as " + std::to_string(r.get_success_unsafe()));
  }
}
template <std::size_t I>
void parse_dispatch(i64 raw, i64 variant)
{
  // wide input for the 32-bit types only (compile time)
  if constexpr (I == 2 || I == 3)
  {
    if (variant & 16) { parse_one<I, wchar_t>(raw, variant); return; }
  }
  parse_one<I, char>(raw, variant);
}
template <std::size_t... I>
std::array<loc_fn, 6> make_parse(std::index_sequence<I...>) { return {{&parse_dispatch<I>...}}; }
auto const parse_table = make_parse(std::make_index_sequence<6>{});
// floats: n + f/8 with n < 1000 has at most 6 significant digits and a '.', so the default stream
// format writes it exactly and in the "digits.digits" form that parse::float_ documents
void parse_float_one(i64 n, i64 f, i64 neg)
{
  double const v = (static_cast<double>(n % 1000) + static_cast<double>(1 + f % 7) / 8.0) * (neg & 1 ? -1.0 : 1.0);
  count(true);
  std::string const text = fcppt::output_to_std_string(v);
  auto const back = fcppt::extract_from_string<double>(text);
  if (!back.has_value() || back.get_unsafe() != v) { fail("extract_from_string|double-round-trip", "output_to_std_string(" + std::to_string(v) + ") = '" + text + "' does not read back"); return; }
  auto const r = fcppt::parse::parse_string(fcppt::parse::float_<double>{}, std::string(text));
  if (!r.has_success()) fail("parse::float_|written-number-rejected", "parse::float_<double> rejected '" + text + "'");
  else if (r.get_success_unsafe() != v) fail("parse::float_|round-trip", "parse::float_<double> parsed '" + text + "' as " + std::to_string(r.get_success_unsafe()));
}
void parse_case(Ints const &c)
{
  if (c.at(0) % 7 == 6) parse_float_one(c.at(1), c.at(2), c.size() > 3 ? c[3] : 0);
  else parse_table[static_cast<std::size_t>(c.at(0) % 7)](c.at(1), c.at(2));
}
Reg const r_parse{"parse_written_numbers", Kind::random, "integer negative or >= 256; every float case",
                  [] {
                    auto go = [](i64 t, i64 v, i64 var) { cur3(t, v, var); parse_table[static_cast<std::size_t>(t)](v, var); };
                    i64 n = 0;
                    // every 16-bit value (quick: every 3rd, offset by the seed): through int_<int32_t> and uint<uint16_t>
                    i64 const step = opts().thorough() ? 1 : 3;
                    for (i64 v = static_cast<i64>(opts().seed % static_cast<u64>(step)); v < 65536; v += step) { go(0, static_cast<std::int16_t>(v), n % 32); go(1, v, (n / 5) % 32); ++n; }
                    for (auto v : lattice<std::int32_t>()) { go(2, v, n++ % 32); go(2, v, 16 + n % 16); }
                    for (auto v : lattice<std::uint32_t>()) { go(3, v, n++ % 32); go(3, v, 16 + n % 16); }
                    for (auto v : lattice<std::int64_t>()) { go(4, v, n++ % 32); go(4, v, 16 + n % 16); }
                    for (auto v : lattice<std::uint64_t>()) { go(5, static_cast<i64>(v), n++ % 32); go(5, static_cast<i64>(v), 16 + n % 16); }
                    SplitMix r(opts().seed * 43 + static_cast<u64>(opts().shard));
                    u64 const cnt = opts().thorough() ? 150000 : 6000;
                    for (u64 i = 0; i < cnt; ++i)
                    {
                      i64 const t = 2 + static_cast<i64>(r.next() % 4);
                      u64 v = r.next();
                      if ((r.next() & 1U) == 0) v >>= (r.next() % 64);
                      if ((r.next() & 7U) == 0) v = ~v;
                      go(t, static_cast<i64>(v), static_cast<i64>(r.next() % 32));
                    }
                    for (i64 k = 0; k < 1000; k += (opts().thorough() ? 1 : 7))
                      for (i64 f = 0; f < 7; ++f)
                        for (i64 s = 0; s < 2; ++s) { cur4(6, k, f, s); parse_float_one(k, f, s); }
                  },
                  parse_case,
                  [](Ints const &c) {
                    if (c.at(0) % 7 == 6) return "parse::float_ on the text of +-(" + std::to_string(c.at(1) % 1000) + " + " + std::to_string(1 + c.at(2) % 7) + "/8)";
                    return std::string("output_to_std_string -> parse::") + (c.at(0) % 2 ? "uint<" : "int_<") + parse_names[c.at(0) % 7] + "> (bits " + std::to_string(c.at(1)) + ", variant " + std::to_string(c.at(2)) + ")";
                  }};

// ==================================================================== time::gmtime + time::output_tm
// civil calendar from days since 1970-01-01 (proleptic Gregorian), written from the calendar rules
struct civil
{
  i64 year;
  int mon, mday, hour, min, sec, wday, yday;
};
bool leap(i64 y) { return (y % 4 == 0 && y % 100 != 0) || y % 400 == 0; }
civil civil_of(i64 t)
{
  i64 days = t / 86400, rem = t % 86400;
  if (rem < 0) { rem += 86400; --days; }
  civil c{};
  c.hour = static_cast<int>(rem / 3600);
  c.min = static_cast<int>(rem / 60 % 60);
  c.sec = static_cast<int>(rem % 60);
  c.wday = static_cast<int>(((days % 7) + 7 + 4) % 7); // 1970-01-01 was a Thursday
  // whole 400-year cycles (146097 days) first, then year by year
  i64 year = 1970;
  i64 const cycles = days >= 0 ? days / 146097 : -((-days + 146096) / 146097);
  year += cycles * 400;
  days -= cycles * 146097;
  while (days >= (leap(year) ? 366 : 365)) { days -= leap(year) ? 366 : 365; ++year; }
  c.year = year;
  c.yday = static_cast<int>(days);
  static int const ml[] = {31, 28, 31, 30, 31, 30, 31, 31, 30, 31, 30, 31};
  int m = 0;
  while (days >= ml[m] + (m == 1 && leap(year) ? 1 : 0)) { days -= ml[m] + (m == 1 && leap(year) ? 1 : 0); ++m; }
  c.mon = m;
  c.mday = static_cast<int>(days) + 1;
  return c;
}
std::string ctime_text(civil const &c)
{
  // the C locale's "%c": "%a %b %e %H:%M:%S %Y"
  static char const *const wd[] = {"Sun", "Mon", "Tue", "Wed", "Thu", "Fri", "Sat"};
  static char const *const mn[] = {"Jan", "Feb", "Mar", "Apr", "May", "Jun", "Jul", "Aug", "Sep", "Oct", "Nov", "Dec"};
  char b[96];
  std::snprintf(b, sizeof b, "%s %s %2d %02d:%02d:%02d %lld", wd[c.wday], mn[c.mon], c.mday, c.hour, c.min, c.sec, c.year);
  return b;
}
void time_case(Ints const &c)
{
  i64 const t = c.at(0);
  count(t < 0 || t >= 86400);
  civil const want = civil_of(t);
  std::tm tm{};
  try
  {
    tm = fcppt::time::gmtime(static_cast<std::time_t>(t));
  }
  catch (std::runtime_error const &)
  {
    // documented failure; not expected for years that fit an int
    fail("time::gmtime|throws-for-representable-year", "gmtime(" + std::to_string(t) + ") threw");
    return;
  }
  if (tm.tm_year + 1900LL != want.year || tm.tm_mon != want.mon || tm.tm_mday != want.mday || tm.tm_hour != want.hour || tm.tm_min != want.min || tm.tm_sec != want.sec || tm.tm_wday != want.wday || tm.tm_yday != want.yday)
  {
    fail("time::gmtime|fields", "gmtime(" + std::to_string(t) + ") gave " + std::to_string(tm.tm_year + 1900LL) + "-" + std::to_string(tm.tm_mon + 1) + "-" + std::to_string(tm.tm_mday) + " " + std::to_string(tm.tm_hour) + ":" + std::to_string(tm.tm_min) + ":" + std::to_string(tm.tm_sec) + " wday " + std::to_string(tm.tm_wday) + " yday " + std::to_string(tm.tm_yday) + ", expected " + ctime_text(want));
    return;
  }
  // output_tm: "using the std::time_put locale facet, obtained from the locale of stream" with the 'c'
  // conversion; in the classic locale that is "%a %b %e %H:%M:%S %Y". The text determines the time.
  std::ostringstream os;
  os.imbue(std::locale::classic());
  os << "[";
  fcppt::time::output_tm(os, tm);
  os << "]";
  std::string const text = "[" + ctime_text(want) + "]";
  if (!os.good()) fail("time::output_tm|stream-not-good", "stream not good after output_tm");
  else if (os.str() != text) fail("time::output_tm|text", "output_tm(gmtime(" + std::to_string(t) + ")) wrote '" + os.str() + "', expected '" + text + "'");
  std::wostringstream wos;
  wos.imbue(std::locale::classic());
  fcppt::time::output_tm(wos, tm);
  if (wos.str() != wide_ascii(ctime_text(want))) fail("time::output_tm|wide-text", "wide output_tm(gmtime(" + std::to_string(t) + ")) differs from '" + ctime_text(want) + "'");
  // a stream that is not good: nothing is written
  std::ostringstream bad;
  bad.setstate(std::ios_base::failbit);
  fcppt::time::output_tm(bad, tm);
  if (!bad.str().empty()) fail("time::output_tm|writes-to-failed-stream", "output_tm wrote to a failed stream");
}
Reg const r_time{"time_text", Kind::random, "time outside 1970-01-01 (negative, or >= one day)",
                 [] {
                   auto go = [](i64 t) { cur1(t); time_case({t}); };
                   for (i64 d = -3; d <= 3; ++d)
                   {
                     go(d);
                     for (i64 k = 1; k <= 40; ++k) { go((1LL << k) + d); go(-(1LL << k) + d); }
                     // leap days, century rules, ends of months and years
                     for (i64 base : {951782400LL /*2000-02-29*/, 68169600LL /*1972-02-29*/, 4107542400LL /*2100-03-01*/, -2203891200LL /*1900-03-01*/, 1704067200LL /*2024-01-01*/, 253402300800LL /*10000-01-01*/, -62135596800LL /*0001-01-01*/, -62167219200LL /*0000-01-01*/})
                       go(base + d * 86400 + d);
                   }
                   SplitMix r(opts().seed * 47 + static_cast<u64>(opts().shard));
                   u64 const n = opts().thorough() ? 200000 : 20000;
                   for (u64 i = 0; i < n; ++i)
                   {
                     u64 const x = r.next();
                     i64 t = static_cast<i64>(x >> (24 + r.next() % 24));
                     if (r.next() & 1U) t = -t;
                     go(t);
                   }
                 },
                 time_case,
                 [](Ints const &c) { return "time::gmtime + time::output_tm of time_t " + std::to_string(c.at(0)) + " (" + ctime_text(civil_of(c.at(0))) + " UTC)"; }};
}
