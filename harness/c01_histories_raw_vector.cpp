// VERIF: rc lib quick_shards=4
// C01 (operation histories) - the generated histories of c07_raw_vector.cpp are re-run with the model
// comparison switched off: a history fails only through a sanitizer report (heap-use-after-free,
// overflow, ...), an assertion, an escaping exception or a hang. Memory safety of these containers
// under arbitrary histories is part of "every public function ... never exhibits undefined behaviour".
#include "common/verif.hpp"
#include "common/totality_only.hpp"
#include "c07_raw_vector.cpp"
