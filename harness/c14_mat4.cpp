// VERIF: rc quick_shards=2
// C14 - random 4x4 integer matrices (entries in [-9,9]) and the 4x4 translation / scaling builders,
// against the naive array reference AND the algebraic identities; static and view storage per operand.
// int everywhere; long for the 4x4 products whose determinant would not fit an int.
#include "c14_random.hpp"

#include <fcppt/math/matrix/scaling.hpp>
#include <fcppt/math/matrix/transform_direction.hpp>
#include <fcppt/math/matrix/transform_point.hpp>
#include <fcppt/math/matrix/translation.hpp>

using namespace verif;
using namespace c14;

namespace
{
Reg const r_m4{"m4_random", Kind::random, std::string("4x4: ") + sq_rule, [] { run_random(*g_cur.sec, {8000, 10}, {30000, 10}); }, sq_one<4>, sq_describe<4>};

// ---------------------------------------------------------------- translation / scaling builders, transform_point / _direction
struct BuCase
{
  int mode;
  Vec<int, 3> t, u, p;
  Mat<int, 4, 4> m;
};
BuCase decode_bu(Ints const &in)
{
  Choices ch(in);
  BuCase s;
  s.mode = static_cast<int>(ch.raw() % 9);
  Digits d(ch);
  s.t = d.arr<int, 3>();
  s.u = d.arr<int, 3>();
  s.p = d.arr<int, 3>();
  s.m = d.arr<int, 16>();
  return s;
}
Mat<int, 4, 4> r_translation(Vec<int, 3> const &t)
{
  Mat<int, 4, 4> r = r_identity<int, 4>();
  r[3] = t[0];
  r[7] = t[1];
  r[11] = t[2];
  return r;
}
Mat<int, 4, 4> r_scaling(Vec<int, 3> const &t)
{
  Mat<int, 4, 4> r{};
  r[0] = t[0];
  r[5] = t[1];
  r[10] = t[2];
  r[15] = 1;
  return r;
}
void bu_one(Ints const &in)
{
  namespace fm = fcppt::math::matrix;
  BuCase const s = decode_bu(in);
  count(!is_null_or_unit<int, 3>(s.t) || !is_null_or_unit<int, 3>(s.u) || !is_diagonal<int, 4>(s.m));
  int const vm = s.mode % 3, pm = s.mode / 3;
  auto txt = [&] { return "t = " + show_arr(s.t) + ", u = " + show_arr(s.u) + ", p = " + show_arr(s.p) + ", M = " + show_arr(s.m, 4); };
  // translation: from three scalars and from a vector (any storage)
  auto const tr3 = to_arr(fm::translation(s.t[0], s.t[1], s.t[2]));
  auto const trv = with_vec<int, 3>(vm, s.t, [](auto const &v) { return to_arr(fm::translation(v)); });
  if (tr3 != r_translation(s.t) || trv != tr3) fail("matrix::translation|vs-reference|4x4", txt() + ": " + show_arr(tr3, 4) + " / " + show_arr(trv, 4));
  auto const sc3 = to_arr(fm::scaling(s.t[0], s.t[1], s.t[2]));
  auto const scv = with_vec<int, 3>(vm, s.t, [](auto const &v) { return to_arr(fm::scaling(v)); });
  if (sc3 != r_scaling(s.t) || scv != sc3) fail("matrix::scaling|vs-reference|4x4", txt() + ": " + show_arr(sc3, 4) + " / " + show_arr(scv, 4));
  // translation(t) * translation(u) = translation(t + u); scaling(t) * scaling(u) = scaling(t .* u)
  Vec<int, 3> tu{}, txu{};
  for (std::size_t i = 0; i < 3; ++i)
  {
    tu[i] = s.t[i] + s.u[i];
    txu[i] = s.t[i] * s.u[i];
  }
  if (f_mul<int, 4, 4, 4>(s.mode, tr3, r_translation(s.u)) != to_arr(fm::translation(tu[0], tu[1], tu[2]))) fail("matrix::translation|composition|4x4", txt());
  if (f_mul<int, 4, 4, 4>(s.mode, sc3, r_scaling(s.u)) != to_arr(fm::scaling(txu[0], txu[1], txu[2]))) fail("matrix::scaling|composition|4x4", txt());
  // transform_point: M * (p,1) without the last component; transform_direction: M * (p,0)
  Vec<int, 4> const p1{{s.p[0], s.p[1], s.p[2], 1}}, p0{{s.p[0], s.p[1], s.p[2], 0}};
  auto first3 = [](Vec<int, 4> const &v) { return Vec<int, 3>{{v[0], v[1], v[2]}}; };
  auto const tp = with_mat<int, 4, 4>(pm & 1, s.m, [&](auto const &m) { return with_vec<int, 3>(vm, s.p, [&](auto const &v) { return to_arr(fm::transform_point(m, v)); }); });
  if (tp != first3(r_matvec<int, 4, 4>(s.m, p1))) fail("matrix::transform_point|vs-reference|4x4", txt() + ": " + show_arr(tp));
  auto const td = with_mat<int, 4, 4>(pm & 1, s.m, [&](auto const &m) { return with_vec<int, 3>(vm, s.p, [&](auto const &v) { return to_arr(fm::transform_direction(m, v)); }); });
  if (td != first3(r_matvec<int, 4, 4>(s.m, p0))) fail("matrix::transform_direction|vs-reference|4x4", txt() + ": " + show_arr(td));
  // a translation moves points and leaves directions alone; a scaling scales both
  Vec<int, 3> moved{}, scaled{};
  for (std::size_t i = 0; i < 3; ++i)
  {
    moved[i] = s.p[i] + s.t[i];
    scaled[i] = s.p[i] * s.t[i];
  }
  auto const via_tr = with_vec<int, 3>(vm, s.p, [&](auto const &v) { return std::make_pair(to_arr(fm::transform_point(fm::translation(s.t[0], s.t[1], s.t[2]), v)), to_arr(fm::transform_direction(fm::translation(s.t[0], s.t[1], s.t[2]), v))); });
  if (via_tr.first != moved || via_tr.second != s.p) fail("matrix::translation|moves-points-not-directions|4x4", txt());
  auto const via_sc = with_vec<int, 3>(vm, s.p, [&](auto const &v) { return std::make_pair(to_arr(fm::transform_point(fm::scaling(s.t[0], s.t[1], s.t[2]), v)), to_arr(fm::transform_direction(fm::scaling(s.t[0], s.t[1], s.t[2]), v))); });
  if (via_sc.first != scaled || via_sc.second != scaled) fail("matrix::scaling|scales-points-and-directions|4x4", txt());
  // det(translation) = 1, det(scaling) = product
  if (f_det<int, 4>(pm & 1, tr3) != 1 || f_det<int, 4>(pm & 1, sc3) != s.t[0] * s.t[1] * s.t[2]) fail("matrix::determinant|builders|4x4", txt());
}
Reg const r_bu{"builders_random", Kind::random,
               "translation / scaling from scalars and from a vector (static, view, row view), composition, transform_point / transform_direction with a random 4x4; entries in [-9,9]; non-trivial: t or u is neither null nor a unit vector, or M is not diagonal",
               [] { run_random(*g_cur.sec, {20000, 6}, {100000, 6}); }, bu_one,
               [](Ints const &in) {
                 BuCase const s = decode_bu(in);
                 return "t = " + show_arr(s.t) + ", u = " + show_arr(s.u) + ", p = " + show_arr(s.p) + ", M = " + show_arr(s.m, 4) + ", storage " + std::to_string(s.mode);
               }};
}
