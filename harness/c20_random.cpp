// VERIF: rc quick_shards=6
// C20 - random wrappers are transparent and stay within the requested bounds.
// Oracle: the std:: engine seeded with the same value and the std:: distribution constructed with
// the same parameters, driven side by side with the fcppt objects; every draw has to be equal
// (bitwise for floating point) after unwrapping the strong typedef / enum. Bounds, both-ends-reached,
// "only elements of the container" and "nothing for an empty container" are checked on top.
// Not instantiated (do not compile, see DESIGN.md C20 "Note"): basic::param() const,
// basic::operator()(Rng&, param_type const&), operator>>(istream, basic), parameters::*::convert_to.
#include "verif.hpp"

#include <fcppt/make_cref.hpp>
#include <fcppt/make_ref.hpp>
#include <fcppt/make_strong_typedef.hpp>
#include <fcppt/reference.hpp>
#include <fcppt/strong_typedef.hpp>
#include <fcppt/optional/object.hpp>
#include <fcppt/random/make_variate.hpp>
#include <fcppt/random/variate.hpp>
#include <fcppt/random/distribution/base_value.hpp>
#include <fcppt/random/distribution/basic.hpp>
#include <fcppt/random/distribution/decorated_value.hpp>
#include <fcppt/random/distribution/make_basic.hpp>
#include <fcppt/random/distribution/parameters/make_uniform_enum.hpp>
#include <fcppt/random/distribution/parameters/make_uniform_enum_advanced.hpp>
#include <fcppt/random/distribution/parameters/make_uniform_indices.hpp>
#include <fcppt/random/distribution/parameters/make_uniform_indices_advanced.hpp>
#include <fcppt/random/distribution/parameters/normal.hpp>
#include <fcppt/random/distribution/parameters/uniform_int.hpp>
#include <fcppt/random/distribution/parameters/uniform_int_wrapper.hpp>
#include <fcppt/random/distribution/parameters/uniform_real.hpp>
#include <fcppt/random/generator/minstd_rand.hpp>
#include <fcppt/random/generator/mt19937.hpp>
#include <fcppt/random/wrapper/make_uniform_container.hpp>
#include <fcppt/random/wrapper/make_uniform_container_advanced.hpp>
#include <fcppt/random/wrapper/uniform_container.hpp>
#include <fcppt/type_iso/enum.hpp>
#include <fcppt/type_iso/strong_typedef.hpp>

#include <array>
#include <cmath>
#include <cstring>
#include <deque>
#include <limits>
#include <random>
#include <sstream>
#include <string>
#include <type_traits>
#include <vector>

using namespace verif;

// the wrapped distribution is compared with the std one only if it HAS the std one's type (a tree in
// which it has another type is reported through the type-level facts, not by a compile error here)
template <typename A, typename B>
bool same_distribution(A const &a, B const &b)
{
  if constexpr (std::is_same_v<A, B>) return a == b;
  else return false;
}

// Type-level facts about the wrappers (result types, wrapped distribution types, constexpr min/max of
// the engines) are part of "transparent": they are checked where they are used, but as run-time
// violations rather than static assertions, so that a tree in which one of them is false is reported
// as a VIOLATION of the property and not as a harness that does not compile.
#define C20_TYPE_FACT(cond, text)                                                                  \
  do                                                                                               \
  {                                                                                                \
    if constexpr (!(cond)) fail("random|type-level-fact|" text, "does not hold: " text);           \
  } while (false)

namespace
{
namespace fr = fcppt::random;
namespace fp = fcppt::random::distribution::parameters;

// ------------------------------------------------------------------ engines
struct eng_minstd
{
  using f = fr::generator::minstd_rand;
  using s = std::minstd_rand;
};
struct eng_mt
{
  using f = fr::generator::mt19937;
  using s = std::mt19937;
};
char const *const eng_names[] = {"minstd_rand", "mt19937"};

template <typename E>
typename E::f::seed fseed(u64 seed)
{
  return typename E::f::seed(static_cast<typename E::f::result_type>(seed));
}
template <typename E>
typename E::s sengine(u64 seed)
{
  return typename E::s(static_cast<typename E::s::result_type>(seed));
}

// ------------------------------------------------------------------ wrapping, written independently of fcppt::type_iso
template <typename T>
struct is_st : std::false_type
{
};
template <typename T, typename A>
struct is_st<fcppt::strong_typedef<T, A>> : std::true_type
{
};
template <typename R>
auto unwrap(R const &r)
{
  if constexpr (std::is_enum_v<R>)
    return static_cast<std::underlying_type_t<R>>(r);
  else if constexpr (is_st<R>::value)
    return unwrap(r.get());
  else
    return r;
}
template <typename R, typename B>
R wrap(B b)
{
  if constexpr (std::is_enum_v<R>)
    return static_cast<R>(b);
  else if constexpr (is_st<R>::value)
    return R(wrap<typename R::value_type>(b));
  else
    return static_cast<R>(b);
}
template <typename R>
using base_of = decltype(unwrap(std::declval<R const &>()));

template <typename B>
bool same(B a, B b)
{
  return std::memcmp(&a, &b, sizeof(B)) == 0;
}
template <typename B>
std::string show(B v)
{
  if constexpr (std::is_floating_point_v<B>)
  {
    char buf[64];
    std::snprintf(buf, sizeof buf, "%a", static_cast<double>(v));
    return buf;
  }
  else if constexpr (std::is_signed_v<B>)
    return std::to_string(static_cast<long long>(v));
  else
    return std::to_string(static_cast<unsigned long long>(v));
}

// ------------------------------------------------------------------ the differential core
struct Plan
{
  int draws;
  int how; // construction / call route, see below
  bool bounds; // results must lie in [lo,hi]
  bool ends; // lo and hi must both occur
  bool extras; // reset() / param(new) in the middle of the sequence, ==, <<, min, max, distribution()
};
constexpr int n_routes = 5;

// Param: fcppt parameters class; SD: the std:: distribution with the same base type.
// d0 was built by the caller (through whichever constructor it wants to cover) from the same values as p/sd.
// p2/sp2: a second parameter set, applied through basic::param(param_type const&) half way.
template <typename E, typename Param, typename SD>
void diff_draws(
    char const *fam,
    fr::distribution::basic<Param> const &d0,
    Param const &p,
    SD sd,
    Param const &p2,
    typename SD::param_type const &sp2,
    u64 seed,
    Plan const &pl,
    base_of<typename Param::result_type> lo,
    base_of<typename Param::result_type> hi)
{
  using dist_t = fr::distribution::basic<Param>;
  using R = typename dist_t::result_type;
  using B = base_of<R>;
  C20_TYPE_FACT((std::is_same_v<B, typename SD::result_type>), "std::is_same_v<B, typename SD::result_type>");
  C20_TYPE_FACT((std::is_same_v<typename dist_t::wrapped_distribution, SD>), "std::is_same_v<typename dist_t::wrapped_distribution, SD>");
  C20_TYPE_FACT((std::is_same_v<typename dist_t::param_type, Param>), "std::is_same_v<typename dist_t::param_type, Param>");
  C20_TYPE_FACT((std::is_same_v<R, typename Param::result_type>), "std::is_same_v<R, typename Param::result_type>");
  using FE = typename E::f;
  using SE = typename E::s;
  using variate_t = fr::variate<FE, dist_t>;
  C20_TYPE_FACT((std::is_same_v<typename variate_t::result_type, R>), "std::is_same_v<typename variate_t::result_type, R>");

  FE fg(fseed<E>(seed));
  SE sg(sengine<E>(seed));
  SE sg_direct(sengine<E>(seed)); // route 4: the fcppt distribution driven by a std:: engine
  dist_t d(d0);
  fcppt::optional::object<variate_t> var;
  int const how = pl.how % n_routes;
  switch (how)
  {
  case 1: break; // built below, after the comparisons that need the fresh distribution
  case 2: var = fcppt::optional::object<variate_t>(variate_t(fcppt::make_ref(fg), p)); break;
  case 3: var = fcppt::optional::object<variate_t>(fr::make_variate(fcppt::make_ref(fg), fr::distribution::make_basic(p))); break;
  default: break;
  }
  std::string const f = fam;
  if (pl.extras)
  {
    if (!same(unwrap(d.min()), sd.min()) || !same(unwrap(d.max()), sd.max()))
      fail("random::distribution::basic::min/max|differs-from-std|" + f,
           "min/max = " + show(unwrap(d.min())) + "/" + show(unwrap(d.max())) + ", std: " + show(sd.min()) + "/" + show(sd.max()));
    if (!same_distribution(d.distribution(), sd))
      fail("random::distribution::basic::distribution|differs-from-std|" + f, "wrapped distribution != std distribution with the same parameters");
    std::ostringstream o1, o2;
    o1 << d;
    o2 << sd;
    if (o1.str() != o2.str())
      fail("random::distribution::operator<<|differs-from-std|" + f, "'" + o1.str() + "' vs '" + o2.str() + "'");
    dist_t const other(p2);
    SD const sother(sp2);
    if ((d == other) != (sd == sother) || (d != other) != (sd != sother) || !(d == d0) || (d != d0))
      fail("random::distribution::operator==|differs-from-std|" + f, "comparison of two distributions differs from comparing the std distributions");
  }
  if (how == 1)
  {
    // the distribution handed to the variate may have been used before (1 or 3 draws: a
    // std::normal_distribution then holds a saved value): the variate copies it as it is, state included
    int const before = static_cast<int>((seed >> 5) % 3) == 0 ? 0 : (static_cast<int>((seed >> 5) % 3) == 1 ? 1 : 3);
    for (int i = 0; i < before; ++i)
    {
      B const a = unwrap(d(fg));
      B const b = sd(sg);
      if (!same(a, b)) fail("random::distribution::basic|sequence-differs|" + std::string(fam), "draw " + str(i) + " before the variate was built: got " + show(a) + ", std gives " + show(b));
    }
    var = fcppt::optional::object<variate_t>(variate_t(fcppt::make_ref(fg), d));
  }
  typename SD::param_type const sp1 = sd.param(); // the std reference's own parameter object
  bool seen_lo = false, seen_hi = false, reported = false, in_p2 = false;
  cls("draws", static_cast<u64>(pl.draws));
  for (int i = 0; i < pl.draws; ++i)
  {
    if (pl.extras && (how == 0 || how == 4))
    {
      if (i == pl.draws / 2 + 1) // an odd number of draws so far: std::normal_distribution holds a saved value
      {
        if (seed & 1U)
        {
          d.reset();
          sd.reset();
        }
        else
        {
          // a few draws under the second parameter set, then back
          d.param(p2);
          sd.param(sp2);
          in_p2 = true;
          if (!same_distribution(d.distribution(), sd))
            fail("random::distribution::basic::param(set)|differs-from-std|" + f, "distribution after param(p2) != std distribution after param(p2)");
        }
      }
      else if (in_p2 && i == pl.draws / 2 + 5)
      {
        d.param(p);
        sd.param(sp1);
        in_p2 = false;
      }
    }
    R const fv = how == 0 ? d(fg) : how == 4 ? d(sg_direct) : var.get_unsafe()();
    B const sv = sd(sg);
    B const fb = unwrap(fv);
    if (!same(fb, sv) && !reported)
    {
      reported = true;
      fail("random::distribution::basic|sequence-differs|" + f,
           "draw " + str(i) + " (route " + str(how) + ", seed " + str(seed) + "): got " + show(fb) + ", std gives " + show(sv));
    }
    if (pl.bounds && (fb < lo || fb > hi) && !reported)
    {
      reported = true;
      fail("random::distribution::basic|out-of-bounds|" + f, "draw " + str(i) + " = " + show(fb) + " not in [" + show(lo) + "," + show(hi) + "]");
    }
    seen_lo = seen_lo || (!in_p2 && fb == lo);
    seen_hi = seen_hi || (!in_p2 && fb == hi);
  }
  if (pl.ends && !(seen_lo && seen_hi) && !reported)
    fail("random::distribution::basic|end-not-reached|" + f,
         std::string(seen_lo ? "upper" : "lower") + " end of [" + show(lo) + "," + show(hi) + "] never drawn in " + str(pl.draws) + " draws");
}

// ------------------------------------------------------------------ uniform_int over plain / strong-typedef types
FCPPT_MAKE_STRONG_TYPEDEF(int, st_int);
FCPPT_MAKE_STRONG_TYPEDEF(unsigned long, st_ulong);
FCPPT_MAKE_STRONG_TYPEDEF(short, st_short_inner);
FCPPT_MAKE_STRONG_TYPEDEF(st_short_inner, st_short_nested);

using int_types = std::tuple<short, int, long, unsigned short, unsigned, unsigned long, long long, st_int, st_ulong, st_short_nested>;
constexpr std::size_t n_int_types = std::tuple_size_v<int_types>;
char const *const int_type_names[] = {"short", "int", "long", "unsigned short", "unsigned", "unsigned long", "long long",
                                      "strong_typedef<int>", "strong_typedef<unsigned long>", "strong_typedef<strong_typedef<short>>"};
char const *const int_fams[] = {"uniform_int<plain>", "uniform_int<plain>", "uniform_int<plain>", "uniform_int<plain>", "uniform_int<plain>",
                                "uniform_int<plain>", "uniform_int<plain>", "uniform_int<strong_typedef>", "uniform_int<strong_typedef>",
                                "uniform_int<nested strong_typedef>"};

// a, b are the bit patterns of the base type (i64 carries unsigned long as two's complement)
template <typename R, typename E, std::size_t TI>
void uint_case(i64 abits, i64 bbits, u64 seed, Plan pl)
{
  using B = base_of<R>;
  B const a = static_cast<B>(static_cast<u64>(abits)), b = static_cast<B>(static_cast<u64>(bbits));
  if (a > b)
  {
    skip();
    return;
  }
  using Param = fp::uniform_int<R>;
  C20_TYPE_FACT((std::is_same_v<typename Param::distribution, std::uniform_int_distribution<B>>), "std::is_same_v<typename Param::distribution, std::uniform_int_distribution<B>>");
  using dist_t = fr::distribution::basic<Param>;
  typename Param::min const mn(wrap<R>(a));
  typename Param::max const mx(wrap<R>(b));
  Param const p(mn, mx);
  // second parameter set for param(): the one-point interval [a,a] (no bounds implied on later draws:
  // the original is restored immediately)
  Param const p2{typename Param::min(wrap<R>(a)), typename Param::max(wrap<R>(a))};
  std::uniform_int_distribution<B> const sd(a, b);
  typename std::uniform_int_distribution<B>::param_type const sp2(a, a);
  count(a < b);
  // both constructors of basic: from the parameters object, from (min, max)
  if (seed & 2U)
    diff_draws<E>(int_fams[TI], dist_t(p), p, sd, p2, sp2, seed, pl, a, b);
  else
    diff_draws<E>(int_fams[TI], dist_t(mn, mx), p, sd, p2, sp2, seed, pl, a, b);
}

using uint_fn = void (*)(i64, i64, u64, Plan);
template <std::size_t... I>
std::array<uint_fn, n_int_types * 2> make_uint_table(std::index_sequence<I...>)
{
  return {{&uint_case<std::tuple_element_t<I / 2, int_types>, std::conditional_t<I % 2 == 0, eng_minstd, eng_mt>, I / 2>...}};
}
std::array<uint_fn, n_int_types * 2> const uint_table = make_uint_table(std::make_index_sequence<n_int_types * 2>{});

// case = {type, engine, a, b, seed, route}
void small_case(Ints const &c)
{
  std::size_t const t = static_cast<std::size_t>(c.at(0)) % n_int_types, e = static_cast<std::size_t>(c.at(1)) % 2;
  i64 const a = c.at(2), b = c.at(3);
  uint_table[t * 2 + e](a, b, static_cast<u64>(c.at(4)), Plan{2000, static_cast<int>(c.at(5) % n_routes), true, true, true});
}
std::string int_describe(Ints const &c)
{
  std::size_t const t = static_cast<std::size_t>(c.at(0)) % n_int_types, e = static_cast<std::size_t>(c.at(1)) % 2;
  return std::string("uniform_int<") + int_type_names[t] + ">[" + std::to_string(c.at(2)) + "," + std::to_string(c.at(3)) + "] on " + eng_names[e] +
         " seed " + std::to_string(static_cast<u64>(c.at(4))) + " route " + std::to_string(c.at(5) % n_routes);
}

void run_small()
{
  // all -8 <= a <= b <= 8 over short, int, long (and the two signed strong typedefs in the thorough tier),
  // both engines, every route; seeds from the run seed.
  SplitMix r(opts().seed * 1000003ULL + 17);
  bool const th = opts().thorough();
  int const seeds = th ? 24 : 12;
  u64 idx = 0;
  for (int si = 0; si < seeds; ++si)
    for (i64 t : {0, 1, 2, 6, 7, 9})
    {
      if (!th && t > 2) continue;
      for (i64 e = 0; e < 2; ++e)
        for (i64 a = -8; a <= 8; ++a)
          for (i64 b = a; b <= 8; ++b)
          {
            u64 const seed = r.next() >> (r.next() % 40);
            i64 const route = static_cast<i64>(r.next() % n_routes);
            if (static_cast<int>(idx++ % static_cast<u64>(opts().nshards)) != opts().shard) continue;
            Ints const c{t, e, a, b, static_cast<i64>(seed), route};
            cur_vec(c);
            small_case(c);
          }
    }
}

// intervals touching the limits of the type. case = {type, engine, a-bits, b-bits, seed, route}
void limit_case(Ints const &c)
{
  std::size_t const t = static_cast<std::size_t>(c.at(0)) % n_int_types, e = static_cast<std::size_t>(c.at(1)) % 2;
  u64 const width = static_cast<u64>(c.at(3)) - static_cast<u64>(c.at(2));
  bool const small = width <= 16;
  uint_table[t * 2 + e](c.at(2), c.at(3), static_cast<u64>(c.at(4)), Plan{small ? 2000 : 256, static_cast<int>(c.at(5) % n_routes), true, small, true});
}
template <typename B>
void limit_intervals(std::vector<std::pair<i64, i64>> &out)
{
  using L = std::numeric_limits<B>;
  auto bits = [](B v) { return static_cast<i64>(v); };
  for (int k = 0; k <= 3; ++k)
  {
    out.push_back({bits(L::min()), bits(static_cast<B>(L::min() + k))});
    out.push_back({bits(static_cast<B>(L::max() - k)), bits(L::max())});
    out.push_back({bits(static_cast<B>(L::min() + k)), bits(static_cast<B>(L::max() - k))});
  }
  out.push_back({bits(L::min()), bits(B{0})});
  out.push_back({bits(B{0}), bits(L::max())});
  out.push_back({bits(L::min()), bits(static_cast<B>(L::max() / 2))});
  out.push_back({bits(static_cast<B>(L::max() / 2)), bits(L::max())});
  out.push_back({bits(static_cast<B>(L::max() / 2)), bits(static_cast<B>(L::max() / 2 + 1))});
  out.push_back({bits(static_cast<B>(L::min() + 1)), bits(static_cast<B>(L::min() + 16))});
  out.push_back({bits(static_cast<B>(L::max() - 16)), bits(L::max())});
}
template <std::size_t... I>
std::array<std::vector<std::pair<i64, i64>>, n_int_types> all_limit_intervals(std::index_sequence<I...>)
{
  std::array<std::vector<std::pair<i64, i64>>, n_int_types> r;
  (limit_intervals<base_of<std::tuple_element_t<I, int_types>>>(r[I]), ...);
  return r;
}
void run_limits()
{
  auto const iv = all_limit_intervals(std::make_index_sequence<n_int_types>{});
  SplitMix r(opts().seed * 1000003ULL + 29);
  int const seeds = opts().thorough() ? 200 : 16;
  for (int si = 0; si < seeds; ++si)
    for (std::size_t t = 0; t < n_int_types; ++t)
      for (i64 e = 0; e < 2; ++e)
        for (auto const &ab : iv[t])
        {
          Ints const c{static_cast<i64>(t), e, ab.first, ab.second, static_cast<i64>(r.next() >> (r.next() % 40)), static_cast<i64>(r.next() % n_routes)};
          cur_vec(c);
          limit_case(c);
        }
}

// ------------------------------------------------------------------ enums of size 1..9
enum class en1 { v0, fcppt_maximum = v0 };
enum class en2 : unsigned { v0, v1, fcppt_maximum = v1 };
enum class en3 : short { v0, v1, v2, fcppt_maximum = v2 };
enum class en4 : unsigned long { v0, v1, v2, v3, fcppt_maximum = v3 };
enum class en5 : int { v0, v1, v2, v3, v4, fcppt_maximum = v4 };
enum class en6 : unsigned short { v0, v1, v2, v3, v4, v5, fcppt_maximum = v5 };
enum class en7 : long { v0, v1, v2, v3, v4, v5, v6, fcppt_maximum = v6 };
enum class en8 : unsigned { v0, v1, v2, v3, v4, v5, v6, v7, fcppt_maximum = v7 };
enum class en9 { v0, v1, v2, v3, v4, v5, v6, v7, v8, fcppt_maximum = v8 };
// plain (unscoped) enum
enum en3u { en3u_a, en3u_b, en3u_c, fcppt_maximum = en3u_c };
using enum_types = std::tuple<en1, en2, en3, en4, en5, en6, en7, en8, en9, en3u>;
constexpr unsigned enum_sizes[] = {1, 2, 3, 4, 5, 6, 7, 8, 9, 3};
constexpr std::size_t n_enums = 10;

template <typename En, typename E, std::size_t EI>
void enum_case(u64 seed, Plan pl)
{
  using U = std::underlying_type_t<En>;
  using Param = fp::uniform_int<En>;
  C20_TYPE_FACT((std::is_same_v<typename Param::distribution, std::uniform_int_distribution<U>>), "std::is_same_v<typename Param::distribution, std::uniform_int_distribution<U>>");
  using dist_t = fr::distribution::basic<Param>;
  // Documented: "draws enum values from 0 to the maximum enum value".
  U const lo = 0, hi = static_cast<U>(enum_sizes[EI] - 1);
  Param const p = (seed & 2U) ? fp::make_uniform_enum<En>() : fp::make_uniform_enum_advanced<fp::uniform_int_wrapper, En>();
  Param const p2{typename Param::min(static_cast<En>(hi)), typename Param::max(static_cast<En>(hi))};
  std::uniform_int_distribution<U> const sd(lo, hi);
  typename std::uniform_int_distribution<U>::param_type const sp2(hi, hi);
  count(enum_sizes[EI] >= 2);
  dist_t const d(p);
  if (static_cast<U>(d.min()) != lo || static_cast<U>(d.max()) != hi)
    fail("random::distribution::parameters::make_uniform_enum|wrong-interval|enum",
         "interval [" + show(static_cast<U>(d.min())) + "," + show(static_cast<U>(d.max())) + "] for an enum of size " + str(enum_sizes[EI]));
  diff_draws<E>("uniform_int<enum>", d, p, sd, p2, sp2, seed, pl, lo, hi);
}
using enum_fn = void (*)(u64, Plan);
template <std::size_t... I>
std::array<enum_fn, n_enums * 2> make_enum_table(std::index_sequence<I...>)
{
  return {{&enum_case<std::tuple_element_t<I / 2, enum_types>, std::conditional_t<I % 2 == 0, eng_minstd, eng_mt>, I / 2>...}};
}
std::array<enum_fn, n_enums * 2> const enum_table = make_enum_table(std::make_index_sequence<n_enums * 2>{});
// case = {enum index, engine, seed, route}
void enum_one(Ints const &c)
{
  std::size_t const n = static_cast<std::size_t>(c.at(0)) % n_enums, e = static_cast<std::size_t>(c.at(1)) % 2;
  enum_table[n * 2 + e](static_cast<u64>(c.at(2)), Plan{2000, static_cast<int>(c.at(3) % n_routes), true, true, true});
}

// ------------------------------------------------------------------ containers of size 0..6
// distinct elements, so that "element of the container" can be decided by value and by address
template <typename C>
C make_container(std::size_t n)
{
  C c;
  for (std::size_t i = 0; i < n; ++i) c.push_back(static_cast<typename C::value_type>(100 + 7 * i));
  return c;
}
template <>
std::vector<std::string> make_container<std::vector<std::string>>(std::size_t n)
{
  std::vector<std::string> c;
  for (std::size_t i = 0; i < n; ++i) c.push_back("elem" + std::to_string(i));
  return c;
}

template <typename C, bool Const, typename E>
void container_case(std::size_t n, u64 seed, int draws)
{
  using CC = std::conditional_t<Const, C const, C>;
  using size_type = typename C::size_type;
  C cont = make_container<C>(n);
  CC &cref = cont;
  count(n >= 2);
  // --- make_uniform_indices / _advanced
  auto const ip = (seed & 2U) ? fp::make_uniform_indices(cref) : fp::make_uniform_indices_advanced<fp::uniform_int_wrapper>(cref);
  using IParam = fp::uniform_int<size_type, fp::uniform_int_wrapper>;
  C20_TYPE_FACT((std::is_same_v<std::remove_cv_t<decltype(ip)>, fcppt::optional::object<IParam>>), "std::is_same_v<std::remove_cv_t<decltype(ip)>, fcppt::optional::object<IParam>>");
  // --- make_uniform_container / _advanced
  auto uc = (seed & 4U) ? fr::wrapper::make_uniform_container(fcppt::reference<CC>(cref))
                        : fr::wrapper::make_uniform_container_advanced<fp::uniform_int_wrapper, CC>(fcppt::reference<CC>(cref));
  using UC = fr::wrapper::uniform_container<CC, fp::uniform_int_wrapper>;
  C20_TYPE_FACT((std::is_same_v<decltype(uc), fcppt::optional::object<UC>>), "std::is_same_v<decltype(uc), fcppt::optional::object<UC>>");
  C20_TYPE_FACT((std::is_same_v<typename UC::param_type, IParam>), "std::is_same_v<typename UC::param_type, IParam>");
  if (n == 0)
  {
    if (ip.has_value())
      fail("random::distribution::parameters::make_uniform_indices|empty-container|returned-parameters", "parameters returned for an empty container");
    if (uc.has_value())
      fail("random::wrapper::make_uniform_container|empty-container|returned-distribution", "a distribution was returned for an empty container");
    return;
  }
  if (!ip.has_value())
  {
    fail("random::distribution::parameters::make_uniform_indices|non-empty-container|nothing", "nothing returned for a container of size " + str(n));
    return;
  }
  if (!uc.has_value())
  {
    fail("random::wrapper::make_uniform_container|non-empty-container|nothing", "nothing returned for a container of size " + str(n));
    return;
  }
  size_type const hi = static_cast<size_type>(n - 1);
  fr::distribution::basic<IParam> const id(ip.get_unsafe());
  if (id.min() != 0 || id.max() != hi)
  {
    // do not draw: an index outside the container would be used below
    fail("random::distribution::parameters::make_uniform_indices|wrong-interval|size " + std::string(n == 1 ? "1" : ">=2"),
         "index interval [" + str(id.min()) + "," + str(id.max()) + "] for a container of size " + str(n));
    return;
  }
  IParam const p2{typename IParam::min(hi), typename IParam::max(hi)};
  std::uniform_int_distribution<size_type> const sd(0, hi);
  typename std::uniform_int_distribution<size_type>::param_type const sp2(hi, hi);
  bool const ends = draws >= 2000;
  diff_draws<E>("uniform_int<size_type> from make_uniform_indices", id, ip.get_unsafe(), sd, p2, sp2, seed, Plan{draws, static_cast<int>((seed >> 3) % n_routes), true, ends, true}, size_type{0}, hi);

  // the container wrapper: operator()(Generator&) returns a reference into the container
  C20_TYPE_FACT((std::is_same_v<typename UC::result_type, std::conditional_t<Const, typename C::const_reference, typename C::reference>>), "std::is_same_v<typename UC::result_type, std::conditional_t<Const, typename C::const_reference, typename C::reference>>");
  typename E::f fg(fseed<E>(seed));
  typename E::s sg(sengine<E>(seed));
  std::uniform_int_distribution<size_type> sd2(0, hi);
  bool first = false, last = false, reported = false;
  UC &w = uc.get_unsafe();
  auto const draw_phase = [&](int const from, int const to, std::string const &phase) {
  for (int i = from; i < to && !reported; ++i)
  {
    typename UC::result_type r = w(fg);
    size_type const expect = sd2(sg);
    // element of the container: its address lies inside (vector<string>, deque: compare against every element)
    bool member = false;
    size_type at = 0;
    for (size_type k = 0; k < n; ++k)
      if (&cref[k] == &r)
      {
        member = true;
        at = k;
      }
    if (!member)
    {
      reported = true;
      fail("random::wrapper::uniform_container|not-an-element" + phase + "|size " + std::string(n == 1 ? "1" : ">=2"), "draw " + str(i) + " is not an element of the container");
    }
    else if (at != expect)
    {
      reported = true;
      fail("random::wrapper::uniform_container|sequence-differs" + phase + "|size " + std::string(n == 1 ? "1" : ">=2"),
           "draw " + str(i) + " is element " + str(at) + ", std::uniform_int_distribution<size_type>(0,size-1) selects " + str(expect));
    }
    first = first || at == 0;
    last = last || at == hi;
  }
  };
  draw_phase(0, draws, "");
  if (ends && !reported && !(first && last))
    fail("random::wrapper::uniform_container|end-not-reached|size " + std::string(n == 1 ? "1" : ">=2"),
         std::string(first ? "last" : "first") + " element never drawn in " + str(draws) + " draws");
  // the wrapper constructed DIRECTLY with explicit index parameters [lo, hi2] inside the container
  // (a sub-range: hi2 may be below size-1): exactly the sequence std::uniform_int_distribution(lo,
  // hi2) selects, hence only elements lo..hi2
  if (!reported && n >= 2)
  {
    size_type const lo = static_cast<size_type>((seed >> 7) % n);
    size_type const hi2 = static_cast<size_type>(lo + (seed >> 11) % (n - lo));
    UC sub(fcppt::reference<CC>(cref), IParam{typename IParam::min(lo), typename IParam::max(hi2)});
    typename E::f fg3(fseed<E>(seed ^ 0x5bd1e995U));
    typename E::s sg3(sengine<E>(seed ^ 0x5bd1e995U));
    std::uniform_int_distribution<size_type> sd3(lo, hi2);
    for (int i = 0; i < 200; ++i)
    {
      typename UC::result_type r = sub(fg3);
      size_type const expect = sd3(sg3);
      if (&r != &cref[expect])
      {
        size_type at = n;
        for (size_type k = 0; k < n; ++k)
          if (&cref[k] == &r) at = k;
        fail("random::wrapper::uniform_container|explicit-sub-range-parameters|" + std::string(at < lo || at > hi2 ? "outside-the-interval" : "sequence-differs"),
             "uniform_container over " + str(n) + " elements constructed with the index interval [" + str(lo) + "," + str(hi2) + "]: draw " + str(i) + " is element " + (at == n ? std::string("<none>") : str(at)) + ", std selects " + str(expect));
        break;
      }
    }
  }
  // the wrapper is built from a reference to the container, not from a snapshot of its storage:
  // after the container's contents have been replaced by other contents of the SAME size (the
  // storage moves: move assignment, then a reserve for vectors), draws are elements of the
  // container as it is now and continue the same index sequence
  if (!reported)
  {
    C fresh = make_container<C>(n + 1);
    fresh.erase(fresh.begin()); // same size, other values, other storage
    cont = std::move(fresh);
    if constexpr (requires { cont.reserve(1); }) cont.reserve(cont.capacity() * 2 + 64);
    draw_phase(draws, draws + 64, "|after-storage-moved");
  }
  if constexpr (!Const)
  {
    // the reference is a reference to the element: writing through it changes the container
    typename E::f fg2(fseed<E>(seed));
    typename C::reference r = w(fg2);
    typename C::value_type const before = r;
    r = make_container<C>(8)[7];
    bool found = false;
    for (size_type k = 0; k < n; ++k) found = found || cref[k] == make_container<C>(8)[7];
    if (!found) fail("random::wrapper::uniform_container|reference-not-into-container|non-const", "assignment through the result did not change the container");
    r = before;
  }
}
using cont_fn = void (*)(std::size_t, u64, int);
template <typename E>
constexpr std::array<cont_fn, 5> cont_row()
{
  return {{&container_case<std::vector<int>, false, E>, &container_case<std::vector<int>, true, E>, &container_case<std::deque<long>, true, E>,
           &container_case<std::vector<std::string>, true, E>, &container_case<std::deque<long>, false, E>}};
}
std::array<cont_fn, 5> const cont_table[2] = {cont_row<eng_minstd>(), cont_row<eng_mt>()};
char const *const cont_names[] = {"vector<int>", "vector<int> const", "deque<long> const", "vector<string> const", "deque<long>"};
// case = {container type, engine, size, seed}
void cont_one(Ints const &c)
{
  cont_table[static_cast<std::size_t>(c.at(1)) % 2][static_cast<std::size_t>(c.at(0)) % 5](static_cast<std::size_t>(c.at(2)) % 7, static_cast<u64>(c.at(3)), 2000);
}

// ------------------------------------------------------------------ uniform_real / normal
FCPPT_MAKE_STRONG_TYPEDEF(double, st_double);
FCPPT_MAKE_STRONG_TYPEDEF(float, st_float);

template <typename B>
B decode_real(Choices &c, bool positive)
{
  i64 const m = positive ? c.range(1, 1000) : c.range(-1000, 1000);
  int const ex = static_cast<int>(c.range(0, 40)) - 20;
  return static_cast<B>(std::ldexp(static_cast<double>(m), ex));
}

template <typename R, typename E>
void real_case(Choices &c, u64 seed, int route)
{
  using B = base_of<R>;
  B const mn = decode_real<B>(c, false);
  B sup = static_cast<B>(mn + decode_real<B>(c, true));
  if (!(mn < sup)) sup = std::nextafter(mn, std::numeric_limits<B>::infinity());
  // the degenerate but valid parameter set min == sup (std::uniform_real_distribution requires
  // a <= b and then always yields a): transparency covers it, too
  if ((seed >> 9) % 8 == 0) sup = mn;
  B const mn2 = decode_real<B>(c, false);
  B const sup2 = std::nextafter(static_cast<B>(mn2 + decode_real<B>(c, true)), std::numeric_limits<B>::infinity());
  using Param = fp::uniform_real<R>;
  C20_TYPE_FACT((std::is_same_v<typename Param::distribution, std::uniform_real_distribution<B>>), "std::is_same_v<typename Param::distribution, std::uniform_real_distribution<B>>");
  using dist_t = fr::distribution::basic<Param>;
  typename Param::min const pmn(wrap<R>(mn));
  typename Param::sup const psup(wrap<R>(sup));
  Param const p(pmn, psup);
  Param const p2{typename Param::min(wrap<R>(mn2)), typename Param::sup(wrap<R>(sup2))};
  std::uniform_real_distribution<B> const sd(mn, sup);
  typename std::uniform_real_distribution<B>::param_type const sp2(mn2, sup2);
  count(true);
  // Reading: only the sequence is compared for real distributions (whether std:: may return sup
  // itself through rounding is not fcppt's business); no bounds are demanded.
  Plan const pl{64, route, false, false, true};
  if (seed & 2U)
    diff_draws<E>(is_st<R>::value ? "uniform_real<strong_typedef>" : "uniform_real<plain>", dist_t(p), p, sd, p2, sp2, seed, pl, mn, sup);
  else
    diff_draws<E>(is_st<R>::value ? "uniform_real<strong_typedef>" : "uniform_real<plain>", dist_t(pmn, psup), p, sd, p2, sp2, seed, pl, mn, sup);
}
template <typename R, typename E>
void normal_case(Choices &c, u64 seed, int route)
{
  using B = base_of<R>;
  B const mean = decode_real<B>(c, false), sdev = decode_real<B>(c, true);
  B const mean2 = decode_real<B>(c, false), sdev2 = decode_real<B>(c, true);
  using Param = fp::normal<R>;
  C20_TYPE_FACT((std::is_same_v<typename Param::distribution, std::normal_distribution<B>>), "std::is_same_v<typename Param::distribution, std::normal_distribution<B>>");
  using dist_t = fr::distribution::basic<Param>;
  typename Param::mean const pm(wrap<R>(mean));
  typename Param::stddev const ps(wrap<R>(sdev));
  Param const p(pm, ps);
  Param const p2{typename Param::mean(wrap<R>(mean2)), typename Param::stddev(wrap<R>(sdev2))};
  std::normal_distribution<B> const sd(mean, sdev);
  typename std::normal_distribution<B>::param_type const sp2(mean2, sdev2);
  count(true);
  Plan const pl{64, route, false, false, true};
  if (seed & 2U)
    diff_draws<E>(is_st<R>::value ? "normal<strong_typedef>" : "normal<plain>", dist_t(p), p, sd, p2, sp2, seed, pl, mean, mean);
  else
    diff_draws<E>(is_st<R>::value ? "normal<strong_typedef>" : "normal<plain>", dist_t(pm, ps), p, sd, p2, sp2, seed, pl, mean, mean);
}
using real_fn = void (*)(Choices &, u64, int);
template <typename E>
constexpr std::array<real_fn, 8> real_row()
{
  return {{&real_case<float, E>, &real_case<double, E>, &real_case<st_double, E>, &real_case<st_float, E>,
           &normal_case<float, E>, &normal_case<double, E>, &normal_case<st_double, E>, &normal_case<st_float, E>}};
}
std::array<real_fn, 8> const real_table[2] = {real_row<eng_minstd>(), real_row<eng_mt>()};
char const *const real_names[] = {"uniform_real<float>", "uniform_real<double>", "uniform_real<strong double>", "uniform_real<strong float>",
                                  "normal<float>", "normal<double>", "normal<strong double>", "normal<strong float>"};

// ------------------------------------------------------------------ the random section: every family, generated seeds and parameters
u64 decode_seed(Choices &c)
{
  u64 const lo = c.raw(), form = c.raw();
  switch (form % 4)
  {
  case 0: return lo % 16; // 0 and small seeds (minstd maps 0 to 1)
  case 1: return lo; // 32-bit
  case 2: return (lo << 32) | (form >> 2); // above 32 bits: both engines take uint_fast32_t (64 bits here)
  default: return lo % 3 == 0 ? 2147483647ULL * (lo % 5) : 4294967296ULL - (lo % 3); // multiples of the minstd modulus, 2^32-k
  }
}
template <typename B>
i64 decode_int_bits(Choices &c)
{
  using L = std::numeric_limits<B>;
  u64 const w = c.raw(), form = c.raw();
  __int128 v;
  switch (form % 5)
  {
  case 0: v = static_cast<__int128>(w % 33) - (std::is_signed_v<B> ? 16 : 0); break;
  case 1: v = static_cast<__int128>(L::min()) + static_cast<__int128>(w % 20); break;
  case 2: v = static_cast<__int128>(L::max()) - static_cast<__int128>(w % 20); break;
  case 3: v = static_cast<__int128>(static_cast<B>((w << 32) ^ (form * 0x9e3779b97f4a7c15ULL))); break;
  default: v = static_cast<__int128>(w % 100000) - (std::is_signed_v<B> ? 50000 : 0); break;
  }
  if (v < static_cast<__int128>(L::min())) v = L::min();
  if (v > static_cast<__int128>(L::max())) v = L::max();
  return static_cast<i64>(static_cast<B>(v));
}
template <std::size_t... I>
i64 decode_int_bits_of(std::size_t t, Choices &c, std::index_sequence<I...>)
{
  i64 r = 0;
  ((t == I ? (r = decode_int_bits<base_of<std::tuple_element_t<I, int_types>>>(c), 0) : 0), ...);
  return r;
}
template <std::size_t... I>
bool bits_less_of(std::size_t t, i64 a, i64 b, std::index_sequence<I...>)
{
  bool r = false;
  ((t == I ? (r = static_cast<base_of<std::tuple_element_t<I, int_types>>>(static_cast<u64>(a)) < static_cast<base_of<std::tuple_element_t<I, int_types>>>(static_cast<u64>(b)), 0) : 0), ...);
  return r;
}

void random_one(Ints const &v)
{
  Choices c(v);
  static constexpr std::size_t fam_map[] = {0, 1, 2, 3, 2, 0};
  std::size_t const fam = fam_map[c.index(6)];
  std::size_t const e = c.index(2);
  u64 const seed = decode_seed(c);
  int const route = static_cast<int>(c.index(n_routes));
  c.skip_to_frame();
  switch (fam)
  {
  case 0:
  {
    std::size_t const t = c.index(n_int_types);
    auto const seq = std::make_index_sequence<n_int_types>{};
    i64 a = decode_int_bits_of(t, c, seq), b = decode_int_bits_of(t, c, seq);
    if (bits_less_of(t, b, a, seq)) std::swap(a, b);
    cls("uniform_int");
    uint_table[t * 2 + e](a, b, seed, Plan{64, route, true, false, true});
    break;
  }
  case 1:
  {
    std::size_t const n = c.index(n_enums);
    cls("enum");
    enum_table[n * 2 + e](seed, Plan{64, route, true, false, true});
    break;
  }
  case 2:
  {
    std::size_t const k = c.index(8);
    cls(real_names[k]);
    real_table[e][k](c, seed, route);
    break;
  }
  default:
  {
    std::size_t const k = c.index(5), n = c.index(7);
    cls("container");
    cont_table[e][k](n, seed, 64);
    break;
  }
  }
}
std::string random_describe(Ints const &v)
{
  Choices c(v);
  static constexpr std::size_t fam_map[] = {0, 1, 2, 3, 2, 0};
  std::size_t const fam = fam_map[c.index(6)], e = c.index(2);
  u64 const seed = decode_seed(c);
  int const route = static_cast<int>(c.index(n_routes));
  c.skip_to_frame();
  std::string r = std::string(fam == 0 ? "uniform_int" : fam == 1 ? "enum" : fam == 2 ? "real/normal" : "container") + " on " + eng_names[e] + " seed " +
                  std::to_string(seed) + " route " + std::to_string(route) + ":";
  switch (fam)
  {
  case 0:
  {
    std::size_t const t = c.index(n_int_types);
    auto const seq = std::make_index_sequence<n_int_types>{};
    i64 a = decode_int_bits_of(t, c, seq), b = decode_int_bits_of(t, c, seq);
    if (bits_less_of(t, b, a, seq)) std::swap(a, b);
    r += std::string(" ") + int_type_names[t] + " bits [" + std::to_string(a) + "," + std::to_string(b) + "]";
    break;
  }
  case 1: r += " size " + std::to_string(enum_sizes[c.index(n_enums)]); break;
  case 2:
  {
    r += std::string(" ") + real_names[c.index(8)];
    double const a = decode_real<double>(c, false), b = decode_real<double>(c, true), a2 = decode_real<double>(c, false), b2 = decode_real<double>(c, true);
    r += " first/second parameter (min,sup-min | mean,stddev) = " + show(a) + "," + show(b) + "; for param(): " + show(a2) + "," + show(b2);
    break;
  }
  default:
  {
    std::size_t const k = c.index(5), n = c.index(7);
    r += std::string(" ") + cont_names[k] + " of size " + std::to_string(n);
  }
  }
  return r;
}

// ------------------------------------------------------------------ generators: basic_pseudo is the wrapped engine
template <typename E>
void generator_case(Choices &c)
{
  using FE = typename E::f;
  using SE = typename E::s;
  C20_TYPE_FACT((std::is_same_v<typename FE::result_type, typename SE::result_type>), "std::is_same_v<typename FE::result_type, typename SE::result_type>");
  C20_TYPE_FACT((FE::min() == SE::min() && FE::max() == SE::max()), "FE::min() == SE::min() && FE::max() == SE::max()");
  bool const use_seq = c.flag();
  u64 const seed = decode_seed(c);
  c.skip_to_frame();
  count(true);
  if (use_seq)
  {
    std::vector<std::uint32_t> words;
    while (!c.empty() && words.size() < 12) words.push_back(static_cast<std::uint32_t>(c.raw()));
    std::seed_seq q1(words.begin(), words.end()), q2(words.begin(), words.end());
    FE fg(q1);
    SE sg(q2);
    for (int i = 0; i < 64; ++i)
    {
      auto const a = fg();
      auto const b = sg();
      if (a != b)
      {
        fail("random::generator::basic_pseudo|sequence-differs|seed_seq", "draw " + str(i) + ": " + str(a) + " vs std " + str(b));
        break;
      }
    }
  }
  else
  {
    FE fg(fseed<E>(seed));
    SE sg(sengine<E>(seed));
    for (int i = 0; i < 64; ++i)
    {
      auto const a = fg();
      auto const b = sg();
      if (a != b || a < FE::min() || a > FE::max())
      {
        fail("random::generator::basic_pseudo|sequence-differs|seed", "seed " + str(seed) + " draw " + str(i) + ": " + str(a) + " vs std " + str(b));
        break;
      }
    }
  }
}
void generator_one(Ints const &v)
{
  Choices c(v);
  if (c.index(2) == 0) generator_case<eng_minstd>(c);
  else generator_case<eng_mt>(c);
}

// ------------------------------------------------------------------ base_value / decorated_value
void iso_one(Ints const &v)
{
  i64 const x = v.at(0);
  count(x != 0);
  namespace fd = fr::distribution;
  C20_TYPE_FACT((std::is_same_v<fd::base_type<st_short_nested>, short>), "std::is_same_v<fd::base_type<st_short_nested>, short>");
  C20_TYPE_FACT((std::is_same_v<fd::base_type<en4>, unsigned long>), "std::is_same_v<fd::base_type<en4>, unsigned long>");
  C20_TYPE_FACT((std::is_same_v<fd::base_type<long>, long>), "std::is_same_v<fd::base_type<long>, long>");
  C20_TYPE_FACT((std::is_same_v<fd::base_type<st_double>, double>), "std::is_same_v<fd::base_type<st_double>, double>");
  bool ok = fd::base_value(st_int(static_cast<int>(x))) == static_cast<int>(x) && fd::decorated_value<st_int>(static_cast<int>(x)).get() == static_cast<int>(x) &&
            fd::base_value(static_cast<long>(x)) == static_cast<long>(x) && fd::decorated_value<long>(static_cast<long>(x)) == static_cast<long>(x) &&
            fd::base_value(st_short_nested(st_short_inner(static_cast<short>(x)))) == static_cast<short>(x) &&
            fd::decorated_value<st_short_nested>(static_cast<short>(x)).get().get() == static_cast<short>(x) &&
            fd::base_value(st_double(static_cast<double>(x) / 8)) == static_cast<double>(x) / 8 &&
            fd::decorated_value<st_double>(static_cast<double>(x) / 8).get() == static_cast<double>(x) / 8;
  if (x >= 0 && x < 9)
    ok = ok && fd::base_value(static_cast<en9>(x)) == static_cast<int>(x) && fd::decorated_value<en9>(static_cast<int>(x)) == static_cast<en9>(x);
  if (x >= 0 && x < 4)
    ok = ok && fd::base_value(static_cast<en4>(x)) == static_cast<unsigned long>(x) && fd::decorated_value<en4>(static_cast<unsigned long>(x)) == static_cast<en4>(x);
  if (!ok) fail("random::distribution::base_value/decorated_value|not-inverse|value", "value " + str(x));
}

// ------------------------------------------------------------------ registration
char const *const rule_interval = "interval with a < b";
bool const s_small_init = (add_section(
    "uniform_int_small", Kind::exhaustive,
    "uniform_int over short/int/long for every -8 <= a <= b <= 8, both engines, 2000 draws: equal to std, inside [a,b], both ends drawn; non-trivial: a < b",
    run_small, small_case, int_describe).self_sharded = true);
Reg const r_limits{"uniform_int_limits", Kind::exhaustive,
                   "uniform_int over 7 integer types and 3 strong typedefs, intervals touching the limits of the type; non-trivial: a < b",
                   run_limits, limit_case, int_describe};
Reg const r_enums{"enum_sizes", Kind::exhaustive, "make_uniform_enum for enums of size 1..9 (+ an unscoped enum), 2000 draws; non-trivial: size >= 2",
                  [] {
                    SplitMix r(opts().seed * 1000003ULL + 31);
                    int const seeds = opts().thorough() ? 2000 : 60;
                    for (int si = 0; si < seeds; ++si)
                      for (i64 n = 0; n < static_cast<i64>(n_enums); ++n)
                        for (i64 e = 0; e < 2; ++e)
                        {
                          Ints const c{n, e, static_cast<i64>(r.next() >> (r.next() % 40)), static_cast<i64>(r.next() % n_routes)};
                          cur_vec(c);
                          enum_one(c);
                        }
                  },
                  enum_one,
                  [](Ints const &c) {
                    return "make_uniform_enum<size " + std::to_string(enum_sizes[static_cast<std::size_t>(c.at(0)) % n_enums]) + "> on " +
                           eng_names[static_cast<std::size_t>(c.at(1)) % 2] + " seed " + std::to_string(static_cast<u64>(c.at(2))) + " route " + std::to_string(c.at(3) % n_routes);
                  }};
Reg const r_cont{"containers", Kind::exhaustive,
                 "make_uniform_indices / make_uniform_container over 5 container types of size 0..6, 2000 draws; non-trivial: size >= 2",
                 [] {
                   SplitMix r(opts().seed * 1000003ULL + 37);
                   int const seeds = opts().thorough() ? 1000 : 30;
                   for (int si = 0; si < seeds; ++si)
                     for (i64 k = 0; k < 5; ++k)
                       for (i64 e = 0; e < 2; ++e)
                         for (i64 n = 0; n <= 6; ++n)
                         {
                           Ints const c{k, e, n, static_cast<i64>(r.next() >> (r.next() % 40))};
                           cur_vec(c);
                           cont_one(c);
                         }
                 },
                 cont_one,
                 [](Ints const &c) {
                   return std::string("uniform_container/indices over ") + cont_names[static_cast<std::size_t>(c.at(0)) % 5] + " of size " +
                          std::to_string(static_cast<std::size_t>(c.at(2)) % 7) + " on " + eng_names[static_cast<std::size_t>(c.at(1)) % 2] + " seed " +
                          std::to_string(static_cast<u64>(c.at(3)));
                 }};
Reg const r_random{"transparent_random", Kind::random,
                   "generated seed, engine, family (uniform_int over 10 result types with arbitrary a <= b, enums, uniform_real/normal over float/double/strong typedefs, containers), route and parameters; 64 draws equal to std; non-trivial: a < b, enum/container size >= 2 (reals always)",
                   [] { run_random(*g_cur.sec, {60000, 12}, {400000, 12}); }, random_one, random_describe};
Reg const r_gen{"generators", Kind::random, "basic_pseudo<minstd_rand|mt19937> seeded by value or by seed_seq produces the std engine's sequence; every case non-trivial",
                [] { run_random(*g_cur.sec, {10000, 6}, {100000, 6}); }, generator_one,
                [](Ints const &v) { return std::string("generator ") + eng_names[v.empty() ? 0 : static_cast<std::size_t>(v[0]) % 2] + (v.size() > 1 && (v[1] & 1) ? " from seed_seq" : " from seed value"); }};
Reg const r_iso{"base_decorated_value", Kind::exhaustive, "base_value and decorated_value are inverse re-wrappings (strong typedef, nested, enum, plain); non-trivial: value != 0",
                [] {
                  for (i64 x = -300; x <= 300; ++x)
                  {
                    cur1(x);
                    iso_one({x});
                  }
                },
                iso_one, [](Ints const &c) { return "base_value/decorated_value(" + std::to_string(c.at(0)) + ")"; }};
}
