// VERIF: quick_shards=16
// C08 - grid positions, offsets and ranges form an exact row-major bijection.
// Oracle: row-major arithmetic written out naively (offset(p) = sum p_i * prod_{j<i} size_j), explicit
// nested loops (first coordinate fastest) for every (sub-)range, std::vector<int> cell images for
// resize/map/apply/fill, component-wise min/max for the clamps. Exhaustive for N in {1,2,3}, extents 0..4.
#include "verif.hpp"

#include <fcppt/make_cref.hpp>
#include <fcppt/container/grid/apply.hpp>
#include <fcppt/container/grid/at_optional.hpp>
#include <fcppt/container/grid/clamped_min.hpp>
#include <fcppt/container/grid/clamped_sup.hpp>
#include <fcppt/container/grid/clamped_sup_signed.hpp>
#include <fcppt/container/grid/dim.hpp>
#include <fcppt/container/grid/end_position.hpp>
#include <fcppt/container/grid/fill.hpp>
#include <fcppt/container/grid/in_range.hpp>
#include <fcppt/container/grid/in_range_dim.hpp>
#include <fcppt/container/grid/make_min.hpp>
#include <fcppt/container/grid/make_pos_range.hpp>
#include <fcppt/container/grid/make_pos_range_start_end.hpp>
#include <fcppt/container/grid/make_pos_ref_crange.hpp>
#include <fcppt/container/grid/make_pos_ref_crange_start_end.hpp>
#include <fcppt/container/grid/make_pos_ref_range.hpp>
#include <fcppt/container/grid/make_pos_ref_range_start_end.hpp>
#include <fcppt/container/grid/make_sup.hpp>
#include <fcppt/container/grid/map.hpp>
#include <fcppt/container/grid/min.hpp>
#include <fcppt/container/grid/min_less_sup.hpp>
#include <fcppt/container/grid/next_position.hpp>
#include <fcppt/container/grid/object.hpp>
#include <fcppt/container/grid/offset.hpp>
#include <fcppt/container/grid/pos.hpp>
#include <fcppt/container/grid/pos_range.hpp>
#include <fcppt/container/grid/pos_ref_range.hpp>
#include <fcppt/container/grid/pos_reference.hpp>
#include <fcppt/container/grid/range_dim.hpp>
#include <fcppt/container/grid/range_size.hpp>
#include <fcppt/container/grid/resize.hpp>
#include <fcppt/container/grid/sup.hpp>
#include <fcppt/math/dim/contents.hpp>
#include <fcppt/optional/reference.hpp>

#include <algorithm>
#include <array>
#include <cstddef>
#include <limits>
#include <string>
#include <type_traits>
#include <utility>
#include <vector>

using namespace verif;
namespace fg = fcppt::container::grid;

namespace
{
using A3 = std::array<i64, 3>;

// ------------------------------------------------------------------ glue (no logic)
template <std::size_t N>
using grid_t = fg::object<int, N>;

template <typename V, std::size_t N>
V mk(A3 const &a)
{
  using T = typename V::value_type;
  if constexpr (N == 1) return V(static_cast<T>(a[0]));
  else if constexpr (N == 2) return V(static_cast<T>(a[0]), static_cast<T>(a[1]));
  else return V(static_cast<T>(a[0]), static_cast<T>(a[1]), static_cast<T>(a[2]));
}
template <std::size_t N, typename V>
A3 rd(V const &v)
{
  A3 r{{0, 0, 0}};
  for (std::size_t i = 0; i < N; ++i) r[i] = static_cast<i64>(v.get_unsafe(i));
  return r;
}
std::string show(std::size_t n, A3 const &a)
{
  std::string r = "(";
  for (std::size_t i = 0; i < n; ++i) r += (i ? "," : "") + std::to_string(a[i]);
  return r + ")";
}
i64 geti(Ints const &c, std::size_t i) { return i < c.size() ? c[i] : 0; }
i64 clampi(i64 v, i64 lo, i64 hi) { return v < lo ? lo : v > hi ? hi : v; }
std::size_t dec_n(Ints const &c) { return static_cast<std::size_t>(clampi(geti(c, 0), 1, 3)); }
A3 dec3(Ints const &c, std::size_t at, std::size_t n, i64 lo, i64 hi)
{
  A3 r{{0, 0, 0}};
  for (std::size_t i = 0; i < n; ++i) r[i] = clampi(geti(c, at + i), lo, hi);
  return r;
}
template <typename F>
void with_n(std::size_t n, F const &f)
{
  if (n == 1) f(std::integral_constant<std::size_t, 1>{});
  else if (n == 2) f(std::integral_constant<std::size_t, 2>{});
  else f(std::integral_constant<std::size_t, 3>{});
}
// all A3 with components lo_i..hi_i in the first n places (0 elsewhere), last place slowest
template <typename F>
void for_box(std::size_t n, A3 lo, A3 hi, F const &f)
{
  for (std::size_t i = n; i < 3; ++i) lo[i] = hi[i] = 0;
  for (i64 z = lo[2]; z <= hi[2]; ++z)
    for (i64 y = lo[1]; y <= hi[1]; ++y)
      for (i64 x = lo[0]; x <= hi[0]; ++x) f(A3{{x, y, z}});
}
template <typename F>
void for_cube(std::size_t n, i64 lo, i64 hi, F const &f) { for_box(n, A3{{lo, lo, lo}}, A3{{hi, hi, hi}}, f); }

// ------------------------------------------------------------------ the reference model
i64 ref_offset(std::size_t n, A3 const &p, A3 const &size)
{
  i64 off = 0, stride = 1;
  for (std::size_t i = 0; i < n; ++i)
  {
    off += p[i] * stride;
    stride *= size[i];
  }
  return off;
}
i64 ref_content(std::size_t n, A3 const &size)
{
  i64 c = 1;
  for (std::size_t i = 0; i < n; ++i) c *= size[i];
  return c;
}
bool ref_inside(std::size_t n, A3 const &p, A3 const &size)
{
  for (std::size_t i = 0; i < n; ++i)
    if (p[i] < 0 || p[i] >= size[i]) return false;
  return true;
}
// {p : lo <= p < hi component-wise} in storage order (first coordinate fastest); empty if some lo_i >= hi_i
void ref_box(std::size_t n, A3 lo, A3 hi, std::vector<A3> &out)
{
  out.clear();
  for (std::size_t i = n; i < 3; ++i) { lo[i] = 0; hi[i] = 1; }
  for (i64 z = lo[2]; z < hi[2]; ++z)
    for (i64 y = lo[1]; y < hi[1]; ++y)
      for (i64 x = lo[0]; x < hi[0]; ++x) out.push_back(A3{{x, y, z}});
}
int cell_code(i64 off) { return static_cast<int>(100 + off); }
int pos_code(A3 const &p) { return static_cast<int>(7 + 3 * p[0] + 50 * p[1] + 700 * p[2]); }

// the DESIGN rule for a size
bool size_nontrivial(std::size_t n, A3 const &s)
{
  bool small = false;
  for (std::size_t i = 0; i < n; ++i) small = small || s[i] <= 1;
  return small || (n >= 2 && ref_content(n, s) >= 2);
}

// grid of size s whose cell at storage index k holds cell_code(k) (written through the storage
// iterators, i.e. without using any position arithmetic of fcppt)
template <std::size_t N>
grid_t<N> coded_grid(A3 const &s)
{
  grid_t<N> g(mk<typename grid_t<N>::dim, N>(s), -1);
  i64 k = 0;
  for (int &c : g) c = cell_code(k++);
  return g;
}

// bounded walk over a range: calls f(element, index) for at most limit elements; false if there are more
template <typename Range, typename F>
bool walk(Range const &r, std::size_t limit, std::size_t &visited, F const &f)
{
  visited = 0;
  auto const e = r.end();
  for (auto it = r.begin(); it != e; ++it)
  {
    if (visited == limit) return false;
    f(*it, visited);
    ++visited;
  }
  // the same range consumed with `*it++` (what every iterator category must support) in lockstep
  // with a `++it` walk: same elements, same length
  {
    auto const same = [](auto const &x, auto const &y) {
      if constexpr (requires { x.pos(); x.value(); }) return x.pos() == y.pos() && &x.value() == &y.value();
      else return x == y;
    };
    auto a = r.begin();
    auto b = r.begin();
    std::size_t k = 0;
    while (a != e && b != e && k < limit)
    {
      auto const &&va = *a;
      auto const &&vb = *b++;
      if (!same(va, vb))
      {
        fail("grid::range|post-increment|element", "element " + std::to_string(k) + " read with *it++ differs from the one read with *it");
        break;
      }
      ++a;
      ++k;
    }
    if (k < limit && (a == e) != (b == e)) fail("grid::range|post-increment|length", "walking with it++ and with ++it does not end after the same number of steps (" + std::to_string(k) + ")");
  }
  return true;
}

std::vector<A3> g_exp; // scratch

// ------------------------------------------------------------------ section: offset bijection / object basics
template <std::size_t N>
void bij_case(A3 const &s)
{
  using grid = grid_t<N>;
  using pos = typename grid::pos;
  using dim = typename grid::dim;
  count(size_nontrivial(N, s));
  i64 const content = ref_content(N, s);
  dim const d = mk<dim, N>(s);
  grid g(d, -1);
  if (static_cast<i64>(g.content()) != content)
    fail("grid::object::content|value", "size " + show(N, s) + ": content() = " + str(g.content()) + ", expected " + str(content));
  if (static_cast<i64>(fcppt::math::dim::contents(d)) != content)
    fail("math::dim::contents|value", "contents" + show(N, s) + " = " + str(fcppt::math::dim::contents(d)));
  if (g.empty() != (content == 0)) fail("grid::object::empty|value", "size " + show(N, s) + ": empty() wrong");
  if (rd<N>(g.size()) != s) fail("grid::object::size|value", "size() = " + show(N, rd<N>(g.size())) + " after construction with " + show(N, s));
  if (g.end() - g.begin() != content) fail("grid::object|storage-length", "size " + show(N, s) + ": end()-begin() = " + str(g.end() - g.begin()));
  for (int c : g)
    if (c != -1) { fail("grid::object|value-ctor", "a cell is not the fill value"); break; }
  // offsets of the in-range positions: equal to the row-major formula, a permutation of [0,content)
  std::vector<char> seen(static_cast<std::size_t>(content), 0);
  ref_box(N, A3{{0, 0, 0}}, s, g_exp);
  if (static_cast<i64>(g_exp.size()) != content) std::abort(); // harness self check
  bool bad = false;
  for (A3 const &p : g_exp)
  {
    i64 const off = static_cast<i64>(fg::offset(mk<pos, N>(p), d));
    if (off != ref_offset(N, p, s))
    {
      if (!bad) fail("grid::offset|value", "offset(" + show(N, p) + ", " + show(N, s) + ") = " + str(off) + ", expected " + str(ref_offset(N, p, s)));
      bad = true;
    }
    if (off < 0 || off >= content)
    {
      if (!bad) fail("grid::offset|outside-content", "offset(" + show(N, p) + ", " + show(N, s) + ") = " + str(off) + " is outside [0," + str(content) + ")");
      bad = true;
    }
    else if (seen[static_cast<std::size_t>(off)]++)
    {
      if (!bad) fail("grid::offset|not-injective", "offset " + str(off) + " is produced twice in size " + show(N, s));
      bad = true;
    }
  }
  if (bad) return; // get_unsafe below would leave the storage
  // get_unsafe addresses the cell with that storage index
  for (A3 const &p : g_exp) g.get_unsafe(mk<pos, N>(p)) = cell_code(ref_offset(N, p, s));
  i64 k = 0;
  for (int c : g)
  {
    if (c != cell_code(k)) { fail("grid::object::get_unsafe|cell", "size " + show(N, s) + ": storage index " + str(k) + " holds " + str(c) + " after writing every cell through get_unsafe"); break; }
    ++k;
  }
  grid const &cg = g;
  for (A3 const &p : g_exp)
    if (cg.get_unsafe(mk<pos, N>(p)) != cell_code(ref_offset(N, p, s))) { fail("grid::object::get_unsafe|const-cell", "size " + show(N, s) + " at " + show(N, p)); break; }
  // function constructor: cell p holds f(p)
  grid const g2(d, [](pos const &p) { return pos_code(rd<N>(p)); });
  if (rd<N>(g2.size()) != s || g2.end() - g2.begin() != content) fail("grid::object|function-ctor-size", "size " + show(N, s));
  else
    for (A3 const &p : g_exp)
      if (g2.begin()[ref_offset(N, p, s)] != pos_code(p)) { fail("grid::object|function-ctor-cell", "size " + show(N, s) + ": cell " + show(N, p) + " holds " + str(g2.begin()[ref_offset(N, p, s)]) + ", expected f(p) = " + str(pos_code(p))); break; }
}

std::string size_describe(char const *what, Ints const &c)
{
  std::size_t const n = dec_n(c);
  return std::string(what) + " N=" + std::to_string(n) + " size=" + show(n, dec3(c, 1, n, 0, 6));
}

template <typename F>
void all_sizes(F const &f)
{
  for (std::size_t n = 1; n <= 3; ++n)
    for_cube(n, 0, 4, [&](A3 const &s) {
      cur4(static_cast<i64>(n), s[0], s[1], s[2]);
      f(n, s);
    });
}

Reg const r_bij{
    "offset_bijection", Kind::exhaustive,
    "a grid size: content >= 2 with N >= 2, or an extent of 0 or 1",
    [] { all_sizes([](std::size_t n, A3 const &s) { with_n(n, [&](auto N) { bij_case<N()>(s); }); }); },
    [](Ints const &c) { std::size_t const n = dec_n(c); A3 const s = dec3(c, 1, n, 0, 6); with_n(n, [&](auto N) { bij_case<N()>(s); }); },
    [](Ints const &c) { return size_describe("content/offset/get_unsafe/ctor", c); }};

// ------------------------------------------------------------------ section: at_optional / in_range with a margin
template <std::size_t N>
void at_case(grid_t<N> &g, A3 const &s, A3 const &p)
{
  using grid = grid_t<N>;
  using pos = typename grid::pos;
  bool const inside = ref_inside(N, p, s);
  bool border = false;
  for (std::size_t i = 0; i < N; ++i) border = border || p[i] < 0 || p[i] >= s[i] - 1 || s[i] <= 1;
  count(border);
  pos const fp = mk<pos, N>(p);
  if (fg::in_range(g, fp) != inside) fail(inside ? "grid::in_range|inside-rejected" : "grid::in_range|outside-accepted", "in_range(size " + show(N, s) + ", " + show(N, p) + ") wrong");
  if (fg::in_range_dim(g.size(), fp) != inside) fail(inside ? "grid::in_range_dim|inside-rejected" : "grid::in_range_dim|outside-accepted", "in_range_dim(" + show(N, s) + ", " + show(N, p) + ") wrong");
  grid const &cg = g;
  fcppt::optional::reference<int const> const cr = fg::at_optional(cg, fp);
  fcppt::optional::reference<int> const r = fg::at_optional(g, fp);
  if (cr.has_value() != inside || r.has_value() != inside)
  {
    fail(inside ? "grid::at_optional|inside-empty" : "grid::at_optional|outside-present", "at_optional(size " + show(N, s) + ", " + show(N, p) + ") " + (inside ? "is empty" : "has a value"));
    return;
  }
  if (!inside) return;
  i64 const off = ref_offset(N, p, s);
  if (cr.get_unsafe().get() != cell_code(off))
    fail("grid::at_optional|wrong-cell", "at_optional(size " + show(N, s) + ", " + show(N, p) + ") refers to a cell holding " + str(cr.get_unsafe().get()) + ", expected " + str(cell_code(off)));
  r.get_unsafe().get() = -5;
  if (g.begin()[off] != -5) fail("grid::at_optional|write-wrong-cell", "writing through at_optional(size " + show(N, s) + ", " + show(N, p) + ") did not change storage index " + str(off));
  // restore all (a wrong write may have hit any cell)
  i64 k = 0;
  for (int &c : g) c = cell_code(k++);
}
Reg const r_at{
    "at_optional_margin", Kind::exhaustive,
    "a position with components 0..extent+1: some component on the last row, outside, or an extent of 0 or 1",
    [] {
      for (std::size_t n = 1; n <= 3; ++n)
        with_n(n, [&](auto N) {
          for_cube(n, 0, 4, [&](A3 const &s) {
            auto g = coded_grid<N()>(s);
            for_box(n, A3{{0, 0, 0}}, A3{{s[0] + 1, s[1] + 1, s[2] + 1}}, [&](A3 const &p) {
              cur({static_cast<i64>(n), s[0], s[1], s[2], p[0], p[1], p[2]});
              at_case<N()>(g, s, p);
            });
          });
        });
    },
    [](Ints const &c) {
      std::size_t const n = dec_n(c);
      A3 const s = dec3(c, 1, n, 0, 6), p = dec3(c, 4, n, 0, 8);
      with_n(n, [&](auto N) { auto g = coded_grid<N()>(s); at_case<N()>(g, s, p); });
    },
    [](Ints const &c) { std::size_t const n = dec_n(c); return size_describe("in_range/in_range_dim/at_optional", c) + " pos=" + show(n, dec3(c, 4, n, 0, 8)); }};

// ------------------------------------------------------------------ section: at_optional / in_range with huge coordinates
// components beyond the signed range and components whose product with the stride wraps to a small
// flat offset (2^62 * 4, 2^63 * 2): an implementation that compares a flat offset, or compares in a
// signed type, accepts them. Negative i64 stand for the size_type values 2^64 - k.
i64 huge_component(i64 idx, i64 extent)
{
  switch (idx)
  {
  case 0: return 0;
  case 1: return extent > 0 ? extent - 1 : 0;
  case 2: return -1; // 2^64 - 1
  case 3: return std::numeric_limits<i64>::min(); // 2^63
  case 4: return std::numeric_limits<i64>::max(); // 2^63 - 1
  case 5: return i64{1} << 62;
  case 6: return i64{1} << 32;
  default: return -extent - (extent == 0 ? 1 : 0); // 2^64 - extent
  }
}
A3 huge_pos(std::size_t n, A3 const &s, A3 const &idx)
{
  A3 p{{0, 0, 0}};
  for (std::size_t i = 0; i < n; ++i) p[i] = huge_component(idx[i], s[i]);
  return p;
}
template <std::size_t N>
void huge_case(grid_t<N> &g, A3 const &s, A3 const &idx)
{
  bool any = false;
  for (std::size_t i = 0; i < N; ++i) any = any || idx[i] >= 2;
  if (!any) { skip(); return; } // covered by at_optional_margin
  at_case<N>(g, s, huge_pos(N, s, idx));
}
Reg const r_at_huge{
    "at_optional_huge", Kind::exhaustive,
    "a position with at least one component from {2^64-1, 2^63, 2^63-1, 2^62, 2^32, 2^64-extent}; non-trivial always (every such position is outside)",
    [] {
      for (std::size_t n = 1; n <= 3; ++n)
        with_n(n, [&](auto N) {
          for_cube(n, 0, 4, [&](A3 const &s) {
            auto g = coded_grid<N()>(s);
            for_cube(n, 0, 7, [&](A3 const &idx) {
              cur({static_cast<i64>(n), s[0], s[1], s[2], idx[0], idx[1], idx[2]});
              huge_case<N()>(g, s, idx);
            });
          });
        });
    },
    [](Ints const &c) {
      std::size_t const n = dec_n(c);
      A3 const s = dec3(c, 1, n, 0, 6), idx = dec3(c, 4, n, 0, 7);
      with_n(n, [&](auto N) { auto g = coded_grid<N()>(s); huge_case<N()>(g, s, idx); });
    },
    [](Ints const &c) {
      std::size_t const n = dec_n(c);
      A3 const s = dec3(c, 1, n, 0, 6);
      A3 const p = huge_pos(n, s, dec3(c, 4, n, 0, 7));
      std::string r = size_describe("in_range/in_range_dim/at_optional", c) + " pos=(";
      for (std::size_t i = 0; i < n; ++i) r += (i ? "," : "") + std::to_string(static_cast<unsigned long long>(p[i]));
      return r + ")";
    }};

// ------------------------------------------------------------------ section: full ranges, fill, map, apply
template <std::size_t N>
void full_case(A3 const &s)
{
  using grid = grid_t<N>;
  using pos = typename grid::pos;
  using dim = typename grid::dim;
  count(size_nontrivial(N, s));
  dim const d = mk<dim, N>(s);
  i64 const content = ref_content(N, s);
  ref_box(N, A3{{0, 0, 0}}, s, g_exp);
  std::size_t const lim = g_exp.size() + 1;
  std::size_t seen = 0;
  // make_pos_range: the k-th position visited is the one with row-major offset k
  {
    auto const r = fg::make_pos_range(d);
    bool ok = true;
    bool const ended = walk(r, lim, seen, [&](pos const &p, std::size_t k) {
      if (ok && (k >= g_exp.size() || rd<N>(p) != g_exp[k] || ref_offset(N, rd<N>(p), s) != static_cast<i64>(k)))
      {
        ok = false;
        fail("grid::make_pos_range|sequence", "size " + show(N, s) + ": element " + str(k) + " is " + show(N, rd<N>(p)) + (k < g_exp.size() ? ", expected " + show(N, g_exp[k]) : ", expected the end"));
      }
    });
    if (ok && (!ended || static_cast<i64>(seen) != content))
      fail("grid::make_pos_range|count", "size " + show(N, s) + ": visited " + str(seen) + (ended ? "" : "+") + " positions, expected " + str(content));
    if (static_cast<i64>(r.size()) != content) fail("grid::pos_range::size|full", "size " + show(N, s) + ": size() = " + str(r.size()) + ", expected " + str(content));
  }
  // make_pos_ref_range / make_pos_ref_crange over the whole grid
  grid g = coded_grid<N>(s);
  {
    auto const r = fg::make_pos_ref_range(g);
    bool ok = true;
    bool const ended = walk(r, lim, seen, [&](auto const &el, std::size_t k) {
      if (!ok) return;
      if (k >= g_exp.size() || rd<N>(el.pos()) != g_exp[k])
      {
        ok = false;
        fail("grid::make_pos_ref_range|sequence", "size " + show(N, s) + ": element " + str(k) + " is at " + show(N, rd<N>(el.pos())));
        return;
      }
      if (el.value() != cell_code(static_cast<i64>(k)))
      {
        ok = false;
        fail("grid::make_pos_ref_range|wrong-cell", "size " + show(N, s) + ": element " + str(k) + " at " + show(N, g_exp[k]) + " refers to a cell holding " + str(el.value()));
        return;
      }
      el.value() = -static_cast<int>(k) - 1;
      if (g.begin()[static_cast<std::ptrdiff_t>(k)] != -static_cast<int>(k) - 1)
      {
        ok = false;
        fail("grid::make_pos_ref_range|write-wrong-cell", "size " + show(N, s) + ": write through element " + str(k));
      }
    });
    if (ok && (!ended || static_cast<i64>(seen) != content)) fail("grid::make_pos_ref_range|count", "size " + show(N, s) + ": visited " + str(seen) + " cells");
    if (static_cast<i64>(r.size()) != content) fail("grid::pos_ref_range::size|full", "size " + show(N, s) + ": size() = " + str(r.size()));
    i64 k = 0;
    for (int &c : g) c = cell_code(k++);
  }
  {
    grid const &cg = g;
    auto const r = fg::make_pos_ref_crange(cg);
    VERIF_TYPE_FACT((std::is_same_v<decltype((*r.begin()).value()), int const &>), "std::is_same_v<decltype((*r.begin()).value()), int const &>");
    bool ok = true;
    bool const ended = walk(r, lim, seen, [&](auto const &el, std::size_t k) {
      if (ok && (k >= g_exp.size() || rd<N>(el.pos()) != g_exp[k] || el.value() != cell_code(static_cast<i64>(k))))
      {
        ok = false;
        fail("grid::make_pos_ref_crange|sequence-or-cell", "size " + show(N, s) + ": element " + str(k) + " is at " + show(N, rd<N>(el.pos())));
      }
    });
    if (ok && (!ended || static_cast<i64>(seen) != content)) fail("grid::make_pos_ref_crange|count", "size " + show(N, s) + ": visited " + str(seen) + " cells");
    if (static_cast<i64>(r.size()) != content) fail("grid::pos_ref_range::size|full-const", "size " + show(N, s) + ": size() = " + str(r.size()));
  }
  // fill: every cell p holds f(p) afterwards
  {
    grid h(d, -1);
    fg::fill(h, [](pos const &p) { return pos_code(rd<N>(p)); });
    if (rd<N>(h.size()) != s || h.end() - h.begin() != content) fail("grid::fill|size-changed", "size " + show(N, s));
    else
      for (std::size_t k = 0; k < g_exp.size(); ++k)
        if (h.begin()[static_cast<std::ptrdiff_t>(k)] != pos_code(g_exp[k]))
        {
          fail("grid::fill|cell", "size " + show(N, s) + ": cell " + show(N, g_exp[k]) + " holds " + str(h.begin()[static_cast<std::ptrdiff_t>(k)]) + ", expected " + str(pos_code(g_exp[k])));
          break;
        }
  }
  // map: result[p] = f(source[p])
  {
    auto const m = fg::map(g, [](int const v) -> long { return 3L * v + 1; });
    VERIF_TYPE_FACT((std::is_same_v<std::remove_cvref_t<decltype(m)>, fg::object<long, N>>), "std::is_same_v<std::remove_cvref_t<decltype(m)>, fg::object<long, N>>");
    if (rd<N>(m.size()) != s || m.end() - m.begin() != content) fail("grid::map|size", "size " + show(N, s) + ": result size " + show(N, rd<N>(m.size())));
    else
      for (i64 k = 0; k < content; ++k)
        if (m.begin()[k] != 3L * cell_code(k) + 1) { fail("grid::map|cell", "size " + show(N, s) + ": storage index " + str(k) + " holds " + str(m.begin()[k])); break; }
    for (i64 k = 0; k < content; ++k)
      if (g.begin()[k] != cell_code(k)) { fail("grid::map|source-changed", "size " + show(N, s)); break; }
  }
  // apply with two and three grids of the same size: r[p] = f(g1[p], g2[p], g3[p])
  {
    fg::object<long, N> g2(d, 0L);
    fg::object<short, N> g3(d, short{0});
    for (i64 k = 0; k < content; ++k)
    {
      g2.begin()[k] = 1000 + 2 * k;
      g3.begin()[k] = static_cast<short>(5 * k + 3);
    }
    auto const a2 = fg::apply([](int const a, long const b) -> long { return 100000L * a + b; }, g, g2);
    if (rd<N>(a2.size()) != s || a2.end() - a2.begin() != content) fail("grid::apply|size|2 grids", "size " + show(N, s) + ": result size " + show(N, rd<N>(a2.size())));
    else
      for (i64 k = 0; k < content; ++k)
        if (a2.begin()[k] != 100000L * cell_code(k) + (1000 + 2 * k)) { fail("grid::apply|cell|2 grids", "size " + show(N, s) + ": storage index " + str(k) + " holds " + str(a2.begin()[k])); break; }
    auto const a3 = fg::apply([](int const a, long const b, short const c) -> long { return 10000000L * a + 1000L * b + c; }, g, g2, g3);
    if (rd<N>(a3.size()) != s || a3.end() - a3.begin() != content) fail("grid::apply|size|3 grids", "size " + show(N, s) + ": result size " + show(N, rd<N>(a3.size())));
    else
      for (i64 k = 0; k < content; ++k)
        if (a3.begin()[k] != 10000000L * cell_code(k) + 1000L * (1000 + 2 * k) + (5 * k + 3)) { fail("grid::apply|cell|3 grids", "size " + show(N, s) + ": storage index " + str(k) + " holds " + str(a3.begin()[k])); break; }
    auto const a1 = fg::apply([](int const a) -> int { return a + 1; }, g);
    if (rd<N>(a1.size()) != s || a1.end() - a1.begin() != content) fail("grid::apply|size|1 grid", "size " + show(N, s));
    else
      for (i64 k = 0; k < content; ++k)
        if (a1.begin()[k] != cell_code(k) + 1) { fail("grid::apply|cell|1 grid", "size " + show(N, s) + ": storage index " + str(k)); break; }
  }
}
Reg const r_full{
    "full_range_fill_map_apply", Kind::exhaustive,
    "a grid size: content >= 2 with N >= 2, or an extent of 0 or 1",
    [] { all_sizes([](std::size_t n, A3 const &s) { with_n(n, [&](auto N) { full_case<N()>(s); }); }); },
    [](Ints const &c) { std::size_t const n = dec_n(c); A3 const s = dec3(c, 1, n, 0, 6); with_n(n, [&](auto N) { full_case<N()>(s); }); },
    [](Ints const &c) { return size_describe("make_pos_range/make_pos_ref_(c)range/fill/map/apply", c); }};

// apply with grids of different sizes: the documented result is the empty grid
template <std::size_t N>
void apply_mismatch_case(A3 const &s1, A3 const &s2, i64 which)
{
  using grid = grid_t<N>;
  using dim = typename grid::dim;
  bool const same = s1 == s2;
  count(true);
  grid const a = coded_grid<N>(s1), b = coded_grid<N>(s2);
  auto const f2 = [](int const x, int const y) { return 1000 * x + y; };
  auto const f3 = [](int const x, int const y, int const z) { return 1000000 * x + 1000 * y + z; };
  // which: 0 = (a,b), 1 = (a,a,b), 2 = (a,b,a)
  fg::object<int, N> const r = which == 0 ? fg::apply(f2, a, b) : which == 1 ? fg::apply(f3, a, a, b) : fg::apply(f3, a, b, a);
  A3 const want = same ? s1 : A3{{0, 0, 0}};
  i64 const content = same ? ref_content(N, s1) : 0;
  if (rd<N>(r.size()) != want || r.end() - r.begin() != content)
  {
    fail(same ? "grid::apply|size|equal sizes" : "grid::apply|not-empty|different sizes", "apply over sizes " + show(N, s1) + " and " + show(N, s2) + " has size " + show(N, rd<N>(r.size())) + " and " + str(r.end() - r.begin()) + " cells");
    return;
  }
  for (i64 k = 0; k < content; ++k)
  {
    int const v = cell_code(k);
    if (r.begin()[k] != (which == 0 ? f2(v, v) : f3(v, v, v))) { fail("grid::apply|cell|equal sizes", "sizes " + show(N, s1) + ": storage index " + str(k)); break; }
  }
  (void)sizeof(dim);
}
Reg const r_apply_mis{
    "apply_size_pairs", Kind::exhaustive,
    "every pair of grid sizes (extents 0..4; N=3: 0..3) and argument arrangement; every case counts (sizes differ in some component, or are equal)",
    [] {
      for (std::size_t n = 1; n <= 3; ++n)
        with_n(n, [&](auto N) {
          i64 const hi = n == 3 ? 3 : 4;
          for_cube(n, 0, hi, [&](A3 const &s1) {
            for_cube(n, 0, hi, [&](A3 const &s2) {
              for (i64 w = 0; w < 3; ++w)
              {
                cur({static_cast<i64>(n), s1[0], s1[1], s1[2], s2[0], s2[1], s2[2], w});
                apply_mismatch_case<N()>(s1, s2, w);
              }
            });
          });
        });
    },
    [](Ints const &c) {
      std::size_t const n = dec_n(c);
      A3 const s1 = dec3(c, 1, n, 0, 6), s2 = dec3(c, 4, n, 0, 6);
      with_n(n, [&](auto N) { apply_mismatch_case<N()>(s1, s2, clampi(geti(c, 7), 0, 2)); });
    },
    [](Ints const &c) { std::size_t const n = dec_n(c); return size_describe("apply", c) + " other size=" + show(n, dec3(c, 4, n, 0, 6)) + " arrangement " + std::to_string(clampi(geti(c, 7), 0, 2)); }};

// ------------------------------------------------------------------ section: position sub-ranges (no grid involved)
bool range_nontrivial(std::size_t n, A3 const &mn, A3 const &sp)
{
  int inverted = 0;
  bool thin = false;
  i64 cnt = 1;
  for (std::size_t i = 0; i < n; ++i)
  {
    if (mn[i] >= sp[i]) ++inverted;
    if (sp[i] - mn[i] == 0 || sp[i] - mn[i] == 1) thin = true;
    cnt *= sp[i] > mn[i] ? sp[i] - mn[i] : 0;
  }
  return inverted == 1 || thin || (n >= 2 && cnt >= 2);
}

template <std::size_t N>
void sub_case(A3 const &mn, A3 const &sp)
{
  using pos = fg::pos<std::size_t, N>;
  using min_t = fg::min<std::size_t, N>;
  using sup_t = fg::sup<std::size_t, N>;
  count(range_nontrivial(N, mn, sp));
  ref_box(N, mn, sp, g_exp);
  bool const nonempty = !g_exp.empty();
  char const *const kc = nonempty ? "non-empty" : "empty-or-inverted";
  min_t const fmin = fg::make_min(mk<pos, N>(mn));
  sup_t const fsup = fg::make_sup(mk<pos, N>(sp));
  if (rd<N>(fmin.get()) != mn || rd<N>(fsup.get()) != sp) fail("grid::make_min/make_sup|value", "make_min/make_sup changed the position");
  if (fg::min_less_sup(fmin, fsup) != nonempty)
    fail(std::string("grid::min_less_sup|value|") + kc, "min_less_sup(" + show(N, mn) + ", " + show(N, sp) + ") = " + (nonempty ? "false" : "true"));
  if (static_cast<u64>(fg::range_size(fmin, fsup)) != g_exp.size())
    fail(std::string("grid::range_size|value|") + kc, "range_size(" + show(N, mn) + ", " + show(N, sp) + ") = " + str(fg::range_size(fmin, fsup)) + ", expected " + str(g_exp.size()));
  {
    // Reading: for an empty range only "contains no position" is demanded of range_dim (content 0),
    // for a non-empty one the extents sup - min.
    auto const rdm = fg::range_dim(fmin, fsup);
    if (nonempty)
    {
      A3 want{{0, 0, 0}};
      for (std::size_t i = 0; i < N; ++i) want[i] = sp[i] - mn[i];
      if (rd<N>(rdm) != want) fail("grid::range_dim|value|non-empty", "range_dim(" + show(N, mn) + ", " + show(N, sp) + ") = " + show(N, rd<N>(rdm)));
    }
    else if (ref_content(N, rd<N>(rdm)) != 0)
      fail("grid::range_dim|value|empty-or-inverted", "range_dim(" + show(N, mn) + ", " + show(N, sp) + ") = " + show(N, rd<N>(rdm)) + " is not empty");
  }
  auto const r = fg::make_pos_range_start_end(fmin, fsup);
  if (rd<N>(r.min().get()) != mn || rd<N>(r.sup().get()) != sp) fail("grid::pos_range|min-sup-accessors", "min()/sup() differ from the constructor arguments");
  if (static_cast<u64>(r.size()) != g_exp.size())
    fail(std::string("grid::pos_range::size|value|") + kc, "range [" + show(N, mn) + ", " + show(N, sp) + "): size() = " + str(r.size()) + ", expected " + str(g_exp.size()));
  std::size_t seen = 0;
  bool ok = true;
  bool const ended = walk(r, g_exp.size() + 1, seen, [&](pos const &p, std::size_t k) {
    if (ok && (k >= g_exp.size() || rd<N>(p) != g_exp[k]))
    {
      ok = false;
      fail(std::string("grid::make_pos_range_start_end|sequence|") + kc, "range [" + show(N, mn) + ", " + show(N, sp) + "): element " + str(k) + " is " + show(N, rd<N>(p)) + (k < g_exp.size() ? ", expected " + show(N, g_exp[k]) : ", expected the end"));
    }
  });
  if (ok && (!ended || seen != g_exp.size()))
    fail(std::string("grid::make_pos_range_start_end|count|") + kc, "range [" + show(N, mn) + ", " + show(N, sp) + "): visited " + str(seen) + (ended ? "" : " and more") + ", expected " + str(g_exp.size()));
  // next_position: the successor inside a non-empty range; the successor of the last one is end_position
  if (nonempty)
  {
    for (std::size_t k = 0; k + 1 < g_exp.size(); ++k)
    {
      A3 const nx = rd<N>(fg::next_position(mk<pos, N>(g_exp[k]), fmin, fsup));
      if (nx != g_exp[k + 1])
      {
        fail("grid::next_position|successor", "next_position(" + show(N, g_exp[k]) + ") in [" + show(N, mn) + ", " + show(N, sp) + ") = " + show(N, nx) + ", expected " + show(N, g_exp[k + 1]));
        break;
      }
    }
    A3 const last = rd<N>(fg::next_position(mk<pos, N>(g_exp.back()), fmin, fsup));
    A3 const endp = rd<N>(fg::end_position(fmin, fsup));
    if (last != endp) fail("grid::end_position|after-last", "in [" + show(N, mn) + ", " + show(N, sp) + ") the successor of the last position is " + show(N, last) + " but end_position is " + show(N, endp));
    // Reading: the end position is only required to be no position of the range
    if (std::find(g_exp.begin(), g_exp.end(), endp) != g_exp.end()) fail("grid::end_position|inside-range", "end_position of [" + show(N, mn) + ", " + show(N, sp) + ") = " + show(N, endp) + " lies in the range");
  }
}
std::string sub_describe(Ints const &c)
{
  std::size_t const n = dec_n(c);
  return "pos_range N=" + std::to_string(n) + " min=" + show(n, dec3(c, 1, n, 0, 7)) + " sup=" + show(n, dec3(c, 4, n, 0, 7));
}
void sub_one(Ints const &c)
{
  std::size_t const n = dec_n(c);
  A3 const mn = dec3(c, 1, n, 0, 7), sp = dec3(c, 4, n, 0, 7);
  with_n(n, [&](auto N) { sub_case<N()>(mn, sp); });
}
void sub_run(std::size_t n, i64 slice, i64 slices)
{
  with_n(n, [&](auto N) {
    i64 idx = 0;
    i64 const hi = opts().thorough() ? 6 : 5;
    for_cube(n, 0, hi, [&](A3 const &mn) {
      if (idx++ % slices != slice) return;
      for_cube(n, 0, hi, [&](A3 const &sp) {
        cur({static_cast<i64>(n), mn[0], mn[1], mn[2], sp[0], sp[1], sp[2]});
        sub_case<N()>(mn, sp);
      });
    });
  });
}
char const *const sub_rule =
    "a (min, sup) pair with components 0..5 (thorough: 0..6): at least 2 positions with N >= 2, or empty/inverted in exactly one component, or an extent sup_i - min_i of 0 or 1";
Reg const r_sub12{"pos_subrange_n1_n2", Kind::exhaustive, sub_rule, [] { sub_run(1, 0, 1); sub_run(2, 0, 1); }, sub_one, sub_describe};
Reg const r_sub3a{"pos_subrange_n3_a", Kind::exhaustive, sub_rule, [] { sub_run(3, 0, 4); }, sub_one, sub_describe};
Reg const r_sub3b{"pos_subrange_n3_b", Kind::exhaustive, sub_rule, [] { sub_run(3, 1, 4); }, sub_one, sub_describe};
Reg const r_sub3c{"pos_subrange_n3_c", Kind::exhaustive, sub_rule, [] { sub_run(3, 2, 4); }, sub_one, sub_describe};
Reg const r_sub3d{"pos_subrange_n3_d", Kind::exhaustive, sub_rule, [] { sub_run(3, 3, 4); }, sub_one, sub_describe};

// ------------------------------------------------------------------ section: reference sub-ranges into a grid
// flavour 0: min = make_min(pos), sup = clamped_sup(pos, size)            (unsigned route)
// flavour 1: min = clamped_min(signed pos), sup = clamped_sup_signed(signed pos, size)   (signed route)
template <std::size_t N>
void refsub_case(grid_t<N> &g, A3 const &s, A3 const &mn, A3 const &raw, i64 flavour)
{
  using grid = grid_t<N>;
  using pos = typename grid::pos;
  using spos = typename grid::signed_pos;
  using min_t = fg::min<std::size_t, N>;
  using sup_t = fg::sup<std::size_t, N>;
  A3 cl{{0, 0, 0}};
  for (std::size_t i = 0; i < N; ++i) cl[i] = std::min(raw[i], s[i]);
  bool clamps = false;
  for (std::size_t i = 0; i < N; ++i) clamps = clamps || raw[i] > s[i];
  count(clamps || range_nontrivial(N, mn, cl));
  min_t const fmin = flavour == 0 ? fg::make_min(mk<pos, N>(mn)) : fg::clamped_min(mk<spos, N>(mn));
  sup_t const fsup = flavour == 0 ? fg::clamped_sup(mk<pos, N>(raw), g.size()) : fg::clamped_sup_signed(mk<spos, N>(raw), g.size());
  if (rd<N>(fsup.get()) != cl)
  {
    fail(flavour == 0 ? "grid::clamped_sup|value" : "grid::clamped_sup_signed|value", "sup " + show(N, raw) + " clamped to size " + show(N, s) + " gives " + show(N, rd<N>(fsup.get())) + ", expected " + show(N, cl));
    return; // iterating would leave the grid
  }
  if (rd<N>(fmin.get()) != mn)
  {
    fail("grid::clamped_min|value|non-negative", "clamped_min" + show(N, mn) + " = " + show(N, rd<N>(fmin.get())));
    return;
  }
  ref_box(N, mn, cl, g_exp);
  char const *const kc = g_exp.empty() ? "empty-or-inverted" : "non-empty";
  std::size_t seen = 0;
  {
    auto const r = fg::make_pos_ref_range_start_end(g, fmin, fsup);
    if (static_cast<u64>(r.size()) != g_exp.size())
      fail(std::string("grid::pos_ref_range::size|value|") + kc, "size " + show(N, s) + " range [" + show(N, mn) + ", " + show(N, cl) + "): size() = " + str(r.size()) + ", expected " + str(g_exp.size()));
    if (rd<N>(r.min().get()) != mn || rd<N>(r.sup().get()) != cl) fail("grid::pos_ref_range|min-sup-accessors", "min()/sup() differ from the constructor arguments");
    bool ok = true;
    bool const ended = walk(r, g_exp.size() + 1, seen, [&](auto const &el, std::size_t k) {
      if (!ok) return;
      if (k >= g_exp.size() || rd<N>(el.pos()) != g_exp[k])
      {
        ok = false;
        fail(std::string("grid::make_pos_ref_range_start_end|sequence|") + kc, "size " + show(N, s) + " range [" + show(N, mn) + ", " + show(N, cl) + "): element " + str(k) + " is at " + show(N, rd<N>(el.pos())) + (k < g_exp.size() ? ", expected " + show(N, g_exp[k]) : ", expected the end"));
        return;
      }
      i64 const off = ref_offset(N, g_exp[k], s);
      if (el.value() != cell_code(off))
      {
        ok = false;
        fail("grid::make_pos_ref_range_start_end|wrong-cell", "size " + show(N, s) + ": element at " + show(N, g_exp[k]) + " refers to a cell holding " + str(el.value()) + ", expected " + str(cell_code(off)));
        return;
      }
      el.value() = -7;
      if (g.begin()[off] != -7)
      {
        ok = false;
        fail("grid::make_pos_ref_range_start_end|write-wrong-cell", "size " + show(N, s) + ": write through the element at " + show(N, g_exp[k]));
        i64 j = 0;
        for (int &c : g) c = cell_code(j++);
        return;
      }
      g.begin()[off] = cell_code(off);
    });
    if (ok && (!ended || seen != g_exp.size()))
      fail(std::string("grid::make_pos_ref_range_start_end|count|") + kc, "size " + show(N, s) + " range [" + show(N, mn) + ", " + show(N, cl) + "): visited " + str(seen) + (ended ? "" : " and more") + ", expected " + str(g_exp.size()));
  }
  {
    grid const &cg = g;
    auto const r = fg::make_pos_ref_crange_start_end(cg, fmin, fsup);
    if (static_cast<u64>(r.size()) != g_exp.size())
      fail(std::string("grid::pos_ref_range::size|const|") + kc, "size " + show(N, s) + " range [" + show(N, mn) + ", " + show(N, cl) + "): size() = " + str(r.size()));
    bool ok = true;
    bool const ended = walk(r, g_exp.size() + 1, seen, [&](auto const &el, std::size_t k) {
      if (!ok) return;
      if (k >= g_exp.size() || rd<N>(el.pos()) != g_exp[k])
      {
        ok = false;
        fail(std::string("grid::make_pos_ref_crange_start_end|sequence|") + kc, "size " + show(N, s) + " range [" + show(N, mn) + ", " + show(N, cl) + "): element " + str(k) + " is at " + show(N, rd<N>(el.pos())));
        return;
      }
      if (el.value() != cell_code(ref_offset(N, g_exp[k], s)))
      {
        ok = false;
        fail("grid::make_pos_ref_crange_start_end|wrong-cell", "size " + show(N, s) + ": element at " + show(N, g_exp[k]) + " refers to a cell holding " + str(el.value()));
      }
    });
    if (ok && (!ended || seen != g_exp.size()))
      fail(std::string("grid::make_pos_ref_crange_start_end|count|") + kc, "size " + show(N, s) + " range [" + show(N, mn) + ", " + show(N, cl) + "): visited " + str(seen));
  }
}
std::string refsub_describe(Ints const &c)
{
  std::size_t const n = dec_n(c);
  return size_describe("pos_ref_range", c) + " min=" + show(n, dec3(c, 4, n, 0, 7)) + " sup(before clamping)=" + show(n, dec3(c, 7, n, 0, 7)) + (geti(c, 10) & 1 ? " via clamped_min/clamped_sup_signed" : " via make_min/clamped_sup");
}
void refsub_one(Ints const &c)
{
  std::size_t const n = dec_n(c);
  A3 const s = dec3(c, 1, n, 0, 6), mn = dec3(c, 4, n, 0, 7), raw = dec3(c, 7, n, 0, 7);
  with_n(n, [&](auto N) { auto g = coded_grid<N()>(s); refsub_case<N()>(g, s, mn, raw, geti(c, 10) & 1); });
}
// sizes with extents 0..ext, (min, sup) components 0..hi; the sizes are dealt to `slices` sections
void refsub_run(std::size_t n, i64 ext, i64 hi, i64 slice, i64 slices)
{
  with_n(n, [&](auto N) {
    i64 idx = 0;
    for_cube(n, 0, ext, [&](A3 const &s) {
      if (idx++ % slices != slice) return;
      auto g = coded_grid<N()>(s);
      for_cube(n, 0, hi, [&](A3 const &mn) {
        for_cube(n, 0, hi, [&](A3 const &raw) {
          for (i64 fl = 0; fl < 2; ++fl)
          {
            cur({static_cast<i64>(n), s[0], s[1], s[2], mn[0], mn[1], mn[2], raw[0], raw[1], raw[2], fl});
            refsub_case<N()>(g, s, mn, raw, fl);
          }
        });
      });
    });
  });
}
char const *const refsub_rule =
    "a grid size, a min and an unclamped sup (extents 0..4, components 0..5, thorough N=3: 0..6): the clamp is effective in some component (sup_i > extent_i), or the clamped range has >= 2 cells with N >= 2, is empty/inverted in exactly one component or has an extent of 0 or 1";
void refsub3(i64 slice, i64 slices)
{
  refsub_run(3, 4, opts().thorough() ? 6 : 5, slice, slices);
}
Reg const r_rs12{"pos_ref_subrange_n1_n2", Kind::exhaustive, refsub_rule, [] { refsub_run(1, 4, 5, 0, 1); refsub_run(2, 4, 5, 0, 1); }, refsub_one, refsub_describe};
#define C08_RS3(i) Reg const VERIF_CAT(r_rs3_, i){"pos_ref_subrange_n3_" #i, Kind::exhaustive, refsub_rule, [] { refsub3(i, 16); }, refsub_one, refsub_describe};
C08_RS3(0) C08_RS3(1) C08_RS3(2) C08_RS3(3) C08_RS3(4) C08_RS3(5) C08_RS3(6) C08_RS3(7) C08_RS3(8) C08_RS3(9) C08_RS3(10) C08_RS3(11) C08_RS3(12) C08_RS3(13) C08_RS3(14) C08_RS3(15)

// ------------------------------------------------------------------ section: clamp helpers over signed positions
template <std::size_t N, typename S>
void clamp_case(A3 const &s, A3 const &p)
{
  using U = std::make_unsigned_t<S>;
  using spos = fg::pos<S, N>;
  using upos = fg::pos<U, N>;
  using udim = fg::dim<U, N>;
  bool nt = false, nonneg = true;
  for (std::size_t i = 0; i < N; ++i)
  {
    nt = nt || p[i] <= 0 || p[i] + 1 >= s[i];
    nonneg = nonneg && p[i] >= 0;
  }
  count(nt);
  udim const d = mk<udim, N>(s);
  A3 wmin{{0, 0, 0}}, wsup{{0, 0, 0}};
  for (std::size_t i = 0; i < N; ++i)
  {
    wmin[i] = std::max<i64>(p[i], 0);
    wsup[i] = p[i] < 0 ? 0 : p[i] > s[i] ? s[i] : p[i];
  }
  fg::min<U, N> const m = fg::clamped_min(mk<spos, N>(p));
  if (rd<N>(m.get()) != wmin) fail("grid::clamped_min|value", "clamped_min" + show(N, p) + " = " + show(N, rd<N>(m.get())) + ", expected " + show(N, wmin));
  fg::sup<U, N> const ss = fg::clamped_sup_signed(mk<spos, N>(p), d);
  if (rd<N>(ss.get()) != wsup) fail("grid::clamped_sup_signed|value", "clamped_sup_signed(" + show(N, p) + ", " + show(N, s) + ") = " + show(N, rd<N>(ss.get())) + ", expected " + show(N, wsup));
  if (nonneg)
  {
    fg::sup<U, N> const su = fg::clamped_sup(mk<upos, N>(p), d);
    if (rd<N>(su.get()) != wsup) fail("grid::clamped_sup|value", "clamped_sup(" + show(N, p) + ", " + show(N, s) + ") = " + show(N, rd<N>(su.get())) + ", expected " + show(N, wsup));
  }
}
void clamp_dispatch(std::size_t n, i64 ty, A3 const &s, A3 const &p)
{
  with_n(n, [&](auto N) {
    if (ty == 0) clamp_case<N(), std::ptrdiff_t>(s, p);
    else if (ty == 1) clamp_case<N(), int>(s, p);
    else clamp_case<N(), short>(s, p);
  });
}
Reg const r_clamp{
    "clamps_signed_margin", Kind::exhaustive,
    "a size, a signed position with components -2..extent+2 and a coordinate type (ptrdiff_t, int, short): some component <= 0 or >= extent-1",
    [] {
      for (std::size_t n = 1; n <= 3; ++n)
        for_cube(n, 0, 4, [&](A3 const &s) {
          for_box(n, A3{{-2, -2, -2}}, A3{{s[0] + 2, s[1] + 2, s[2] + 2}}, [&](A3 const &p) {
            for (i64 ty = 0; ty < 3; ++ty)
            {
              cur({static_cast<i64>(n), s[0], s[1], s[2], p[0], p[1], p[2], ty});
              clamp_dispatch(n, ty, s, p);
            }
          });
        });
    },
    [](Ints const &c) {
      std::size_t const n = dec_n(c);
      clamp_dispatch(n, clampi(geti(c, 7), 0, 2), dec3(c, 1, n, 0, 6), dec3(c, 4, n, -3, 9));
    },
    [](Ints const &c) { std::size_t const n = dec_n(c); return size_describe("clamped_min/clamped_sup/clamped_sup_signed", c) + " pos=" + show(n, dec3(c, 4, n, -3, 9)); }};

// ------------------------------------------------------------------ section: resize
template <std::size_t N>
void resize_case(A3 const &so, A3 const &sn, i64 rvalue)
{
  using grid = grid_t<N>;
  using pos = typename grid::pos;
  using dim = typename grid::dim;
  bool nt = size_nontrivial(N, so) || size_nontrivial(N, sn);
  count(nt);
  grid old = coded_grid<N>(so);
  auto const init = [](pos const &p) { return -pos_code(rd<N>(p)); };
  grid const r = rvalue ? fg::resize(std::move(old), mk<dim, N>(sn), init) : fg::resize(old, mk<dim, N>(sn), init);
  i64 const content = ref_content(N, sn);
  if (rd<N>(r.size()) != sn || r.end() - r.begin() != content)
  {
    fail("grid::resize|size", "resize " + show(N, so) + " -> " + show(N, sn) + " has size " + show(N, rd<N>(r.size())));
    return;
  }
  ref_box(N, A3{{0, 0, 0}}, sn, g_exp);
  for (std::size_t k = 0; k < g_exp.size(); ++k)
  {
    A3 const &p = g_exp[k];
    bool const kept = ref_inside(N, p, so);
    int const want = kept ? cell_code(ref_offset(N, p, so)) : -pos_code(p);
    if (r.begin()[static_cast<std::ptrdiff_t>(k)] != want)
    {
      fail(kept ? "grid::resize|kept-cell" : "grid::resize|new-cell", "resize " + show(N, so) + " -> " + show(N, sn) + ": cell " + show(N, p) + " holds " + str(r.begin()[static_cast<std::ptrdiff_t>(k)]) + ", expected " + str(want));
      break;
    }
  }
  if (!rvalue)
  {
    bool same = rd<N>(old.size()) == so && old.end() - old.begin() == ref_content(N, so);
    for (i64 k = 0; same && k < ref_content(N, so); ++k) same = old.begin()[k] == cell_code(k);
    if (!same) fail("grid::resize|source-changed", "resize " + show(N, so) + " -> " + show(N, sn) + " modified its lvalue argument");
  }
}
void resize_run(std::size_t n)
{
  with_n(n, [&](auto N) {
    for_cube(n, 0, 4, [&](A3 const &so) {
      for_cube(n, 0, 4, [&](A3 const &sn) {
        for (i64 rv = 0; rv < 2; ++rv)
        {
          cur({static_cast<i64>(n), so[0], so[1], so[2], sn[0], sn[1], sn[2], rv});
          resize_case<N()>(so, sn, rv);
        }
      });
    });
  });
}
void resize_one(Ints const &c)
{
  std::size_t const n = dec_n(c);
  A3 const so = dec3(c, 1, n, 0, 6), sn = dec3(c, 4, n, 0, 6);
  with_n(n, [&](auto N) { resize_case<N()>(so, sn, geti(c, 7) & 1); });
}
std::string resize_describe(Ints const &c)
{
  std::size_t const n = dec_n(c);
  return "resize N=" + std::to_string(n) + " " + show(n, dec3(c, 1, n, 0, 6)) + " -> " + show(n, dec3(c, 4, n, 0, 6)) + (geti(c, 7) & 1 ? " (rvalue grid)" : " (lvalue grid)");
}
char const *const resize_rule = "a pair (old size, new size), extents 0..4, lvalue or rvalue source: one of the two sizes has content >= 2 with N >= 2 or an extent of 0 or 1";
Reg const r_resize12{"resize_n1_n2", Kind::exhaustive, resize_rule, [] { resize_run(1); resize_run(2); }, resize_one, resize_describe};
Reg const r_resize3{"resize_n3", Kind::exhaustive, resize_rule, [] { resize_run(3); }, resize_one, resize_describe};
}
