// VERIF: tiers=thorough
// C04 - fcppt::either combinators once more (thorough tier only) with value types that own a heap std::string and
// a std::vector<int> (E1 payloads of DESIGN.md): same enumeration, sections suffixed "_heap".
#define C04_HEAP_PAYLOAD
#include "c04_either_impl.hpp"
