// VERIF: lib rc quick_shards=4
// C12 - parse stream reports true line/column and rewinds exactly.
// Oracle: offset / line / column computed from scratch from the text (never incrementally);
// a restored position must make every later observation equal to the from-scratch value at the
// saved offset. Error messages of the character-level parsers are compared with
// "Line l:c: Expected x, got y" where (l,c) is the from-scratch location after the offending
// character. A seekable harness streambuf injects faults (throwing underflow / failing seeks).
#include "verif.hpp"

#include <fcppt/make_ref.hpp>
#include <fcppt/reference_impl.hpp>
#include <fcppt/reference_to_base.hpp>
#include <fcppt/io/get.hpp>
#include <fcppt/optional/object_impl.hpp>
#include <fcppt/either/object_impl.hpp>
#include <fcppt/parse/basic_char.hpp>
#include <fcppt/parse/basic_char_set.hpp>
#include <fcppt/parse/basic_literal.hpp>
#include <fcppt/parse/basic_stream_impl.hpp>
#include <fcppt/parse/basic_string.hpp>
#include <fcppt/parse/error.hpp>
#include <fcppt/parse/get_char.hpp>
#include <fcppt/parse/get_char_error.hpp>
#include <fcppt/parse/get_position.hpp>
#include <fcppt/parse/location.hpp>
#include <fcppt/parse/parse.hpp>
#include <fcppt/parse/phrase_parse.hpp>
#include <fcppt/parse/phrase_parse_stream.hpp>
#include <fcppt/parse/operators/alternative.hpp>
#include <fcppt/parse/position.hpp>
#include <fcppt/parse/result.hpp>
#include <fcppt/parse/set_position.hpp>
#include <fcppt/parse/detail/exception.hpp>
#include <fcppt/parse/detail/stream_impl.hpp>
#include <fcppt/parse/operators/optional.hpp>
#include <fcppt/parse/operators/repetition.hpp>
#include <fcppt/parse/operators/sequence.hpp>
#include <fcppt/parse/skipper/basic_char_set.hpp>
#include <fcppt/parse/skipper/basic_literal.hpp>
#include <fcppt/parse/skipper/basic_space.hpp>
#include <fcppt/parse/skipper/epsilon.hpp>
#include <fcppt/parse/skipper/run.hpp>
#include <fcppt/parse/space_set.hpp>
#include <fcppt/parse/skipper/operators/repetition.hpp>
#include <fcppt/parse/skipper/operators/sequence.hpp>
#include <fcppt/tuple/get.hpp>
#include <fcppt/tuple/object_impl.hpp>

#include <ios>
#include <istream>
#include <sstream>
#include <stdexcept>
#include <streambuf>
#include <string>
#include <type_traits>
#include <vector>

using namespace verif;

namespace
{
namespace fp = fcppt::parse;

// alphabet: the four characters of the property statement first, then two extras used by the
// random section and as "never in the text" expectations
char const alphabet[] = {'a', '\n', ' ', '\t', 'b', 'c'};
// In the char instantiation the extra 'b' is the byte 0xFF (char(-1): a comparison of a narrowed
// character with EOF would take it for the end of input); in the wchar_t instantiation it is U+010A: a character that is not a newline
// but whose low byte is 0x0A (a newline test that goes through a narrower type would count it).
template <typename Ch>
Ch alpha(std::size_t i)
{
  if (i % 6 == 4) return sizeof(Ch) > 1 ? static_cast<Ch>(0x010A) : static_cast<Ch>(0xFF); // char: the byte that equals EOF when narrowed
  return static_cast<Ch>(alphabet[i % 6]);
}
template <typename Ch>
std::string show(Ch c)
{
  switch (static_cast<long>(c))
  {
  case '\n': return "\\n";
  case '\t': return "\\t";
  case ' ': return "_";
  default: break;
  }
  if (static_cast<long>(c) > 32 && static_cast<long>(c) < 127) return std::string(1, static_cast<char>(c));
  return "\\x" + std::to_string(static_cast<long>(c));
}
template <typename Ch>
std::string show(std::basic_string<Ch> const &s)
{
  std::string r = "\"";
  for (Ch c : s) r += show(c);
  return r + "\"";
}
template <typename Ch>
char const *ch_name()
{
  return sizeof(Ch) == 1 ? "char" : "wchar_t";
}

struct Loc
{
  u64 line, col;
};
// from-scratch location of the stream index `offset` in `text` (documentation of basic_stream)
template <typename Ch>
Loc ref_loc(std::basic_string<Ch> const &text, std::size_t offset)
{
  u64 newlines = 0;
  std::size_t after_last = 0;
  for (std::size_t i = 0; i < offset; ++i)
    if (text[i] == static_cast<Ch>('\n'))
    {
      ++newlines;
      after_last = i + 1;
    }
  return Loc{1 + newlines, static_cast<u64>(offset - after_last) + 1};
}

// skipper::basic_space<wchar_t>() does not compile (it names skipper::char_set, the char alias,
// instead of basic_char_set<Ch>); the wide skipper is written out the way basic_space documents it
template <typename Ch>
auto space_skipper()
{
  if constexpr (std::is_same_v<Ch, char>)
    return fp::skipper::basic_space<char>();
  else
    return *fp::skipper::basic_char_set<Ch>{fp::space_set<Ch>()};
}

template <typename Ch>
using stream_ref = fcppt::reference<fp::basic_stream<Ch>>;

template <typename Ch>
stream_ref<Ch> to_ref(fp::detail::stream<Ch> &s)
{
  return fcppt::reference_to_base<fp::basic_stream<Ch>>(fcppt::make_ref(s));
}
template <typename Ch, typename In>
fcppt::reference<std::basic_istream<Ch>> in_ref(In &in)
{
  return fcppt::reference_to_base<std::basic_istream<Ch>>(fcppt::make_ref(in));
}

// compares one observed position with the from-scratch oracle; `cls` = input class of the key
template <typename Ch>
bool check_position(fp::position<Ch> const &p, std::basic_string<Ch> const &text, std::size_t offset, char const *cls)
{
  bool ok = true;
  std::streamoff const off = static_cast<std::streamoff>(p.pos());
  if (off != static_cast<std::streamoff>(offset))
  {
    fail(std::string("stream::get_position|offset|") + cls,
         std::string(ch_name<Ch>()) + " text " + show(text) + ": offset " + str(off) + ", expected " + str(offset));
    ok = false;
  }
  if (!p.location().has_value())
  {
    fail(std::string("stream::get_position|no-location|") + cls, "detail::stream returned a position without location");
    return false;
  }
  fp::location const l = p.location().get_unsafe();
  Loc const e = ref_loc(text, offset);
  if (l.line().get() != e.line)
  {
    fail(std::string("stream::get_position|line|") + cls,
         std::string(ch_name<Ch>()) + " text " + show(text) + " offset " + str(offset) + ": line " + str(l.line().get()) + ", expected " + str(e.line));
    ok = false;
  }
  if (l.column().get() != e.col)
  {
    fail(std::string("stream::get_position|column|") + cls,
         std::string(ch_name<Ch>()) + " text " + show(text) + " offset " + str(offset) + ": column " + str(l.column().get()) + ", expected " + str(e.col));
    ok = false;
  }
  return ok;
}

template <typename Ch>
bool check_char(fcppt::optional::object<Ch> const &c, std::basic_string<Ch> const &text, std::size_t offset, char const *cls)
{
  if (offset >= text.size())
  {
    if (c.has_value())
    {
      fail(std::string("stream::get_char|character-at-end-of-input|") + cls,
           std::string(ch_name<Ch>()) + " text " + show(text) + ": got " + show(c.get_unsafe()) + " at the end of input");
      return false;
    }
    return true;
  }
  if (!c.has_value())
  {
    fail(std::string("stream::get_char|nothing-before-end|") + cls,
         std::string(ch_name<Ch>()) + " text " + show(text) + " offset " + str(offset) + ": got nothing, expected " + show(text[offset]));
    return false;
  }
  if (c.get_unsafe() != text[offset])
  {
    fail(std::string("stream::get_char|wrong-character|") + cls,
         std::string(ch_name<Ch>()) + " text " + show(text) + " offset " + str(offset) + ": got " + show(c.get_unsafe()) + ", expected " + show(text[offset]));
    return false;
  }
  return true;
}

template <typename Ch>
std::string narrow(std::basic_string<Ch> const &s)
{
  std::string r;
  for (Ch c : s) r += c == static_cast<Ch>(' ') ? std::string(" ") : show(c);
  return r;
}

// ---------------------------------------------------------------- text <-> ints
template <typename Ch>
std::basic_string<Ch> text_of(i64 n, i64 code)
{
  std::basic_string<Ch> t;
  u64 c = static_cast<u64>(code);
  for (i64 i = 0; i < n; ++i)
  {
    t.push_back(alpha<Ch>(c % 4));
    c /= 4;
  }
  return t;
}
std::string text_describe(Ints const &c)
{
  i64 const n = c.size() > 1 ? c[1] : 0, code = c.size() > 2 ? c[2] : 0;
  return std::string(c.empty() || c[0] % 2 == 0 ? "char" : "wchar_t") + " text " + show(text_of<char>(n, code));
}

// ---------------------------------------------------------------- canonical history
// read to the end saving the position before every read (and once more after the failed read at
// the end); then for every saved position: restore, observe, re-read to the end.
template <typename Ch>
void canonical(std::basic_string<Ch> const &text)
{
  std::size_t const n = text.size();
  bool has_nl = false;
  for (Ch c : text) has_nl = has_nl || c == static_cast<Ch>('\n');
  count(has_nl || n > 0);
  std::basic_istringstream<Ch> in{text};
  fp::detail::stream<Ch> st{in_ref<Ch>(in)};
  stream_ref<Ch> const r = to_ref(st);
  std::vector<fp::position<Ch>> saved;
  saved.reserve(n + 2);
  try
  {
    for (std::size_t i = 0; i <= n; ++i)
    {
      saved.push_back(fp::get_position(r));
      if (!check_position(saved.back(), text, i, i == 0 ? "initial" : "first-pass")) return;
      if (!check_char(fp::get_char(r), text, i, "first-pass")) return;
    }
    // the read at the end failed: the position is still the end, and can be taken
    saved.push_back(fp::get_position(r));
    if (!check_position(saved.back(), text, n, "after-end-of-input")) return;
    if (!check_char(fp::get_char(r), text, n, "second-read-at-end")) return;
    for (std::size_t k = 0; k < saved.size(); ++k)
    {
      std::size_t const start = k < n ? k : n;
      fp::set_position(r, saved[k]);
      // odd k: read immediately after the restore, even k: observe the position first
      if (k % 2 == 0 && !check_position(fp::get_position(r), text, start, "after-restore")) return;
      for (std::size_t j = start; j <= n; ++j)
      {
        if (!check_char(fp::get_char(r), text, j, "after-restore")) return;
        if (j < n || k % 4 < 2)
          if (!check_position(fp::get_position(r), text, j < n ? j + 1 : n, j < n ? "reread-after-restore" : "end-after-restore")) return;
      }
    }
    // get_char_error: documented to give the message "EOF" at the end
    fp::set_position(r, saved[n]);
    fp::result<Ch, Ch> const e = fp::get_char_error(r);
    std::basic_string<Ch> eof_text;
    for (char c : std::string("EOF")) eof_text.push_back(static_cast<Ch>(c));
    if (!e.has_failure())
      fail("get_char_error|success-at-end-of-input", std::string(ch_name<Ch>()) + " text " + show(text));
    else if (e.get_failure_unsafe().get() != eof_text)
      fail("get_char_error|message-at-end-of-input", "message " + show(e.get_failure_unsafe().get()) + ", documented: EOF");
    if (n > 0)
    {
      fp::set_position(r, saved[n - 1]);
      fp::result<Ch, Ch> const s = fp::get_char_error(r);
      if (!s.has_success() || s.get_success_unsafe() != text[n - 1])
        fail("get_char_error|value-before-end", std::string(ch_name<Ch>()) + " text " + show(text) + ": last character not returned after restoring the position before it");
    }
  }
  catch (fp::detail::exception<Ch> const &e)
  {
    fail("stream|exception-on-intact-stream|canonical-history", std::string(ch_name<Ch>()) + " text " + show(text) + ": " + narrow(e.what()));
  }
  // io::get directly: the text, then nothing, nothing
  std::basic_istringstream<Ch> in2{text};
  for (std::size_t i = 0; i <= n + 1; ++i)
  {
    fcppt::optional::object<Ch> const c = fcppt::io::get(in2);
    bool const expect = i < n;
    if (c.has_value() != expect || (expect && c.get_unsafe() != text[i]))
    {
      fail(expect ? "io::get|value" : "io::get|value-at-end-of-file", std::string(ch_name<Ch>()) + " text " + show(text) + " index " + str(i));
      break;
    }
  }
}

void canon_one(Ints const &c)
{
  i64 const ct = c.at(0) % 2, n = c.at(1), code = c.at(2);
  if (ct == 0)
    canonical<char>(text_of<char>(n, code));
  else
    canonical<wchar_t>(text_of<wchar_t>(n, code));
}
void canon_run()
{
  i64 const maxlen = opts().thorough() ? 11 : 9;
  u64 idx = 0;
  u64 const nsh = static_cast<u64>(opts().nshards > 0 ? opts().nshards : 1), sh = static_cast<u64>(opts().shard);
  for (i64 n = 0; n <= maxlen; ++n)
    for (i64 code = 0; code < (1LL << (2 * n)); ++code)
    {
      if (idx++ % nsh != sh) continue;
      for (i64 ct = 0; ct < 2; ++ct)
      {
        cur3(ct, n, code);
        if (ct == 0)
          canonical<char>(text_of<char>(n, code));
        else
          canonical<wchar_t>(text_of<wchar_t>(n, code));
      }
    }
}
struct RegSelf
{
  RegSelf(std::string name, Kind kind, std::string rule, std::function<void()> run, std::function<void(Ints const &)> one, std::function<std::string(Ints const &)> d)
  {
    add_section(std::move(name), kind, std::move(rule), std::move(run), std::move(one), std::move(d)).self_sharded = true;
  }
};
RegSelf const r_canon{
    "canonical_history", Kind::exhaustive,
    "every text over {a,newline,space,tab} up to the bound, char and wchar_t, with the canonical save-all/restore-each/re-read history; non-trivial when the text is non-empty (every history reads at the end of input and then restores; with a newline the restores cross it)",
    canon_run, canon_one, text_describe};

// ---------------------------------------------------------------- long lines / many lines
// The texts above are short. Line and column are counters: a line of 65535 and more characters and
// a text of 65536 and more lines (and 2^8 - the same boundaries for narrower counters) must still be
// reported exactly - also in the location that is saved and restored.
template <typename Ch>
void long_case(std::size_t shape, std::size_t len)
{
  // shape 0: one line of `len` characters; 1: a short line, then one line of `len` characters;
  // 2: `len` empty lines followed by "ab"
  std::basic_string<Ch> text;
  if (shape == 1) { text += static_cast<Ch>('a'); text += static_cast<Ch>('\n'); }
  if (shape == 2) text.assign(len, static_cast<Ch>('\n')), text += static_cast<Ch>('a'), text += static_cast<Ch>('b');
  else text.append(len, static_cast<Ch>('a'));
  count(len >= 255);
  std::basic_istringstream<Ch> in{text};
  fp::detail::stream<Ch> st{in_ref<Ch>(in)};
  stream_ref<Ch> const r = to_ref(st);
  std::string const what = std::string(ch_name<Ch>()) + (shape == 0 ? " one line of " : shape == 1 ? " 'a', newline and a line of " : " text of ") + str(len) + (shape == 2 ? " empty lines and 'ab'" : " characters");
  auto const check = [&](std::size_t offset, char const *cls) {
    fp::position<Ch> const p = fp::get_position(r);
    Loc const e = ref_loc(text, offset);
    if (static_cast<std::size_t>(static_cast<std::streamoff>(p.pos())) != offset) fail(std::string("stream::get_position|offset|") + cls, what + ": offset " + str(static_cast<std::streamoff>(p.pos())) + ", expected " + str(offset));
    if (!p.location().has_value()) { fail(std::string("stream::get_position|no-location|") + cls, what); return p; }
    fp::location const l = p.location().get_unsafe();
    if (l.line().get() != e.line) fail(std::string("stream::get_position|line|") + cls, what + " at offset " + str(offset) + ": line " + str(l.line().get()) + ", expected " + str(e.line));
    if (l.column().get() != e.col) fail(std::string("stream::get_position|column|") + cls, what + " at offset " + str(offset) + ": column " + str(l.column().get()) + ", expected " + str(e.col));
    return p;
  };
  try
  {
    std::size_t offset = 0;
    fp::position<Ch> const start = check(0, "long-text");
    fcppt::optional::object<fp::position<Ch>> near_end;
    while (offset < text.size())
    {
      if (offset + 2 == text.size()) near_end = fcppt::optional::object<fp::position<Ch>>{check(offset, "long-text")};
      fcppt::optional::object<Ch> const c = fp::get_char(r);
      if (!c.has_value() || c.get_unsafe() != text[offset]) { fail("stream::get_char|wrong-character|long-text", what + " at offset " + str(offset)); return; }
      ++offset;
      if (offset == 255 || offset == 256 || offset == 65535 || offset == 65536 || offset == 65537 || offset == text.size()) check(offset, "long-text");
    }
    if (fp::get_char(r).has_value()) fail("stream::get_char|character-at-end-of-input|long-text", what);
    // restore the position saved two characters before the end: reads and positions repeat
    if (near_end.has_value())
    {
      fp::set_position(r, near_end.get_unsafe());
      check(text.size() - 2, "long-text-restored");
      fcppt::optional::object<Ch> const c = fp::get_char(r);
      if (!c.has_value() || c.get_unsafe() != text[text.size() - 2]) fail("stream::get_char|wrong-character|long-text-restored", what);
      check(text.size() - 1, "long-text-restored");
    }
    fp::set_position(r, start);
    check(0, "long-text-restored");
  }
  catch (std::exception const &e)
  {
    fail("stream|undocumented-exception|long-text", what + ": " + e.what());
  }
}
std::size_t const long_lens[] = {254, 255, 256, 257, 65534, 65535, 65536, 65537, 131075};
void long_one(Ints const &c)
{
  std::size_t const shape = static_cast<std::size_t>(static_cast<u64>(c.at(0)) % 3), li = static_cast<std::size_t>(static_cast<u64>(c.at(1)) % 9);
  if (c.at(2) % 2 == 0) long_case<char>(shape, long_lens[li]);
  else long_case<wchar_t>(shape, long_lens[li]);
}
Reg const r_long{"long_lines_many_lines", Kind::exhaustive, "a line of at least 255 characters or a text of at least 255 lines",
                 [] {
                   for (i64 sh = 0; sh < 3; ++sh)
                     for (i64 li = 0; li < 9; ++li)
                       for (i64 w = 0; w < 2; ++w) { cur3(sh, li, w); long_one({sh, li, w}); }
                 },
                 long_one,
                 [](Ints const &c) {
                   std::size_t const shape = static_cast<std::size_t>(static_cast<u64>(c.at(0)) % 3), li = static_cast<std::size_t>(static_cast<u64>(c.at(1)) % 9);
                   return std::string(c.at(2) % 2 == 0 ? "char" : "wchar_t") + (shape == 0 ? " one line of " : shape == 1 ? " 'a', newline and a line of " : " text of ") + std::to_string(long_lens[li]) + (shape == 2 ? " empty lines and 'ab'" : " characters");
                 }};

// ---------------------------------------------------------------- a stream that has failed BEFORE it is used
// The underlying stream is handed over in a failed state (failbit after a failed extraction, badbit),
// with unread characters still in its buffer. "A failing underlying stream yields a failure, never a
// character": whatever order the position and the characters are asked for in, no character comes
// back, and a parser run on it does not succeed. (An exception is a failure, too; the position
// obtained from a failing stream is not judged.)
template <typename Ch>
void prefailed_case(std::size_t state, std::size_t order)
{
  std::basic_string<Ch> text;
  for (char c : std::string("xy\nz")) text += static_cast<Ch>(c);
  std::ios_base::iostate const st = state == 0 ? std::ios_base::failbit : state == 1 ? std::ios_base::badbit : (std::ios_base::failbit | std::ios_base::badbit);
  count(true);
  std::string const ctx = std::string(ch_name<Ch>()) + " stream over \"xy\\nz\" with " + (state == 0 ? "failbit" : state == 1 ? "badbit" : "failbit|badbit") + " set before use, ";
  auto const no_char = [&](stream_ref<Ch> const &r, char const *when) {
    try
    {
      fcppt::optional::object<Ch> const c = fp::get_char(r);
      if (c.has_value()) fail("stream+failed-before-use|character-from-a-failing-stream", ctx + when + ": get_char returned " + show(c.get_unsafe()));
    }
    catch (...)
    {
    }
  };
  if (order < 3)
  {
    std::basic_istringstream<Ch> in{text};
    in.setstate(st);
    fp::detail::stream<Ch> s{in_ref<Ch>(in)};
    stream_ref<Ch> const r = to_ref(s);
    if (order == 0) no_char(r, "get_char first");
    else
    {
      fcppt::optional::object<fp::position<Ch>> pos;
      try { pos = fcppt::optional::object<fp::position<Ch>>{fp::get_position(r)}; } catch (...) {}
      no_char(r, "get_position, then get_char");
      if (order == 2 && pos.has_value())
      {
        try { fp::set_position(r, pos.get_unsafe()); } catch (...) {}
        no_char(r, "get_position, set_position, then get_char");
      }
    }
  }
  else
  {
    std::basic_istringstream<Ch> in{text};
    in.setstate(st);
    try
    {
      auto const res = fp::phrase_parse_stream(
          fp::basic_literal<Ch>{static_cast<Ch>('x')} | fp::basic_literal<Ch>{static_cast<Ch>('y')}, in, fp::skipper::epsilon{});
      if (res.has_success()) fail("stream+failed-before-use|parse-succeeded-on-a-failing-stream", ctx + "phrase_parse_stream(literal x | literal y) succeeded");
    }
    catch (...)
    {
    }
  }
}
void prefailed_one(Ints const &c)
{
  std::size_t const state = static_cast<std::size_t>(static_cast<u64>(c.at(0)) % 3), order = static_cast<std::size_t>(static_cast<u64>(c.at(1)) % 4);
  if (c.at(2) % 2 == 0) prefailed_case<char>(state, order);
  else prefailed_case<wchar_t>(state, order);
}
Reg const r_prefailed{"stream_failed_before_use", Kind::exhaustive, "every case",
                      [] { for (i64 s = 0; s < 3; ++s) for (i64 o = 0; o < 4; ++o) for (i64 w = 0; w < 2; ++w) { cur3(s, o, w); prefailed_one({s, o, w}); } },
                      prefailed_one,
                      [](Ints const &c) {
                        static char const *const st[] = {"failbit", "badbit", "failbit|badbit"};
                        static char const *const od[] = {"get_char", "get_position, get_char", "get_position, set_position, get_char", "phrase_parse_stream(literal | literal)"};
                        return std::string(c.at(2) % 2 == 0 ? "char" : "wchar_t") + " stream with " + st[static_cast<u64>(c.at(0)) % 3] + " set before use: " + od[static_cast<u64>(c.at(1)) % 4];
                      }};

// ---------------------------------------------------------------- random histories
template <typename Ch>
void random_history(Choices &c)
{
  std::size_t const n = static_cast<std::size_t>(c.range(0, 40));
  c.skip_to_frame();
  static std::size_t const weights[] = {0, 0, 1, 1, 2, 3, 4, 1};
  std::basic_string<Ch> text;
  for (std::size_t i = 0; i < n; ++i) text.push_back(alpha<Ch>(weights[c.index(8)]));
  c.skip_to_frame();
  std::basic_istringstream<Ch> in{text};
  fp::detail::stream<Ch> st{in_ref<Ch>(in)};
  stream_ref<Ch> const r = to_ref(st);
  std::vector<std::pair<fp::position<Ch>, std::size_t>> saved;
  std::size_t offset = 0;
  bool read_at_end = false, crossed_newline = false, restored_after_end = false;
  try
  {
    int ops = 0;
    while (!c.empty() && ops++ < 400)
    {
      std::size_t const op = c.index(8);
      if (op < 4)
      {
        if (!check_char(fp::get_char(r), text, offset, "random-history")) return;
        if (offset < n)
          ++offset;
        else
          read_at_end = true;
      }
      else if (op < 6 || saved.empty())
      {
        fp::position<Ch> const p = fp::get_position(r);
        if (!check_position(p, text, offset, "random-history")) return;
        saved.emplace_back(p, offset);
      }
      else
      {
        auto const &s = saved[c.index(saved.size())];
        fp::set_position(r, s.first);
        std::size_t const lo = std::min(offset, s.second), hi = std::max(offset, s.second);
        for (std::size_t i = lo; i < hi; ++i) crossed_newline = crossed_newline || text[i] == static_cast<Ch>('\n');
        restored_after_end = restored_after_end || read_at_end;
        offset = s.second;
      }
    }
    // close the history: observe the position and re-read to the end
    if (!check_position(fp::get_position(r), text, offset, "random-history-final")) return;
    for (; offset <= n; ++offset)
    {
      if (!check_char(fp::get_char(r), text, offset, "random-history-final")) return;
    }
    if (!check_position(fp::get_position(r), text, n, "random-history-final")) return;
  }
  catch (fp::detail::exception<Ch> const &e)
  {
    fail("stream|exception-on-intact-stream|random-history", std::string(ch_name<Ch>()) + " text " + show(text) + ": " + narrow(e.what()));
  }
  count(crossed_newline || restored_after_end);
}
void random_one(Ints const &v)
{
  Choices c(v);
  if (c.range(0, 1) == 0)
    random_history<char>(c);
  else
    random_history<wchar_t>(c);
}
std::string random_describe(Ints const &v)
{
  Choices c(v);
  bool const wide = c.range(0, 1) != 0;
  std::size_t const n = static_cast<std::size_t>(c.range(0, 40));
  c.skip_to_frame();
  static std::size_t const weights[] = {0, 0, 1, 1, 2, 3, 4, 1};
  std::string text;
  for (std::size_t i = 0; i < n; ++i) text.push_back(alpha<char>(weights[c.index(8)]));
  c.skip_to_frame();
  std::string r = std::string(wide ? "wchar_t" : "char") + " text " + show(text) + " ops";
  std::size_t nsaved = 0;
  int ops = 0;
  while (!c.empty() && ops++ < 400)
  {
    std::size_t const op = c.index(8);
    if (op < 4)
      r += " get";
    else if (op < 6 || nsaved == 0)
      r += " save#" + std::to_string(nsaved++);
    else
      r += " restore#" + std::to_string(c.index(nsaved));
  }
  return r + " (then observe, re-read to the end)";
}
Reg const r_random{
    "random_history", Kind::random,
    "random text (length <= 40 over {a,newline,space,tab,b}) and random interleaving of get_char / get_position (saved) / set_position(saved k); non-trivial when a restore moves across a newline or happens after a read at the end of input",
    [] { run_random(*g_cur.sec, {40000, 40}, {100000, 60}); }, random_one, random_describe};

// ---------------------------------------------------------------- error locations
template <typename Ch>
std::basic_string<Ch> widen_ascii(std::string const &s)
{
  std::basic_string<Ch> r;
  for (char c : s) r.push_back(static_cast<Ch>(c));
  return r;
}
template <typename Ch>
std::basic_string<Ch> expected_prefix(std::basic_string<Ch> const &text, std::size_t after_offset)
{
  Loc const l = ref_loc(text, after_offset);
  return widen_ascii<Ch>("Line " + std::to_string(l.line) + ":" + std::to_string(l.col) + ": Expected ");
}
template <typename Ch>
bool starts_with(std::basic_string<Ch> const &s, std::basic_string<Ch> const &p)
{
  return s.size() >= p.size() && s.compare(0, p.size(), p) == 0;
}

// judge the outcome of "expect x at index k of text"
// kind: 0 literal (full message prefix known), 1 char_set (set text unspecified)
template <typename Ch>
void judge_expect(
    char const *site, bool has_failure, std::basic_string<Ch> const &message, std::basic_string<Ch> const &text, std::size_t k, bool accepted, Ch x, int kind)
{
  std::string const ctx = std::string(ch_name<Ch>()) + " text " + show(text) + " index " + str(k) + " expecting " + show(x);
  if (k >= text.size())
  {
    if (!has_failure) fail(std::string(site) + "|success-at-end-of-input", ctx);
    return;
  }
  if (accepted)
  {
    if (has_failure) fail(std::string(site) + "|matching-character-rejected", ctx + ": " + narrow(message));
    return;
  }
  if (!has_failure)
  {
    fail(std::string(site) + "|mismatch-accepted", ctx);
    return;
  }
  std::basic_string<Ch> pre = expected_prefix(text, k + 1);
  std::basic_string<Ch> const got = widen_ascii<Ch>(", got ") + text[k];
  bool ok;
  if (kind == 0)
  {
    pre += x;
    pre += got;
    ok = starts_with(message, pre);
  }
  else
    ok = starts_with(message, pre) && message.find(got, pre.size()) != std::basic_string<Ch>::npos;
  if (!ok)
  {
    bool const nl = text[k] == static_cast<Ch>('\n');
    bool prior_nl = false;
    for (std::size_t i = 0; i < k; ++i) prior_nl = prior_nl || text[i] == static_cast<Ch>('\n');
    fail(std::string(site) + "|error-location|" + (nl ? "offending-newline" : prior_nl ? "after-newline" : "first-line"),
         ctx + ": message \"" + narrow(message) + "\", expected to start with \"" + narrow(pre) + (kind == 0 ? "\"" : "<set>, got " + show(text[k]) + "\""));
  }
}

template <typename Ch>
std::size_t skip_ws(std::basic_string<Ch> const &t, std::size_t i)
{
  while (i < t.size() && (t[i] == static_cast<Ch>(' ') || t[i] == static_cast<Ch>('\n') || t[i] == static_cast<Ch>('\t'))) ++i;
  return i;
}

template <typename Ch>
void error_case(std::basic_string<Ch> const &text, std::size_t k, std::size_t xi)
{
  std::size_t const n = text.size();
  Ch const x = alpha<Ch>(xi), other = static_cast<Ch>('c');
  bool nontrivial = false;
  for (std::size_t i = 0; i <= k && i < n; ++i) nontrivial = nontrivial || text[i] == static_cast<Ch>('\n');
  count(nontrivial || k == n);
  using str_t = std::basic_string<Ch>;
  try
  {
    // Every parse stands for itself: directly before, the same failure is provoked at the SAME
    // offset in a twin text whose first character is toggled between a newline and a letter (so
    // that line and column at that offset differ). Its message is not judged; the messages below
    // must not depend on it.
    if (k >= 1 && k <= n)
    {
      str_t twin = text;
      twin[0] = twin[0] == static_cast<Ch>('\n') ? static_cast<Ch>('a') : static_cast<Ch>('\n');
      std::basic_istringstream<Ch> in{twin};
      auto const parser = fp::basic_string<Ch>{str_t{twin.substr(0, k)}} >> fp::basic_literal<Ch>{x};
      (void)fp::phrase_parse_stream(parser, static_cast<std::basic_istream<Ch> &>(in), fp::skipper::epsilon{});
    }
    // parser level: string(t[0,k)) >> literal(x) / char_set{x,c}
    {
      std::basic_istringstream<Ch> in{text};
      auto const parser = fp::basic_string<Ch>{str_t{text.substr(0, k)}} >> fp::basic_literal<Ch>{x};
      auto const res = fp::phrase_parse_stream(parser, static_cast<std::basic_istream<Ch> &>(in), fp::skipper::epsilon{});
      judge_expect("parse::literal", res.has_failure(), res.has_failure() ? res.get_failure_unsafe().get() : str_t{}, text, k, k < n && text[k] == x, x, 0);
    }
    {
      std::basic_istringstream<Ch> in{text};
      auto const parser = fp::basic_string<Ch>{str_t{text.substr(0, k)}} >> fp::basic_char_set<Ch>{x, other};
      auto const res = fp::phrase_parse_stream(parser, static_cast<std::basic_istream<Ch> &>(in), fp::skipper::epsilon{});
      judge_expect("parse::char_set", res.has_failure(), res.has_failure() ? res.get_failure_unsafe().get() : str_t{}, text, k, k < n && text[k] == x, x, 1);
      if (res.has_success() && k < n && text[k] == x)
      {
        // the char_set parser returns the character it read
        if (res.get_success_unsafe() != x) fail("parse::char_set|value", "returned a different character than it accepted");
      }
    }
    // skipper level on a stream that has consumed k characters
    for (int variant = 0; variant < 2; ++variant)
    {
      std::basic_istringstream<Ch> in{text};
      fp::detail::stream<Ch> st{in_ref<Ch>(in)};
      stream_ref<Ch> const r = to_ref(st);
      for (std::size_t i = 0; i < k; ++i)
        if (!check_char(fp::get_char(r), text, i, "error-location-prefix")) return;
      fp::skipper::result<Ch> const res = variant == 0 ? fp::skipper::run(fp::skipper::basic_literal<Ch>{x}, r) : fp::skipper::run(fp::skipper::basic_char_set<Ch>{x, other}, r);
      judge_expect(variant == 0 ? "skipper::literal" : "skipper::char_set", res.has_failure(), res.has_failure() ? res.get_failure_unsafe().get() : str_t{}, text, k, k < n && text[k] == x, x, variant);
      // whatever the verdict, exactly one character was consumed (none at the end)
      check_position(fp::get_position(r), text, k < n ? k + 1 : n, "after-skipper");
    }
  }
  catch (fp::detail::exception<Ch> const &e)
  {
    fail("parse|exception-on-intact-stream|error-location", narrow(e.what()));
  }
}

// literal(x) >> literal(y) under the space skipper: the skipper's repetition reads one character
// too many and restores; the reported location must not be affected by that
template <typename Ch>
void space_case(std::basic_string<Ch> const &text, std::size_t xi, std::size_t yi)
{
  static std::size_t const cand[] = {0, 4, 2}; // a, b, space (a space can never match: it is skipped)
  Ch const x = alpha<Ch>(cand[xi % 3]), y = alpha<Ch>(cand[yi % 3]);
  using str_t = std::basic_string<Ch>;
  std::size_t const n = text.size();
  std::size_t const i = skip_ws(text, 0);
  bool nl = false;
  for (Ch c : text) nl = nl || c == static_cast<Ch>('\n');
  count(nl);
  std::basic_istringstream<Ch> in{text};
  auto const parser = fp::basic_literal<Ch>{x} >> fp::basic_literal<Ch>{y};
  auto const res = fp::phrase_parse_stream(parser, static_cast<std::basic_istream<Ch> &>(in), space_skipper<Ch>());
  str_t const msg = res.has_failure() ? res.get_failure_unsafe().get() : str_t{};
  if (i >= n || text[i] != x)
  {
    judge_expect("parse::literal+space-skipper|first", res.has_failure(), msg, text, i, false, x, 0);
    return;
  }
  std::size_t const j = skip_ws(text, i + 1);
  judge_expect("parse::literal+space-skipper|second", res.has_failure(), msg, text, j, j < n && text[j] == y, y, 0);
}

void error_one(Ints const &c)
{
  i64 const ct = c.at(0) % 2, n = c.at(1), code = c.at(2), k = c.at(3), x = c.at(4);
  if (k < 0 || k > n) return;
  if (c.size() > 5 && c[5] >= 0)
  {
    if (ct == 0) space_case<char>(text_of<char>(n, code), static_cast<std::size_t>(x), static_cast<std::size_t>(c[5]));
    else space_case<wchar_t>(text_of<wchar_t>(n, code), static_cast<std::size_t>(x), static_cast<std::size_t>(c[5]));
    return;
  }
  if (ct == 0) error_case<char>(text_of<char>(n, code), static_cast<std::size_t>(k), static_cast<std::size_t>(x));
  else error_case<wchar_t>(text_of<wchar_t>(n, code), static_cast<std::size_t>(k), static_cast<std::size_t>(x));
}
void error_run()
{
  i64 const maxlen = opts().thorough() ? 7 : 6;
  u64 idx = 0;
  u64 const nsh = static_cast<u64>(opts().nshards > 0 ? opts().nshards : 1), sh = static_cast<u64>(opts().shard);
  for (i64 n = 0; n <= maxlen; ++n)
    for (i64 code = 0; code < (1LL << (2 * n)); ++code)
    {
      if (idx++ % nsh != sh) continue;
      for (i64 ct = 0; ct < 2; ++ct)
      {
        for (i64 k = 0; k <= n; ++k)
          for (i64 x = 0; x < 5; ++x)
          {
            cur({ct, n, code, k, x, -1});
            error_one({ct, n, code, k, x, -1});
          }
        for (i64 x = 0; x < 3; ++x)
          for (i64 y = 0; y < 3; ++y)
          {
            cur({ct, n, code, 0, x, y});
            error_one({ct, n, code, 0, x, y});
          }
      }
    }
}
std::string error_describe(Ints const &c)
{
  std::string r = text_describe(c);
  if (c.size() > 5 && c[5] >= 0)
  {
    static std::size_t const cand[] = {0, 4, 2};
    return r + ", literal(" + show(alpha<char>(cand[c[4] % 3])) + ") >> literal(" + show(alpha<char>(cand[c[5] % 3])) + ") with the space skipper";
  }
  return r + ", string(text[0," + std::to_string(c.size() > 3 ? c[3] : 0) + ")) >> literal/char_set(" + show(alpha<char>(static_cast<std::size_t>(c.size() > 4 ? c[4] : 0))) + "), skipper::literal/char_set after reading the prefix";
}
RegSelf const r_error{
    "error_location", Kind::exhaustive,
    "every text up to the bound, every index k (including the end) and every expected character x: string(t[0,k)) >> literal(x) / char_set{x,c}, skipper::literal / skipper::char_set on a stream that consumed k characters, literal >> literal under the space skipper; non-trivial when a newline lies at or before the offending character, or the expectation hits the end of input",
    error_run, error_one, error_describe};

// ---------------------------------------------------------------- fault injection
// a seekable streambuf over the text serving one character per underflow; from the k-th underflow
// on (mode 0) every underflow throws, or from the k-th positioning call on (mode 1) every
// seekoff/seekpos fails.
template <typename Ch>
class faulty_buf : public std::basic_streambuf<Ch>
{
public:
  using base = std::basic_streambuf<Ch>;
  using int_type = typename base::int_type;
  using pos_type = typename base::pos_type;
  using off_type = typename base::off_type;
  using traits = typename base::traits_type;
  faulty_buf(std::basic_string<Ch> text, int mode, long fault_at) : text_{std::move(text)}, mode_{mode}, fault_at_{fault_at}
  {
    place(0);
  }
  bool faulted() const { return faulted_; }
  long underflows() const { return underflows_; }
  long seeks() const { return seeks_; }

protected:
  int_type underflow() override
  {
    ++underflows_;
    if (mode_ == 0 && underflows_ >= fault_at_)
    {
      faulted_ = true;
      throw std::runtime_error("injected read fault");
    }
    std::size_t const c = current();
    if (c >= text_.size()) return traits::eof();
    Ch *const p = text_.data() + c;
    base_ = c;
    this->setg(p, p, p + 1);
    return traits::to_int_type(*p);
  }
  pos_type seekoff(off_type off, std::ios_base::seekdir dir, std::ios_base::openmode which) override
  {
    if (!(which & std::ios_base::in)) return pos_type(off_type(-1));
    off_type const origin = dir == std::ios_base::beg ? off_type(0) : dir == std::ios_base::cur ? static_cast<off_type>(current()) : static_cast<off_type>(text_.size());
    return this->go(origin + off);
  }
  pos_type seekpos(pos_type pos, std::ios_base::openmode which) override
  {
    if (!(which & std::ios_base::in)) return pos_type(off_type(-1));
    return this->go(static_cast<off_type>(pos));
  }

private:
  std::size_t current() const { return base_ + static_cast<std::size_t>(this->gptr() - this->eback()); }
  void place(std::size_t c)
  {
    Ch *const p = text_.data() + c;
    base_ = c;
    this->setg(p, p, p);
  }
  pos_type go(off_type target)
  {
    ++seeks_;
    if (mode_ == 1 && seeks_ >= fault_at_)
    {
      faulted_ = true;
      return pos_type(off_type(-1));
    }
    if (target < 0 || target > static_cast<off_type>(text_.size())) return pos_type(off_type(-1));
    place(static_cast<std::size_t>(target));
    return pos_type(target);
  }
  std::basic_string<Ch> text_;
  int mode_;
  long fault_at_;
  std::size_t base_{0};
  long underflows_{0}, seeks_{0};
  bool faulted_{false};
};

// stream level: the canonical history on a faulty stream. Before the fault every observation is
// the from-scratch value; after it no character is produced: get_char returns nothing or the
// stream reports the failure (fcppt::parse::detail::exception, which phrase_parse converts).
template <typename Ch>
void fault_stream_case(std::basic_string<Ch> const &text, int mode, long fault_at)
{
  std::size_t const n = text.size();
  faulty_buf<Ch> buf{text, mode, fault_at};
  std::basic_istream<Ch> in{&buf};
  fp::detail::stream<Ch> st{fcppt::make_ref(in)};
  stream_ref<Ch> const r = to_ref(st);
  std::vector<std::pair<fp::position<Ch>, std::size_t>> saved;
  std::string const ctx = std::string(ch_name<Ch>()) + " text " + show(text) + (mode == 0 ? " read fault at underflow " : " seek fault at positioning call ") + str(fault_at);
  char const *const site = mode == 0 ? "stream+read-fault" : "stream+seek-fault";
  // one guarded step; returns false when the history cannot continue (failure reported by exception)
  auto get = [&](std::size_t offset) -> int { // 1 = ok, continue; 0 = stream reported failure; -1 = violation
    bool const before = buf.faulted();
    try
    {
      fcppt::optional::object<Ch> const c = fp::get_char(r);
      if (buf.faulted())
      {
        if (c.has_value() && (before || mode == 0))
        {
          fail(std::string(site) + "|character-after-fault", ctx + ": get_char returned " + show(c.get_unsafe()) + " after the fault");
          return -1;
        }
        if (mode == 0) return 0;
      }
      if (mode == 1 && buf.faulted()) return check_char(c, text, offset, "seek-fault") ? 1 : -1;
      return check_char(c, text, offset, "before-fault") ? 1 : -1;
    }
    catch (fp::detail::exception<Ch> const &)
    {
      if (!buf.faulted())
      {
        fail(std::string(site) + "|exception-before-fault", ctx);
        return -1;
      }
      return 0;
    }
  };
  auto getpos = [&](std::size_t offset, bool save) -> int {
    try
    {
      fp::position<Ch> const p = fp::get_position(r);
      if (buf.faulted()) return 0; // a position obtained from a failing stream: nothing is demanded of it
      if (!check_position(p, text, offset, "before-fault")) return -1;
      if (save) saved.emplace_back(p, offset);
      return 1;
    }
    catch (fp::detail::exception<Ch> const &)
    {
      if (!buf.faulted())
      {
        fail(std::string(site) + "|exception-before-fault", ctx);
        return -1;
      }
      return 0;
    }
  };
  auto setpos = [&](fp::position<Ch> const &p) -> int {
    try
    {
      fp::set_position(r, p);
      return buf.faulted() ? 0 : 1;
    }
    catch (fp::detail::exception<Ch> const &)
    {
      if (!buf.faulted())
      {
        fail(std::string(site) + "|exception-before-fault", ctx);
        return -1;
      }
      return 0;
    }
  };
  // after the stream reported the failure: whatever is called next, no character appears
  auto after = [&] {
    for (int i = 0; i < 3; ++i)
    {
      try
      {
        fcppt::optional::object<Ch> const c = fp::get_char(r);
        if (c.has_value() && mode == 0)
        {
          fail(std::string(site) + "|character-after-fault", ctx + ": a later get_char returned " + show(c.get_unsafe()));
          return;
        }
      }
      catch (fp::detail::exception<Ch> const &)
      {
      }
      try
      {
        (void)fp::get_position(r);
      }
      catch (fp::detail::exception<Ch> const &)
      {
      }
    }
  };
  try
  {
    int s = 1;
    for (std::size_t i = 0; i <= n && s == 1; ++i)
    {
      s = getpos(i, true);
      if (s == 1) s = get(i);
    }
    if (s == 1) s = getpos(n, true);
    for (std::size_t k = 0; k < saved.size() && s == 1; ++k)
    {
      s = setpos(saved[k].first);
      if (s == 1 && k % 2 == 0) s = getpos(saved[k].second, false);
      for (std::size_t j = saved[k].second; j <= n && s == 1; ++j)
      {
        s = get(j);
        if (s == 1 && j < n) s = getpos(j + 1, false);
      }
    }
    if (s == 0) after();
  }
  catch (std::exception const &e)
  {
    fail(std::string(site) + "|foreign-exception-escaped", ctx + ": " + e.what());
  }
}

// parser level: phrase_parse_stream on the faulty stream
template <typename Ch>
void fault_parser_case(std::basic_string<Ch> const &text, int mode, long fault_at, int parser_kind)
{
  using str_t = std::basic_string<Ch>;
  std::size_t const n = text.size();
  faulty_buf<Ch> buf{text, mode, fault_at};
  std::basic_istream<Ch> in{&buf};
  std::string const ctx = std::string(ch_name<Ch>()) + " text " + show(text) + (mode == 0 ? " read fault at underflow " : " seek fault at positioning call ") + str(fault_at);
  char const *const site = mode == 0 ? "phrase_parse_stream+read-fault" : "phrase_parse_stream+seek-fault";
  static char const *const pnames[] = {"*char_", "string(text)", "-literal(a) >> *char_ under space skipper"};
  try
  {
    bool failure = false, value_ok = true;
    if (parser_kind == 0)
    {
      auto const parser = *fp::basic_char<Ch>{};
      auto const res = fp::phrase_parse_stream(parser, in, fp::skipper::epsilon{});
      failure = res.has_failure();
      if (!failure)
      {
        auto const &v = res.get_success_unsafe();
        value_ok = str_t(v.begin(), v.end()) == text;
      }
    }
    else if (parser_kind == 1)
    {
      auto const parser = fp::basic_string<Ch>{str_t{text}};
      auto const res = fp::phrase_parse_stream(parser, in, fp::skipper::epsilon{});
      failure = res.has_failure();
    }
    else
    {
      auto const parser = -fp::basic_literal<Ch>{static_cast<Ch>('a')} >> *fp::basic_char<Ch>{};
      auto const res = fp::phrase_parse_stream(parser, in, space_skipper<Ch>());
      failure = res.has_failure();
      if (!failure)
      {
        // reference: skip white space, optional 'a', then every remaining character that is not
        // white space (the skipper runs after every element of the repetition)
        std::size_t i = skip_ws(text, 0);
        bool const a = i < n && text[i] == static_cast<Ch>('a');
        if (a) ++i;
        str_t expect;
        for (; i < n; ++i)
          if (skip_ws(text.substr(i, 1), 0) == 0) expect.push_back(text[i]);
        auto const &v = res.get_success_unsafe();
        auto const &rest = fcppt::tuple::get<1>(v);
        value_ok = fcppt::tuple::get<0>(v).has_value() == a && str_t(rest.begin(), rest.end()) == expect;
      }
    }
    if (buf.faulted() && mode == 0)
    {
      // Reading: a read fault makes the stream a failing stream; the property demands a failure
      if (!failure) fail(std::string(site) + "|success-after-fault", ctx + ": parser " + pnames[parser_kind] + " succeeded although the stream failed during the parse");
    }
    else if (buf.faulted())
    {
      // Reading (weaker): after a failing tellg/seekg either a failure or the correct value
      if (!failure && !value_ok) fail(std::string(site) + "|wrong-value-after-fault", ctx + ": parser " + pnames[parser_kind] + " succeeded with a wrong value");
    }
    else
    {
      if (failure) fail(std::string(site) + "|failure-without-fault", ctx + ": parser " + pnames[parser_kind] + " failed on an intact stream");
      else if (!value_ok) fail(std::string(site) + "|wrong-value-without-fault", ctx + ": parser " + pnames[parser_kind]);
    }
  }
  catch (fp::detail::exception<Ch> const &e)
  {
    fail(std::string(site) + "|stream-exception-escaped", ctx + ": parser " + pnames[parser_kind] + ": " + narrow(e.what()));
  }
  catch (std::exception const &e)
  {
    fail(std::string(site) + "|foreign-exception-escaped", ctx + ": parser " + pnames[parser_kind] + ": " + e.what());
  }
}

void fault_one(Ints const &c)
{
  i64 const ct = c.at(0) % 2, n = c.at(1), code = c.at(2), mode = c.at(3) % 2, at = c.at(4), what = c.at(5) % 4;
  if (at < 1) return;
  count(true);
  if (ct == 0)
  {
    auto const t = text_of<char>(n, code);
    if (what == 0) fault_stream_case<char>(t, static_cast<int>(mode), at);
    else fault_parser_case<char>(t, static_cast<int>(mode), at, static_cast<int>(what - 1));
  }
  else
  {
    auto const t = text_of<wchar_t>(n, code);
    if (what == 0) fault_stream_case<wchar_t>(t, static_cast<int>(mode), at);
    else fault_parser_case<wchar_t>(t, static_cast<int>(mode), at, static_cast<int>(what - 1));
  }
}
void fault_run()
{
  i64 const maxlen = opts().thorough() ? 6 : 4;
  u64 idx = 0;
  u64 const nsh = static_cast<u64>(opts().nshards > 0 ? opts().nshards : 1), sh = static_cast<u64>(opts().shard);
  for (i64 n = 0; n <= maxlen; ++n)
    for (i64 code = 0; code < (1LL << (2 * n)); ++code)
    {
      if (idx++ % nsh != sh) continue;
      for (i64 ct = 0; ct < 2; ++ct)
        for (i64 mode = 0; mode < 2; ++mode)
          for (i64 what = 0; what < 4; ++what)
          {
            // the canonical history needs (n+2)(n+3)/2+... underflows; parsers at most 2n+4: every k up
            // to the first value at which no fault fires any more
            i64 const kmax = what == 0 ? (n + 2) * (n + 3) + 4 : 3 * n + 6;
            for (i64 at = 1; at <= kmax; ++at)
            {
              cur({ct, n, code, mode, at, what});
              fault_one({ct, n, code, mode, at, what});
            }
          }
    }
}
std::string fault_describe(Ints const &c)
{
  static char const *const what[] = {"canonical history on the stream", "parser *char_", "parser string(text)", "parser -literal(a) >> *char_ with space skipper"};
  return text_describe(c) + (c.size() > 3 && c[3] % 2 ? ", seek fault at positioning call " : ", read fault at underflow ") + std::to_string(c.size() > 4 ? c[4] : 0) + ", " + what[c.size() > 5 ? c[5] % 4 : 0];
}
RegSelf const r_fault{
    "fault_injection", Kind::exhaustive,
    "every text up to the bound on a seekable harness streambuf that throws from the k-th underflow on, or fails every positioning call from the k-th on, for every k up to the number the history needs; stream-level canonical history and three parsers through phrase_parse_stream; every case is non-trivial (a fault position or the fault-free control)",
    fault_run, fault_one, fault_describe};
}
