// Section code of c16_transform.cpp and c16_heap_transform.cpp.
// C16 (part 1) - map / map_optional / map_concat / fold / fold_break / loop / loop_break / all_of /
// contains_if / find_if_opt / find_by_opt / repeat / generate_n / equal against plain loops.
// Domain: all sequences over {0,1,2} up to length 6 (8 in the thorough tier) as vector / list / deque /
// forward_list (no size(): no reserve), all 27 maps, 64 maps to optional, 8 predicates; fcppt int
// ranges, enum ranges, arrays, tuples and mpl lists as sources.
// Oracle: the obvious loop; callbacks log the position of each element they see.
// Reading: fold_break and loop_break document where they stop: the log must be exactly the prefix up to
// and including the breaking element. all_of / contains_if / find_if_opt / find_by_opt do not document
// how many elements they inspect: demanded is a log that is a prefix of the sequence in order, each
// element once, reaching at least the deciding element.
#include "c16_common.hpp"

#include <fcppt/loop.hpp>
#include <fcppt/make_int_range.hpp>
#include <fcppt/make_int_range_count.hpp>
#include <fcppt/tag.hpp>
#include <fcppt/tag_type.hpp>
#include <fcppt/algorithm/all_of.hpp>
#include <fcppt/algorithm/contains_if.hpp>
#include <fcppt/algorithm/equal.hpp>
#include <fcppt/algorithm/find_by_opt.hpp>
#include <fcppt/algorithm/find_if_opt.hpp>
#include <fcppt/algorithm/fold.hpp>
#include <fcppt/algorithm/fold_break.hpp>
#include <fcppt/algorithm/generate_n.hpp>
#include <fcppt/algorithm/loop.hpp>
#include <fcppt/algorithm/loop_break.hpp>
#include <fcppt/algorithm/loop_break_mpl.hpp>
#include <fcppt/algorithm/loop_break_tuple.hpp>
#include <fcppt/algorithm/map.hpp>
#include <fcppt/algorithm/map_array.hpp>
#include <fcppt/algorithm/map_concat.hpp>
#include <fcppt/algorithm/map_optional.hpp>
#include <fcppt/algorithm/map_tuple.hpp>
#include <fcppt/algorithm/repeat.hpp>
#include <fcppt/array/get.hpp>
#include <fcppt/array/object.hpp>
#include <fcppt/enum/make_range.hpp>
#include <fcppt/enum/make_range_start.hpp>
#include <fcppt/enum/make_range_start_end.hpp>
#include <fcppt/mpl/list/object.hpp>
#include <fcppt/optional/object.hpp>
#include <fcppt/tuple/get.hpp>
#include <fcppt/tuple/make.hpp>
#include <fcppt/tuple/object.hpp>

#include <algorithm>
#include <deque>
#include <forward_list>
#include <list>
#include <set>
#include <type_traits>
#include <vector>

using namespace c16;

namespace
{
using IV = std::vector<int>;
std::vector<int> iota_log(int n)
{
  std::vector<int> r;
  for (int i = 0; i < n; ++i) r.push_back(i);
  return r;
}

// ------------------------------------------------------------------------------------------------
// map
template <typename Src, typename Dst, bool RV>
void map_check(Seq const &s, i64 f, char const *kres, char const *kcalls)
{
  Src src = make<Src>(s);
  IV log;
  Dst const r = fcppt::algorithm::map<Dst>(pass<RV>(src), [&log, f](El const &e) {
    log.push_back(e.pos());
    return e.id() < 0 ? -1 : dig(f, e.v(), 3) * 16 + e.pos();
  });
  IV want;
  for (int i = 0; i < s.len; ++i) want.push_back(dig(f, s.at(i), 3) * 16 + i);
  if constexpr (std::is_same_v<Dst, std::set<int>>) std::sort(want.begin(), want.end());
  chk(ints(r) == want, kres, [&] { return "map over " + show(s) + " gave " + show(ints(r)) + ", expected " + show(want) + " (f(value)*16+position)"; });
  chk(log == iota_log(s.len), kcalls, [&] { return "map over " + show(s) + ": function saw positions " + show(log); });
}
void map_case(i64 len_, i64 code_, i64 f_)
{
  Seq const s = seq_of(len_, code_);
  i64 const f = mod(f_, 27);
  count(seq_nontrivial(s) && !constant_table(f, 3, 3));
  map_check<std::vector<El>, std::vector<int>, false>(s, f, "algorithm::map|result|vector->vector", "algorithm::map|calls|vector->vector");
  map_check<std::vector<El>, std::vector<int>, true>(s, f, "algorithm::map|result|vector->vector", "algorithm::map|calls|vector->vector");
  map_check<std::list<El>, std::vector<int>, false>(s, f, "algorithm::map|result|list->vector", "algorithm::map|calls|list->vector");
  map_check<std::forward_list<El>, std::vector<int>, false>(s, f, "algorithm::map|result|forward_list->vector", "algorithm::map|calls|forward_list->vector");
  map_check<std::forward_list<El>, std::deque<int>, true>(s, f, "algorithm::map|result|forward_list->deque", "algorithm::map|calls|forward_list->deque");
  map_check<std::deque<El>, std::list<int>, true>(s, f, "algorithm::map|result|deque->list", "algorithm::map|calls|deque->list");
  map_check<std::vector<El>, std::set<int>, false>(s, f, "algorithm::map|result|vector->set", "algorithm::map|calls|vector->set");
  if (f == 0)
  {
    // elements moved through the function from an rvalue source; copied from an lvalue source
    {
      std::vector<El> src = make<std::vector<El>>(s);
      std::vector<El> const r = fcppt::algorithm::map<std::vector<El>>(std::move(src), [](El &&e) { return El(std::move(e)); });
      chk(ids(r) == ids(make<std::vector<El>>(s)), "algorithm::map|result|rvalue-elements-moved", [&] { return "map(move(vector), move) over " + show(s) + " gave ids " + show(ids(r)); });
    }
    {
      std::list<El> const src = make<std::list<El>>(s);
      std::list<El> const r = fcppt::algorithm::map<std::list<El>>(src, [](El const &e) { return e; });
      chk(ids(r) == ids(src) && ids(src) == ids(make<std::vector<El>>(s)), "algorithm::map|result|lvalue-elements-copied", [&] { return "map(list, copy) over " + show(s) + " gave ids " + show(ids(r)); });
    }
  }
}
Reg const r_map{
    C16_SEC("alg_map"), Kind::exhaustive, "algorithm::map: the sequence is empty or has length >= 2 with a duplicate, and the map table is not constant",
    [] {
      for_seqs(max_len(), [](Seq const &s) {
        for (i64 f = 0; f < 27; ++f)
        {
          cur3(s.len, s.code, f);
          map_case(s.len, s.code, f);
        }
      });
    },
    [](Ints const &c) { map_case(c.at(0), c.at(1), c.at(2)); },
    [](Ints const &c) { return "map over " + show(seq_of(c.at(0), c.at(1))) + " with table#" + std::to_string(mod(c.at(2), 27)) + " (base-3 digits)"; }};

// ------------------------------------------------------------------------------------------------
// map_optional, map_concat
template <typename Src, typename Dst, bool RV>
void map_optional_check(Seq const &s, i64 f, char const *kres, char const *kcalls)
{
  Src src = make<Src>(s);
  IV log;
  Dst const r = fcppt::algorithm::map_optional<Dst>(pass<RV>(src), [&log, f](El const &e) {
    log.push_back(e.pos());
    int const d = e.id() < 0 ? 1 : dig(f, e.v(), 4);
    return d == 0 ? fcppt::optional::object<int>{} : fcppt::optional::object<int>{(e.id() < 0 ? -1 : d - 1) * 16 + e.pos()};
  });
  IV want;
  for (int i = 0; i < s.len; ++i)
    if (dig(f, s.at(i), 4) != 0) want.push_back((dig(f, s.at(i), 4) - 1) * 16 + i);
  if constexpr (std::is_same_v<Dst, std::set<int>>) std::sort(want.begin(), want.end());
  chk(ints(r) == want, kres, [&] { return "map_optional over " + show(s) + " gave " + show(ints(r)) + ", expected " + show(want); });
  chk(log == iota_log(s.len), kcalls, [&] { return "map_optional over " + show(s) + ": function saw positions " + show(log); });
}
void map_optional_case(i64 len_, i64 code_, i64 f_)
{
  Seq const s = seq_of(len_, code_);
  i64 const f = mod(f_, 64);
  bool some_nothing = false, some_value = false;
  for (int i = 0; i < s.len; ++i) (dig(f, s.at(i), 4) == 0 ? some_nothing : some_value) = true;
  count(s.len == 0 || (s.len >= 2 && s.has_duplicate() && some_nothing && some_value));
  map_optional_check<std::vector<El>, std::vector<int>, false>(s, f, "algorithm::map_optional|result|vector->vector", "algorithm::map_optional|calls|vector->vector");
  map_optional_check<std::list<El>, std::deque<int>, true>(s, f, "algorithm::map_optional|result|list->deque", "algorithm::map_optional|calls|list->deque");
  map_optional_check<std::forward_list<El>, std::set<int>, false>(s, f, "algorithm::map_optional|result|forward_list->set", "algorithm::map_optional|calls|forward_list->set");
}
Reg const r_map_optional{
    C16_SEC("alg_map_optional"), Kind::exhaustive, "algorithm::map_optional: empty sequence, or length >= 2 with a duplicate where some results are nothing and some are values",
    [] {
      for_seqs(max_len(), [](Seq const &s) {
        for (i64 f = 0; f < 64; ++f)
        {
          cur3(s.len, s.code, f);
          map_optional_case(s.len, s.code, f);
        }
      });
    },
    [](Ints const &c) { map_optional_case(c.at(0), c.at(1), c.at(2)); },
    [](Ints const &c) { return "map_optional over " + show(seq_of(c.at(0), c.at(1))) + " with table#" + std::to_string(mod(c.at(2), 64)) + " (base-4 digits, 0 = nothing)"; }};

template <typename Src, typename Dst, bool RV>
void map_concat_check(Seq const &s, i64 f, char const *kres, char const *kcalls)
{
  Src src = make<Src>(s);
  IV log;
  Dst const r = fcppt::algorithm::map_concat<Dst>(pass<RV>(src), [&log, f](El const &e) {
    log.push_back(e.pos());
    Dst part;
    for (int k = 0; k < (e.id() < 0 ? 1 : dig(f, e.v(), 3)); ++k) part.push_back(e.id() < 0 ? -1 : e.pos() * 4 + k);
    return part;
  });
  IV want;
  for (int i = 0; i < s.len; ++i)
    for (int k = 0; k < dig(f, s.at(i), 3); ++k) want.push_back(i * 4 + k);
  chk(ints(r) == want, kres, [&] { return "map_concat over " + show(s) + " gave " + show(ints(r)) + ", expected " + show(want) + " (position*4 + k)"; });
  chk(log == iota_log(s.len), kcalls, [&] { return "map_concat over " + show(s) + ": function saw positions " + show(log); });
}
void map_concat_case(i64 len_, i64 code_, i64 f_)
{
  Seq const s = seq_of(len_, code_);
  i64 const f = mod(f_, 27);
  count(seq_nontrivial(s) && !constant_table(f, 3, 3));
  map_concat_check<std::vector<El>, std::vector<int>, false>(s, f, "algorithm::map_concat|result|vector->vector", "algorithm::map_concat|calls|vector->vector");
  map_concat_check<std::list<El>, std::deque<int>, true>(s, f, "algorithm::map_concat|result|list->deque", "algorithm::map_concat|calls|list->deque");
}
Reg const r_map_concat{
    C16_SEC("alg_map_concat"), Kind::exhaustive, "algorithm::map_concat: empty sequence or length >= 2 with a duplicate, and the table value -> length of the produced part (0..2) is not constant",
    [] {
      for_seqs(max_len(), [](Seq const &s) {
        for (i64 f = 0; f < 27; ++f)
        {
          cur3(s.len, s.code, f);
          map_concat_case(s.len, s.code, f);
        }
      });
    },
    [](Ints const &c) { map_concat_case(c.at(0), c.at(1), c.at(2)); },
    [](Ints const &c) { return "map_concat over " + show(seq_of(c.at(0), c.at(1))) + " with part-length table#" + std::to_string(mod(c.at(2), 27)); }};

// ------------------------------------------------------------------------------------------------
// fold / fold_break / loop / loop_break / all_of / contains_if / find_if_opt / find_by_opt
// The fold state is the history of element ids: every fold function factors through it.
bool prefix_reaching(IV const &log, int len, int decisive)
{
  // log = 0,1,..,k-1 with k <= len and k > decisive (decisive < 0: the whole sequence must be seen)
  for (std::size_t i = 0; i < log.size(); ++i)
    if (log[i] != static_cast<int>(i)) return false;
  int const k = static_cast<int>(log.size());
  return k <= len && (decisive < 0 ? k == len : k > decisive);
}
template <typename Src>
void visit_checks(Seq const &s, i64 p, char const *name)
{
  auto pred = [p](int v) { return v >= 0 && v < 3 && dig(p, v, 2) != 0; };
  int first = -1, first_not = -1;
  for (int i = 0; i < s.len; ++i)
  {
    if (first < 0 && pred(s.at(i))) first = i;
    if (first_not < 0 && !pred(s.at(i))) first_not = i;
  }
  IV const all_ids = ids(make<std::vector<El>>(s));
  int const stop = first < 0 ? s.len : first + 1; // elements processed by the breaking loops
  IV const prefix_ids(all_ids.begin(), all_ids.begin() + stop);
  // keys are only built when a check fails
  auto key = [name](char const *fn) { return [fn, name] { return std::string(fn) + "|" + name; }; };
  // fold_break
  {
    Src src = make<Src>(s);
    IV log;
    IV const r = fcppt::algorithm::fold_break(std::as_const(src), IV{}, [&](El const &e, IV st) {
      log.push_back(e.pos());
      st.push_back(e.id());
      return std::make_pair(pred(e.v()) ? fcppt::loop::break_ : fcppt::loop::continue_, std::move(st));
    });
    chkk(r == prefix_ids, key("algorithm::fold_break|result"), [&] { return "fold_break over " + show(s) + " breaking at pred#" + std::to_string(p) + " gave history " + show(r) + ", expected " + show(prefix_ids); });
    chkk(log == iota_log(stop), key("algorithm::fold_break|calls"), [&] { return "fold_break over " + show(s) + ": function saw positions " + show(log) + ", expected the first " + std::to_string(stop); });
  }
  // loop_break
  {
    Src src = make<Src>(s);
    IV log;
    fcppt::algorithm::loop_break(std::as_const(src), [&](El const &e) {
      log.push_back(e.pos());
      return pred(e.v()) ? fcppt::loop::break_ : fcppt::loop::continue_;
    });
    chkk(log == iota_log(stop), key("algorithm::loop_break|calls"), [&] { return "loop_break over " + show(s) + " breaking at pred#" + std::to_string(p) + ": body saw positions " + show(log) + ", expected the first " + std::to_string(stop); });
  }
  // all_of
  {
    Src const src = make<Src>(s);
    IV log;
    bool const r = fcppt::algorithm::all_of(src, [&](El const &e) { log.push_back(e.pos()); return pred(e.v()); });
    chkk(r == (first_not < 0), key("algorithm::all_of|result"), [&] { return "all_of(" + show(s) + ", pred#" + std::to_string(p) + ") = " + std::to_string(r); });
    chkk(prefix_reaching(log, s.len, first_not), key("algorithm::all_of|calls"), [&] { return "all_of over " + show(s) + ": predicate saw positions " + show(log); });
  }
  // contains_if
  {
    Src const src = make<Src>(s);
    IV log;
    bool const r = fcppt::algorithm::contains_if(src, [&](El const &e) { log.push_back(e.pos()); return pred(e.v()); });
    chkk(r == (first >= 0), key("algorithm::contains_if|result"), [&] { return "contains_if(" + show(s) + ", pred#" + std::to_string(p) + ") = " + std::to_string(r); });
    chkk(prefix_reaching(log, s.len, first), key("algorithm::contains_if|calls"), [&] { return "contains_if over " + show(s) + ": predicate saw positions " + show(log); });
  }
  // find_if_opt (const and non-const range)
  {
    Src src = make<Src>(s);
    IV log;
    auto const r = fcppt::algorithm::find_if_opt(src, [&](El const &e) { log.push_back(e.pos()); return pred(e.v()); });
    auto const cr = fcppt::algorithm::find_if_opt(std::as_const(src), [&](El const &e) { return pred(e.v()); });
    VERIF_TYPE_FACT((std::is_same_v<std::remove_cvref_t<decltype(r.get_unsafe())>, typename Src::iterator>), "std::is_same_v<std::remove_cvref_t<decltype(r.get_unsafe())>, typename Src::iterator>");
    VERIF_TYPE_FACT((std::is_same_v<std::remove_cvref_t<decltype(cr.get_unsafe())>, typename Src::const_iterator>), "std::is_same_v<std::remove_cvref_t<decltype(cr.get_unsafe())>, typename Src::const_iterator>");
    int const off = r.has_value() ? static_cast<int>(std::distance(src.begin(), r.get_unsafe())) : -1;
    int const coff = cr.has_value() ? static_cast<int>(std::distance(std::as_const(src).begin(), cr.get_unsafe())) : -1;
    chkk(off == first && coff == first, key("algorithm::find_if_opt|result"), [&] { return "find_if_opt(" + show(s) + ", pred#" + std::to_string(p) + ") found offset " + std::to_string(off) + "/" + std::to_string(coff) + ", expected " + std::to_string(first) + " (-1 = nothing)"; });
    chkk(prefix_reaching(log, s.len, first), key("algorithm::find_if_opt|calls"), [&] { return "find_if_opt over " + show(s) + ": predicate saw positions " + show(log); });
  }
  // find_by_opt
  {
    Src const src = make<Src>(s);
    IV log;
    fcppt::optional::object<int> const r = fcppt::algorithm::find_by_opt(src, [&](El const &e) {
      log.push_back(e.pos());
      return pred(e.v()) ? fcppt::optional::object<int>{e.id()} : fcppt::optional::object<int>{};
    });
    int const got = r.has_value() ? r.get_unsafe() : -1;
    int const want = first < 0 ? -1 : all_ids[static_cast<std::size_t>(first)];
    chkk(got == want, key("algorithm::find_by_opt|result"), [&] { return "find_by_opt(" + show(s) + ", pred#" + std::to_string(p) + ") = " + std::to_string(got) + ", expected " + std::to_string(want); });
    chkk(prefix_reaching(log, s.len, first), key("algorithm::find_by_opt|calls"), [&] { return "find_by_opt over " + show(s) + ": function saw positions " + show(log); });
  }
  if (p == 0)
  {
    // fold (lvalue and rvalue source), loop
    {
      Src src = make<Src>(s);
      IV const r = fcppt::algorithm::fold(std::as_const(src), IV{}, [](El const &e, IV st) { st.push_back(e.id()); return st; });
      chkk(r == all_ids, key("algorithm::fold|result"), [&] { return "fold over " + show(s) + " gave history " + show(r); });
      std::vector<El> const moved = fcppt::algorithm::fold(std::move(src), std::vector<El>{}, [](El const &e, std::vector<El> &&st) { st.push_back(e); return std::move(st); });
      chkk(ids(moved) == all_ids, key("algorithm::fold|result-rvalue"), [&] { return "fold over an rvalue " + show(s) + " collected ids " + show(ids(moved)); });
    }
    {
      Src src = make<Src>(s);
      IV log;
      fcppt::algorithm::loop(std::as_const(src), [&](El const &e) { log.push_back(e.id()); });
      chkk(log == all_ids, key("algorithm::loop|calls"), [&] { return "loop over " + show(s) + " saw ids " + show(log); });
      IV log2;
      fcppt::algorithm::loop(src, [&](El &e) { log2.push_back(e.id()); e = El((e.v() + 1) % 3, e.pos()); });
      IV want2;
      for (int i = 0; i < s.len; ++i) want2.push_back(((s.at(i) + 1) % 3) * 16 + i);
      chkk(log2 == all_ids && ids(src) == want2, key("algorithm::loop|mutable-elements"), [&] { return "loop over a non-const " + show(s) + " saw " + show(log2) + " and left " + show(ids(src)); });
    }
  }
}
void visit_case(i64 len_, i64 code_, i64 p_)
{
  Seq const s = seq_of(len_, code_);
  i64 const p = mod(p_, 8);
  count(seq_nontrivial(s) && (p != 0 && p != 7));
  visit_checks<std::vector<El>>(s, p, "vector");
  visit_checks<std::list<El>>(s, p, "list");
  visit_checks<std::deque<El>>(s, p, "deque");
  visit_checks<std::forward_list<El>>(s, p, "forward_list");
}
Reg const r_visit{
    C16_SEC("alg_fold_loop_find"), Kind::exhaustive,
    "fold / fold_break / loop / loop_break / all_of / contains_if / find_if_opt / find_by_opt: empty sequence or length >= 2 with a duplicate, and a predicate that is neither always true nor always false",
    [] {
      for_seqs(max_len(), [](Seq const &s) {
        for (i64 p = 0; p < 8; ++p)
        {
          cur3(s.len, s.code, p);
          visit_case(s.len, s.code, p);
        }
      });
    },
    [](Ints const &c) { visit_case(c.at(0), c.at(1), c.at(2)); },
    [](Ints const &c) { return "visiting algorithms over " + show(seq_of(c.at(0), c.at(1))) + " with predicate#" + std::to_string(mod(c.at(2), 8)) + " (bit v set: true for value v)"; }};

// ------------------------------------------------------------------------------------------------
// fcppt ranges, arrays, tuples and mpl lists as sources
enum class e3
{
  e0,
  e1,
  e2,
  fcppt_maximum = e2
};
struct StaticVisitor
{
  int stop_after; // break after this many elements (-1: never)
  IV *log;
  template <typename T>
  fcppt::loop operator()(T const &x) const
  {
    if constexpr (std::is_same_v<T, int>) log->push_back(100 + x);
    else if constexpr (std::is_same_v<T, long>) log->push_back(200 + static_cast<int>(x));
    else if constexpr (std::is_same_v<T, char>) log->push_back(300 + static_cast<int>(x));
    else if constexpr (std::is_same_v<T, fcppt::tag<int>>) log->push_back(1);
    else if constexpr (std::is_same_v<T, fcppt::tag<long>>) log->push_back(2);
    else if constexpr (std::is_same_v<T, fcppt::tag<char>>) log->push_back(3);
    else log->push_back(-1);
    return static_cast<int>(log->size()) == stop_after ? fcppt::loop::break_ : fcppt::loop::continue_;
  }
};
void ranges_case(i64 op_, i64 a_, i64 b_)
{
  int const op = static_cast<int>(mod(op_, 4));
  switch (op)
  {
  case 0: // int_range [a,b) with a,b in [-2,6]: map, fold, loop_break, all_of, find_if_opt
  {
    int const a = static_cast<int>(mod(a_, 9)) - 2, b = static_cast<int>(mod(b_, 9)) - 2;
    count(b <= a || b - a >= 2);
    IV want;
    for (int i = a; i < b; ++i) want.push_back(i);
    auto const range = fcppt::make_int_range(a, b);
    IV const m = fcppt::algorithm::map<IV>(range, [](int x) { return x; });
    std::list<int> const ml = fcppt::algorithm::map<std::list<int>>(range, [](int x) { return x; });
    chk(m == want && ints(ml) == want, "algorithm::map|result|int_range-source", [&] { return "map over int_range [" + std::to_string(a) + "," + std::to_string(b) + ") gave " + show(m); });
    IV const f = fcppt::algorithm::fold(range, IV{}, [](int x, IV st) { st.push_back(x); return st; });
    chk(f == want, "algorithm::fold|result|int_range-source", [&] { return "fold over int_range gave " + show(f); });
    IV log;
    fcppt::algorithm::loop_break(range, [&](int x) { log.push_back(x); return x == a + 1 ? fcppt::loop::break_ : fcppt::loop::continue_; });
    IV wl(want.begin(), want.begin() + std::min<std::size_t>(want.size(), 2));
    chk(log == wl, "algorithm::loop_break|calls|int_range-source", [&] { return "loop_break over int_range saw " + show(log) + ", expected " + show(wl); });
    if (a >= 0)
    {
      IV const c = fcppt::algorithm::map<IV>(fcppt::make_int_range_count(a), [](int x) { return x; });
      IV wc;
      for (int i = 0; i < a; ++i) wc.push_back(i);
      chk(c == wc, "algorithm::map|result|int_range_count-source", [&] { return "map over make_int_range_count(" + std::to_string(a) + ") gave " + show(c); });
    }
    break;
  }
  case 1: // enum ranges
  {
    int const a = static_cast<int>(mod(a_, 3)), b = static_cast<int>(mod(b_, 3));
    count(a < b);
    auto val = [](e3 e) { return static_cast<int>(e); };
    if (a <= b)
    {
      IV want;
      for (int i = a; i <= b; ++i) want.push_back(i);
      IV const m = fcppt::algorithm::map<IV>(fcppt::enum_::make_range_start_end(static_cast<e3>(a), static_cast<e3>(b)), val);
      chk(m == want, "algorithm::map|result|enum-range-source", [&] { return "map over enum range [" + std::to_string(a) + "," + std::to_string(b) + "] gave " + show(m); });
      IV const f = fcppt::algorithm::fold(fcppt::enum_::make_range_start_end(static_cast<e3>(a), static_cast<e3>(b)), IV{}, [](e3 e, IV st) { st.push_back(static_cast<int>(e)); return st; });
      chk(f == want, "algorithm::fold|result|enum-range-source", [&] { return "fold over enum range gave " + show(f); });
    }
    if (b == 0)
    {
      IV want;
      for (int i = a; i <= 2; ++i) want.push_back(i);
      IV const m = fcppt::algorithm::map<IV>(fcppt::enum_::make_range_start(static_cast<e3>(a)), val);
      chk(m == want, "algorithm::map|result|enum-range-start-source", [&] { return "map over enum range starting at " + std::to_string(a) + " gave " + show(m); });
      if (a == 0)
      {
        IV const all = fcppt::algorithm::map<IV>(fcppt::enum_::make_range<e3>(), val);
        chk(all == IV{0, 1, 2}, "algorithm::map|result|enum-range-full-source", [&] { return "map over the full enum range gave " + show(all); });
        IV log;
        fcppt::algorithm::loop(fcppt::enum_::make_range<e3>(), [&](e3 e) { log.push_back(static_cast<int>(e)); });
        chk(log == IV{0, 1, 2}, "algorithm::loop|calls|enum-range-source", [&] { return "loop over the full enum range saw " + show(log); });
      }
    }
    break;
  }
  case 2: // tuple / mpl list: loop_break stopping after a elements (a in 0..4; 0 and 4 never stop), map, fold
  {
    int const stop = static_cast<int>(mod(a_, 5)), x = static_cast<int>(mod(b_, 3));
    count(stop >= 1 && stop <= 3);
    auto const tup = fcppt::tuple::make(x, static_cast<long>(x + 1), static_cast<char>(x + 2));
    IV const full_t{100 + x, 200 + x + 1, 300 + x + 2}, full_m{1, 2, 3};
    int const n = (stop >= 1 && stop <= 3) ? stop : 3;
    {
      IV log;
      fcppt::algorithm::loop_break(tup, StaticVisitor{stop == 0 ? -1 : stop, &log});
      chk(log == IV(full_t.begin(), full_t.begin() + n), "algorithm::loop_break|calls|tuple-source", [&] { return "loop_break over a tuple stopping after " + std::to_string(stop) + " saw " + show(log); });
    }
    {
      IV log;
      fcppt::algorithm::loop_break(fcppt::mpl::list::object<int, long, char>{}, StaticVisitor{stop == 0 ? -1 : stop, &log});
      chk(log == IV(full_m.begin(), full_m.begin() + n), "algorithm::loop_break|calls|mpl-list-source", [&] { return "loop_break over an mpl list stopping after " + std::to_string(stop) + " saw " + show(log); });
    }
    if (stop == 0)
    {
      IV log;
      fcppt::algorithm::loop(tup, [&](auto const &v) { log.push_back(static_cast<int>(v)); });
      chk(log == IV{x, x + 1, x + 2}, "algorithm::loop|calls|tuple-source", [&] { return "loop over a tuple saw " + show(log); });
      IV const f = fcppt::algorithm::fold(tup, IV{}, [](auto const &v, IV st) { st.push_back(static_cast<int>(v)); return st; });
      chk(f == IV{x, x + 1, x + 2}, "algorithm::fold|result|tuple-source", [&] { return "fold over a tuple gave " + show(f); });
      IV log2;
      auto const mt = fcppt::algorithm::map<fcppt::tuple::object<int, int, int>>(tup, [&](auto const &v) { log2.push_back(static_cast<int>(v)); return static_cast<int>(v) * 2; });
      chk(fcppt::tuple::get<0>(mt) == 2 * x && fcppt::tuple::get<1>(mt) == 2 * x + 2 && fcppt::tuple::get<2>(mt) == 2 * x + 4, "algorithm::map|result|tuple->tuple", [&] { return std::string("map over a tuple wrong"); });
      IV const mv = fcppt::algorithm::map<IV>(fcppt::mpl::list::object<std::integral_constant<int, 4>, std::integral_constant<int, 7>>{}, [](auto const t) { return fcppt::tag_type<decltype(t)>::value; });
      chk(mv == IV{4, 7}, "algorithm::map|result|mpl-list-source", [&] { return "map over an mpl list gave " + show(mv); });
      bool const ao = fcppt::algorithm::all_of(tup, [x](auto const &v) { return static_cast<int>(v) >= x; });
      bool const ci = fcppt::algorithm::contains_if(tup, [x](auto const &v) { return static_cast<int>(v) == x + 2; });
      bool const ci2 = fcppt::algorithm::contains_if(tup, [x](auto const &v) { return static_cast<int>(v) == x + 3; });
      chk(ao && ci && !ci2, "algorithm::all_of|result|tuple-source", [&] { return std::string("all_of / contains_if over a tuple wrong"); });
    }
    break;
  }
  default: // array source -> array target (map_array), sizes 0..4 chosen by a; values from b
  {
    int const n = static_cast<int>(mod(a_, 5));
    i64 const code = mod(b_, 81);
    count(n >= 2);
    auto go = [&](auto size_tag) {
      constexpr std::size_t N = decltype(size_tag)::value;
      using src_t = fcppt::array::object<El, N>;
      using dst_t = fcppt::array::object<int, N>;
      auto mk = [&]<std::size_t... I>(std::index_sequence<I...>) { return src_t{El(dig(code, static_cast<int>(I), 3), static_cast<int>(I))...}; };
      src_t const src = mk(std::make_index_sequence<N>{});
      IV log;
      dst_t const r = fcppt::algorithm::map<dst_t>(src, [&](El const &e) { log.push_back(e.pos()); return e.id(); });
      IV want;
      for (std::size_t i = 0; i < N; ++i) want.push_back(dig(code, static_cast<int>(i), 3) * 16 + static_cast<int>(i));
      // Reading: array::init does not document the order of the calls; demanded is one call per element
      IV sorted = log;
      std::sort(sorted.begin(), sorted.end());
      chk(ints(r) == want && sorted == iota_log(static_cast<int>(N)), "algorithm::map|result|array->array", [&] { return "map over an array of " + std::to_string(N) + " gave " + show(ints(r)) + ", calls " + show(log); });
      IV const v = fcppt::algorithm::map<IV>(src, [](El const &e) { return e.id(); });
      chk(v == want, "algorithm::map|result|array->vector", [&] { return "map<vector> over an array gave " + show(v); });
    };
    switch (n)
    {
    case 0: go(std::integral_constant<std::size_t, 0>{}); break;
    case 1: go(std::integral_constant<std::size_t, 1>{}); break;
    case 2: go(std::integral_constant<std::size_t, 2>{}); break;
    case 3: go(std::integral_constant<std::size_t, 3>{}); break;
    default: go(std::integral_constant<std::size_t, 4>{}); break;
    }
    break;
  }
  }
}
Reg const r_ranges{
    C16_SEC("alg_special_sources"), Kind::exhaustive, "map / fold / loop / loop_break over int ranges (empty or >= 2 elements), enum ranges (>= 2 enumerators), tuples and mpl lists (break inside), arrays (>= 2 elements)",
    [] {
      i64 const na[] = {9, 3, 5, 5}, nb[] = {9, 3, 3, 81};
      for (i64 op = 0; op < 4; ++op)
        for (i64 a = 0; a < na[op]; ++a)
          for (i64 b = 0; b < nb[op]; ++b)
          {
            if (op == 3 && b >= ipow(3, static_cast<int>(a))) break;
            cur3(op, a, b);
            ranges_case(op, a, b);
          }
    },
    [](Ints const &c) { ranges_case(c.at(0), c.at(1), c.at(2)); },
    [](Ints const &c) {
      static char const *const names[] = {"int_range [a-2,b-2)", "enum range e_a..e_b", "tuple/mpl list, break after a, base value b", "array of a elements, values code b"};
      return std::string(names[mod(c.at(0), 4)]) + " a=" + std::to_string(c.at(1)) + " b=" + std::to_string(c.at(2));
    }};

// ------------------------------------------------------------------------------------------------
// repeat / generate_n / equal
template <typename Count>
void repeat_check(int n)
{
  // a loop that does not stop where documented is cut off by the callback (an exception), so that it
  // is reported as a wrong number of calls instead of running for minutes
  struct too_many_calls
  {
  };
  int calls = 0;
  try
  {
    fcppt::algorithm::repeat(static_cast<Count>(n), [&calls] {
      if (calls >= 100000) throw too_many_calls{};
      ++calls;
    });
  }
  catch (too_many_calls const &)
  {
  }
  chk(calls == (n < 0 ? 0 : n), n <= 0 ? "algorithm::repeat|calls|count<=0" : "algorithm::repeat|calls|count>0", [&] { return "repeat(" + std::to_string(n) + ") called the function " + std::to_string(calls) + " times"; });
}
void repeat_case(i64 n_)
{
  int const n = static_cast<int>(mod(n_, 12)) - 2;
  count(n <= 0 || n >= 2);
  repeat_check<int>(n);
  repeat_check<long>(n);
  repeat_check<signed char>(n);
  if (n >= 0)
  {
    repeat_check<unsigned>(n);
    repeat_check<std::size_t>(n);
    repeat_check<unsigned char>(n);
    int next = 0;
    IV const v = fcppt::algorithm::generate_n<IV>(static_cast<std::size_t>(n), [&next] { return next++; });
    std::list<El> const l = fcppt::algorithm::generate_n<std::list<El>>(static_cast<std::size_t>(n), [&next, n] { int const k = next++ - n; return El(k % 3, k); });
    IV wl;
    for (int i = 0; i < n; ++i) wl.push_back((i % 3) * 16 + i);
    chk(v == iota_log(n) && ids(l) == wl && next == 2 * n, n == 0 ? "algorithm::generate_n|result|count=0" : "algorithm::generate_n|result|count>0", [&] { return "generate_n(" + std::to_string(n) + ") gave " + show(v) + " / ids " + show(ids(l)) + " with " + std::to_string(next) + " calls in total"; });
  }
}
Reg const r_repeat{
    C16_SEC("alg_repeat_generate_n"), Kind::exhaustive, "repeat / generate_n: count <= 0 or >= 2",
    [] {
      for (i64 n = 0; n < 12; ++n)
      {
        cur1(n);
        repeat_case(n);
      }
    },
    [](Ints const &c) { repeat_case(c.at(0)); },
    [](Ints const &c) { return "repeat / generate_n with count " + std::to_string(mod(c.at(0), 12) - 2); }};

void equal_case(i64 l1, i64 c1, i64 l2, i64 c2)
{
  Seq const a = seq_of(mod(l1, 5), c1), b = seq_of(mod(l2, 5), c2);
  bool want = a.len == b.len;
  for (int i = 0; want && i < a.len; ++i) want = a.at(i) == b.at(i);
  int common = 0;
  while (common < a.len && common < b.len && a.at(common) == b.at(common)) ++common;
  count(want || (common >= 1 && a.len != b.len) || (a.len == b.len && common + 1 == a.len));
  auto const va = make<std::vector<El>>(a);
  auto const lb = make<std::list<El>>(b);
  auto const vb = make<std::vector<El>>(b);
  chk(fcppt::algorithm::equal(va, vb) == want && fcppt::algorithm::equal(va, lb) == want && fcppt::algorithm::equal(lb, va) == want,
      want ? "algorithm::equal|result|equal" : a.len == b.len ? "algorithm::equal|result|same-length-different" : "algorithm::equal|result|different-length",
      [&] { return "equal(" + show(a) + ", " + show(b) + ") gave " + std::to_string(fcppt::algorithm::equal(va, vb)) + "/" + std::to_string(fcppt::algorithm::equal(va, lb)); });
}
Reg const r_equal{
    C16_SEC("alg_equal"), Kind::exhaustive, "algorithm::equal: equal ranges, a proper prefix, or equal length differing only in the last element",
    [] {
      int const ml = opts().thorough() ? 4 : 3;
      for_seqs(ml, [ml](Seq const &a) {
        for_seqs(ml, [&a](Seq const &b) {
          cur4(a.len, a.code, b.len, b.code);
          equal_case(a.len, a.code, b.len, b.code);
        });
      });
    },
    [](Ints const &c) { equal_case(c.at(0), c.at(1), c.at(2), c.at(3)); },
    [](Ints const &c) { return "equal(" + show(seq_of(mod(c.at(0), 5), c.at(1))) + ", " + show(seq_of(mod(c.at(2), 5), c.at(3))) + ")"; }};
}
