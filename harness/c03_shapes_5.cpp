// VERIF: lib rc quick_shards=1
// C03 - parser shapes, part 5 of 8 (see c03_options.hpp).
#include "c03_options.hpp"
namespace
{
using namespace c03;
using S = std::string;
c03::shape_list make_shapes()
{
  c03::shape_list s;
  s.push_back(c03::mk_shape(25, "sum(arg<int>, arg<str>)", sum<lc>(arg<la, int>("a"), arg<lb, S>("b"))));
  s.push_back(c03::mk_shape(26, "sum(prod(arg<int>,arg<int>), arg<int>)", sum<ld>(prod(arg<la, int>("a"), arg<lb, int>("b")), arg<lc, int>("c"))));
  s.push_back(c03::mk_shape(27, "sum(usw, usw)", sum<lc>(usw<la>("f", "ff"), usw<lb>("o", "oo"))));
  s.push_back(c03::mk_shape(28, "prod(sum(usw, opt<int>), arg<str>)", prod(sum<lc>(usw<la>("f", "ff"), opt<lb, int>("o", "oo", std::nullopt)), arg<ld, S>("d"))));
  s.push_back(c03::mk_shape(29, "optional(sum(arg<int>, usw))", optional(sum<lc>(arg<la, int>("a"), usw<lb>("f", "ff")))));
  return s;
}
}
C03_TU(5, make_shapes)
