// Shared helpers of the C16 harnesses (algorithm and container helpers against loop references).
//
// Elements are El{value in {0,1,2}, position in the source sequence}: ==, < and the predicates
// look only at the value, the position makes every element identifiable, so references can demand
// the exact elements (which duplicate survived, in which order callbacks saw them). The move
// operations mark the source as moved-from (value -7) so a result containing a moved-from element is
// recognised. id(e) = value*16 + position, -1 for a moved-from / foreign element.
// C16_HEAP_ELEMENTS (thorough-only c16_heap_*.cpp, same sections suffixed "_heap"): every element also
// owns a std::string longer than the small-string buffer (E1 payload of DESIGN.md, ASan-visible).
#ifndef VERIF_C16_COMMON_HPP
#define VERIF_C16_COMMON_HPP

#include "verif.hpp"

#include <string>
#include <utility>
#include <vector>

namespace c16
{
using namespace verif;

#ifdef C16_HEAP_ELEMENTS
#define C16_SEC(name) name "_heap"
struct Payload
{
  static std::string make(int v, int pos) { return "element-payload-beyond-the-sso-buffer-" + std::to_string(v) + "-" + std::to_string(pos); }
  Payload(int v, int pos) : s(make(v, pos)) {}
  bool ok(int v, int pos) const { return s == make(v, pos); }
  std::string s;
};
#else
#define C16_SEC(name) name
struct Payload
{
  Payload(int, int) noexcept {}
  bool ok(int, int) const noexcept { return true; }
};
#endif

constexpr int moved_from = -7;

class El
{
public:
  El(int v, int pos) : v_(v), pos_(pos), p_(v, pos) {}
  El(El const &o) : v_(o.v_), pos_(o.pos_), p_(o.p_) {}
  El(El &&o) noexcept : v_(o.v_), pos_(o.pos_), p_(std::move(o.p_)) { o.v_ = moved_from; }
  El &operator=(El const &o)
  {
    v_ = o.v_;
    pos_ = o.pos_;
    p_ = o.p_;
    return *this;
  }
  El &operator=(El &&o) noexcept
  {
    if (&o != this)
    {
      v_ = o.v_;
      pos_ = o.pos_;
      p_ = std::move(o.p_);
      o.v_ = moved_from;
    }
    return *this;
  }
  int v() const noexcept { return v_; }
  int pos() const noexcept { return pos_; }
  // value*16 + position; -1 for a moved-from or inconsistent element
  int id() const { return (v_ >= 0 && v_ < 16 && pos_ >= 0 && pos_ < 16 && p_.ok(v_, pos_)) ? v_ * 16 + pos_ : -1; }
  friend bool operator==(El const &a, El const &b) noexcept { return a.v_ == b.v_; }
  friend bool operator!=(El const &a, El const &b) noexcept { return a.v_ != b.v_; }
  friend bool operator<(El const &a, El const &b) noexcept { return a.v_ < b.v_; }

private:
  int v_, pos_;
  [[no_unique_address]] Payload p_;
};

inline int dig(i64 code, int pos, int base)
{
  for (int i = 0; i < pos; ++i) code /= base;
  return static_cast<int>(code % base);
}
inline i64 ipow(i64 b, int e)
{
  i64 r = 1;
  while (e-- > 0) r *= b;
  return r;
}
inline i64 mod(i64 v, i64 m) { return ((v % m) + m) % m; }
inline bool constant_table(i64 code, int n, int base)
{
  for (int i = 1; i < n; ++i)
    if (dig(code, i, base) != dig(code, 0, base)) return false;
  return true;
}

// longest sequence enumerated by run(); one() accepts up to abs_max so that a replay works in any tier
constexpr int abs_max = 8;
inline int max_len() { return opts().thorough() ? 8 : 6; }

struct Seq
{
  int len;
  i64 code;
  int at(int i) const { return dig(code, i, 3); }
  bool has_duplicate() const
  {
    for (int i = 0; i < len; ++i)
      for (int j = i + 1; j < len; ++j)
        if (at(i) == at(j)) return true;
    return false;
  }
};
inline Seq seq_of(i64 len_, i64 code_)
{
  int const len = static_cast<int>(mod(len_, abs_max + 1));
  return Seq{len, mod(code_, ipow(3, len))};
}
template <typename F>
void for_seqs(int maxlen, F const &f)
{
  for (int len = 0; len <= maxlen; ++len)
    for (i64 code = 0, n = ipow(3, len); code < n; ++code) f(Seq{len, code});
}
// DESIGN non-trivial rule: length >= 2 with a duplicate, or a boundary shape (here: empty)
inline bool seq_nontrivial(Seq const &s) { return s.len == 0 || (s.len >= 2 && s.has_duplicate()); }

template <typename C>
C make(Seq const &s)
{
  std::vector<El> v;
  v.reserve(static_cast<std::size_t>(s.len));
  for (int i = 0; i < s.len; ++i) v.push_back(El(s.at(i), i));
  return C(v.begin(), v.end());
}
template <typename C>
std::vector<int> ids(C const &c)
{
  std::vector<int> r;
  for (auto const &e : c) r.push_back(e.id());
  return r;
}
template <typename C>
std::vector<int> ints(C const &c)
{
  return std::vector<int>(c.begin(), c.end());
}
inline std::string show(std::vector<int> const &v)
{
  std::string r = "[";
  for (int x : v) r += std::to_string(x) + " ";
  return r + "]";
}
inline std::string show(Seq const &s)
{
  std::string r = "[";
  for (int i = 0; i < s.len; ++i) r += std::to_string(s.at(i)) + (i + 1 < s.len ? "," : "");
  return r + "]";
}

template <bool RV, typename T>
decltype(auto) pass(T &x)
{
  if constexpr (RV)
    return std::move(x);
  else
    return std::as_const(x);
}

template <typename W>
inline bool chk(bool ok, char const *key, W const &what)
{
  if (!ok) fail(key, what());
  return ok;
}
// the same with a lazily built key
template <typename K, typename W>
inline bool chkk(bool ok, K const &key, W const &what)
{
  if (!ok) fail(key(), what());
  return ok;
}
}

#endif
