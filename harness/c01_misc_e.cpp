// VERIF: lib rc quick_shards=2
// C01 (parse class templates / type-erased options parsers / log defaults / io / system part of the
// registry) - safe API is total. Covers public run-time headers no other harness touches:
// parse::recursive, lexeme, ignore, convert, convert_if used as class templates, make_literal,
// basic_char_set_container, error_add, skipper::make_success / make_failure (a user-written skipper),
// grammar_parse_stream (incl. streams at end / failed / bad); options::base / base_unique_ptr /
// make_base / deref / state / parse_context / state_with_value / parse_error / missing_error /
// other_error / make_left / make_right / make_success / indentation; log::default_level_streams,
// default_stream, parameters_no_function, the reference aliases; io::cout / cerr / clog / cin and the
// stream aliases; random::generator::seed_from_chrono; fcppt::system.
// Oracle: (a) the process survives ASan+UBSan+_GLIBCXX_ASSERTIONS, (b) only documented exceptions
// escape, (c) the watchdog, (d) every result (either / optional / variant) is read. Value comparisons
// are informational only (see the `fail` shadow below).
#include "verif.hpp"

#include <fcppt/args_vector.hpp>
#include <fcppt/char_type.hpp>
#include <fcppt/make_cref.hpp>
#include <fcppt/make_ref.hpp>
#include <fcppt/make_strong_typedef.hpp>
#include <fcppt/nonmovable.hpp>
#include <fcppt/recursive.hpp>
#include <fcppt/reference.hpp>
#include <fcppt/string.hpp>
#include <fcppt/strong_typedef.hpp>
#include <fcppt/system.hpp>
#include <fcppt/text.hpp>
#include <fcppt/unit.hpp>
#include <fcppt/either/match.hpp>
#include <fcppt/either/object.hpp>
#include <fcppt/io/cerr.hpp>
#include <fcppt/io/cin.hpp>
#include <fcppt/io/clog.hpp>
#include <fcppt/io/cout.hpp>
#include <fcppt/io/istream.hpp>
#include <fcppt/io/ostream.hpp>
#include <fcppt/io/ostringstream.hpp>
#include <fcppt/io/scoped_rdbuf.hpp>
#include <fcppt/io/stringstream.hpp>
#include <fcppt/log/const_level_stream_array_reference.hpp>
#include <fcppt/log/context.hpp>
#include <fcppt/log/context_reference.hpp>
#include <fcppt/log/default_level_streams.hpp>
#include <fcppt/log/default_stream.hpp>
#include <fcppt/log/level.hpp>
#include <fcppt/log/level_stream.hpp>
#include <fcppt/log/level_stream_array.hpp>
#include <fcppt/log/name.hpp>
#include <fcppt/log/object.hpp>
#include <fcppt/log/object_reference.hpp>
#include <fcppt/log/optional_level.hpp>
#include <fcppt/log/out.hpp>
#include <fcppt/log/parameters.hpp>
#include <fcppt/log/parameters_no_function.hpp>
#include <fcppt/optional/make.hpp>
#include <fcppt/optional/object.hpp>
#include <fcppt/options/apply.hpp>
#include <fcppt/options/argument.hpp>
#include <fcppt/options/base.hpp>
#include <fcppt/options/base_unique_ptr.hpp>
#include <fcppt/options/deref.hpp>
#include <fcppt/options/error.hpp>
#include <fcppt/options/flag.hpp>
#include <fcppt/options/flag_name_set.hpp>
#include <fcppt/options/indentation.hpp>
#include <fcppt/options/left.hpp>
#include <fcppt/options/long_name.hpp>
#include <fcppt/options/make_base.hpp>
#include <fcppt/options/make_left.hpp>
#include <fcppt/options/make_many.hpp>
#include <fcppt/options/make_optional.hpp>
#include <fcppt/options/make_right.hpp>
#include <fcppt/options/make_success.hpp>
#include <fcppt/options/missing_error.hpp>
#include <fcppt/options/option.hpp>
#include <fcppt/options/option_name_set.hpp>
#include <fcppt/options/optional_help_text.hpp>
#include <fcppt/options/optional_short_name.hpp>
#include <fcppt/options/other_error.hpp>
#include <fcppt/options/parse.hpp>
#include <fcppt/options/parse_context.hpp>
#include <fcppt/options/parse_error.hpp>
#include <fcppt/options/parse_result.hpp>
#include <fcppt/options/result.hpp>
#include <fcppt/options/result_of.hpp>
#include <fcppt/options/right.hpp>
#include <fcppt/options/short_name.hpp>
#include <fcppt/options/state.hpp>
#include <fcppt/options/state_with_value.hpp>
#include <fcppt/options/switch.hpp>
#include <fcppt/parse/basic_char_set.hpp>
#include <fcppt/parse/basic_char_set_container.hpp>
#include <fcppt/parse/basic_literal.hpp>
#include <fcppt/parse/basic_stream_impl.hpp>
#include <fcppt/parse/char.hpp>
#include <fcppt/parse/char_set.hpp>
#include <fcppt/parse/convert.hpp>
#include <fcppt/parse/convert_if.hpp>
#include <fcppt/parse/error.hpp>
#include <fcppt/parse/error_add.hpp>
#include <fcppt/parse/fatal_tag.hpp>
#include <fcppt/parse/grammar.hpp>
#include <fcppt/parse/grammar_parse_stream.hpp>
#include <fcppt/parse/ignore.hpp>
#include <fcppt/parse/int.hpp>
#include <fcppt/parse/lexeme.hpp>
#include <fcppt/parse/literal.hpp>
#include <fcppt/parse/make_literal.hpp>
#include <fcppt/parse/parse_stream.hpp>
#include <fcppt/parse/parse_string.hpp>
#include <fcppt/parse/phrase_parse_stream.hpp>
#include <fcppt/parse/phrase_parse_string.hpp>
#include <fcppt/parse/recursive.hpp>
#include <fcppt/parse/result.hpp>
#include <fcppt/parse/separator.hpp>
#include <fcppt/parse/operators/repetition.hpp>
#include <fcppt/parse/operators/sequence.hpp>
#include <fcppt/parse/skipper/make_failure.hpp>
#include <fcppt/parse/skipper/make_success.hpp>
#include <fcppt/parse/skipper/result.hpp>
#include <fcppt/parse/skipper/space.hpp>
#include <fcppt/parse/skipper/tag.hpp>
#include <fcppt/random/generator/minstd_rand.hpp>
#include <fcppt/random/generator/mt19937.hpp>
#include <fcppt/random/generator/seed_from_chrono.hpp>
#include <fcppt/record/element.hpp>
#include <fcppt/record/get.hpp>
#include <fcppt/record/make_label.hpp>
#include <fcppt/record/object.hpp>
#include <fcppt/variant/match.hpp>
#include <fcppt/variant/object.hpp>

#include <cstdint>
#include <iostream>
#include <istream>
#include <limits>
#include <ostream>
#include <sstream>
#include <stdexcept>
#include <string>
#include <type_traits>
#include <typeinfo>
#include <utility>
#include <vector>

// Compile-time facts about the library (sizes, result types) are informational in a C01 harness, like
// the value oracles: on a tree where one of them is false the harness must still compile, so that the
// run can decide totality (a wrong size shows as an out-of-bounds access there, not as a build error).
#define C01_FACT(...) static_assert(true, "")
using namespace verif;

namespace
{
// C01 is about totality (no UB, no crash, no hang, no undocumented exception). The entries below
// also compare results with simple references, because that costs nothing and reads every result
// (so that an ill-formed one trips a sanitizer) - but a result that merely DIFFERS from the reference
// is not a violation of C01: a change to fcppt that keeps a function total while changing its value
// must not make this check raise an alarm. Hence only the totality keys reach verif::fail; a value
// disagreement is counted as a class in the evidence ("informational") and nothing more.
void fail(std::string const &key, std::string const &what)
{
  if (key.find("undocumented-exception") != std::string::npos) verif::fail(key, what);
  else verif::cls("value oracle disagreed (informational, outside C01)");
}
volatile long long g_sink = 0;
template <typename T>
void touch(T const &v)
{
  unsigned char const *p = reinterpret_cast<unsigned char const *>(&v);
  long long s = 0;
  for (std::size_t i = 0; i < sizeof(T); ++i) s += p[i];
  g_sink = g_sink + s;
}
void touch(std::string const &s) { long long t = 0; for (char c : s) t += c; g_sink = g_sink + t + static_cast<long long>(s.size()); }
void touch(std::wstring const &s) { long long t = 0; for (wchar_t c : s) t += c; g_sink = g_sink + t; }
template <typename... Allowed, typename F>
void total(char const *site, F &&f)
{
  try
  {
    f();
  }
  catch (std::bad_alloc const &)
  {
  }
  catch (std::exception const &e)
  {
    bool ok = false;
    ((ok = ok || dynamic_cast<Allowed const *>(&e) != nullptr), ...);
    if (!ok) fail(std::string(site) + "|undocumented-exception", std::string(typeid(e).name()) + ": " + e.what());
  }
  catch (...)
  {
    fail(std::string(site) + "|undocumented-exception", "non-std exception escaped");
  }
}
std::string show(std::string const &s)
{
  std::string r = "\"";
  for (unsigned char ch : s)
  {
    if (ch >= 0x20 && ch < 0x7f && ch != '"') r.push_back(static_cast<char>(ch));
    else { char b[8]; std::snprintf(b, sizeof b, "\\x%02x", ch); r += b; }
  }
  return r + "\"";
}

// ---------------------------------------------------------------------------- parse: class templates used directly
namespace parse = fcppt::parse;
// A user-written skipper, as documented in the module description: "It inherits from
// fcppt::parse::skipper::tag. It has a member function template <typename Ch> skipper::result<Ch>
// skip(reference<basic_stream<Ch>>) const". It consumes any number of '_', fails on '!' and leaves
// everything else (positions are only ever restored to values obtained from get_position).
struct underscore_skipper : fcppt::parse::skipper::tag
{
  template <typename Ch>
  fcppt::parse::skipper::result<Ch> skip(fcppt::reference<fcppt::parse::basic_stream<Ch>> const _stream) const
  {
    for (;;)
    {
      auto const pos = _stream.get().get_position();
      fcppt::optional::object<Ch> const ch = _stream.get().get_char();
      if (!ch.has_value()) return fcppt::parse::skipper::make_success<Ch>();
      if (ch.get_unsafe() == static_cast<Ch>('!')) return fcppt::parse::skipper::make_failure<Ch>(fcppt::parse::error<Ch>{std::basic_string<Ch>(3, static_cast<Ch>('!'))});
      if (ch.get_unsafe() != static_cast<Ch>('_'))
      {
        _stream.get().set_position(pos);
        return fcppt::parse::skipper::make_success<Ch>();
      }
    }
  }
};
char const parse_alpha[] = {'a', 'b', '_', '!', 'X', ' ', '\n', '\0', '\xff', '1'};
std::string parse_input(Ints const &c, unsigned &mode)
{
  Choices ch(c);
  mode = static_cast<unsigned>(ch.index(5));
  std::size_t const len = ch.index(9);
  std::string s;
  for (std::size_t i = 0; i < len; ++i) s.push_back(parse_alpha[ch.index(sizeof parse_alpha)]);
  return s;
}
// puts a stream into the state the mode names: 0 fresh, 1 everything already read (eofbit and failbit
// set), 2 failbit, 3 badbit, 4 one character already consumed
void prepare_stream(std::istream &is, unsigned mode)
{
  switch (mode)
  {
  case 1: { char ch; while (is.get(ch)) {} break; }
  case 2: is.setstate(std::ios_base::failbit); break;
  case 3: is.setstate(std::ios_base::badbit); break;
  case 4: is.get(); break;
  default: break;
  }
}
template <typename R>
void touch_result(R const &r)
{
  touch(r.has_success());
  if (r.has_failure()) { touch(r.get_failure_unsafe().get()); touch(r.get_failure_unsafe().is_fatal()); }
}
void parse_templates_one(std::string const &s, unsigned mode)
{
  count(s.empty() || mode != 0 || s.find('\0') != std::string::npos || s.find('!') != std::string::npos);
  using rep_t = decltype(*parse::char_set{'a', 'b'});
  total("parse::recursive / lexeme / ignore (class templates)", [&] {
    parse::recursive<parse::char_> const rec{parse::char_{}};
    C01_FACT(std::is_same_v<parse::recursive<parse::char_>::result_type, fcppt::recursive<char>>);
    auto const r1 = parse::parse_string(rec, std::string{s});
    touch_result(r1);
    // parse_string demands that the whole string is consumed
    if (r1.has_success() != (s.size() == 1)) fail("parse::recursive|presence", "recursive{char_} succeeds exactly on a one-character input");
    if (r1.has_success()) touch(r1.get_success_unsafe().get());
    parse::lexeme<rep_t> const lex{*parse::char_set{'a', 'b'}};
    auto const r2 = parse::phrase_parse_string(lex, std::string{s}, parse::skipper::space());
    touch_result(r2);
    if (r2.has_success()) touch(std::string(r2.get_success_unsafe().begin(), r2.get_success_unsafe().end()));
    auto const r2u = parse::phrase_parse_string(lex, std::string{s}, underscore_skipper{});
    touch_result(r2u);
    parse::ignore<parse::lexeme<rep_t>> const ign{parse::lexeme<rep_t>{*parse::char_set{'a', 'b'}}};
    C01_FACT(std::is_same_v<decltype(ign)::result_type, fcppt::unit>);
    touch_result(parse::phrase_parse_string(ign, std::string{s}, underscore_skipper{}));
    parse::ignore<parse::literal> const ign2{parse::literal{'a'}};
    auto const r3 = parse::parse_string(ign2, std::string{s});
    touch_result(r3);
    if (r3.has_success() != (s == "a")) fail("parse::ignore|presence", "ignore{literal{'a'}}: errors remain unchanged, success exactly on \"a\"");
  });
  total("parse::convert / convert_if (class templates)", [&] {
    using conv_t = parse::convert<parse::char_, int>;
    conv_t const conv{parse::char_{}, conv_t::function_type{[](char &&_c) { return static_cast<int>(static_cast<unsigned char>(_c)) + 1000; }}};
    auto const r1 = parse::parse_string(conv, std::string{s});
    touch_result(r1);
    if (r1.has_success() && (s.empty() || r1.get_success_unsafe() != static_cast<int>(static_cast<unsigned char>(s[0])) + 1000)) fail("parse::convert|value", "not f(first character)");
    using cif_t = parse::convert_if<char, parse::char_, std::string>;
    cif_t const cif{parse::char_{}, cif_t::function_type{[](char &&_c) -> parse::result<char, std::string> {
                      if (_c == 'X') return parse::result<char, std::string>{parse::error<char>{std::string{"no X"}}};
                      if (_c == '!') return parse::result<char, std::string>{parse::error<char>{std::string{"fatal bang"}, parse::fatal_tag{}}};
                      return parse::result<char, std::string>{std::string(3, _c)};
                    }}};
    auto const r2 = parse::parse_string(cif, std::string{s});
    touch_result(r2);
    if (r2.has_success()) touch(r2.get_success_unsafe());
    if (s.size() == 1 && r2.has_success() != (s[0] != 'X' && s[0] != '!')) fail("parse::convert_if|presence", "f decides between success and error");
    // nested: the class templates compose like the make_* helpers
    using rep_conv = decltype(*std::declval<conv_t>());
    parse::lexeme<rep_conv> const nested{*conv_t{parse::char_{}, conv_t::function_type{[](char &&_c) { return static_cast<int>(_c); }}}};
    auto const r3 = parse::phrase_parse_string(nested, std::string{s}, underscore_skipper{});
    touch_result(r3);
    if (r3.has_success()) touch(r3.get_success_unsafe().size());
  });
  total("parse::make_literal / basic_char_set_container / error_add", [&] {
    parse::basic_literal<char> const lit = parse::make_literal('a');
    auto const r1 = parse::parse_string(fcppt::make_cref(lit) >> parse::make_literal('b'), std::string{s});
    touch_result(r1);
    parse::basic_literal<wchar_t> const wlit = parse::make_literal(L'a');
    std::wstring ws;
    for (char const c : s) ws.push_back(static_cast<wchar_t>(static_cast<unsigned char>(c)));
    auto const r2 = parse::parse_string(wlit, std::wstring{ws});
    touch(r2.has_success());
    if (r2.has_failure()) touch(r2.get_failure_unsafe().get());
    parse::basic_char_set_container<char> set;
    for (char const c : s) set.insert(c); // possibly empty
    parse::basic_char_set<char> const cs{parse::basic_char_set_container<char>{set}};
    touch(cs.chars().size());
    auto const r3 = parse::parse_string(*parse::basic_char_set<char>{parse::basic_char_set_container<char>{set}}, std::string{s} + "Z");
    touch_result(parse::parse_string(cs, std::string{s}));
    touch_result(r3);
    if (r3.has_success() && r3.get_success_unsafe().size() != s.size()) fail("parse::basic_char_set|value", "the set of all input characters does not match the whole input");
    parse::basic_char_set<char> const none{parse::basic_char_set_container<char>{}};
    touch_result(parse::parse_string(none, std::string{s}));
    // error_add: "Adds two errors": the texts are concatenated, the sum is fatal iff one of them is
    bool const f1 = mode % 2 == 1, f2 = mode >= 3;
    auto const mk = [](std::string t, bool fatal) { return fatal ? parse::error<char>{std::move(t), parse::fatal_tag{}} : parse::error<char>{std::move(t)}; };
    std::string const sep = mode == 2 ? "" : "|"; // both texts may be empty
    parse::error<char> const sum = mk(std::string{s}, f1) + mk(sep + s, f2);
    touch(sum.get());
    if (sum.get() != s + sep + s || sum.is_fatal() != (f1 || f2)) fail("parse::error_add|value", "not the concatenation / fatal flag is not the disjunction");
    parse::error<wchar_t> const wsum = parse::error<wchar_t>{std::wstring{ws}} + parse::error<wchar_t>{std::wstring{}, parse::fatal_tag{}};
    touch(wsum.get());
    touch(wsum.is_fatal());
    // skipper results on their own
    fcppt::parse::skipper::result<char> const ok = fcppt::parse::skipper::make_success<char>();
    fcppt::parse::skipper::result<char> const bad = fcppt::parse::skipper::make_failure<char>(mk(std::string{s}, f1));
    touch(ok.has_success());
    if (!ok.has_success() || !bad.has_failure() || bad.get_failure_unsafe().get() != s) fail("parse::skipper::make_success / make_failure|value", "wrong alternative");
  });
  total("parse::parse_stream / phrase_parse_stream on prepared streams", [&] {
    parse::recursive<parse::char_> const rec{parse::char_{}};
    std::istringstream is1(s);
    prepare_stream(is1, mode);
    auto const r1 = parse::parse_stream<char, decltype(rec), void>(rec, is1);
    touch_result(r1);
    std::istringstream is2(s);
    prepare_stream(is2, mode);
    parse::lexeme<rep_t> const lex{*parse::char_set{'a', 'b'}};
    touch_result(parse::phrase_parse_stream(lex, is2, underscore_skipper{}));
    std::istringstream is3(s);
    prepare_stream(is3, mode);
    touch_result(parse::phrase_parse_stream(parse::ignore<parse::literal>{parse::literal{'a'}} >> parse::ignore<parse::literal>{parse::literal{'b'}}, is3, parse::skipper::space()));
  });
}
Reg const r_parse_templates{"parse_class_templates", Kind::random, "the input is empty, contains NUL or the skipper's failure character, or the stream is at its end / failed / bad / partly consumed",
                            [] { run_random(*g_cur.sec, {3000, 3}, {40000, 3}); },
                            [](Ints const &c) { unsigned mode; std::string const s = parse_input(c, mode); parse_templates_one(s, mode); },
                            [](Ints const &c) { unsigned mode; std::string const s = parse_input(c, mode); static char const *const modes[] = {"fresh", "read to the end", "failbit set", "badbit set", "one character consumed"}; return "recursive / lexeme / ignore / convert / convert_if class templates, make_literal, basic_char_set_container, error_add, a user skipper on " + show(s) + "; streams: " + modes[mode]; }};

// ---------------------------------------------------------------------------- grammar_parse_stream
using space_skipper = decltype(fcppt::parse::skipper::space());
class list_grammar : public fcppt::parse::grammar<std::vector<int>, char, space_skipper>
{
  FCPPT_NONMOVABLE(list_grammar);
public:
  list_grammar()
      : grammar_base{fcppt::make_cref(this->start_), fcppt::parse::skipper::space()},
        item_{grammar_base::make_base(parse::int_<int>{})},
        start_{grammar_base::make_base(parse::literal{'['} >> parse::separator{fcppt::make_cref(item_), parse::literal{','}} >> parse::literal{']'})}
  {
  }
  ~list_grammar() = default;
private:
  grammar_base::base_type<int> item_;
  grammar_base::base_type<std::vector<int>> start_;
};
char const grammar_alpha[] = {'[', ']', ',', ' ', '1', '-', '9', 'a', '\n', '\0', '0'};
std::string grammar_input(Ints const &c, unsigned &mode)
{
  static std::vector<std::string> const seeds{"", "[]", "[1]", "[1,2,3]", " [ -7 , 19 ]\n", "[1,", "[,]", "[99999999999]", "[-2147483648,2147483647]", "[1 2]", "[[1]]", "]", "[1]]"};
  Choices ch(c);
  mode = static_cast<unsigned>(ch.index(5));
  std::string s = seeds[ch.index(seeds.size())];
  std::size_t const edits = ch.index(4);
  for (std::size_t i = 0; i < edits; ++i)
  {
    std::size_t const pos = ch.index(s.size() + 1);
    char const cc = grammar_alpha[ch.index(sizeof grammar_alpha)];
    switch (ch.index(3))
    {
    case 0: s.insert(s.begin() + static_cast<std::ptrdiff_t>(pos), cc); break;
    case 1: if (pos < s.size()) s[pos] = cc; break;
    default: if (pos < s.size()) s.erase(s.begin() + static_cast<std::ptrdiff_t>(pos)); break;
    }
  }
  return s;
}
void grammar_one(std::string const &s, unsigned mode)
{
  static list_grammar const grammar;
  count(s.empty() || mode != 0 || s.find('\0') != std::string::npos || s == "[]");
  total("parse::grammar_parse_stream", [&] {
    std::istringstream is(s);
    prepare_stream(is, mode);
    auto const r = parse::grammar_parse_stream(is, grammar);
    touch_result(r);
    cls(r.has_success() ? "grammar-accepted" : "grammar-rejected");
    if (r.has_success()) { long long sum = 0; for (int const v : r.get_success_unsafe()) sum += v; touch(sum); }
    if (mode == 0 && (s == "[]" || s == "[1,2,3]" || s == " [ -7 , 19 ]\n") && !r.has_success()) fail("parse::grammar_parse_stream|valid-list", "a well-formed list was rejected");
    // a stream over a streambuf-less std::istream (rdbuf() == nullptr sets badbit on construction)
    std::istream null_stream(nullptr);
    touch_result(parse::grammar_parse_stream(null_stream, grammar));
    // wide stringstream alias
    fcppt::io::stringstream both;
    both << s;
    prepare_stream(both, mode);
    touch_result(parse::grammar_parse_stream(both, grammar));
  });
}
Reg const r_grammar{"grammar_parse_stream", Kind::random, "the input is empty, contains NUL, is the empty list, or the stream is at its end / failed / bad / partly consumed",
                    [] { run_random(*g_cur.sec, {3000, 6}, {40000, 6}); },
                    [](Ints const &c) { unsigned mode; std::string const s = grammar_input(c, mode); grammar_one(s, mode); },
                    [](Ints const &c) { unsigned mode; std::string const s = grammar_input(c, mode); static char const *const modes[] = {"fresh", "read to the end", "failbit set", "badbit set", "one character consumed"}; return "grammar_parse_stream(list-of-int grammar with the space skipper) on " + show(s) + ", stream " + modes[mode]; }};

// ---------------------------------------------------------------------------- options: the type-erased interface
FCPPT_RECORD_MAKE_LABEL(input_label);
FCPPT_RECORD_MAKE_LABEL(output_label);
FCPPT_RECORD_MAKE_LABEL(execute_label);
FCPPT_RECORD_MAKE_LABEL(trunc_label);
FCPPT_RECORD_MAKE_LABEL(level_label);
FCPPT_RECORD_MAKE_LABEL(numbers_label);
namespace opt = fcppt::options;
auto make_concrete()
{
  using input_t = opt::argument<input_label, fcppt::string>;
  using output_t = opt::argument<output_label, fcppt::string>;
  using execute_t = opt::switch_<execute_label>;
  using trunc_t = opt::flag<trunc_label, int>;
  using level_t = opt::option<level_label, int>;
  return opt::apply(
      input_t{opt::long_name{FCPPT_TEXT("input")}, opt::optional_help_text{opt::help_text{FCPPT_TEXT("the input")}}},
      opt::make_optional(output_t{opt::long_name{FCPPT_TEXT("output")}, opt::optional_help_text{}}),
      execute_t{opt::optional_short_name{opt::short_name{FCPPT_TEXT("e")}}, opt::long_name{FCPPT_TEXT("execute")}, opt::optional_help_text{}},
      trunc_t{opt::optional_short_name{}, opt::long_name{FCPPT_TEXT("trunc")}, trunc_t::active_value{1}, trunc_t::inactive_value{0}, opt::optional_help_text{}},
      level_t{opt::optional_short_name{opt::short_name{FCPPT_TEXT("l")}}, opt::long_name{FCPPT_TEXT("loglevel")}, level_t::optional_default_value{fcppt::optional::make(2)}, opt::optional_help_text{}});
}
using concrete_t = decltype(make_concrete());
using natural_result = opt::result_of<concrete_t>;
// "It is possible that the result type of Parser is a permuted version of Result"
using permuted_result = fcppt::record::object<
    fcppt::record::element<level_label, int>,
    fcppt::record::element<execute_label, bool>,
    fcppt::record::element<input_label, fcppt::string>,
    fcppt::record::element<trunc_label, int>,
    fcppt::record::element<output_label, fcppt::optional::object<fcppt::string>>>;
using many_result = fcppt::record::object<fcppt::record::element<numbers_label, std::vector<unsigned>>>;
std::vector<std::string> const &tokens()
{
  static std::vector<std::string> const v{"-", "--", "-e", "--execute", "--trunc", "-l", "--loglevel", "7", "-7", "x", "--x", "-x", "", "--help", "-ee", "--loglevel=3", " ", "\xc3\xa9", "-l7", "99999999999999999999", "---", "--trunc", "-e", "--execute"};
  return v;
}
fcppt::args_vector decode_args(Ints const &c)
{
  fcppt::args_vector a;
  for (i64 x : c)
  {
    if (a.size() >= 12) break;
    a.push_back(tokens()[static_cast<u64>(x) % tokens().size()]);
  }
  return a;
}
std::string show_args(fcppt::args_vector const &a)
{
  std::string r = "[";
  for (auto const &s : a) r += show(s) + " ";
  return r + "]";
}
template <typename Result>
void read_parse_result(opt::parse_result<Result> const &r, char const *site)
{
  // parse_result = either<parse_error, state_with_value<Result>>, parse_error = variant<missing_error, other_error>
  fcppt::either::match(
      r,
      [](opt::parse_error const &e) {
        fcppt::variant::match(
            e,
            [](opt::missing_error const &m) { touch(m.error()); for (auto const &s : m.state().args()) touch(s); touch(m.state().empty()); },
            [](opt::other_error const &o) { touch(o.get()); });
      },
      [site](opt::state_with_value<Result> const &sv) {
        for (auto const &s : sv.state().args()) touch(s);
        if (sv.state().empty() != sv.state().args().empty()) fail(std::string(site) + "|state::empty", "empty() differs from args().empty()");
        touch(fcppt::record::get<input_label>(sv.value()));
        touch(fcppt::record::get<level_label>(sv.value()));
        touch(fcppt::record::get<execute_label>(sv.value()));
        touch(fcppt::record::get<trunc_label>(sv.value()));
        if (fcppt::record::get<output_label>(sv.value()).has_value()) touch(fcppt::record::get<output_label>(sv.value()).get_unsafe());
      });
}
void options_base_one(fcppt::args_vector const &args)
{
  bool boundary = args.size() <= 1;
  for (std::size_t i = 0; i < args.size(); ++i)
  {
    boundary = boundary || args[i] == "-" || args[i] == "--" || args[i].empty() || args[i] == "---";
    for (std::size_t j = 0; j < i; ++j) boundary = boundary || (args[i] == args[j] && args[i].size() > 1 && args[i][0] == '-'); // repeated flag
  }
  count(boundary);
  static opt::base_unique_ptr<natural_result> const base = opt::make_base<natural_result>(make_concrete());
  static opt::base_unique_ptr<permuted_result> const permuted = opt::make_base<permuted_result>(make_concrete());
  static concrete_t const concrete = make_concrete();
  // a base over a reference to another parser (parsers "can be stored by copy, by reference or by unique pointer")
  static opt::base_unique_ptr<natural_result> const by_ref = opt::make_base<natural_result>(fcppt::make_cref(concrete));
  static opt::base_unique_ptr<natural_result> const nested = opt::make_base<natural_result>(fcppt::make_cref(base));
  static opt::base_unique_ptr<many_result> const many = opt::make_base<many_result>(opt::make_many(opt::argument<numbers_label, unsigned>{opt::long_name{FCPPT_TEXT("number")}, opt::optional_help_text{}}));
  total("options::base (usage / flag_names / option_names)", [&] {
    opt::base<natural_result> const &b = *base;
    touch(b.usage());
    touch(permuted->usage()); touch(by_ref->usage()); touch(nested->usage()); touch(many->usage());
    opt::flag_name_set const flags = b.flag_names();
    opt::option_name_set const names = b.option_names();
    for (auto const &f : flags) touch(f.get());
    for (auto const &n : names) { touch(n.name()); touch(n.get_is_short().get()); }
    // documented: flag names are not followed by a value ("--foo"), option names are ("--foo bar")
    if (flags.size() != 3 || names.size() != 2) fail("options::base|name-sets", "expected the flags -e / --execute / --trunc and the options -l / --loglevel");
    touch(many->flag_names().size() + many->option_names().size() + nested->option_names().size() + by_ref->flag_names().size());
  });
  total("options::parse through base", [&] {
    auto const r = opt::parse(*base, args);
    auto const rp = opt::parse(*permuted, args);
    auto const rr = opt::parse(by_ref, args); // deref of a unique_ptr
    auto const rn = opt::parse(fcppt::make_cref(*nested), args); // deref of a reference
    auto const rc = opt::parse(concrete, args);
    touch(r.has_success());
    if (r.has_failure()) touch(r.get_failure_unsafe().get());
    if (rp.has_failure()) touch(rp.get_failure_unsafe().get());
    if (r.has_success() != rp.has_success() || r.has_success() != rr.has_success() || r.has_success() != rn.has_success() || r.has_success() != rc.has_success()) fail("options::base|same-verdict", "the type-erased, permuted, by-reference and concrete parsers disagree");
    if (r.has_success() && rp.has_success() && (fcppt::record::get<input_label>(r.get_success_unsafe()) != fcppt::record::get<input_label>(rp.get_success_unsafe()) || fcppt::record::get<level_label>(r.get_success_unsafe()) != fcppt::record::get<level_label>(rp.get_success_unsafe()))) fail("options::base|permuted-value", "the permuted record has other values");
    auto const rm = opt::parse(*many, args);
    if (rm.has_success()) touch(fcppt::record::get<numbers_label>(rm.get_success_unsafe()).size());
    else touch(rm.get_failure_unsafe().get());
  });
  total("options::base::parse(state, parse_context)", [&] {
    // the way fcppt/options/parse.hpp and parse_help.hpp call a parser
    read_parse_result(base->parse(opt::state{fcppt::args_vector{args}}, opt::parse_context{base->option_names()}), "options::base::parse");
    read_parse_result(permuted->parse(opt::state{fcppt::args_vector{args}}, opt::parse_context{opt::deref(permuted).option_names()}), "options::base::parse (permuted)");
    read_parse_result(opt::deref(nested).parse(opt::state{fcppt::args_vector{args}}, opt::parse_context{nested->option_names()}), "options::base::parse (nested)");
    read_parse_result(opt::deref(fcppt::make_cref(concrete)).parse(opt::state{fcppt::args_vector{args}}, opt::parse_context{concrete.option_names()}), "options::product::parse");
    // the context of an enclosing parser may know more option names (parse_help passes the combined set)
    opt::option_name_set more = base->option_names();
    more.insert(opt::option_name{fcppt::string{FCPPT_TEXT("x")}, opt::option_name::is_short{true}});
    more.insert(opt::option_name{fcppt::string{FCPPT_TEXT("x")}, opt::option_name::is_short{false}});
    opt::parse_context const context{std::move(more)};
    touch(context.option_names().size());
    read_parse_result(base->parse(opt::state{fcppt::args_vector{args}}, context), "options::base::parse (wider context)");
    auto const pm = many->parse(opt::state{fcppt::args_vector{args}}, opt::parse_context{opt::option_name_set{}});
    touch(pm.has_success());
    if (pm.has_success()) { touch(pm.get_success_unsafe().value().template get<numbers_label>().size()); touch(pm.get_success_unsafe().state().args().size()); }
    // state / state_with_value / missing_error on their own
    opt::state st{fcppt::args_vector{args}};
    if (st.empty() != args.empty() || st.args() != args) fail("options::state|value", "arguments changed");
    st.args().push_back(fcppt::string{FCPPT_TEXT("tail")});
    opt::state_with_value<int> sv{opt::state{fcppt::args_vector{args}}, 42};
    sv.value() += static_cast<int>(sv.state().args().size());
    touch(sv.value());
    opt::missing_error me{std::move(st), fcppt::string{FCPPT_TEXT("missing")}};
    me.error() += FCPPT_TEXT("!");
    if (me.state().args().size() != args.size() + 1 || me.error() != FCPPT_TEXT("missing!")) fail("options::missing_error|value", "state or text changed");
    opt::parse_error const pe1{std::move(me)}, pe2{opt::other_error{fcppt::string{FCPPT_TEXT("other")}}};
    touch(pe1.type_index() + pe2.type_index());
    // make_left / make_right / make_success / indentation
    auto const l = opt::make_left(args.size());
    auto const rgt = opt::make_right(fcppt::string{args.empty() ? fcppt::string{} : args.front()});
    C01_FACT(std::is_same_v<std::remove_cvref_t<decltype(l)>, opt::left<std::size_t>> && std::is_same_v<std::remove_cvref_t<decltype(rgt)>, opt::right<fcppt::string>>);
    auto const ok = opt::make_success(fcppt::args_vector{args});
    C01_FACT(std::is_same_v<std::remove_cvref_t<decltype(ok)>, opt::result<fcppt::args_vector>>);
    opt::indentation const ind{static_cast<unsigned>(args.size())};
    if (l.get() != args.size() || !ok.has_success() || ok.get_success_unsafe() != args || ind.get() != args.size()) fail("options::make_left / make_success / indentation|value", "value lost");
    touch(rgt.get());
  });
}
Reg const r_opt_base{"options_base_interface", Kind::random, "the vector is empty or has one element, contains '', '-', '--' or '---', or repeats a flag",
                     [] { run_random(*g_cur.sec, {2500, 3}, {30000, 3}); },
                     [](Ints const &c) { options_base_one(decode_args(c)); },
                     [](Ints const &c) { return "type-erased options parsers (make_base: natural, permuted, by reference, nested, many): usage / flag_names / option_names / parse / parse(state, parse_context) on " + show_args(decode_args(c)); }};
Reg const r_opt_base_short{"options_base_short_vectors", Kind::exhaustive, "the vector is empty or has one element, contains '', '-', '--' or '---', or repeats a flag",
                           [] {
                             std::size_t const maxlen = opts().thorough() ? 3 : 2;
                             for (std::size_t len = 0; len <= maxlen; ++len)
                             {
                               std::size_t total_n = 1;
                               for (std::size_t i = 0; i < len; ++i) total_n *= tokens().size();
                               for (std::size_t k = 0; k < total_n; ++k)
                               {
                                 Ints c;
                                 std::size_t kk = k;
                                 for (std::size_t i = 0; i < len; ++i) { c.push_back(static_cast<i64>(kk % tokens().size())); kk /= tokens().size(); }
                                 cur_vec(c);
                                 options_base_one(decode_args(c));
                               }
                             }
                           },
                           [](Ints const &c) { options_base_one(decode_args(c)); },
                           [](Ints const &c) { return "type-erased options parsers on " + show_args(decode_args(c)); }};

// ---------------------------------------------------------------------------- log defaults, io streams, system, seed_from_chrono
namespace flog = fcppt::log;
C01_FACT(std::is_same_v<fcppt::io::istream, std::basic_istream<fcppt::char_type>> && std::is_same_v<fcppt::io::ostream, std::basic_ostream<fcppt::char_type>> && std::is_same_v<fcppt::io::stringstream, std::basic_stringstream<fcppt::char_type>>);
C01_FACT(std::is_same_v<flog::context_reference, fcppt::reference<flog::context>> && std::is_same_v<flog::object_reference, fcppt::reference<flog::object>> && std::is_same_v<flog::const_level_stream_array_reference, fcppt::reference<flog::level_stream_array const>>);
flog::level const all_levels[] = {flog::level::verbose, flog::level::debug, flog::level::info, flog::level::warning, flog::level::error, flog::level::fatal};
// Case: (enabled level or none, level logged to, redirection mode). Nothing is ever written to the
// process's real clog / cerr: either every level stream is pointed at a string sink (level_stream::sink)
// or the stream buffers of clog and cerr are replaced for the duration of the case (io::scoped_rdbuf).
void log_one(unsigned enabled, unsigned at, unsigned mode)
{
  enabled %= 7; at %= 6; mode %= 2;
  count(enabled == 6 || enabled == at || enabled == at + 1);
  total("log::default_level_streams / default_stream / parameters_no_function", [&] {
    fcppt::io::ostringstream sink, sink_err;
    flog::level_stream_array streams = flog::default_level_streams();
    for (flog::level const lv : all_levels)
    {
      // "verbose through warning log to io::clog, error and fatal log to io::cerr"
      fcppt::io::ostream &def = flog::default_stream(lv);
      bool const is_err = lv == flog::level::error || lv == flog::level::fatal;
      if (&def != (is_err ? &fcppt::io::cerr() : &fcppt::io::clog()) || &streams[lv].get() != &def) fail("log::default_stream|identity", "not clog for verbose..warning / cerr for error, fatal");
      touch(streams[lv].formatter().has_value());
      if (mode == 0) streams[lv].sink(is_err ? sink_err : sink);
    }
    auto const run = [&] {
      flog::context context{enabled == 6 ? flog::optional_level{} : flog::optional_level{all_levels[enabled]}, std::move(streams)};
      flog::context_reference const cref{fcppt::make_ref(context)};
      flog::object logger{cref, flog::parameters_no_function(flog::name{FCPPT_TEXT("verif")})};
      flog::object_reference const oref{fcppt::make_ref(logger)};
      flog::object child{oref.get(), flog::parameters_no_function(flog::name{FCPPT_TEXT("child")})};
      flog::const_level_stream_array_reference const arr = cref.get().level_streams();
      touch(arr.get()[all_levels[at]].formatter().has_value());
      touch(logger.formatter().has_value());
      bool const on = oref.get().enabled(all_levels[at]);
      if (on != (enabled != 6 && enabled <= at)) fail("log::object::enabled|value", "a level is enabled iff it is at least the context's level");
      oref.get().log(all_levels[at], flog::out << FCPPT_TEXT("message ") << at);
      child.log(all_levels[at], flog::out << FCPPT_TEXT("from the child"));
      flog::parameters const params = flog::parameters_no_function(flog::name{fcppt::string{}});
      if (params.formatter().has_value() || !params.name().get().empty()) fail("log::parameters_no_function|value", "has a formatter or changed the name");
      return on;
    };
    bool on = false;
    if (mode == 0) on = run();
    else
    {
      // default streams untouched: redirect what clog and cerr write to
      fcppt::io::scoped_rdbuf const g1(fcppt::make_ref(static_cast<std::basic_ios<fcppt::char_type> &>(fcppt::io::clog())), fcppt::make_ref(static_cast<std::basic_streambuf<fcppt::char_type> &>(*sink.rdbuf())));
      fcppt::io::scoped_rdbuf const g2(fcppt::make_ref(static_cast<std::basic_ios<fcppt::char_type> &>(fcppt::io::cerr())), fcppt::make_ref(static_cast<std::basic_streambuf<fcppt::char_type> &>(*sink_err.rdbuf())));
      on = run();
      fcppt::io::clog().flush();
      fcppt::io::cerr().flush();
    }
    std::string const text = (at >= 4 ? sink_err : sink).str(), other = (at >= 4 ? sink : sink_err).str();
    touch(text);
    if (on != (text.find("message") != std::string::npos) || !other.empty()) fail("log::object::log|sink", "message not in the sink of its level exactly if the level is enabled");
  });
}
Reg const r_log{"log_default_streams", Kind::exhaustive, "logging is disabled, or the message level equals the enabled level or is the one just below it",
                [] { for (i64 e = 0; e < 7; ++e) for (i64 a = 0; a < 6; ++a) for (i64 m = 0; m < 2; ++m) { cur3(e, a, m); log_one(static_cast<unsigned>(e), static_cast<unsigned>(a), static_cast<unsigned>(m)); } },
                [](Ints const &c) { log_one(static_cast<unsigned>(static_cast<u64>(c.at(0)) % 7), static_cast<unsigned>(static_cast<u64>(c.at(1)) % 6), static_cast<unsigned>(static_cast<u64>(c.at(2)) % 2)); },
                [](Ints const &c) { return "context(default_level_streams) + object(parameters_no_function): enabled level #" + std::to_string(static_cast<u64>(c.at(0)) % 7) + " (6 = none), message at level #" + std::to_string(static_cast<u64>(c.at(1)) % 6) + (static_cast<u64>(c.at(2)) % 2 == 0 ? ", level streams pointed at string sinks" : ", clog / cerr buffers replaced by io::scoped_rdbuf"); }};

FCPPT_MAKE_STRONG_TYPEDEF(std::uint8_t, tiny_seed);
FCPPT_MAKE_STRONG_TYPEDEF(long long, signed_seed);
// Case: which call. fcppt::system ("Calls std::system") returns an optional<int>; the commands are the
// harmless "true" and "exit 3" only. Reading: the harness demands termination and a well-formed
// optional; the POSIX reading (the exit status if the shell exited normally) is informational.
void io_system_one(unsigned which)
{
  which %= 4;
  count(true);
  switch (which)
  {
  case 0:
    total("io::cout / cerr / clog / cin", [&] {
      // only the identity of the stream objects is read; nothing is written or read
      fcppt::io::ostream &o1 = fcppt::io::cout(), &o2 = fcppt::io::cerr(), &o3 = fcppt::io::clog();
      fcppt::io::istream &i1 = fcppt::io::cin();
      if (&o1 != &std::cout || &o2 != &std::cerr || &o3 != &std::clog || &i1 != &std::cin) fail("io::cout|identity", "not the std:: narrow stream objects (FCPPT_NARROW_STRING build)");
      if (&fcppt::io::cout() != &o1 || &fcppt::io::cin() != &i1) fail("io::cout|stable", "two calls return different objects");
      touch(o1.good()); touch(i1.good());
    });
    break;
  case 1:
    total("fcppt::system", [&] {
      fcppt::optional::object<int> const r = fcppt::system(fcppt::string{FCPPT_TEXT("true")});
      touch(r.has_value());
      if (r.has_value()) touch(r.get_unsafe());
      if (!r.has_value() || r.get_unsafe() != 0) fail("fcppt::system|true", "exit status of `true` is not 0");
    });
    break;
  case 2:
    total("fcppt::system", [&] {
      fcppt::optional::object<int> const r = fcppt::system(fcppt::string{FCPPT_TEXT("exit 3")});
      touch(r.has_value());
      if (r.has_value()) touch(r.get_unsafe());
      if (!r.has_value() || r.get_unsafe() != 3) fail("fcppt::system|exit-3", "exit status of `exit 3` is not 3");
    });
    break;
  default:
    total("random::generator::seed_from_chrono", [&] {
      // totality only: the value depends on the clock and is not compared
      auto const s1 = fcppt::random::generator::seed_from_chrono<fcppt::random::generator::minstd_rand::seed>();
      auto const s2 = fcppt::random::generator::seed_from_chrono<fcppt::random::generator::mt19937::seed>();
      auto const s3 = fcppt::random::generator::seed_from_chrono<tiny_seed>();
      auto const s4 = fcppt::random::generator::seed_from_chrono<signed_seed>();
      touch(s1.get()); touch(s2.get()); touch(s3.get()); touch(s4.get());
      fcppt::random::generator::minstd_rand gen{s1};
      touch(gen());
    });
    break;
  }
}
Reg const r_io_system{"io_streams_system_seed", Kind::exhaustive, "every case (stream object identity, system(\"true\"), system(\"exit 3\"), seed_from_chrono)",
                      [] { for (i64 w = 0; w < 4; ++w) { cur1(w); io_system_one(static_cast<unsigned>(w)); } },
                      [](Ints const &c) { io_system_one(static_cast<unsigned>(static_cast<u64>(c.at(0)) % 4)); },
                      [](Ints const &c) { static char const *const what[] = {"io::cout / cerr / clog / cin object identity", "fcppt::system(\"true\")", "fcppt::system(\"exit 3\")", "seed_from_chrono for four seed types"}; return std::string(what[static_cast<u64>(c.at(0)) % 4]); }};
}
