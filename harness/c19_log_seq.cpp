// VERIF: lib rc quick_shards=2
// C19 (sequential part) - log levels follow "latest setting on a prefix wins"; a message is emitted
// exactly when its level is at least the level of its location; the text carries the formatter
// chain in the documented order.
//
// Stateful model-based test: one fresh fcppt::log::context per case (generated root level, one
// std::ostringstream sink and one generated formatter per level), then a history of
// set / get / log-object creation (3 constructors) / enabled / level / log / FCPPT_LOG_* over
// locations of depth <= 3 with 3 names per depth.
//
// Oracle (written from doc/files/modules/log.doxygen, the Doxygen comments of context.hpp,
// object.hpp, level.hpp, level_stream.hpp, format/*.hpp and examples/log/*.cpp; it shares no code
// with the library): the model stores the LIST of set calls. level(loc) is the level of the most
// recent set whose location is a prefix of loc (the empty location is a prefix of every location),
// else the root level passed to the context's constructor.
//
// Reading (levels of locations created later): the documentation says that the context
// "associates locations with optional_level values" which "can be configured through the
// context::set function, even before any log objects are created", that the root level "is used
// as a default for every location, unless changed", and that "changing the level at a location
// also changes the levels below it". A location is a list of names, whether or not anything has
// been created there; so a set on P applies to every location that has P as a prefix, including
// locations that are first used later. This is the only reading under which "before any log objects
// are created" is useful, and it is what the implementation does (children inherit the parent's
// current level when created), so there is no weaker alternative to fall back to.
//
// Reading (enabled): level.hpp: "Every enumerator state here represents a less serious log level
// than the next one"; helloworld.cpp: "a log context that has debug and every level above enabled";
// log.doxygen: "Passing an empty optional log level disables all levels". Hence
// enabled(m) == (level(loc) has a value v && m >= v) in enumerator order
// verbose < debug < info < warning < error < fatal. object::log: "If enabled(level) is false,
// nothing will be logged".
//
// Reading (text): documented by example only: formatting.cpp prints
// 'This is a formatting test: fcppt: debug: test' for an object named "fcppt" with the object
// formatter "This is a formatting test: " + text and the default level formatter; log.doxygen:
// 'root: child: warning: Print from child.'. Hence
//   written = object_formatter( name_1 + ": " + ... + name_k + ": " + level_formatter(text) )
// with the location names outermost first; a formatter that is nothing is the identity
// (format::chain: "if parent is not nothing, parent is returned. Otherwise, child is returned").
// default_level(l) = level_to_string(l) + ": " + text + "\n" ("prints the level's string in
// front ... appends a newline", separator as in the examples); level_to_string = enumerator name.
// Object locations (log.doxygen, "Log hierarchy design"): (context) -> {name};
// (context, location) -> location + name; (parent object) -> parent's location + name.
// Names are never empty (the behaviour of empty names is not documented).
#include "verif.hpp"

#include <fcppt/make_ref.hpp>
#include <fcppt/string.hpp>
#include <fcppt/enum/array_impl.hpp>
#include <fcppt/enum/array_init.hpp>
#include <fcppt/log/context.hpp>
#include <fcppt/log/debug.hpp>
#include <fcppt/log/error.hpp>
#include <fcppt/log/fatal.hpp>
#include <fcppt/log/info.hpp>
#include <fcppt/log/level.hpp>
#include <fcppt/log/level_stream.hpp>
#include <fcppt/log/level_stream_array.hpp>
#include <fcppt/log/level_to_string.hpp>
#include <fcppt/log/location.hpp>
#include <fcppt/log/name.hpp>
#include <fcppt/log/object.hpp>
#include <fcppt/log/optional_level.hpp>
#include <fcppt/log/out.hpp>
#include <fcppt/log/parameters.hpp>
#include <fcppt/log/verbose.hpp>
#include <fcppt/log/warning.hpp>
#include <fcppt/log/format/chain.hpp>
#include <fcppt/log/format/default_level.hpp>
#include <fcppt/log/format/function.hpp>
#include <fcppt/log/format/inserter.hpp>
#include <fcppt/log/format/optional_function.hpp>
#include <fcppt/log/format/prefix.hpp>
#include <fcppt/log/format/prefix_string.hpp>
#include <fcppt/log/format/suffix_string.hpp>
#include <fcppt/optional/object.hpp>

#include <array>
#include <memory>
#include <sstream>
#include <string>
#include <vector>

// The scheduling hook of DESIGN.md 2.8 (hooks/c19_sched_point.diff): unused in the sequential part,
// defined so that this harness is the same program before and after the hook is in the tree.
extern "C" void fcppt_verif_sched_point(int) {}

using namespace verif;

namespace
{
namespace flog = fcppt::log;
using Loc = std::vector<int>; // name indices, outermost first

constexpr int n_levels = 6;
constexpr int lv_nothing = 6; // model value of the empty optional_level
constexpr flog::level level_values[n_levels] = {flog::level::verbose, flog::level::debug, flog::level::info,
                                                flog::level::warning, flog::level::error, flog::level::fatal};
char const *const level_names[n_levels] = {"verbose", "debug", "info", "warning", "error", "fatal"};
char const *const model_level_names[n_levels + 1] = {"verbose", "debug", "info", "warning", "error", "fatal", "nothing"};

// three names per depth; some names occur at two depths (lookup is by name below one parent) and at
// every depth one name is a proper prefix of a sibling's name (lookup is by the whole name)
char const *const names[3][3] = {{"a", "ab", "c"}, {"a", "d", "da"}, {"b", "d", "bd"}};

flog::optional_level to_opt(int v) { return v == lv_nothing ? flog::optional_level{} : flog::optional_level{level_values[v]}; }
int from_opt(flog::optional_level const &o)
{
  if (!o.has_value()) return lv_nothing;
  for (int i = 0; i < n_levels; ++i)
    if (level_values[i] == o.get_unsafe()) return i;
  return -1;
}
flog::location to_location(Loc const &l)
{
  flog::location r;
  for (std::size_t d = 0; d < l.size(); ++d) r /= flog::name{fcppt::string{names[d][l[d]]}};
  return r;
}
std::string show(Loc const &l)
{
  std::string r = "{";
  for (std::size_t d = 0; d < l.size(); ++d) r += std::string(d ? "," : "") + names[d][l[d]];
  return r + "}";
}
bool is_prefix(Loc const &p, Loc const &l)
{
  if (p.size() > l.size()) return false;
  for (std::size_t i = 0; i < p.size(); ++i)
    if (p[i] != l[i]) return false;
  return true;
}
Loc decode_loc(u64 w, std::size_t max_depth)
{
  std::size_t const d = static_cast<std::size_t>(w % (max_depth + 1));
  Loc l;
  u64 x = w / 4;
  for (std::size_t i = 0; i < d; ++i)
  {
    l.push_back(static_cast<int>(x % 3));
    x /= 3;
  }
  return l;
}

// ---------------------------------------------------------------------------------- formatters
// kind 0: nothing; 1: own function "P<id>~" + text; 2: own function "[" + text + "]<id>";
// 3: library inserter("I<id>(", ")"); for level streams kind 1 is format::default_level instead.
struct Fmt
{
  int kind;
  int id;
};
std::string model_apply(Fmt f, std::string const &t)
{
  switch (f.kind)
  {
  case 1: return "P" + std::to_string(f.id) + "~" + t;
  case 2: return "[" + t + "]" + std::to_string(f.id);
  case 3: return "I" + std::to_string(f.id) + "(" + t + ")";
  default: return t;
  }
}
flog::format::optional_function make_formatter(Fmt f)
{
  switch (f.kind)
  {
  case 1:
  {
    std::string const p = "P" + std::to_string(f.id) + "~";
    return flog::format::optional_function{flog::format::function{[p](fcppt::string const &t) -> fcppt::string { return p + t; }}};
  }
  case 2:
  {
    std::string const s = "]" + std::to_string(f.id);
    return flog::format::optional_function{flog::format::function{[s](fcppt::string const &t) -> fcppt::string { return "[" + t + s; }}};
  }
  case 3:
    return flog::format::optional_function{flog::format::inserter(
        flog::format::prefix_string{fcppt::string{"I" + std::to_string(f.id) + "("}}, flog::format::suffix_string{fcppt::string{")"}})};
  default: return flog::format::optional_function{};
  }
}
std::string model_stream_apply(Fmt f, int level, std::string const &t)
{
  if (f.kind == 1) return std::string(level_names[level]) + ": " + t + "\n";
  return model_apply(f, t);
}
flog::format::optional_function make_stream_formatter(Fmt f, int level)
{
  if (f.kind == 1) return flog::format::optional_function{flog::format::default_level(level_values[level])};
  return make_formatter(f);
}

std::string text_of(u64 w)
{
  switch (w % 8)
  {
  case 0: return "";
  case 1: return "m" + std::to_string((w / 8) % 100);
  case 2: return "a: b: ";
  case 3: return "line1\nline2";
  case 4: return " x ";
  case 5: return "warning: ";
  default: return "t" + std::to_string((w / 8) % 1000);
  }
}
std::string quoted(std::string const &s)
{
  std::string r = "'";
  for (char c : s) r += c == '\n' ? std::string("\\n") : std::string(1, c);
  return r + "'";
}

// -------------------------------------------------------------------------------------- model
struct SetRec
{
  Loc loc;
  int level;
};
struct Model
{
  int root;
  std::vector<SetRec> sets;
  // level of loc and how it was decided: 0 root default, 1 set on loc itself, 2 set on a proper prefix
  int level(Loc const &l, int *how = nullptr) const
  {
    for (std::size_t i = sets.size(); i-- > 0;)
      if (is_prefix(sets[i].loc, l))
      {
        if (how) *how = sets[i].loc.size() == l.size() ? 1 : 2;
        return sets[i].level;
      }
    if (how) *how = 0;
    return root;
  }
};
char const *const how_names[3] = {"root-default", "set-on-the-location", "set-on-a-proper-prefix"};
bool model_enabled(int loc_level, int msg) { return loc_level != lv_nothing && msg >= loc_level; }

struct Obj
{
  std::unique_ptr<flog::object> o;
  Loc loc;
  Fmt fmt;
};

enum Op
{
  op_set, op_get, op_obj_ctx, op_obj_loc, op_obj_parent, op_enabled, op_log, op_macro, n_ops
};
char const *const op_names[n_ops] = {"set", "get", "object(ctx)", "object(ctx,loc)", "object(parent)", "enabled", "log", "FCPPT_LOG_x"};
constexpr unsigned op_table[] = {op_set, op_set, op_set, op_set, op_set, op_get, op_get, op_get, op_obj_ctx, op_obj_loc, op_obj_loc, op_obj_loc,
                                 op_obj_parent, op_obj_parent, op_obj_parent, op_enabled, op_enabled, op_enabled, op_log, op_log, op_log, op_log,
                                 op_macro, op_macro};
constexpr unsigned n_choices = sizeof(op_table) / sizeof(op_table[0]);
constexpr std::size_t max_objects = 24;

struct Machine
{
  std::array<std::ostringstream, n_levels> sinks;
  std::array<std::string, n_levels> expect; // what each sink must contain
  std::array<Fmt, n_levels> stream_fmt;
  std::unique_ptr<flog::context> ctx;
  Model model;
  std::vector<Obj> objs;
  // non-trivial bookkeeping: a set on a proper prefix of an earlier set's location or vice versa
  // (the shorter of the two kept), then an observation at a location below the shorter one
  std::vector<Loc> nested_pairs;
  bool nontrivial{false};

  explicit Machine(Ints const &c, Choices &ch)
  {
    model.root = static_cast<int>(ch.range(0, 6));
    u64 const fk = ch.raw();
    ch.skip_to_frame();
    for (int l = 0; l < n_levels; ++l) stream_fmt[l] = Fmt{static_cast<int>((fk >> (2 * l)) & 3U), 90 + l};
    ctx = std::make_unique<flog::context>(
        to_opt(model.root), fcppt::enum_::array_init<flog::level_stream_array>([this](flog::level const lv) {
          int const i = from_opt(flog::optional_level{lv});
          return flog::level_stream(sinks[static_cast<std::size_t>(i)], make_stream_formatter(stream_fmt[static_cast<std::size_t>(i)], i));
        }));
    (void)c;
  }
  ~Machine()
  {
    while (!objs.empty()) objs.pop_back(); // children before parents, all before the context
  }

  void observed_at(Loc const &l)
  {
    for (Loc const &p : nested_pairs)
      if (is_prefix(p, l)) nontrivial = true;
  }

  bool check_get(Loc const &l, char const *when)
  {
    int how = 0;
    int const want = model.level(l, &how);
    int const got = from_opt(ctx->get(to_location(l)));
    if (got != want)
    {
      fail(std::string("context::get|level|") + how_names[how],
           std::string(when) + ": get(" + show(l) + ") = " + (got < 0 ? "?" : model_level_names[got]) + ", expected " + model_level_names[want] +
               " (latest set on a prefix, else the root level)");
      return false;
    }
    return true;
  }
  bool check_object_levels(Obj const &ob, int only_msg, char const *when)
  {
    int how = 0;
    int const want = model.level(ob.loc, &how);
    int const got = from_opt(ob.o->level());
    if (got != want)
    {
      fail(std::string("object::level|value|") + how_names[how],
           std::string(when) + ": level() of the object at " + show(ob.loc) + " = " + (got < 0 ? "?" : model_level_names[got]) + ", expected " +
               model_level_names[want]);
      return false;
    }
    for (int m = 0; m < n_levels; ++m)
    {
      if (only_msg >= 0 && m != only_msg) continue;
      bool const e = ob.o->enabled(level_values[m]);
      if (e != model_enabled(want, m))
      {
        fail(std::string("object::enabled|decision|") + (want == lv_nothing ? "location-level-nothing" : m == want ? "message-level-equal" : m > want ? "message-level-above" : "message-level-below"),
             std::string(when) + ": object at " + show(ob.loc) + " with level " + model_level_names[want] + ": enabled(" + level_names[m] + ") = " +
                 (e ? "true" : "false"));
        return false;
      }
    }
    return true;
  }
  bool check_sinks(int msg, bool should, std::string const &line, Obj const &ob)
  {
    for (int l = 0; l < n_levels; ++l)
    {
      std::string const got = sinks[static_cast<std::size_t>(l)].str();
      std::string const &want = expect[static_cast<std::size_t>(l)];
      if (got == want) continue;
      std::string const where = "log(" + std::string(level_names[msg]) + ") through the object at " + show(ob.loc) + " (location level " +
                                model_level_names[model.level(ob.loc)] + "): sink of level " + level_names[l];
      if (l != msg)
        fail("object::log|emission|wrong-sink", where + " changed");
      else if (should && got.size() == want.size() - line.size() && want.compare(0, got.size(), got) == 0)
        fail("object::log|emission|enabled-message-missing", where + " did not receive the message");
      else if (!should)
        fail("object::log|emission|disabled-message-written", where + " received " + quoted(got.substr(std::min(got.size(), want.size()))));
      else
        fail("object::log|text|formatter-chain-order",
             where + " received " + quoted(got.substr(std::min(got.size(), want.size() - line.size()))) + ", expected " + quoted(line) +
                 " = object formatter(location names outermost first + level stream formatter(text))");
      return false;
    }
    return true;
  }

  void step(unsigned op, u64 x, u64 y, u64 z)
  {
    switch (op)
    {
    case op_set:
    {
      Loc const l = decode_loc(x, 3);
      int const v = static_cast<int>(y % 7);
      for (SetRec const &s : model.sets)
        if (s.loc.size() != l.size() && (is_prefix(s.loc, l) || is_prefix(l, s.loc))) nested_pairs.push_back(s.loc.size() < l.size() ? s.loc : l);
      ctx->set(to_location(l), to_opt(v));
      model.sets.push_back(SetRec{l, v});
      break;
    }
    case op_get:
    {
      Loc const l = decode_loc(x, 3);
      observed_at(l);
      check_get(l, "get");
      break;
    }
    case op_obj_ctx:
    case op_obj_loc:
    case op_obj_parent:
    {
      if (objs.size() >= max_objects) break;
      Fmt const f{static_cast<int>(y % 4), static_cast<int>(objs.size())};
      Loc l;
      std::unique_ptr<flog::object> o;
      if (op == op_obj_parent)
      {
        if (objs.empty()) break;
        Obj const &parent = objs[static_cast<std::size_t>(x % objs.size())];
        if (parent.loc.size() >= 3) break;
        l = parent.loc;
        int const n = static_cast<int>(z % 3);
        flog::name nm{fcppt::string{names[l.size()][n]}};
        l.push_back(n);
        o = std::make_unique<flog::object>(*parent.o, flog::parameters(std::move(nm), make_formatter(f)));
      }
      else
      {
        l = op == op_obj_ctx ? Loc{} : decode_loc(x, 2);
        int const n = static_cast<int>(z % 3);
        flog::name nm{fcppt::string{names[l.size()][n]}};
        if (op == op_obj_ctx)
          o = std::make_unique<flog::object>(fcppt::make_ref(*ctx), flog::parameters(std::move(nm), make_formatter(f)));
        else
          o = std::make_unique<flog::object>(fcppt::make_ref(*ctx), to_location(l), flog::parameters(std::move(nm), make_formatter(f)));
        l.push_back(n);
      }
      objs.push_back(Obj{std::move(o), l, f});
      // the new object reports the level of its location at once
      observed_at(l);
      check_object_levels(objs.back(), -1, "after construction");
      break;
    }
    case op_enabled:
    {
      if (objs.empty()) break;
      Obj const &ob = objs[static_cast<std::size_t>(x % objs.size())];
      observed_at(ob.loc);
      check_object_levels(ob, static_cast<int>(y % 6), "enabled");
      break;
    }
    case op_log:
    case op_macro:
    {
      if (objs.empty()) break;
      Obj const &ob = objs[static_cast<std::size_t>(x % objs.size())];
      int const m = static_cast<int>(y % 6);
      std::string const text = text_of(z);
      observed_at(ob.loc);
      bool const should = model_enabled(model.level(ob.loc), m);
      std::string line;
      if (should)
      {
        std::string inner = model_stream_apply(stream_fmt[static_cast<std::size_t>(m)], m, text);
        std::string pre;
        for (std::size_t d = 0; d < ob.loc.size(); ++d) pre += std::string(names[d][ob.loc[d]]) + ": ";
        line = model_apply(ob.fmt, pre + inner);
        expect[static_cast<std::size_t>(m)] += line;
      }
      if (op == op_log)
        ob.o->log(level_values[m], flog::out << text);
      else
      {
        flog::object &lo = *ob.o;
        switch (m)
        {
        case 0: FCPPT_LOG_VERBOSE(lo, flog::out << text) break;
        case 1: FCPPT_LOG_DEBUG(lo, flog::out << text) break;
        case 2: FCPPT_LOG_INFO(lo, flog::out << text) break;
        case 3: FCPPT_LOG_WARNING(lo, flog::out << text) break;
        case 4: FCPPT_LOG_ERROR(lo, flog::out << text) break;
        default: FCPPT_LOG_FATAL(lo, flog::out << text) break;
        }
      }
      check_sinks(m, should, line, ob);
      break;
    }
    default: break;
    }
  }

  void final_sweep()
  {
    // every location of depth <= 3 (get does not create anything) and every object, all levels
    for (u64 w = 0; w < 4 * 27; ++w)
    {
      Loc const l = decode_loc(w, 3);
      if (w / 4 >= 1 && l.empty()) continue;
      if (!check_get(l, "final sweep")) return;
    }
    for (Obj const &ob : objs)
      if (!check_object_levels(ob, -1, "final sweep")) return;
  }
};

void seq_case(Ints const &c)
{
  Choices ch(c);
  std::size_t const nframes = c.size() / 4;
  Machine m(c, ch);
  for (std::size_t i = 1; i < nframes && i <= 60; ++i)
  {
    unsigned const op = op_table[ch.index(n_choices)];
    u64 const x = ch.raw(), y = ch.raw(), z = ch.raw();
    ch.skip_to_frame();
    m.step(op, x, y, z);
    if (failed_in_current_case()) break;
  }
  if (!failed_in_current_case()) m.final_sweep();
  count(m.nontrivial);
}

std::string seq_describe(Ints const &c)
{
  Choices ch(c);
  std::size_t const nframes = c.size() / 4;
  std::string r = std::string("context(root=") + model_level_names[ch.range(0, 6)];
  u64 const fk = ch.raw();
  ch.skip_to_frame();
  r += ", stream formatters=";
  for (int l = 0; l < n_levels; ++l) r += std::to_string((fk >> (2 * l)) & 3U);
  r += "):";
  std::size_t nobj = 0;
  std::vector<Loc> olocs;
  for (std::size_t i = 1; i < nframes && i <= 60; ++i)
  {
    unsigned const op = op_table[ch.index(n_choices)];
    u64 const x = ch.raw(), y = ch.raw(), z = ch.raw();
    ch.skip_to_frame();
    r += std::string(" ") + op_names[op] + "(";
    switch (op)
    {
    case op_set: r += show(decode_loc(x, 3)) + "," + model_level_names[y % 7]; break;
    case op_get: r += show(decode_loc(x, 3)); break;
    case op_obj_ctx:
    case op_obj_loc:
    case op_obj_parent:
    {
      if (olocs.size() >= max_objects) { r += "-"; break; }
      Loc l;
      if (op == op_obj_parent)
      {
        if (olocs.empty() || olocs[x % olocs.size()].size() >= 3) { r += "-"; break; }
        l = olocs[x % olocs.size()];
        r += "#" + std::to_string(x % olocs.size()) + ",";
      }
      else if (op == op_obj_loc)
      {
        l = decode_loc(x, 2);
        r += show(l) + ",";
      }
      int const n = static_cast<int>(z % 3);
      r += std::string("name=") + names[l.size()][n] + ",fmt=" + std::to_string(y % 4) + ")->#" + std::to_string(olocs.size());
      l.push_back(n);
      olocs.push_back(l);
      ++nobj;
      continue;
    }
    case op_enabled:
      if (olocs.empty()) r += "-";
      else r += "#" + std::to_string(x % olocs.size()) + "," + level_names[y % 6];
      break;
    default:
      if (olocs.empty()) r += "-";
      else r += "#" + std::to_string(x % olocs.size()) + "," + level_names[y % 6] + "," + quoted(text_of(z));
      break;
    }
    r += ")";
  }
  (void)nobj;
  return r;
}

Reg const r_seq{"log_histories", Kind::random,
                "history contains a set on a proper prefix of the location of an earlier set (or on a longer location below an earlier set) followed by a get / "
                "enabled / level / log observation at a location below the shorter of the two",
                [] { run_random(*g_cur.sec, {15000, 60}, {20000, 60}); }, seq_case, seq_describe};

// ------------------------------------------------------------------- format::chain, level_stream
// Exhaustive: chain(parent, child) over all formatter kinds ("parent (.) child", nothing = the
// other one) and level_stream::log(output, additional) = additional(formatter(text)) written to
// the sink ("additional_formatter ... is used first, and is usually provided by the logger object";
// Reading: as in the formatting example, where the object's text is outermost).
void chain_one(Ints const &c)
{
  Choices ch(c);
  Fmt const a{static_cast<int>(ch.range(0, 3)), 1}, b{static_cast<int>(ch.range(0, 3)), 2};
  std::string const text = text_of(ch.raw());
  int const lv = static_cast<int>(ch.range(0, 5));
  flog::format::optional_function const f = flog::format::chain(make_formatter(a), make_stream_formatter(b, lv));
  std::string const want = model_apply(a, model_stream_apply(b, lv, text));
  if (f.has_value() != (a.kind != 0 || b.kind != 0))
    fail("format::chain|presence|nothing-operand", "chain(kind " + std::to_string(a.kind) + ", kind " + std::to_string(b.kind) + ").has_value() = " + (f.has_value() ? "true" : "false"));
  else if (f.has_value())
  {
    std::string const got = f.get_unsafe()(text);
    if (got != want) fail("format::chain|composition|order", "chain(parent,child)(" + quoted(text) + ") = " + quoted(got) + ", expected parent(child(text)) = " + quoted(want));
  }
  std::ostringstream sink;
  flog::level_stream const ls(sink, make_stream_formatter(b, lv));
  ls.log(flog::out << text, make_formatter(a));
  if (sink.str() != want)
    fail("level_stream::log|text|order", "level_stream::log wrote " + quoted(sink.str()) + ", expected additional(formatter(text)) = " + quoted(want));
  count(a.kind != 0 && b.kind != 0);
}
void chain_run()
{
  for (i64 a = 0; a < 4; ++a)
    for (i64 b = 0; b < 4; ++b)
      for (i64 t = 0; t < 8; ++t)
        for (i64 lv = 0; lv < 6; ++lv)
        {
          Ints const c{a, b, t + 8 * 7, lv};
          cur_vec(c);
          chain_one(c);
        }
}
std::string chain_describe(Ints const &c)
{
  Choices ch(c);
  std::string r = "chain(kind " + std::to_string(ch.range(0, 3));
  r += ", kind " + std::to_string(ch.range(0, 3)) + ")(";
  r += quoted(text_of(ch.raw())) + ") level ";
  return r + level_names[ch.range(0, 5)];
}
Reg const r_chain{"format_chain", Kind::exhaustive, "both formatters are present (a real composition)", chain_run, chain_one, chain_describe};
}
