// VERIF: lib rc quick_shards=4 fuzz=strings_random
// C01 (container / string / filesystem part of the registry) - safe API is total.
// Oracle: (a) the process survives ASan+UBSan+_GLIBCXX_ASSERTIONS, (b) only the documented exception
// types escape (catch(...) around every call), (c) the watchdog, (d) a returned optional/either is
// well-formed (its value is read). Value correctness is C06/C15/C16, not here.
#include "verif.hpp"

#include <fcppt/extract_from_string.hpp>
#include <fcppt/extract_from_string_locale.hpp>
#include <fcppt/from_std_string.hpp>
#include <fcppt/from_std_wstring.hpp>
#include <fcppt/make_ref.hpp>
#include <fcppt/narrow.hpp>
#include <fcppt/narrow_locale.hpp>
#include <fcppt/runtime_index.hpp>
#include <fcppt/string.hpp>
#include <fcppt/to_std_string.hpp>
#include <fcppt/to_std_wstring.hpp>
#include <fcppt/widen.hpp>
#include <fcppt/widen_locale.hpp>
#include <fcppt/array/from_range.hpp>
#include <fcppt/array/object.hpp>
#include <fcppt/assert/unreachable.hpp>
#include <fcppt/cast/dynamic.hpp>
#include <fcppt/container/at_optional.hpp>
#include <fcppt/container/find_opt.hpp>
#include <fcppt/container/find_opt_iterator.hpp>
#include <fcppt/container/find_opt_mapped.hpp>
#include <fcppt/container/maybe_back.hpp>
#include <fcppt/container/maybe_front.hpp>
#include <fcppt/container/pop_back.hpp>
#include <fcppt/container/pop_front.hpp>
#include <fcppt/container/grid/at_optional.hpp>
#include <fcppt/container/grid/clamped_min.hpp>
#include <fcppt/container/grid/clamped_sup.hpp>
#include <fcppt/container/grid/clamped_sup_signed.hpp>
#include <fcppt/container/grid/dim.hpp>
#include <fcppt/container/grid/pos.hpp>
#include <fcppt/math/clamp.hpp>
#include <fcppt/container/grid/object.hpp>
#include <fcppt/either/object.hpp>
#include <fcppt/enum/from_string.hpp>
#include <fcppt/enum/to_string_case.hpp>
#include <fcppt/enum/to_string_impl_fwd.hpp>
#include <fcppt/filesystem/create_directories_recursive.hpp>
#include <fcppt/filesystem/create_directory.hpp>
#include <fcppt/filesystem/extension.hpp>
#include <fcppt/filesystem/extension_without_dot.hpp>
#include <fcppt/filesystem/file_size.hpp>
#include <fcppt/filesystem/make_directory_range.hpp>
#include <fcppt/filesystem/make_recursive_directory_range.hpp>
#include <fcppt/filesystem/normalize.hpp>
#include <fcppt/filesystem/num_subpaths.hpp>
#include <fcppt/filesystem/open.hpp>
#include <fcppt/filesystem/path_to_string.hpp>
#include <fcppt/filesystem/remove_extension.hpp>
#include <fcppt/filesystem/replace_extension.hpp>
#include <fcppt/filesystem/stem.hpp>
#include <fcppt/filesystem/strip_prefix.hpp>
#include <fcppt/io/read_chars.hpp>
#include <fcppt/io/stream_to_string.hpp>
#include <fcppt/optional/object.hpp>
#include <fcppt/optional/reference.hpp>

#include <array>
#include <deque>
#include <filesystem>
#include <fstream>
#include <list>
#include <map>
#include <set>
#include <sstream>
#include <stdexcept>
#include <string>
#include <typeinfo>
#include <unistd.h>
#include <unordered_map>
#include <vector>

using namespace verif;

namespace
{
enum class fruit { apple, pear, fcppt_maximum = pear };
}
namespace fcppt::enum_
{
template <>
struct to_string_impl<fruit>
{
  static std::string_view get(fruit const v)
  {
    switch (v)
    {
      FCPPT_ENUM_TO_STRING_CASE(fruit, apple);
      FCPPT_ENUM_TO_STRING_CASE(fruit, pear);
    }
    FCPPT_ASSERT_UNREACHABLE;
  }
};
}

namespace
{
volatile long long g_sink = 0;
template <typename T>
void touch(T const &v)
{
  // read the object representation so that an ill-formed result trips a sanitizer
  unsigned char const *p = reinterpret_cast<unsigned char const *>(&v);
  long long s = 0;
  for (std::size_t i = 0; i < sizeof(T); ++i) s += p[i];
  g_sink = g_sink + s;
}
void touch(std::string const &s) { long long t = 0; for (char c : s) t += c; g_sink = g_sink + t + static_cast<long long>(s.size()); }
void touch(std::wstring const &s) { long long t = 0; for (wchar_t c : s) t += c; g_sink = g_sink + t; }
void touch(std::filesystem::path const &p) { touch(p.native()); }

// call f; only the whitelisted exception types may escape
template <typename... Allowed, typename F>
void total(char const *site, F &&f)
{
  try
  {
    f();
  }
  catch (std::bad_alloc const &)
  {
  }
  catch (std::exception const &e)
  {
    bool ok = false;
    ((ok = ok || dynamic_cast<Allowed const *>(&e) != nullptr), ...);
    if (!ok) fail(std::string(site) + "|undocumented-exception", std::string(typeid(e).name()) + ": " + e.what());
  }
  catch (...)
  {
    fail(std::string(site) + "|undocumented-exception", "non-std exception escaped");
  }
}

// ---------------------------------------------------------------------------- containers
struct base_t { virtual ~base_t() = default; int b{1}; };
struct derived_a : base_t { int a{2}; };
struct derived_b : base_t { int x{3}; };

std::size_t const huge_indices[] = {static_cast<std::size_t>(-1), static_cast<std::size_t>(-1) / 2, static_cast<std::size_t>(-1) / 2 + 1, std::size_t{1} << 32, (std::size_t{1} << 63) + 1};

void containers_one(std::size_t n, std::size_t idx)
{
  count(n <= 1 || idx + 1 >= n);
  std::vector<int> v;
  std::deque<int> d;
  std::list<int> l;
  std::map<int, int> m;
  std::set<int> s;
  std::unordered_map<int, std::string> um;
  std::string str;
  for (std::size_t i = 0; i < n; ++i)
  {
    int const x = static_cast<int>(i * 2);
    v.push_back(x); d.push_back(x); l.push_back(x); m.emplace(x, x + 1); s.insert(x); um.emplace(x, std::string(i, 'z')); str.push_back(static_cast<char>('a' + i));
  }
  std::vector<int> const cv = v;
  int const key = static_cast<int>(idx);
  total("container::at_optional", [&] {
    if (auto r = fcppt::container::at_optional(v, idx); r.has_value()) touch(r.get_unsafe().get());
    if (auto r = fcppt::container::at_optional(cv, idx); r.has_value()) touch(r.get_unsafe().get());
    if (auto r = fcppt::container::at_optional(d, idx); r.has_value()) touch(r.get_unsafe().get());
    if (auto r = fcppt::container::at_optional(str, idx); r.has_value()) touch(r.get_unsafe().get());
    std::array<int, 3> arr{{1, 2, 3}};
    if (auto r = fcppt::container::at_optional(arr, idx); r.has_value()) touch(r.get_unsafe().get());
  });
  total("container::maybe_front/back", [&] {
    if (auto r = fcppt::container::maybe_front(v); r.has_value()) touch(r.get_unsafe().get());
    if (auto r = fcppt::container::maybe_back(v); r.has_value()) touch(r.get_unsafe().get());
    if (auto r = fcppt::container::maybe_front(cv); r.has_value()) touch(r.get_unsafe().get());
    if (auto r = fcppt::container::maybe_back(d); r.has_value()) touch(r.get_unsafe().get());
    if (auto r = fcppt::container::maybe_front(l); r.has_value()) touch(r.get_unsafe().get());
    if (auto r = fcppt::container::maybe_back(l); r.has_value()) touch(r.get_unsafe().get());
  });
  total("container::find_opt", [&] {
    if (auto r = fcppt::container::find_opt(m, key); r.has_value()) touch(r.get_unsafe().get().second);
    { std::set<int> const &cs = s; if (auto r = fcppt::container::find_opt(cs, key); r.has_value()) touch(r.get_unsafe().get()); } // (a non-const std::set does not compile with find_opt)
    if (auto r = fcppt::container::find_opt(um, key); r.has_value()) touch(r.get_unsafe().get().second);
    if (auto r = fcppt::container::find_opt_mapped(m, key); r.has_value()) touch(r.get_unsafe().get());
    if (auto r = fcppt::container::find_opt_mapped(um, key); r.has_value()) touch(r.get_unsafe().get());
    if (auto r = fcppt::container::find_opt_iterator(m, key); r.has_value()) touch(r.get_unsafe()->second);
  });
  total("container::pop_back/front", [&] {
    // pop until empty and twice more
    for (std::size_t i = 0; i < n + 2; ++i)
    {
      if (auto r = fcppt::container::pop_back(v); r.has_value()) touch(r.get_unsafe());
      if (auto r = fcppt::container::pop_front(d); r.has_value()) touch(r.get_unsafe());
      if (auto r = fcppt::container::pop_back(l); r.has_value()) touch(r.get_unsafe());
      if (auto r = fcppt::container::pop_front(l); r.has_value()) touch(r.get_unsafe());
    }
  });
  total("array::from_range", [&] {
    if (auto r = fcppt::array::from_range<0>(cv); r.has_value()) touch(r.get_unsafe());
    if (auto r = fcppt::array::from_range<1>(cv); r.has_value()) touch(r.get_unsafe());
    if (auto r = fcppt::array::from_range<3>(cv); r.has_value()) touch(r.get_unsafe());
    if (auto r = fcppt::array::from_range<4>(std::vector<int>(cv)); r.has_value()) touch(r.get_unsafe());
  });
  total("runtime_index", [&] {
    int const r = fcppt::runtime_index<std::integral_constant<std::size_t, 3>>(
        idx, [](auto const ic) { return static_cast<int>(decltype(ic)::value); }, [] { return -1; });
    if ((idx < 3) != (r >= 0)) fail("runtime_index|dispatch", "runtime_index<3>(" + std::to_string(idx) + ") took the wrong branch");
    unsigned char const small = static_cast<unsigned char>(idx);
    touch(fcppt::runtime_index<std::integral_constant<unsigned char, 2>>(small, [](auto) { return 1; }, [] { return 0; }));
  });
  total("cast::dynamic", [&] {
    derived_a a;
    derived_b b;
    base_t &ra = a, &rb = b;
    base_t const &cra = a;
    auto r1 = fcppt::cast::dynamic<derived_a>(ra);
    auto r2 = fcppt::cast::dynamic<derived_a>(rb);
    auto r3 = fcppt::cast::dynamic<derived_a const>(cra);
    if (!r1.has_value() || r2.has_value() || !r3.has_value()) fail("cast::dynamic|presence", "dynamic cast result has the wrong presence");
    if (r1.has_value()) touch(r1.get_unsafe().get().a);
  });
  // grid: every position in a margin around an n x (idx%4) grid, and huge coordinates
  total("grid::at_optional", [&] {
    using grid2 = fcppt::container::grid::object<int, 2>;
    using grid1 = fcppt::container::grid::object<int, 1>;
    using grid3 = fcppt::container::grid::object<int, 3>;
    std::size_t const h = idx % 4;
    grid2 g(grid2::dim(n, h), 7);
    grid2 const &cg = g;
    for (std::size_t x = 0; x <= n + 1; ++x)
      for (std::size_t y = 0; y <= h + 1; ++y)
      {
        auto r = fcppt::container::grid::at_optional(g, grid2::pos(x, y));
        if (r.has_value() != (x < n && y < h)) fail("grid::at_optional|presence", "at_optional(" + std::to_string(x) + "," + std::to_string(y) + ") on a " + std::to_string(n) + "x" + std::to_string(h) + " grid");
        if (r.has_value()) touch(r.get_unsafe().get());
        if (auto c = fcppt::container::grid::at_optional(cg, grid2::pos(x, y)); c.has_value()) touch(c.get_unsafe().get());
      }
    for (std::size_t hi : huge_indices)
    {
      if (fcppt::container::grid::at_optional(g, grid2::pos(hi, std::size_t{0})).has_value() || fcppt::container::grid::at_optional(g, grid2::pos(std::size_t{0}, hi)).has_value() || fcppt::container::grid::at_optional(g, grid2::pos(hi, hi)).has_value())
        fail("grid::at_optional|huge-coordinate", "a huge coordinate was accepted");
    }
    // the clamp helpers, also on empty grids (a size component of 0) and with positions outside
    {
      using spos = fcppt::container::grid::pos<std::ptrdiff_t, 2>;
      using udim = fcppt::container::grid::dim<std::size_t, 2>;
      for (std::ptrdiff_t x = -2; x <= static_cast<std::ptrdiff_t>(n) + 1; ++x)
        for (std::ptrdiff_t y = -1; y <= static_cast<std::ptrdiff_t>(h) + 1; ++y)
        {
          auto const mn = fcppt::container::grid::clamped_min(spos(x, y));
          auto const sp = fcppt::container::grid::clamped_sup_signed(spos(x, y), udim(n, h));
          touch(mn);
          touch(sp);
          if (sp.get().x() > n || sp.get().y() > h) fail("grid::clamped_sup_signed|beyond-size", "clamped_sup_signed exceeds the size");
          auto const us = fcppt::container::grid::clamped_sup(grid2::pos(static_cast<std::size_t>(x < 0 ? 0 : x), static_cast<std::size_t>(y < 0 ? 0 : y)), udim(n, h));
          touch(us);
        }
      // clamp on one-point and empty intervals
      for (int v = -1; v <= 1; ++v)
      {
        auto const one = fcppt::math::clamp(v, 0, 0);
        if (!one.has_value()) fail("math::clamp|one-point-interval", "clamp(v, 0, 0) returned nothing");
        else touch(one.get_unsafe());
        if (fcppt::math::clamp(v, 1, 0).has_value()) fail("math::clamp|empty-interval", "clamp(v, 1, 0) returned a value");
      }
    }
    grid1 g1(grid1::dim(n), 1);
    if (auto r = fcppt::container::grid::at_optional(g1, grid1::pos(idx)); r.has_value()) touch(r.get_unsafe().get());
    grid3 g3(grid3::dim(n, std::size_t{2}, h), 1);
    if (auto r = fcppt::container::grid::at_optional(g3, grid3::pos(idx, std::size_t{1}, std::size_t{0})); r.has_value()) touch(r.get_unsafe().get());
  });
}
Reg const r_containers{"containers", Kind::exhaustive, "container is empty or has one element, or the index is the last valid one or beyond (incl. huge indices)",
                       [] {
                         for (i64 n = 0; n <= 5; ++n)
                         {
                           for (i64 idx = 0; idx <= n + 2; ++idx) { cur2(n, idx); containers_one(static_cast<std::size_t>(n), static_cast<std::size_t>(idx)); }
                           for (std::size_t h : huge_indices) { cur2(n, static_cast<i64>(h)); containers_one(static_cast<std::size_t>(n), h); }
                         }
                       },
                       [](Ints const &c) { containers_one(static_cast<std::size_t>(c.at(0)) % 6, static_cast<std::size_t>(c.at(1))); },
                       [](Ints const &c) { return "optional-returning container helpers on containers of size " + std::to_string(c.at(0) % 6) + " with index/key " + std::to_string(static_cast<std::size_t>(c.at(1))); }};

// ---------------------------------------------------------------------------- strings
char const alphabet[] = {'0', '1', '9', '-', '+', '.', 'e', 'x', ' ', 'a', '\n', '\0', '\xff', '\xc3', '\xa4', ',', 't', 'r', 'u', 'E', 'n', 'f', 'i'};
constexpr std::size_t n_alpha = sizeof(alphabet);

std::string decode_string(Ints const &c)
{
  std::string s;
  for (i64 x : c)
  {
    if (s.size() >= 40) break;
    s.push_back(alphabet[static_cast<u64>(x) % n_alpha]);
  }
  return s;
}
std::string show_string(std::string const &s)
{
  std::string r = "\"";
  for (unsigned char ch : s)
  {
    if (ch >= 0x20 && ch < 0x7f && ch != '"') r.push_back(static_cast<char>(ch));
    else { char b[8]; std::snprintf(b, sizeof b, "\\x%02x", ch); r += b; }
  }
  return r + "\"";
}
std::locale const &utf8()
{
  static std::locale const l("C.utf8");
  return l;
}
template <typename T, typename S>
void extract_one(S const &s)
{
  auto const r = fcppt::extract_from_string<T>(s);
  if (r.has_value()) touch(r.get_unsafe());
  auto const r2 = fcppt::extract_from_string_locale<T>(s, utf8());
  if (r2.has_value()) touch(r2.get_unsafe());
}
void strings_one(std::string const &s)
{
  bool const boundary = s.empty() || s.size() == 1 || s.find('\0') != std::string::npos || s.find('\xff') != std::string::npos || s.find('-') != std::string::npos;
  count(boundary);
  // exact-size heap copy: a read past the end is an ASan error
  std::unique_ptr<char[]> exact(new char[s.size() == 0 ? 1 : s.size()]);
  std::copy(s.begin(), s.end(), exact.get());
  std::string_view const view(exact.get(), s.size());
  std::wstring w;
  for (unsigned char ch : s) w.push_back(static_cast<wchar_t>(ch < 0x80 ? ch : 0x100 * ch + 0xD700));
  total("extract_from_string", [&] {
    extract_one<int>(s); extract_one<unsigned>(s); extract_one<long long>(s); extract_one<double>(s); extract_one<std::string>(s);
    extract_one<short>(s); extract_one<unsigned long long>(s); extract_one<float>(s); extract_one<bool>(s); extract_one<char>(s);
    extract_one<int>(w); extract_one<double>(w); extract_one<std::wstring>(w); extract_one<unsigned>(w);
  });
  total("enum::from_string", [&] {
    if (auto r = fcppt::enum_::from_string<fruit>(view); r.has_value()) touch(r.get_unsafe());
  });
  total("io::stream_to_string", [&] {
    std::istringstream is(s);
    auto const r = fcppt::io::stream_to_string(is);
    if (r.has_value()) touch(r.get_unsafe());
    std::istringstream bad(s);
    bad.setstate(std::ios_base::failbit);
    auto const r2 = fcppt::io::stream_to_string(bad);
    if (r2.has_value()) touch(r2.get_unsafe());
    std::wistringstream wis(w);
    auto const r3 = fcppt::io::stream_to_string(wis);
    if (r3.has_value()) touch(r3.get_unsafe());
  });
  total("io::read_chars", [&] {
    for (std::size_t cnt : {std::size_t{0}, std::size_t{1}, s.size(), s.size() + 1, std::size_t{64}})
    {
      std::istringstream is(s);
      auto const r = fcppt::io::read_chars(is, cnt);
      if (r.has_value()) { long long t = 0; for (char ch : r.get_unsafe()) t += ch; g_sink = g_sink + t; }
    }
  });
  // codecvt family: runtime_error is the documented failure of the widen family
  total<std::runtime_error>("widen", [&] { touch(fcppt::widen_locale(view, utf8())); });
  total<std::runtime_error>("widen", [&] { touch(fcppt::widen(view)); });
  total<std::runtime_error>("to_std_wstring", [&] { touch(fcppt::to_std_wstring(view)); });
  total("narrow", [&] {
    if (auto r = fcppt::narrow_locale(w, utf8()); r.has_value()) touch(r.get_unsafe());
    if (auto r = fcppt::narrow(w); r.has_value()) touch(r.get_unsafe());
    if (auto r = fcppt::from_std_wstring(w); r.has_value()) touch(r.get_unsafe());
    touch(fcppt::from_std_string(view));
    if (auto r = fcppt::to_std_string(view); r.has_value()) touch(r.get_unsafe());
  });
}
Reg const r_strings_ex{"strings_short_exhaustive", Kind::exhaustive, "string is empty, has one character, or contains NUL, 0xff or '-'",
                       [] {
                         setenv("LC_ALL", "C.utf8", 1);
                         std::size_t const maxlen = opts().thorough() ? 3 : 2;
                         for (std::size_t len = 0; len <= maxlen; ++len)
                         {
                           std::size_t total_n = 1;
                           for (std::size_t i = 0; i < len; ++i) total_n *= n_alpha;
                           for (std::size_t k = 0; k < total_n; ++k)
                           {
                             Ints c;
                             std::size_t kk = k;
                             for (std::size_t i = 0; i < len; ++i) { c.push_back(static_cast<i64>(kk % n_alpha)); kk /= n_alpha; }
                             cur_vec(c);
                             strings_one(decode_string(c));
                           }
                         }
                       },
                       [](Ints const &c) { setenv("LC_ALL", "C.utf8", 1); strings_one(decode_string(c)); },
                       [](Ints const &c) { return "extract/io/codecvt/enum functions on " + show_string(decode_string(c)); }};
Reg const r_strings_rand{"strings_random", Kind::random, "string is empty, has one character, or contains NUL, 0xff or '-'",
                         [] { setenv("LC_ALL", "C.utf8", 1); run_random(*g_cur.sec, {3000, 10}, {30000, 10}); },
                         [](Ints const &c) { setenv("LC_ALL", "C.utf8", 1); strings_one(decode_string(c)); },
                         [](Ints const &c) { return "extract/io/codecvt/enum functions on " + show_string(decode_string(c)); }};

// ---------------------------------------------------------------------------- filesystem
std::filesystem::path scratch_dir()
{
  static std::filesystem::path const p = [] {
    char const *base = std::getenv("VERIF_SCRATCH");
    std::filesystem::path d = (base != nullptr ? std::filesystem::path(base) : std::filesystem::temp_directory_path()) / ("c01-fs-" + std::to_string(::getpid()));
    std::filesystem::remove_all(d);
    std::filesystem::create_directories(d / "dir.d" / "sub");
    { std::ofstream f(d / "file.txt"); f << "hello world"; }
    { std::ofstream f(d / "empty"); }
    { std::ofstream f(d / "dir.d" / "inner.tar.gz"); f << "x"; }
    { std::ofstream f(d / ".hidden"); f << "h"; }
    return d;
  }();
  return p;
}
std::vector<std::string> const &path_suffixes()
{
  static std::vector<std::string> const v{
      "", ".", "..", "/", "//", "file.txt", "empty", "dir.d", "dir.d/", "dir.d//", "dir.d/.", "dir.d/..", "dir.d/inner.tar.gz", "dir.d/sub", "missing",
      "missing/deeper/file.x", ".hidden", "a.b.c", "a.", ".a.", "...", "no_ext", "file.txt/", "file.txt/below", "with space.txt", "uml\xc3\xa4ut.\xc3\xa4", "new\nline",
      std::string(300, 'n') + ".ext", std::string(20, '/'), "-", "--", "*", "dir.d/sub/../inner.tar.gz", "file.txt.", "\xff\xfe.bad", "a/b/c/d/e/f/g/h/i/j.k"};
  return v;
}
std::vector<std::string> const &extensions()
{
  static std::vector<std::string> const v{"", "txt", ".txt", "a/b", "tar.gz", std::string(1, '\0'), " "};
  return v;
}
void fs_one(std::size_t pi, std::size_t rooted, std::size_t ei)
{
  namespace fs = fcppt::filesystem;
  std::string const &suffix = path_suffixes()[pi % path_suffixes().size()];
  std::filesystem::path const p = rooted == 0 ? std::filesystem::path(suffix) : (rooted == 1 ? scratch_dir() / suffix : std::filesystem::path(scratch_dir().string() + "/" + suffix));
  std::error_code ec;
  bool const exists = std::filesystem::exists(p, ec);
  count(!exists || suffix.empty() || suffix.back() == '/' || suffix.front() == '.');
  total("filesystem::file_size", [&] {
    auto const r = fs::file_size(p);
    if (r.has_value()) touch(r.get_unsafe());
    std::error_code e2;
    bool const regular = std::filesystem::is_regular_file(p, e2);
    if (regular && !r.has_value()) fail("filesystem::file_size|regular-file-without-size", "no size for the regular file " + p.string());
  });
  total("filesystem::remove_extension", [&] { touch(fs::remove_extension(p)); });
  total("filesystem::stem", [&] { touch(fs::stem(p)); });
  total("filesystem::extension", [&] { touch(fs::extension(p)); touch(fs::extension_without_dot(p)); });
  total("filesystem::normalize", [&] { touch(fs::normalize(p)); });
  total("filesystem::num_subpaths", [&] { touch(fs::num_subpaths(p)); });
  total("filesystem::replace_extension", [&] { touch(fs::replace_extension(p, extensions()[ei % extensions().size()])); });
  total("filesystem::path_to_string", [&] { touch(fs::path_to_string(p)); });
  total("filesystem::open", [&] {
    auto r = fs::open<std::ifstream>(p, std::ios_base::in);
    if (r.has_value()) { char ch = 0; r.get_unsafe().get(ch); touch(ch); }
    auto r2 = fs::open<std::ifstream>(p, std::ios_base::in | std::ios_base::binary | std::ios_base::ate);
    touch(r2.has_value());
  });
  total("filesystem::strip_prefix", [&] {
    // only inside its precondition: the prefix is a real prefix
    std::filesystem::path const full = scratch_dir() / suffix;
    std::filesystem::path const pre = scratch_dir();
    bool const is_prefix = std::distance(pre.begin(), pre.end()) <= std::distance(full.begin(), full.end()) &&
                           std::equal(pre.begin(), pre.end(), full.begin());
    if (rooted != 0 && is_prefix) touch(fs::strip_prefix(pre, full));
    touch(fs::strip_prefix(std::filesystem::path{}, p));
  });
  total("filesystem::make_directory_range", [&] {
    auto r = fs::make_directory_range(p, std::filesystem::directory_options::none);
    if (r.has_success())
    {
      std::size_t n = 0;
      for (auto const &e : r.get_success_unsafe()) { touch(e.path()); if (++n > 50) break; }
    }
    else
      touch(r.get_failure_unsafe().value());
    auto rr = fs::make_recursive_directory_range(p, std::filesystem::directory_options::skip_permission_denied);
    if (rr.has_success())
    {
      std::size_t n = 0;
      for (auto const &e : rr.get_success_unsafe()) { touch(e.path()); if (++n > 50) break; }
    }
  });
  if (rooted != 0 && suffix.find("..") == std::string::npos && !suffix.empty())
  {
    total("filesystem::create_directory", [&] {
      std::filesystem::path const np = scratch_dir() / "created" / suffix;
      auto const r = fs::create_directories_recursive(np.parent_path());
      touch(r.has_value());
      auto const r2 = fs::create_directory(np);
      touch(r2.has_value());
      auto const r3 = fs::create_directory(np);
      touch(r3.has_value());
    });
  }
}
Reg const r_fs{"filesystem_paths", Kind::exhaustive, "path does not exist, is empty, ends in a slash or starts with a dot",
               [] {
                 for (i64 pi = 0; pi < static_cast<i64>(path_suffixes().size()); ++pi)
                   for (i64 rooted = 0; rooted < 3; ++rooted)
                     for (i64 ei = 0; ei < static_cast<i64>(extensions().size()); ++ei) { cur3(pi, rooted, ei); fs_one(static_cast<std::size_t>(pi), static_cast<std::size_t>(rooted), static_cast<std::size_t>(ei)); }
                 std::error_code ec;
                 std::filesystem::remove_all(scratch_dir(), ec);
               },
               [](Ints const &c) { fs_one(static_cast<std::size_t>(c.at(0)), static_cast<std::size_t>(c.at(1)) % 3, static_cast<std::size_t>(c.at(2))); std::error_code ec; std::filesystem::remove_all(scratch_dir(), ec); },
               [](Ints const &c) { return "filesystem functions on " + show_string(path_suffixes()[static_cast<std::size_t>(c.at(0)) % path_suffixes().size()]) + (c.at(1) % 3 == 0 ? " (relative)" : " (inside the scratch directory)") + " ext " + show_string(extensions()[static_cast<std::size_t>(c.at(2)) % extensions().size()]); }};
}
