// VERIF: quick_shards=3
// C04 - fcppt::variant operations, exhaustive over complete function tables with call counters; the sections
// are in c04_variant_impl.hpp (shared with the heap-payload variant c04_heap_variant.cpp).
#include "c04_variant_impl.hpp"
